// Canonical text of values, errors, operators and trees (the format of DESIGN.md Appendix A).
use evalexpr::*;

type V = Value<DefaultNumericTypes>;
type E = EvalexprError<DefaultNumericTypes>;

pub fn hex<S: AsRef<str>>(s: S) -> String {
    let mut out = String::new();
    for b in s.as_ref().bytes() {
        out.push_str(&format!("{:02x}", b));
    }
    out
}

pub fn unhex(h: &str) -> String {
    let bytes: Vec<u8> = (0..h.len() / 2).map(|i| u8::from_str_radix(&h[2 * i..2 * i + 2], 16).unwrap()).collect();
    String::from_utf8(bytes).expect("utf8")
}

pub fn float_bits(f: f64) -> String {
    if f.is_nan() {
        "7ff8000000000000".to_string()
    } else {
        format!("{:016x}", f.to_bits())
    }
}

pub fn value_text(v: &V) -> String {
    match v {
        Value::String(s) => format!("S{}", hex(s)),
        Value::Float(f) => format!("F{}", float_bits(*f)),
        Value::Int(i) => format!("I{}", i),
        Value::Boolean(b) => format!("B{}", *b as u8),
        Value::Tuple(t) => format!("T({})", t.iter().map(value_text).collect::<Vec<_>>().join(",")),
        Value::Empty => "E".to_string(),
    }
}

// recursive-descent parser of the value syntax
pub fn parse_value(s: &str) -> V {
    let (v, rest) = parse_value_at(s);
    assert!(rest.is_empty(), "trailing value text: {}", rest);
    v
}

fn parse_value_at(s: &str) -> (V, &str) {
    let c = s.as_bytes()[0] as char;
    let body = &s[1..];
    let end_scalar = |b: &str| b.find(|ch| ch == ',' || ch == ')').unwrap_or(b.len());
    match c {
        'I' => {
            let e = end_scalar(body);
            (Value::Int(body[..e].parse().unwrap()), &body[e..])
        },
        'F' => {
            let e = end_scalar(body);
            (Value::Float(f64::from_bits(u64::from_str_radix(&body[..e], 16).unwrap())), &body[e..])
        },
        'S' => {
            let e = end_scalar(body);
            (Value::String(unhex(&body[..e])), &body[e..])
        },
        'B' => (Value::Boolean(&body[..1] == "1"), &body[1..]),
        'E' => (Value::Empty, body),
        'T' => {
            assert!(body.starts_with('('));
            let mut rest = &body[1..];
            let mut items = vec![];
            if let Some(r) = rest.strip_prefix(')') {
                return (Value::Tuple(items), r);
            }
            loop {
                let (v, r) = parse_value_at(rest);
                items.push(v);
                if let Some(r2) = r.strip_prefix(',') {
                    rest = r2;
                } else if let Some(r2) = r.strip_prefix(')') {
                    return (Value::Tuple(items), r2);
                } else {
                    panic!("bad tuple text");
                }
            }
        },
        _ => panic!("bad value text {}", s),
    }
}

fn type_text(t: &ValueType) -> &'static str {
    match t {
        ValueType::String => "String",
        ValueType::Float => "Float",
        ValueType::Int => "Int",
        ValueType::Boolean => "Boolean",
        ValueType::Tuple => "Tuple",
        ValueType::Empty => "Empty",
    }
}

pub fn op_text(o: &Operator<DefaultNumericTypes>) -> String {
    match o {
        Operator::Const { value } => format!("Const:{}", value_text(value)),
        Operator::VariableIdentifierWrite { identifier } => format!("Write:{}", hex(identifier)),
        Operator::VariableIdentifierRead { identifier } => format!("Read:{}", hex(identifier)),
        Operator::FunctionIdentifier { identifier } => format!("Fn:{}", hex(identifier)),
        other => format!("{:?}", other),
    }
}

pub fn tree_text(n: &Node<DefaultNumericTypes>) -> String {
    let mut s = format!("({}", op_text(n.operator()));
    for c in n.children() {
        s.push(' ');
        s.push_str(&tree_text(c));
    }
    s.push(')');
    s
}

fn ptoken_text(p: &PartialToken<DefaultNumericTypes>) -> String {
    #[cfg(feature = "hooks")]
    {
        evalexpr::verif::partial_token_view(p)
    }
    #[cfg(not(feature = "hooks"))]
    {
        format!("{}", p)
    }
}

pub fn error_text(e: &E) -> String {
    use EvalexprError::*;
    match e {
        WrongOperatorArgumentAmount { expected, actual } => format!("WrongOperatorArgumentAmount({},{})", expected, actual),
        WrongFunctionArgumentAmount { expected, actual } => {
            let hi = if *expected.end() == usize::MAX { "MAX".to_string() } else { expected.end().to_string() };
            format!("WrongFunctionArgumentAmount({},{},{})", expected.start(), hi, actual)
        },
        ExpectedString { actual } => format!("ExpectedString({})", value_text(actual)),
        ExpectedInt { actual } => format!("ExpectedInt({})", value_text(actual)),
        ExpectedFloat { actual } => format!("ExpectedFloat({})", value_text(actual)),
        ExpectedNumber { actual } => format!("ExpectedNumber({})", value_text(actual)),
        ExpectedNumberOrString { actual } => format!("ExpectedNumberOrString({})", value_text(actual)),
        ExpectedBoolean { actual } => format!("ExpectedBoolean({})", value_text(actual)),
        ExpectedTuple { actual } => format!("ExpectedTuple({})", value_text(actual)),
        ExpectedFixedLengthTuple { expected_length, actual } => {
            format!("ExpectedFixedLengthTuple({},{})", expected_length, value_text(actual))
        },
        ExpectedRangedLengthTuple { expected_length, actual } => {
            format!("ExpectedRangedLengthTuple({},{},{})", expected_length.start(), expected_length.end(), value_text(actual))
        },
        ExpectedEmpty { actual } => format!("ExpectedEmpty({})", value_text(actual)),
        AppendedToLeafNode => "AppendedToLeafNode".into(),
        PrecedenceViolation => "PrecedenceViolation".into(),
        VariableIdentifierNotFound(s) => format!("VariableIdentifierNotFound({})", hex(s)),
        FunctionIdentifierNotFound(s) => format!("FunctionIdentifierNotFound({})", hex(s)),
        TypeError { expected, actual } => format!(
            "TypeError([{}],{})",
            expected.iter().map(type_text).collect::<Vec<_>>().join(" "),
            value_text(actual)
        ),
        WrongTypeCombination { operator, actual } => format!(
            "WrongTypeCombination({},[{}])",
            op_text(operator),
            actual.iter().map(type_text).collect::<Vec<_>>().join(" ")
        ),
        UnmatchedLBrace => "UnmatchedLBrace".into(),
        UnmatchedRBrace => "UnmatchedRBrace".into(),
        UnmatchedDoubleQuote => "UnmatchedDoubleQuote".into(),
        MissingOperatorOutsideOfBrace => "MissingOperatorOutsideOfBrace".into(),
        UnmatchedPartialToken { first, second } => format!(
            "UnmatchedPartialToken({},{})",
            ptoken_text(first),
            second.as_ref().map(ptoken_text).unwrap_or_else(|| "None".into())
        ),
        AdditionError { augend, addend } => format!("AdditionError({},{})", value_text(augend), value_text(addend)),
        SubtractionError { minuend, subtrahend } => {
            format!("SubtractionError({},{})", value_text(minuend), value_text(subtrahend))
        },
        NegationError { argument } => format!("NegationError({})", value_text(argument)),
        MultiplicationError { multiplicand, multiplier } => {
            format!("MultiplicationError({},{})", value_text(multiplicand), value_text(multiplier))
        },
        DivisionError { dividend, divisor } => format!("DivisionError({},{})", value_text(dividend), value_text(divisor)),
        ModulationError { dividend, divisor } => format!("ModulationError({},{})", value_text(dividend), value_text(divisor)),
        ContextNotMutable => "ContextNotMutable".into(),
        IllegalEscapeSequence(s) => format!("IllegalEscapeSequence({})", hex(s)),
        BuiltinFunctionsCannotBeEnabled => "BuiltinFunctionsCannotBeEnabled".into(),
        BuiltinFunctionsCannotBeDisabled => "BuiltinFunctionsCannotBeDisabled".into(),
        OutOfBoundsAccess => "OutOfBoundsAccess".into(),
        IntFromUsize { usize_int } => format!("IntFromUsize({})", usize_int),
        IntIntoUsize { int } => format!("IntIntoUsize({})", int),
        CustomMessage(s) => format!("CustomMessage({})", hex(s)),
        other => format!("Other({})", hex(format!("{:?}", other))),
    }
}

pub fn result_text(r: &Result<V, E>) -> String {
    match r {
        Ok(v) => format!("OK {}", value_text(v)),
        Err(e) => format!("ERR {}", error_text(e)),
    }
}

pub fn unit_text(r: &Result<(), E>) -> String {
    match r {
        Ok(()) => "OK".to_string(),
        Err(e) => format!("ERR {}", error_text(e)),
    }
}
