// Runs the real evalexpr library on case files and prints one canonical outcome line per case.
// Modes:  run <casefile>   |  dump   |  oracle   |  threads <casefile>
use evalexpr::*;
use std::cell::RefCell;
use std::collections::BTreeMap;
use std::io::{BufRead, Write};
use std::panic;
use std::sync::{Arc, Mutex};

mod canon;
mod dump;
mod oracle;
#[cfg(feature = "serde")]
mod serde_cases;
#[cfg(feature = "sendsync")]
mod send_sync;

use canon::*;

type Ctx = HashMapContext<DefaultNumericTypes>;
type V = Value<DefaultNumericTypes>;
type E = EvalexprError<DefaultNumericTypes>;

thread_local! {
    static PANIC_LOC: RefCell<Option<String>> = RefCell::new(None);
}

#[derive(Clone, Default)]
pub struct Recorder {
    log: Arc<Mutex<Vec<(String, V)>>>,
    probing: Arc<Mutex<(bool, bool)>>, // (probe mode, library function was invoked)
}

impl Recorder {
    fn record(&self, name: &str, arg: &V) {
        let mut p = self.probing.lock().unwrap();
        if p.0 {
            p.1 = true;
        } else {
            self.log.lock().unwrap().push((name.to_string(), arg.clone()));
        }
    }
}

// The fixed library of user functions; each records its call.
fn lib_function(name: String, spec: &str, rec: Recorder) -> Function<DefaultNumericTypes> {
    let (kind, payload) = match spec.split_once(':') {
        Some((k, p)) => (k.to_string(), p.to_string()),
        None => (spec.to_string(), String::new()),
    };
    match kind.as_str() {
        "id" => Function::new(move |a| {
            rec.record(&name, a);
            Ok(a.clone())
        }),
        "konst" => {
            let v = parse_value(&payload);
            Function::new(move |a| {
                rec.record(&name, a);
                Ok(v.clone())
            })
        },
        "fail" => {
            let msg = unhex(&payload);
            Function::new(move |a| {
                rec.record(&name, a);
                Err(EvalexprError::CustomMessage(msg.clone()))
            })
        },
        "fst" => Function::new(move |a| {
            rec.record(&name, a);
            let t = a.as_tuple()?;
            t.first().cloned().ok_or(EvalexprError::OutOfBoundsAccess)
        }),
        "swap" => Function::new(move |a| {
            rec.record(&name, a);
            let t = a.as_fixed_len_tuple(2)?;
            Ok(Value::Tuple(vec![t[1].clone(), t[0].clone()]))
        }),
        "notfound" => Function::new(move |a| {
            rec.record(&name, a);
            Err(EvalexprError::FunctionIdentifierNotFound(name.clone()))
        }),
        "inc" => Function::new(move |a| {
            rec.record(&name, a);
            match a {
                Value::Int(i) => i64::checked_add(*i, 1)
                    .map(Value::Int)
                    .ok_or(EvalexprError::CustomMessage("inc overflow".into())),
                _ => Err(EvalexprError::expected_int(a.clone())),
            }
        }),
        // the way a user function written with the typed accessors of Value answers
        "needfloat" => Function::new(move |a| {
            rec.record(&name, a);
            a.as_float().map(Value::Float)
        }),
        "neednumber" => Function::new(move |a| {
            rec.record(&name, a);
            a.as_number().map(|_| a.clone())
        }),
        other => panic!("unknown library function {}", other),
    }
}

// A user-defined context without variable storage: reads delegate to an inner map,
// set_value is the trait default.
pub struct NoStore(pub Ctx);
impl Context for NoStore {
    type NumericTypes = DefaultNumericTypes;
    fn get_value(&self, identifier: &str) -> Option<&V> {
        self.0.get_value(identifier)
    }
    fn call_function(&self, identifier: &str, argument: &V) -> EvalexprResult<V> {
        self.0.call_function(identifier, argument)
    }
    fn are_builtin_functions_disabled(&self) -> bool {
        self.0.are_builtin_functions_disabled()
    }
    fn set_builtin_functions_disabled(&mut self, disabled: bool) -> EvalexprResult<()> {
        self.0.set_builtin_functions_disabled(disabled)
    }
}
impl ContextWithMutableVariables for NoStore {}

enum AnyCtx {
    H(Ctx),
    E(EmptyContext<DefaultNumericTypes>),
    EB(EmptyContextWithBuiltinFunctions<DefaultNumericTypes>),
    N(NoStore),
}

fn typed<T, F: Fn(T) -> V>(r: Result<T, E>, f: F) -> Result<V, E> {
    r.map(f)
}

macro_rules! entries_ro {
    ($ctx:expr, $lvl:expr, $ty:expr, $src:expr, $node:expr) => {{
        let c = $ctx;
        match ($lvl, $ty) {
            ('s', 'v') => eval_with_context($src, c),
            ('s', 's') => typed(eval_string_with_context($src, c), Value::String),
            ('s', 'i') => typed(eval_int_with_context($src, c), Value::Int),
            ('s', 'f') => typed(eval_float_with_context($src, c), Value::Float),
            ('s', 'n') => typed(eval_number_with_context($src, c), Value::Float),
            ('s', 'b') => typed(eval_boolean_with_context($src, c), Value::Boolean),
            ('s', 't') => typed(eval_tuple_with_context($src, c), Value::Tuple),
            ('s', 'e') => typed(eval_empty_with_context($src, c), |_| Value::Empty),
            ('n', t) => match $node {
                Err(e) => Err(e),
                Ok(n) => match t {
                    'v' => n.eval_with_context(c),
                    's' => typed(n.eval_string_with_context(c), Value::String),
                    'i' => typed(n.eval_int_with_context(c), Value::Int),
                    'f' => typed(n.eval_float_with_context(c), Value::Float),
                    'n' => typed(n.eval_number_with_context(c), Value::Float),
                    'b' => typed(n.eval_boolean_with_context(c), Value::Boolean),
                    't' => typed(n.eval_tuple_with_context(c), Value::Tuple),
                    'e' => typed(n.eval_empty_with_context(c), |_| Value::Empty),
                    _ => panic!("bad entry type"),
                },
            },
            _ => panic!("bad entry"),
        }
    }};
}

macro_rules! entries_mut {
    ($ctx:expr, $lvl:expr, $ty:expr, $src:expr, $node:expr) => {{
        let c = $ctx;
        match ($lvl, $ty) {
            ('s', 'v') => eval_with_context_mut($src, c),
            ('s', 's') => typed(eval_string_with_context_mut($src, c), Value::String),
            ('s', 'i') => typed(eval_int_with_context_mut($src, c), Value::Int),
            ('s', 'f') => typed(eval_float_with_context_mut($src, c), Value::Float),
            ('s', 'n') => typed(eval_number_with_context_mut($src, c), Value::Float),
            ('s', 'b') => typed(eval_boolean_with_context_mut($src, c), Value::Boolean),
            ('s', 't') => typed(eval_tuple_with_context_mut($src, c), Value::Tuple),
            ('s', 'e') => typed(eval_empty_with_context_mut($src, c), |_| Value::Empty),
            ('n', t) => match $node {
                Err(e) => Err(e),
                Ok(n) => match t {
                    'v' => n.eval_with_context_mut(c),
                    's' => typed(n.eval_string_with_context_mut(c), Value::String),
                    'i' => typed(n.eval_int_with_context_mut(c), Value::Int),
                    'f' => typed(n.eval_float_with_context_mut(c), Value::Float),
                    'n' => typed(n.eval_number_with_context_mut(c), Value::Float),
                    'b' => typed(n.eval_boolean_with_context_mut(c), Value::Boolean),
                    't' => typed(n.eval_tuple_with_context_mut(c), Value::Tuple),
                    'e' => typed(n.eval_empty_with_context_mut(c), |_| Value::Empty),
                    _ => panic!("bad entry type"),
                },
            },
            _ => panic!("bad entry"),
        }
    }};
}

fn entry_free(lvl: char, ty: char, src: &str) -> Result<V, E> {
    match (lvl, ty) {
        ('s', 'v') => eval(src),
        ('s', 's') => typed(eval_string(src), Value::String),
        ('s', 'i') => typed(eval_int(src), Value::Int),
        ('s', 'f') => typed(eval_float(src), Value::Float),
        ('s', 'n') => typed(eval_number(src), Value::Float),
        ('s', 'b') => typed(eval_boolean(src), Value::Boolean),
        ('s', 't') => typed(eval_tuple(src), Value::Tuple),
        ('s', 'e') => typed(eval_empty(src), |_| Value::Empty),
        ('n', t) => {
            let n = build_operator_tree::<DefaultNumericTypes>(src)?;
            match t {
                'v' => n.eval(),
                's' => typed(n.eval_string(), Value::String),
                'i' => typed(n.eval_int(), Value::Int),
                'f' => typed(n.eval_float(), Value::Float),
                'n' => typed(n.eval_number(), Value::Float),
                'b' => typed(n.eval_boolean(), Value::Boolean),
                't' => typed(n.eval_tuple(), Value::Tuple),
                'e' => typed(n.eval_empty(), |_| Value::Empty),
                _ => panic!("bad entry type"),
            }
        },
        _ => panic!("bad entry"),
    }
}

// exercise Display and Debug of a result under the panic guard (C01)
fn touch_fmt(r: &Result<V, E>) {
    let s = match r {
        Ok(v) => format!("{} {:?}", v, v),
        Err(e) => format!("{} {:?}", e, e),
    };
    std::hint::black_box(s);
}

// a tree that is either built for this step or the one stored by an earlier `pre` step
enum NodeRef<'a> {
    Own(Node<DefaultNumericTypes>),
    Ref(&'a Node<DefaultNumericTypes>),
}
impl<'a> std::ops::Deref for NodeRef<'a> {
    type Target = Node<DefaultNumericTypes>;
    fn deref(&self) -> &Self::Target {
        match self {
            NodeRef::Own(n) => n,
            NodeRef::Ref(n) => n,
        }
    }
}

struct Script {
    stored: Option<Result<Node<DefaultNumericTypes>, E>>,
    ctx: AnyCtx,
    rec: Recorder,
    fn_names: Vec<String>,
    var_names: Vec<String>,
    clones: Vec<(Ctx, String)>,
    flags: Vec<String>,
}

impl Script {
    fn new(kind: &str) -> Self {
        let ctx = match kind {
            "H" => AnyCtx::H(Ctx::new()),
            "E" => AnyCtx::E(EmptyContext::default()),
            "EB" => AnyCtx::EB(EmptyContextWithBuiltinFunctions::default()),
            "N" => AnyCtx::N(NoStore(Ctx::new())),
            k => panic!("bad ctx kind {}", k),
        };
        Script { stored: None, ctx, rec: Recorder::default(), fn_names: vec![], var_names: vec![], clones: vec![], flags: vec![] }
    }

    fn note_var(&mut self, n: &str) {
        if !self.var_names.iter().any(|x| x == n) {
            self.var_names.push(n.to_string());
        }
    }
    fn note_fn(&mut self, n: &str) {
        if !self.fn_names.iter().any(|x| x == n) {
            self.fn_names.push(n.to_string());
        }
    }

    fn eval_entry(&mut self, entry: &str, src: &str, on_clone: bool) -> String {
        self.eval_entry_with(entry, src, on_clone, false)
    }

    // use_stored: evaluate the tree precompiled by the last `pre` step (the SAME Node object every time)
    fn eval_entry_with(&mut self, entry: &str, src: &str, on_clone: bool, use_stored: bool) -> String {
        if entry == "build" {
            return match build_operator_tree::<DefaultNumericTypes>(src) {
                Ok(n) => {
                    std::hint::black_box(format!("{} {:?}", n, n));
                    format!("OK {}", tree_text(&n))
                },
                Err(e) => {
                    std::hint::black_box(format!("{} {:?}", e, e));
                    format!("ERR {}", error_text(&e))
                },
            };
        }
        let cs: Vec<char> = entry.chars().collect();
        let (lvl, mode, ty) = (cs[0], cs[1], cs[2]);
        let taken = if use_stored { self.stored.take() } else { None };
        let node = || -> Result<NodeRef, E> {
            match &taken {
                Some(Ok(n)) => Ok(NodeRef::Ref(n)),
                Some(Err(e)) => Err(e.clone()),
                None => build_operator_tree::<DefaultNumericTypes>(src).map(NodeRef::Own),
            }
        };
        let r: Result<V, E> = match mode {
            'f' => entry_free(lvl, ty, src),
            'r' => match &self.ctx {
                AnyCtx::H(c) => entries_ro!(c, lvl, ty, src, node()),
                AnyCtx::E(c) => entries_ro!(c, lvl, ty, src, node()),
                AnyCtx::EB(c) => entries_ro!(c, lvl, ty, src, node()),
                AnyCtx::N(c) => entries_ro!(c, lvl, ty, src, node()),
            },
            'm' => match &mut self.ctx {
                AnyCtx::H(c) => {
                    if on_clone {
                        let mut c2 = c.clone();
                        entries_mut!(&mut c2, lvl, ty, src, node())
                    } else {
                        entries_mut!(c, lvl, ty, src, node())
                    }
                },
                AnyCtx::N(c) => {
                    if on_clone {
                        let mut c2 = NoStore(c.0.clone());
                        entries_mut!(&mut c2, lvl, ty, src, node())
                    } else {
                        entries_mut!(c, lvl, ty, src, node())
                    }
                },
                _ => {
                    if use_stored {
                        self.stored = taken;
                    }
                    return "NA".to_string();
                },
            },
            _ => panic!("bad mode"),
        };
        if use_stored {
            self.stored = taken;
        }
        touch_fmt(&r);
        result_text(&r)
    }

    fn inner_map(&mut self) -> Option<&mut Ctx> {
        match &mut self.ctx {
            AnyCtx::H(c) => Some(c),
            AnyCtx::N(c) => Some(&mut c.0),
            _ => None,
        }
    }

    fn dump_ctx(&self) -> String {
        match &self.ctx {
            AnyCtx::H(c) => self.dump_map(c, c),
            AnyCtx::N(c) => self.dump_map(&c.0, c),
            AnyCtx::E(c) => format!("CTX{{;off={};fns=}}", c.are_builtin_functions_disabled() as u8),
            AnyCtx::EB(c) => format!("CTX{{;off={};fns=}}", c.are_builtin_functions_disabled() as u8),
        }
    }

    fn dump_map<C: Context<NumericTypes = DefaultNumericTypes>>(&self, m: &Ctx, view: &C) -> String {
        let mut vars: BTreeMap<String, V> = BTreeMap::new();
        let mut mismatch = false;
        for (k, v) in m.iter_variables() {
            if vars.insert(k, v).is_some() {
                mismatch = true;
            }
        }
        let mut names: Vec<String> = m.iter_variable_names().collect();
        names.sort();
        if names != vars.keys().cloned().collect::<Vec<_>>() {
            mismatch = true;
        }
        for (k, v) in &vars {
            match view.get_value(k) {
                Some(g) if value_text(g) == value_text(v) => {},
                _ => mismatch = true,
            }
        }
        for n in &self.var_names {
            if view.get_value(n).is_some() != vars.contains_key(n) {
                mismatch = true;
            }
        }
        let mut fns: Vec<String> = vec![];
        for f in &self.fn_names {
            {
                let mut p = self.rec.probing.lock().unwrap();
                *p = (true, false);
            }
            let _ = view.call_function(f, &Value::Empty);
            let mut p = self.rec.probing.lock().unwrap();
            if p.1 {
                fns.push(hex(f));
            }
            *p = (false, false);
        }
        fns.sort();
        let mut vs: Vec<(String, String)> = vars.iter().map(|(k, v)| (hex(k), value_text(v))).collect();
        vs.sort();
        let vtxt: Vec<String> = vs.into_iter().map(|(k, v)| format!("{}={}", k, v)).collect();
        format!(
            "CTX{{{};off={};fns={}}}{}",
            vtxt.join(","),
            view.are_builtin_functions_disabled() as u8,
            fns.join(","),
            if mismatch { " ITER-MISMATCH" } else { "" }
        )
    }

    fn step(&mut self, op: &str) -> String {
        let f: Vec<&str> = op.split(' ').collect();
        match f[0] {
            "set" => {
                let name = unhex(f[1]);
                self.note_var(&name);
                let v = parse_value(f[2]);
                let r = match &mut self.ctx {
                    AnyCtx::H(c) => c.set_value(name, v),
                    AnyCtx::N(c) => c.set_value(name, v),
                    _ => return "NA".into(),
                };
                unit_text(&r)
            },
            "init" => {
                let name = unhex(f[1]);
                self.note_var(&name);
                let v = parse_value(f[2]);
                match self.inner_map() {
                    Some(m) => unit_text(&m.set_value(name, v)),
                    None => "NA".into(),
                }
            },
            "setfn" => {
                let name = unhex(f[1]);
                self.note_fn(&name);
                let func = lib_function(name.clone(), f[2], self.rec.clone());
                match self.inner_map() {
                    Some(m) => unit_text(&m.set_function(name, func)),
                    None => "NA".into(),
                }
            },
            "off" => {
                let b = f[1] == "1";
                let r = match &mut self.ctx {
                    AnyCtx::H(c) => c.set_builtin_functions_disabled(b),
                    AnyCtx::E(c) => c.set_builtin_functions_disabled(b),
                    AnyCtx::EB(c) => c.set_builtin_functions_disabled(b),
                    AnyCtx::N(c) => c.set_builtin_functions_disabled(b),
                };
                unit_text(&r)
            },
            "clrv" => match self.inner_map() {
                Some(m) => {
                    m.clear_variables();
                    "OK".into()
                },
                None => "NA".into(),
            },
            "clrf" => match self.inner_map() {
                Some(m) => {
                    m.clear_functions();
                    "OK".into()
                },
                None => "NA".into(),
            },
            "clr" => match self.inner_map() {
                Some(m) => {
                    m.clear();
                    "OK".into()
                },
                None => "NA".into(),
            },
            "clone" => {
                let snapshot = self.dump_ctx();
                match self.inner_map() {
                    Some(m) => {
                        let c2 = m.clone();
                        std::hint::black_box(format!("{:?}", c2));
                        let old = std::mem::replace(m, c2);
                        self.clones.push((old, snapshot));
                        "OK".into()
                    },
                    None => "NA".into(),
                }
            },
            "ev" => {
                let src = unhex(f[2]);
                self.eval_entry(f[1], &src, false)
            },
            "evc" => {
                let src = unhex(f[2]);
                self.eval_entry(f[1], &src, true)
            },
            // precompile once, evaluate the stored tree later (several times, against whatever the context is then)
            "pre" => {
                let src = if f.len() > 1 { unhex(f[1]) } else { String::new() };
                let r = build_operator_tree::<DefaultNumericTypes>(&src);
                let out = match &r {
                    Ok(_) => "OK".to_string(),
                    Err(e) => format!("ERR {}", error_text(e)),
                };
                self.stored = Some(r);
                out
            },
            "evp" => self.eval_entry_with(&format!("n{}", f[1]), "", false, true),
            "evpc" => self.eval_entry_with(&format!("n{}", f[1]), "", true, true),
            "get" => {
                let name = unhex(f[1]);
                self.note_var(&name);
                let r = match &self.ctx {
                    AnyCtx::H(c) => c.get_value(&name).cloned(),
                    AnyCtx::E(c) => c.get_value(&name).cloned(),
                    AnyCtx::EB(c) => c.get_value(&name).cloned(),
                    AnyCtx::N(c) => c.get_value(&name).cloned(),
                };
                match r {
                    Some(v) => format!("SOME {}", value_text(&v)),
                    None => "NONE".into(),
                }
            },
            "call" => {
                let name = unhex(f[1]);
                let v = parse_value(f[2]);
                let r = match &self.ctx {
                    AnyCtx::H(c) => c.call_function(&name, &v),
                    AnyCtx::E(c) => c.call_function(&name, &v),
                    AnyCtx::EB(c) => c.call_function(&name, &v),
                    AnyCtx::N(c) => c.call_function(&name, &v),
                };
                result_text(&r)
            },
            "dump" => self.dump_ctx(),
            other => panic!("unknown op {}", other),
        }
    }

    fn finish(&mut self) -> String {
        // clones must be independent of what happened to the continuing context
        let clones = std::mem::take(&mut self.clones);
        let mut bad = false;
        for (old, snapshot) in clones {
            let now = match &self.ctx {
                AnyCtx::N(_) => {
                    let tmp = NoStore(old);
                    self.dump_map(&tmp.0, &tmp)
                },
                _ => self.dump_map(&old, &old),
            };
            if now != snapshot {
                bad = true;
            }
        }
        let log = self.rec.log.lock().unwrap();
        let l: Vec<String> = log.iter().map(|(n, v)| format!("{}({})", hex(n), value_text(v))).collect();
        format!(
            "{} LOG[{}]{}{}",
            self.dump_ctx(),
            l.join(","),
            if bad { " CLONE-MISMATCH" } else { "" },
            self.flags.join("")
        )
    }
}

fn run_script(kind: &str, ops: &str) -> String {
    let mut s = Script::new(kind);
    let mut outs = vec![];
    if !ops.is_empty() {
        for op in ops.split(';') {
            outs.push(s.step(op));
        }
    }
    format!("{} || {}", outs.join(" | "), s.finish())
}

fn run_iter(src: &str) -> String {
    match build_operator_tree::<DefaultNumericTypes>(src) {
        Err(e) => format!("ERR {}", error_text(&e)),
        Ok(mut n) => {
            let j = |v: Vec<String>| v.join(",");
            // on a copy of the tree as built (no mutable access before this one): rewrite the read variables through their
            // mutable iterator, then ask the immutable iterators: they list the names as they are at this moment
            let mid = {
                let mut fresh = n.clone();
                for s in fresh.iter_read_variable_identifiers_mut() {
                    s.insert(0, 'r');
                }
                format!(
                    "{};{};{};{};{}",
                    j(fresh.iter_identifiers().map(hex).collect()),
                    j(fresh.iter_variable_identifiers().map(hex).collect()),
                    j(fresh.iter_read_variable_identifiers().map(hex).collect()),
                    j(fresh.iter_write_variable_identifiers().map(hex).collect()),
                    j(fresh.iter_function_identifiers().map(hex).collect())
                )
            };
            let a = j(n.iter_identifiers().map(hex).collect());
            let b = j(n.iter_variable_identifiers().map(hex).collect());
            let c = j(n.iter_read_variable_identifiers().map(hex).collect());
            let d = j(n.iter_write_variable_identifiers().map(hex).collect());
            let e = j(n.iter_function_identifiers().map(hex).collect());
            let nodes = j(n.iter().map(|x| op_text(x.operator())).collect());
            // the same traversal through other Iterator methods, after consuming k items with next()
            let mut others = vec![];
            for k in 0..3usize {
                let mut it = n.iter();
                let mut seen = vec![];
                for _ in 0..k {
                    if let Some(x) = it.next() {
                        seen.push(op_text(x.operator()));
                    }
                }
                let mut rest = vec![];
                it.for_each(|x| rest.push(op_text(x.operator())));
                seen.extend(rest);
                let mut it2 = n.iter();
                for _ in 0..k {
                    it2.next();
                }
                let cnt = it2.count();
                let mut it3 = n.iter();
                for _ in 0..k {
                    it3.next();
                }
                let last = it3.last().map(|x| op_text(x.operator())).unwrap_or_else(|| "-".into());
                let mut it4 = n.iter();
                for _ in 0..k {
                    it4.next();
                }
                let folded = it4.fold(String::new(), |acc, x| acc + &op_text(x.operator()) + ";");
                others.push(format!("k{}:{}|{}|{}|{}", k, seen.join(","), cnt, last, folded));
            }
            let others = others.join(" ");
            // more adaptors of std::iter::Iterator on the immutable and the mutable iterators
            let dash = |o: Option<String>| o.unwrap_or_else(|| "-".into());
            let mut ad = vec![];
            ad.push(format!(
                "nth:{}",
                [0usize, 1, 2, 5].iter().map(|k| dash(n.iter().nth(*k).map(|x| op_text(x.operator())))).collect::<Vec<_>>().join(",")
            ));
            ad.push(format!("skipcnt:{}", [0usize, 1, 3].iter().map(|k| n.iter().skip(*k).count().to_string()).collect::<Vec<_>>().join(",")));
            ad.push(format!("step2:{}", j(n.iter().step_by(2).map(|x| op_text(x.operator())).collect())));
            ad.push(format!("idnth1:{}", dash(n.iter_identifiers().nth(1).map(hex))));
            ad.push(format!("idskip1:{}", j(n.iter_identifiers().skip(1).map(hex).collect())));
            ad.push(format!("idlast:{}", dash(n.iter_identifiers().last().map(hex))));
            ad.push(format!("idcnt:{}", n.iter_variable_identifiers().count() + 100 * n.iter_function_identifiers().count()));
            let mut mfe = vec![];
            n.iter_operators_mut().for_each(|o| mfe.push(op_text(o)));
            ad.push(format!("mfe:{}", mfe.join(",")));
            ad.push(format!("mcnt:{}", n.iter_operators_mut().count()));
            ad.push(format!("mlast:{}", dash(n.iter_operators_mut().last().map(|o| op_text(o)))));
            ad.push(format!("mfold:{}", n.iter_operators_mut().fold(String::new(), |acc, o| acc + &op_text(o) + ";")));
            ad.push(format!("mnth1:{}", dash(n.iter_operators_mut().nth(1).map(|o| op_text(o)))));
            ad.push(format!("mskip2:{}", j(n.iter_operators_mut().skip(2).map(|o| op_text(o)).collect())));
            let mut midfe = vec![];
            n.iter_identifiers_mut().for_each(|s| midfe.push(hex(s)));
            ad.push(format!("midfe:{}", midfe.join(",")));
            ad.push(format!("midcnt:{}", n.iter_variable_identifiers_mut().count() + 100 * n.iter_function_identifiers_mut().count()));
            ad.push(format!("midlast:{}", dash(n.iter_identifiers_mut().last().map(|s| hex(s)))));
            ad.push(format!("midnth1:{}", dash(n.iter_read_variable_identifiers_mut().nth(1).map(|s| hex(s)))));
            let adapt = ad.join("|");
            // context-free evaluation: an unknown identifier it reports must be one the iterators list
            let free = result_text(&n.eval());
            let ops = j(n.iter_operators_mut().map(|o| op_text(o)).collect());
            let am = j(n.iter_identifiers_mut().map(|s| hex(s)).collect());
            let bm = j(n.iter_variable_identifiers_mut().map(|s| hex(s)).collect());
            let cm = j(n.iter_read_variable_identifiers_mut().map(|s| hex(s)).collect());
            let dm = j(n.iter_write_variable_identifiers_mut().map(|s| hex(s)).collect());
            let em = j(n.iter_function_identifiers_mut().map(|s| hex(s)).collect());
            // rewrite through each mutable iterator: prefix class letter; the tree afterwards shows what was touched
            for s in n.iter_read_variable_identifiers_mut() {
                s.insert(0, 'r');
            }
            for s in n.iter_write_variable_identifiers_mut() {
                s.insert(0, 'w');
            }
            n.iter_function_identifiers_mut().fold((), |_, s| s.insert(0, 'f'));
            n.iter_variable_identifiers_mut().for_each(|s| s.insert(0, 'v'));
            for s in n.iter_identifiers_mut() {
                s.insert(0, 'i');
            }
            // the immutable iterators once more, on the rewritten tree: they list the names as they are now
            let after = format!(
                "{};{};{};{};{}",
                j(n.iter_identifiers().map(hex).collect()),
                j(n.iter_variable_identifiers().map(hex).collect()),
                j(n.iter_read_variable_identifiers().map(hex).collect()),
                j(n.iter_write_variable_identifiers().map(hex).collect()),
                j(n.iter_function_identifiers().map(hex).collect())
            );
            let free2 = result_text(&n.eval());
            format!(
                "OK ids[{}] vars[{}] reads[{}] writes[{}] fns[{}] nodes[{}] ops[{}] idsm[{}] varsm[{}] readsm[{}] writesm[{}] fnsm[{}] via<{}> adapt<{}> free<{}> mid<{}> after<{}> free2<{}> renamed{}",
                a, b, c, d, e, nodes, ops, am, bm, cm, dm, em, others, adapt, free, mid, after, free2, tree_text(&n)
            )
        },
    }
}

// ---- hand-built trees: Node has no public constructor, but operator_mut()/children_mut() reach every shape ----
fn parse_tree_text(s: &str) -> (Node<DefaultNumericTypes>, &str) {
    assert!(s.starts_with('('), "tree text: {}", s);
    let s = &s[1..];
    // operator: up to ' ' or ')' at depth 0 (values may contain parentheses)
    let mut depth = 0i32;
    let mut end = s.len();
    for (i, ch) in s.char_indices() {
        match ch {
            '(' => depth += 1,
            ')' if depth > 0 => depth -= 1,
            ')' | ' ' if depth == 0 => {
                end = i;
                break;
            },
            _ => {},
        }
    }
    let opname = &s[..end];
    let op: Operator<DefaultNumericTypes> = if let Some(v) = opname.strip_prefix("Const:") {
        Operator::Const { value: parse_value(v) }
    } else if let Some(h) = opname.strip_prefix("Write:") {
        Operator::VariableIdentifierWrite { identifier: unhex(h) }
    } else if let Some(h) = opname.strip_prefix("Read:") {
        Operator::VariableIdentifierRead { identifier: unhex(h) }
    } else if let Some(h) = opname.strip_prefix("Fn:") {
        Operator::FunctionIdentifier { identifier: unhex(h) }
    } else {
        use Operator::*;
        match opname {
            "RootNode" => RootNode, "Add" => Add, "Sub" => Sub, "Neg" => Neg, "Mul" => Mul, "Div" => Div, "Mod" => Mod,
            "Exp" => Exp, "Eq" => Eq, "Neq" => Neq, "Gt" => Gt, "Lt" => Lt, "Geq" => Geq, "Leq" => Leq, "And" => And,
            "Or" => Or, "Not" => Not, "Assign" => Assign, "AddAssign" => AddAssign, "SubAssign" => SubAssign,
            "MulAssign" => MulAssign, "DivAssign" => DivAssign, "ModAssign" => ModAssign, "ExpAssign" => ExpAssign,
            "AndAssign" => AndAssign, "OrAssign" => OrAssign, "Tuple" => Tuple, "Chain" => Chain,
            other => panic!("operator {}", other),
        }
    };
    let mut rest = &s[end..];
    let mut children = vec![];
    loop {
        if let Some(r) = rest.strip_prefix(')') {
            rest = r;
            break;
        }
        let r = rest.strip_prefix(' ').expect("space");
        let (c, r2) = parse_tree_text(r);
        children.push(c);
        rest = r2;
    }
    let mut node = build_operator_tree::<DefaultNumericTypes>("").unwrap();
    *node.operator_mut() = op;
    *node.children_mut() = children;
    (node, rest)
}

fn run_hand(text: &str) -> String {
    let (mut n, rest) = parse_tree_text(text);
    assert!(rest.is_empty());
    let rec = Recorder::default();
    let mut ctx = Ctx::new();
    ctx.set_value("a".into(), Value::Int(3)).unwrap();
    ctx.set_value("b".into(), Value::Float(2.5)).unwrap();
    ctx.set_value("c".into(), Value::String("xy".into())).unwrap();
    ctx.set_value("x".into(), Value::Boolean(true)).unwrap();
    ctx.set_value("y".into(), Value::Tuple(vec![Value::Int(1), Value::Int(2)])).unwrap();
    ctx.set_function("f".into(), lib_function("f".into(), "id", rec.clone())).unwrap();
    ctx.set_function("h".into(), lib_function("h".into(), "fail:626f6f6d", rec.clone())).unwrap();
    let same = tree_text(&n) == text;
    std::hint::black_box(format!("{} {:?}", n, n));
    let ro = n.eval_with_context(&ctx);
    touch_fmt(&ro);
    let ro_log: Vec<String> = rec.log.lock().unwrap().drain(..).map(|(f, v)| format!("{}({})", hex(f), value_text(&v))).collect();
    let mut c2 = ctx.clone();
    let mt = n.eval_with_context_mut(&mut c2);
    touch_fmt(&mt);
    let mut vars: Vec<(String, String)> = c2.iter_variables().map(|(k, v)| (hex(k), value_text(&v))).collect();
    vars.sort();
    let mt_log: Vec<String> = rec.log.lock().unwrap().drain(..).map(|(f, v)| format!("{}({})", hex(f), value_text(&v))).collect();
    let nodes: Vec<String> = n.iter().map(|x| op_text(x.operator())).collect();
    let ids: Vec<String> = n.iter_identifiers().map(hex).collect();
    let vars_i: Vec<String> = n.iter_variable_identifiers().map(hex).collect();
    let ops: Vec<String> = n.iter_operators_mut().map(|o| op_text(o)).collect();
    let show = hex(format!("{}", n));
    // all 24 tree-level entry points on this hand-built tree (context-free, shared, mutable on a fresh clone each)
    let mut views: Vec<String> = vec![];
    for t in ['v', 's', 'i', 'f', 'n', 'b', 't', 'e'] {
        let r: Result<V, E> = match t {
            'v' => n.eval(),
            's' => typed(n.eval_string(), Value::String),
            'i' => typed(n.eval_int(), Value::Int),
            'f' => typed(n.eval_float(), Value::Float),
            'n' => typed(n.eval_number(), Value::Float),
            'b' => typed(n.eval_boolean(), Value::Boolean),
            't' => typed(n.eval_tuple(), Value::Tuple),
            _ => typed(n.eval_empty(), |_| Value::Empty),
        };
        touch_fmt(&r);
        views.push(result_text(&r));
    }
    for t in ['v', 's', 'i', 'f', 'n', 'b', 't', 'e'] {
        let r: Result<V, E> = entries_ro!(&ctx, 'n', t, "", Ok::<&Node<DefaultNumericTypes>, E>(&n));
        touch_fmt(&r);
        views.push(result_text(&r));
    }
    for t in ['v', 's', 'i', 'f', 'n', 'b', 't', 'e'] {
        let mut c3 = ctx.clone();
        let r: Result<V, E> = entries_mut!(&mut c3, 'n', t, "", Ok::<&Node<DefaultNumericTypes>, E>(&n));
        touch_fmt(&r);
        views.push(result_text(&r));
    }
    format!(
        "same={} ro={} rolog[{}] mut={} vars{{{}}} mutlog[{}] nodes[{}] ops[{}] ids[{}] vids[{}] show={} views[{}]",
        same as u8, result_text(&ro), ro_log.join(","), result_text(&mt),
        vars.iter().map(|(k, v)| format!("{}={}", k, v)).collect::<Vec<_>>().join(","),
        mt_log.join(","), nodes.join(","), ops.join(","), ids.join(","), vars_i.join(","), show, views.join("|")
    )
}

// ---- context_map! / math_consts_context! (fixed invocations; the macros expand to set_value / set_function chains) ----
fn macro_dump(r: Result<Ctx, E>) -> String {
    match r {
        Err(e) => format!("ERR {}", error_text(&e)),
        Ok(c) => {
            let mut vars: Vec<(String, String)> = c.iter_variables().map(|(k, v)| (hex(k), value_text(&v))).collect();
            vars.sort();
            let f = match c.call_function("f", &Value::Int(1)) {
                Ok(v) => value_text(&v),
                Err(e) => error_text(&e),
            };
            format!("OK CTX{{{};off={}}} f(1)={}", vars.iter().map(|(k, v)| format!("{}={}", k, v)).collect::<Vec<_>>().join(","), c.are_builtin_functions_disabled() as u8, f)
        },
    }
}

fn run_macro(k: &str) -> String {
    match k {
        "0" => macro_dump(context_map! {}),
        "1" => macro_dump(context_map! { "a" => int 1, "b" => float 2.5, "c" => Value::from("s"), "f" => Function::new(|a| Ok(a.clone())) }),
        "2" => macro_dump(context_map! { "a" => int 1, "a" => float 2.5, "b" => int 3 }),
        "3" => macro_dump(context_map! { "a" => int 1, "a" => int 2, "t" => Value::Tuple(vec![]), "t" => Value::Tuple(vec![Value::Empty]), }),
        "4" => {
            let r: Result<Ctx, E> = math_consts_context!();
            macro_dump(r)
        },
        "5" => {
            let r: Result<Ctx, E> = math_consts_context!(PI, E);
            macro_dump(r)
        },
        "6" => {
            let mut c = Ctx::new();
            let r = context_map! { (&mut c) "x" => int 1, "x" => Value::from(true), "y" => int 2 };
            format!("{} {}", unit_text(&r), macro_dump(Ok(c)))
        },
        _ => panic!("macro case"),
    }
}

// ---- the public accessors and conversions of Value ----
fn run_val(text: &str) -> String {
    use std::convert::TryFrom;
    let v = parse_value(text);
    let r = |x: Result<V, E>| result_text(&x);
    let u = |x: Result<(), E>| unit_text(&x);
    let parts = vec![
        format!("is={}{}{}{}{}{}{}", v.is_string() as u8, v.is_int() as u8, v.is_float() as u8, v.is_number() as u8, v.is_boolean() as u8, v.is_tuple() as u8, v.is_empty() as u8),
        format!("str={}", r(v.as_string().map(Value::String))),
        format!("int={}", r(v.as_int().map(Value::Int))),
        format!("float={}", r(v.as_float().map(Value::Float))),
        format!("num={}", r(v.as_number().map(Value::Float))),
        format!("bool={}", r(v.as_boolean().map(Value::Boolean))),
        format!("tup={}", r(v.as_tuple().map(Value::Tuple))),
        format!("fix0={}", r(v.as_fixed_len_tuple(0).map(Value::Tuple))),
        format!("fix2={}", r(v.as_fixed_len_tuple(2).map(Value::Tuple))),
        format!("rng13={}", r(v.as_ranged_len_tuple(1..=3).map(Value::Tuple))),
        format!("rng00={}", r(v.as_ranged_len_tuple(0..=0).map(Value::Tuple))),
        format!("rng31={}", r(v.as_ranged_len_tuple(3..=1).map(Value::Tuple))),
        format!("rngmax={}", r(v.as_ranged_len_tuple(0..=usize::MAX).map(Value::Tuple))),
        format!("rng25={}", r(v.as_ranged_len_tuple(2..=5).map(Value::Tuple))),
        format!("fix1={}", r(v.as_fixed_len_tuple(1).map(Value::Tuple))),
        format!("fix3={}", r(v.as_fixed_len_tuple(3).map(Value::Tuple))),
        format!("fixmax={}", r(v.as_fixed_len_tuple(usize::MAX).map(Value::Tuple))),
        format!("empty={}", u(v.as_empty())),
        format!("strfrom={}", hex(v.str_from())),
        format!("tfs={}", r(String::try_from(v.clone()).map(Value::String))),
        format!("tfb={}", r(bool::try_from(v.clone()).map(Value::Boolean))),
        format!("tft={}", r(TupleType::try_from(v.clone()).map(Value::Tuple))),
        format!("tfe={}", u(<()>::try_from(v.clone()))),
        format!("type={:?}", ValueType::from(&v)),
        format!("eq={}", (v == v.clone()) as u8),
    ];
    parts.join(" ")
}


// ---- ERRSHOW: every error variant the public API can construct, formatted (the same list, in the same order, is in driver.ml) ----
fn errshow_list() -> Vec<E> {
    use EvalexprError::*;
    let vals: Vec<V> = vec![
        Value::Int(-3),
        Value::Float(2.5),
        Value::String("a\"b".into()),
        Value::Boolean(true),
        Value::Empty,
        Value::Tuple(vec![Value::Int(1), Value::Tuple(vec![]), Value::String("x".into())]),
        Value::Float(f64::NAN),
        Value::Float(-0.0),
        Value::Int(i64::MIN),
    ];
    let strs: Vec<String> = vec!["".into(), "x".into(), "a\"b\\c".into(), "ä\n\t".into(), "\u{7f}\u{1}é".into()];
    let mut out: Vec<E> = vec![];
    for (e, a) in [(2usize, 0usize), (0, 1), (1, 2), (usize::MAX, 3)] {
        out.push(WrongOperatorArgumentAmount { expected: e, actual: a });
    }
    for (lo, hi, a) in [(1usize, 1usize, 0usize), (2, 3, 1), (0, usize::MAX, 5), (1, usize::MAX, 0), (3, 1, 2)] {
        out.push(WrongFunctionArgumentAmount { expected: lo..=hi, actual: a });
    }
    for v in &vals {
        out.push(ExpectedString { actual: v.clone() });
        out.push(ExpectedInt { actual: v.clone() });
        out.push(ExpectedFloat { actual: v.clone() });
        out.push(ExpectedNumber { actual: v.clone() });
        out.push(ExpectedNumberOrString { actual: v.clone() });
        out.push(ExpectedBoolean { actual: v.clone() });
        out.push(ExpectedTuple { actual: v.clone() });
        out.push(ExpectedEmpty { actual: v.clone() });
        out.push(ExpectedFixedLengthTuple { expected_length: 2, actual: v.clone() });
        out.push(ExpectedFixedLengthTuple { expected_length: usize::MAX, actual: v.clone() });
        out.push(ExpectedRangedLengthTuple { expected_length: 1..=3, actual: v.clone() });
        out.push(NegationError { argument: v.clone() });
    }
    out.push(AppendedToLeafNode);
    out.push(PrecedenceViolation);
    for s in &strs {
        out.push(VariableIdentifierNotFound(s.clone()));
        out.push(FunctionIdentifierNotFound(s.clone()));
        out.push(IllegalEscapeSequence(s.clone()));
        out.push(CustomMessage(s.clone()));
    }
    for v in &vals[..3] {
        out.push(TypeError { expected: vec![ValueType::String, ValueType::Int], actual: v.clone() });
    }
    out.push(TypeError { expected: vec![], actual: Value::Empty });
    out.push(TypeError {
        expected: vec![ValueType::String, ValueType::Float, ValueType::Int, ValueType::Boolean, ValueType::Tuple, ValueType::Empty],
        actual: Value::Int(0),
    });
    out.push(WrongTypeCombination { operator: Operator::Add, actual: vec![ValueType::Int, ValueType::String] });
    out.push(WrongTypeCombination { operator: Operator::Lt, actual: vec![ValueType::Boolean, ValueType::Tuple] });
    out.push(WrongTypeCombination { operator: Operator::Mod, actual: vec![] });
    out.push(WrongTypeCombination { operator: Operator::Exp, actual: vec![ValueType::Empty] });
    out.push(WrongTypeCombination { operator: Operator::Neg, actual: vec![ValueType::Float, ValueType::Float, ValueType::Float] });
    out.push(UnmatchedLBrace);
    out.push(UnmatchedRBrace);
    out.push(UnmatchedDoubleQuote);
    out.push(MissingOperatorOutsideOfBrace);
    out.push(ContextNotMutable);
    out.push(BuiltinFunctionsCannotBeEnabled);
    out.push(BuiltinFunctionsCannotBeDisabled);
    out.push(OutOfBoundsAccess);
    for (a, b) in [(0usize, 1usize), (8, 0), (6, 7)] {
        out.push(AdditionError { augend: vals[a].clone(), addend: vals[b].clone() });
        out.push(SubtractionError { minuend: vals[a].clone(), subtrahend: vals[b].clone() });
        out.push(MultiplicationError { multiplicand: vals[a].clone(), multiplier: vals[b].clone() });
        out.push(DivisionError { dividend: vals[a].clone(), divisor: vals[b].clone() });
        out.push(ModulationError { dividend: vals[a].clone(), divisor: vals[b].clone() });
    }
    for n in [0usize, 5, usize::MAX] {
        out.push(IntFromUsize { usize_int: n });
    }
    for i in [-1i64, i64::MIN, 7] {
        out.push(IntIntoUsize { int: i });
    }
    out
}

fn run_errshow(k: &str) -> String {
    let k: usize = k.parse().unwrap();
    let l = errshow_list();
    match l.get(k) {
        None => "NA".into(),
        Some(e) => {
            std::hint::black_box(format!("{:?}", e));
            std::hint::black_box(e.clone());
            format!("E:{}", hex(format!("{}", e)))
        },
    }
}

// Display of the tree and Display/Debug of the evaluation result, as hex (the formatting code is modelled too)
fn run_show(src: &str) -> String {
    let mut ctx = Ctx::new();
    ctx.set_value("a".into(), Value::Int(3)).unwrap();
    ctx.set_value("b".into(), Value::Float(2.5)).unwrap();
    ctx.set_value("c".into(), Value::String("x\"y".into())).unwrap();
    ctx.set_value("y".into(), Value::Tuple(vec![Value::Int(1), Value::Float(1e300), Value::String("ä\n".into()), Value::Empty, Value::Boolean(true)])).unwrap();
    let tree = match build_operator_tree::<DefaultNumericTypes>(src) {
        Ok(n) => format!("T:{}", hex(format!("{}", n))),
        Err(e) => format!("TE:{}", hex(format!("{}", e))),
    };
    let res = match eval_with_context_mut(src, &mut ctx) {
        Ok(v) => format!("V:{} D:{}", hex(format!("{}", v)), hex(format!("{:?}", v))),
        Err(e) => format!("E:{}", hex(format!("{}", e))),
    };
    format!("{} {}", tree, res)
}

fn run_case(line: &str) -> String {
    let f: Vec<&str> = line.split('\t').collect();
    let id = f[0];
    let body = match f[1] {
        "ERRSHOW" => run_errshow(f[2]),
        "TOK" => {
            #[cfg(feature = "hooks")]
            {
                match evalexpr::verif::tokenize(&unhex(f[2])) {
                    Ok(ts) => format!("OK [{}]", ts.join(",")),
                    Err(e) => format!("ERR {}", error_text(&e)),
                }
            }
            #[cfg(not(feature = "hooks"))]
            {
                "NA".to_string()
            }
        },
        "TREE" => match build_operator_tree::<DefaultNumericTypes>(&unhex(f[2])) {
            Ok(n) => {
                std::hint::black_box(format!("{} {:?}", n, n));
                format!("OK {}", tree_text(&n))
            },
            Err(e) => {
                std::hint::black_box(format!("{} {:?}", e, e));
                format!("ERR {}", error_text(&e))
            },
        },
        "SCRIPT" => run_script(f[2], f.get(3).copied().unwrap_or("")),
        "ITER" => run_iter(&unhex(f[2])),
        "SHOW" => run_show(&unhex(f.get(2).copied().unwrap_or(""))),
        "HAND" => run_hand(f[2]),
        "MACRO" => run_macro(f[2]),
        "VAL" => run_val(f[2]),
        #[cfg(feature = "serde")]
        "SERDEN" => serde_cases::node_case(&unhex(f[2])),
        // several strings deserialized one after the other in the same thread: each on its own
        #[cfg(feature = "serde")]
        "SERDEN2" => f[2..].iter().map(|h| serde_cases::node_case(&unhex(h))).collect::<Vec<_>>().join(" ;; "),
        // several contexts round-tripped one after the other in the same thread (the last one is the one that is judged)
        #[cfg(feature = "serde")]
        "SERDEC2" => f.get(2).copied().unwrap_or("").split('|').map(serde_cases::ctx_case).collect::<Vec<_>>().join(" ;; "),
        #[cfg(feature = "serde")]
        "SERDEC" => serde_cases::ctx_case(f.get(2).copied().unwrap_or("")),
        k => panic!("unknown case kind {}", k),
    };
    format!("{}\t{}", id, body)
}

fn main() {
    let args: Vec<String> = std::env::args().collect();
    let mode = args.get(1).map(|s| s.as_str()).unwrap_or("");
    match mode {
        "run" => {
            panic::set_hook(Box::new(|info| {
                let loc = info.location().map(|l| format!("{}:{}", l.file(), l.line())).unwrap_or_default();
                PANIC_LOC.with(|p| *p.borrow_mut() = Some(loc));
            }));
            let input: Box<dyn BufRead> = if args.len() > 2 && args[2] != "-" {
                Box::new(std::io::BufReader::new(std::fs::File::open(&args[2]).expect("case file")))
            } else {
                Box::new(std::io::BufReader::new(std::io::stdin()))
            };
            let out = std::io::stdout();
            let mut out = std::io::BufWriter::new(out.lock());
            for line in input.lines() {
                let line = line.unwrap();
                if line.is_empty() {
                    continue;
                }
                let l2 = line.clone();
                let r = panic::catch_unwind(move || run_case(&l2));
                match r {
                    Ok(s) => writeln!(out, "{}", s).unwrap(),
                    Err(_) => {
                        let loc = PANIC_LOC.with(|p| p.borrow_mut().take()).unwrap_or_default();
                        let id = line.split('\t').next().unwrap_or("?");
                        writeln!(out, "{}\tPANIC {}", id, loc).unwrap()
                    },
                }
            }
        },
        "dump" => dump::dump(),
        "oracle" => oracle::serve(),
        #[cfg(feature = "sendsync")]
        "threads" => send_sync::stress(&args[2]),
        _ => {
            eprintln!("usage: evx-harness run <file>|dump|oracle|threads <file>");
            std::process::exit(2);
        },
    }
}
