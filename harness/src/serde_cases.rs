// C16: real ron round trips (feature "serde").
use crate::canon::*;
use evalexpr::*;

pub fn node_case(src: &str) -> String {
    let ron_text = ron::to_string(&src.to_string()).unwrap();
    let direct = build_operator_tree::<DefaultNumericTypes>(src);
    let via: Result<Node<DefaultNumericTypes>, _> = ron::from_str(&ron_text);
    match (direct, via) {
        (Ok(a), Ok(b)) => {
            if a == b || tree_text(&a) == tree_text(&b) { format!("SAME OK {}", tree_text(&a)) } else { format!("DIFF {} {}", tree_text(&a), tree_text(&b)) }
        },
        (Err(e), Err(d)) => {
            let want = e.to_string();
            let got = d.to_string();
            // ron prefixes the custom message with a position `line:col: `; apart from that the message must be the same
            let bare = {
                let mut parts = got.splitn(3, ':');
                match (parts.next(), parts.next(), parts.next()) {
                    (Some(a), Some(b), Some(rest))
                        if !a.is_empty() && !b.is_empty() && a.chars().all(|c| c.is_ascii_digit()) && b.chars().all(|c| c.is_ascii_digit()) =>
                    {
                        rest.strip_prefix(' ').unwrap_or(rest).to_string()
                    },
                    _ => got.clone(),
                }
            };
            if bare == want { format!("SAME ERR {}", error_text(&e)) } else { format!("DIFF-ERR {} {}", hex(&want), hex(&got)) }
        },
        (Ok(a), Err(d)) => format!("DIFF-OK-ERR {} {}", tree_text(&a), hex(d.to_string())),
        (Err(e), Ok(b)) => format!("DIFF-ERR-OK {} {}", error_text(&e), tree_text(&b)),
    }
}

// ops: a script of `set <hexname> <value>` / `off <b>` / `setfn <hexname>` separated by ';'
pub fn ctx_case(ops: &str) -> String {
    let mut c = HashMapContext::<DefaultNumericTypes>::new();
    let mut fns = vec![];
    if !ops.is_empty() {
        for op in ops.split(';') {
            let f: Vec<&str> = op.split(' ').collect();
            match f[0] {
                "set" => { let _ = c.set_value(unhex(f[1]), parse_value(f[2])); },
                "off" => { let _ = c.set_builtin_functions_disabled(f[1] == "1"); },
                "setfn" => { fns.push(unhex(f[1])); let _ = c.set_function(unhex(f[1]), Function::new(|a| Ok(a.clone()))); },
                _ => panic!("bad serde op"),
            }
        }
    }
    let text = match ron::to_string(&c) { Ok(t) => t, Err(e) => return format!("SER-ERR {}", hex(e.to_string())) };
    let d: HashMapContext<DefaultNumericTypes> = match ron::from_str(&text) { Ok(d) => d, Err(e) => return format!("DE-ERR {} {}", hex(e.to_string()), hex(&text)) };
    let dump = |x: &HashMapContext<DefaultNumericTypes>| {
        let mut v: Vec<(String, String)> = x.iter_variables().map(|(k, v)| (hex(k), value_text(&v))).collect();
        v.sort();
        let mut names: Vec<String> = x.iter_variable_names().map(|k| hex(&k)).collect();
        names.sort();
        let listed: Vec<String> = v.iter().map(|(k, _)| k.clone()).collect();
        format!("{:?} off={}{}", v, x.are_builtin_functions_disabled(), if names == listed { String::new() } else { format!(" names={:?}", names) })
    };
    let mut fn_leak = false;
    for f in &fns {
        if !matches!(d.call_function(f, &Value::Empty), Err(EvalexprError::FunctionIdentifierNotFound(_))) { fn_leak = true; }
    }
    if dump(&c) == dump(&d) && !fn_leak { format!("SAME {}", dump(&c)) } else { format!("DIFF {} // {} // fn_leak={}", dump(&c), dump(&d), fn_leak) }
}
