// The std oracle: the functions of Rust's std that evalexpr delegates to, called directly.
use crate::canon::{float_bits, hex, unhex};
use std::io::{BufRead, Write};

fn f(bits: &str) -> f64 {
    f64::from_bits(u64::from_str_radix(bits, 16).unwrap())
}

pub fn serve() {
    let stdin = std::io::stdin();
    let stdout = std::io::stdout();
    let mut out = stdout.lock();
    for line in stdin.lock().lines() {
        let line = line.unwrap();
        let p: Vec<&str> = line.split(' ').collect();
        let ans = match p[0] {
            "m1" => {
                let x = f(p[2]);
                let r = match p[1] {
                    "ln" => x.ln(), "log2" => x.log2(), "log10" => x.log10(), "exp" => x.exp(), "exp2" => x.exp2(),
                    "cos" => x.cos(), "acos" => x.acos(), "cosh" => x.cosh(), "acosh" => x.acosh(),
                    "sin" => x.sin(), "asin" => x.asin(), "sinh" => x.sinh(), "asinh" => x.asinh(),
                    "tan" => x.tan(), "atan" => x.atan(), "tanh" => x.tanh(), "atanh" => x.atanh(),
                    "cbrt" => x.cbrt(),
                    other => panic!("m1 {}", other),
                };
                float_bits(r)
            },
            "m2" => {
                let (x, y) = (f(p[2]), f(p[3]));
                let r = match p[1] {
                    "log" => x.log(y), "pow" => x.powf(y), "atan2" => x.atan2(y), "hypot" => x.hypot(y),
                    other => panic!("m2 {}", other),
                };
                float_bits(r)
            },
            "fts" => hex(f(p[1]).to_string()),
            "fdbg" => hex(format!("{:?}", f(p[1]))),
            "sdbg" => hex(format!("{:?}", unhex(p.get(1).copied().unwrap_or("")))),
            "lower" => hex(unhex(p.get(1).copied().unwrap_or("")).to_lowercase()),
            "upper" => hex(unhex(p.get(1).copied().unwrap_or("")).to_uppercase()),
            "parsef" => match unhex(p.get(1).copied().unwrap_or("")).parse::<f64>() {
                Ok(x) => float_bits(x),
                Err(_) => "ERR".to_string(),
            },
            other => panic!("oracle request {}", other),
        };
        writeln!(out, "{}", ans).unwrap();
        out.flush().unwrap();
    }
}
