// C15: compile-time Send + Sync assertions, and a stress run of shared read-only evaluation.
use evalexpr::*;
use std::sync::Arc;

fn assert_send_sync<T: Send + Sync>() {}

#[allow(dead_code)]
pub fn static_assertions() {
    assert_send_sync::<Node<DefaultNumericTypes>>();
    assert_send_sync::<Value<DefaultNumericTypes>>();
    assert_send_sync::<EvalexprError<DefaultNumericTypes>>();
    assert_send_sync::<Function<DefaultNumericTypes>>();
    assert_send_sync::<Operator<DefaultNumericTypes>>();
    assert_send_sync::<HashMapContext<DefaultNumericTypes>>();
    assert_send_sync::<EmptyContext<DefaultNumericTypes>>();
    assert_send_sync::<EmptyContextWithBuiltinFunctions<DefaultNumericTypes>>();
}

// every line: <id>\t<hexsrc>; all threads evaluate all trees against one shared context
pub fn stress(path: &str) {
    static_assertions();
    let text = std::fs::read_to_string(path).unwrap();
    let mut ctx = HashMapContext::<DefaultNumericTypes>::new();
    ctx.set_value("a".into(), Value::Int(3)).unwrap();
    ctx.set_value("b".into(), Value::Float(2.5)).unwrap();
    ctx.set_value("s".into(), Value::String("xy".into())).unwrap();
    ctx.set_value("t".into(), Value::Tuple(vec![Value::Int(1), Value::Int(2)])).unwrap();
    ctx.set_function("f".into(), Function::new(|a| Ok(a.clone()))).unwrap();
    // a user function that takes a while (busy wait), so that other threads read the shared context meanwhile
    ctx.set_function(
        "slow".into(),
        Function::new(|a| {
            let t0 = std::time::Instant::now();
            while t0.elapsed() < std::time::Duration::from_micros(40) {
                std::hint::spin_loop();
            }
            Ok(a.clone())
        }),
    )
    .unwrap();
    // user functions that differ from each other (a mix-up between them shows in the result)
    ctx.set_function(
        "dbl".into(),
        Function::new(|a| match a {
            Value::Int(i) => Ok(Value::Int(i64::wrapping_mul(*i, 2))),
            other => Ok(Value::Tuple(vec![other.clone(), other.clone()])),
        }),
    )
    .unwrap();
    ctx.set_function(
        "neg".into(),
        Function::new(|a| match a {
            Value::Int(i) => Ok(Value::Int(i64::wrapping_neg(*i))),
            other => Ok(Value::String(format!("<{}>", other))),
        }),
    )
    .unwrap();
    ctx.set_function("name".into(), Function::new(|a| Ok(Value::String(format!("{:?}", a))))).unwrap();
    let ctx = Arc::new(ctx);
    let mut trees = vec![];
    for line in text.lines() {
        let f: Vec<&str> = line.split('\t').collect();
        if f.len() < 2 {
            continue;
        }
        let src = crate::canon::unhex(f[1]);
        if let Ok(n) = build_operator_tree::<DefaultNumericTypes>(&src) {
            trees.push((f[0].to_string(), n, src));
        }
    }
    let trees = Arc::new(trees);
    let sequential: Vec<String> =
        trees.iter().map(|(_, n, _)| crate::canon::result_text(&n.eval_with_context(&*ctx))).collect();
    let sequential = Arc::new(sequential);
    let threads = 16;
    let rounds = 40;
    // phase 0: COLD contexts. Each of many fresh clones of the context is shared by all threads, which evaluate DIFFERENT
    // trees on it at the same moment (its first evaluations ever), then the same trees once more sequentially.
    let mut nbad0 = 0usize;
    {
        let n = trees.len();
        let picks: Vec<usize> = (0..n).filter(|i| trees[*i].2.len() < 60).collect();
        let fresh: Vec<Arc<HashMapContext<DefaultNumericTypes>>> = (0..150).map(|_| Arc::new((*ctx).clone())).collect();
        let fresh = Arc::new(fresh);
        let picks = Arc::new(picks);
        let barrier = Arc::new(std::sync::Barrier::new(threads));
        let mut handles = vec![];
        for t in 0..threads {
            let (trees, fresh, sequential, barrier, picks) = (trees.clone(), fresh.clone(), sequential.clone(), barrier.clone(), picks.clone());
            handles.push(std::thread::spawn(move || {
                let mut bad = vec![];
                for (r, c) in fresh.iter().enumerate() {
                    let i = picks[(r * 31 + t * 7) % picks.len()];
                    barrier.wait();
                    let got = crate::canon::result_text(&trees[i].1.eval_with_context(&**c));
                    if got != sequential[i] {
                        bad.push(format!("{}\t{}\t{}", trees[i].0, sequential[i], got));
                    }
                }
                bad
            }));
        }
        for h in handles {
            for b in h.join().unwrap().into_iter().take(3) {
                println!("MISMATCH\t{}", b);
                nbad0 += 1;
            }
        }
        // the contexts used concurrently must still answer as a fresh one does
        for (r, c) in fresh.iter().enumerate() {
            for t in 0..threads {
                let i = picks[(r * 31 + t * 7) % picks.len()];
                let got = crate::canon::result_text(&trees[i].1.eval_with_context(&**c));
                if got != sequential[i] && nbad0 < 6 {
                    println!("MISMATCH\t{}\t{}\t{} (sequentially, after concurrent first use)", trees[i].0, sequential[i], got);
                    nbad0 += 1;
                }
            }
        }
    }
    // all threads evaluate the SAME tree at the same time (barrier per tree), `rounds` times each
    let barrier = Arc::new(std::sync::Barrier::new(threads));
    let mut handles = vec![];
    for _t in 0..threads {
        let (trees, ctx, sequential, barrier) = (trees.clone(), ctx.clone(), sequential.clone(), barrier.clone());
        handles.push(std::thread::spawn(move || {
            let mut bad = vec![];
            for i in 0..trees.len() {
                barrier.wait();
                for _ in 0..rounds {
                    let got = crate::canon::result_text(&trees[i].1.eval_with_context(&*ctx));
                    if got != sequential[i] {
                        bad.push(format!("{}\t{}\t{}", trees[i].0, sequential[i], got));
                        break;
                    }
                }
            }
            bad
        }));
    }
    // phase 0b: COLD trees. A tree built a moment ago (never evaluated) is shared by all threads, which evaluate it at
    // once; the reference comes from the tree built and evaluated sequentially at the start.
    {
        let picks: Vec<usize> = (0..trees.len()).filter(|i| trees[*i].2.len() < 400).collect();
        let trials = 400usize;
        let fresh: Vec<(usize, Arc<Node<DefaultNumericTypes>>)> = (0..trials)
            .map(|r| {
                let i = picks[(r * 37) % picks.len()];
                (i, Arc::new(build_operator_tree::<DefaultNumericTypes>(&trees[i].2).unwrap()))
            })
            .collect();
        let fresh = Arc::new(fresh);
        let barrier = Arc::new(std::sync::Barrier::new(threads));
        let mut handles = vec![];
        for _t in 0..threads {
            let (trees, fresh, sequential, barrier, ctx) = (trees.clone(), fresh.clone(), sequential.clone(), barrier.clone(), ctx.clone());
            handles.push(std::thread::spawn(move || {
                let mut bad = vec![];
                for (i, n) in fresh.iter() {
                    barrier.wait();
                    let got = crate::canon::result_text(&n.eval_with_context(&*ctx));
                    if got != sequential[*i] {
                        bad.push(format!("{}\t{}\t{} (first evaluation of a tree shared by all threads)", trees[*i].0, sequential[*i], got));
                    }
                }
                bad
            }));
        }
        for h in handles {
            for b in h.join().unwrap().into_iter().take(3) {
                println!("MISMATCH\t{}", b);
                nbad0 += 1;
            }
        }
    }
    let mut nbad = nbad0;
    for h in handles {
        for b in h.join().unwrap() {
            println!("MISMATCH\t{}", b);
            nbad += 1;
        }
    }
    // second phase: every thread walks the trees in an order of its own, so DIFFERENT evaluations overlap
    // (one thread inside a user function while another reads a variable, deep and shallow trees together)
    let rounds2 = 6;
    let barrier = Arc::new(std::sync::Barrier::new(threads));
    let mut handles = vec![];
    for t in 0..threads {
        let (trees, ctx, sequential, barrier) = (trees.clone(), ctx.clone(), sequential.clone(), barrier.clone());
        handles.push(std::thread::spawn(move || {
            let mut bad = vec![];
            let n = trees.len();
            barrier.wait();
            for r in 0..rounds2 {
                for j in 0..n {
                    let i = (j * (2 * t + 1) + t * n / threads + r * 7) % n;
                    let got = crate::canon::result_text(&trees[i].1.eval_with_context(&*ctx));
                    if got != sequential[i] {
                        bad.push(format!("{}\t{}\t{}", trees[i].0, sequential[i], got));
                    }
                }
            }
            bad
        }));
    }
    for h in handles {
        for b in h.join().unwrap().into_iter().take(3) {
            println!("MISMATCH\t{}", b);
            nbad += 1;
        }
    }
    // third phase: the string-level entry points (tokenizer and tree builder run concurrently too), a typed one, and
    // evaluation of the SHARED trees against a mutable context of the thread's own
    let barrier = Arc::new(std::sync::Barrier::new(threads));
    let mut handles = vec![];
    for t in 0..threads {
        let (trees, ctx, sequential, barrier) = (trees.clone(), ctx.clone(), sequential.clone(), barrier.clone());
        handles.push(std::thread::spawn(move || {
            let mut bad = vec![];
            let n = trees.len();
            let mut own = (*ctx).clone();
            barrier.wait();
            for j in 0..n {
                let i = (j + t * n / threads) % n;
                if trees[i].2.len() > 400 {
                    continue;
                }
                let a = crate::canon::result_text(&eval_with_context(&trees[i].2, &*ctx));
                let b = crate::canon::result_text(&trees[i].1.eval_with_context_mut(&mut own));
                let c = crate::canon::result_text(&eval_with_context_mut(&trees[i].2, &mut own));
                let d = match (trees[i].1.eval_int_with_context(&*ctx), trees[i].1.eval_with_context(&*ctx)) {
                    (Ok(x), Ok(Value::Int(y))) => x == y,
                    (Err(_), Ok(Value::Int(_))) | (Ok(_), _) => false,
                    _ => true,
                };
                for got in [a, b, c] {
                    if got != sequential[i] {
                        bad.push(format!("{}\t{}\t{}", trees[i].0, sequential[i], got));
                    }
                }
                if !d {
                    bad.push(format!("{}\t{}\teval_int_with_context disagrees", trees[i].0, sequential[i]));
                }
            }
            bad
        }));
    }
    for h in handles {
        for b in h.join().unwrap().into_iter().take(3) {
            println!("MISMATCH\t{}", b);
            nbad += 1;
        }
    }
    // context-free evaluation (`Node::eval`, a context of its own per call) of ONE shared tree, by all threads at once
    {
        let srcs = ["x = 1; x + 1", "q = 5; q *= 2; q", "1 + 2", "c = \"a\"; c += \"b\"; c", "(p = 1, p = 2, p)", "z = (1, 2); z", "k = 2; k ^= 2; k"];
        let shared: Vec<Arc<Node<DefaultNumericTypes>>> = srcs.iter().map(|s| Arc::new(build_operator_tree(s).unwrap())).collect();
        let want: Vec<String> = srcs.iter().map(|s| crate::canon::result_text(&eval(s))).collect();
        let (shared, want) = (Arc::new(shared), Arc::new(want));
        let barrier = Arc::new(std::sync::Barrier::new(threads));
        let mut handles = vec![];
        for _t in 0..threads {
            let (shared, want, barrier) = (shared.clone(), want.clone(), barrier.clone());
            handles.push(std::thread::spawn(move || {
                let mut bad = vec![];
                barrier.wait();
                for _ in 0..3000 {
                    for (i, n) in shared.iter().enumerate() {
                        let got = crate::canon::result_text(&n.eval());
                        if got != want[i] && bad.len() < 3 {
                            bad.push(format!("eval():{}\t{}\t{}", i, want[i], got));
                        }
                    }
                }
                bad
            }));
        }
        for h in handles {
            for b in h.join().unwrap() {
                println!("MISMATCH\t{}", b);
                nbad += 1;
            }
        }
    }
    // fourth phase: every thread evaluates expressions of ITS OWN (same operators, different operands) in a tight loop
    {
        let barrier = Arc::new(std::sync::Barrier::new(threads));
        let mut handles = vec![];
        for t in 0..threads {
            let (ctx, barrier) = (ctx.clone(), barrier.clone());
            handles.push(std::thread::spawn(move || {
                let k = t as i64 + 2;
                let srcs = vec![
                    format!("b ^ {}", k), format!("a ^ {}.5", k), format!("math::pow(b, {})", k), format!("a * {} + b", k), format!("s + \"{}\"", k),
                    format!("max(a, {}, b)", k), format!("min({}, b)", k), format!("str::from({}) + s", k), format!("len(s + \"{}\")", "x".repeat(t)),
                    format!("math::sqrt({})", k * 7), format!("{} % 7 == a", k), format!("(a, {}, t)", k), format!("if(a > {}, s, b)", k), format!("{} / b", k),
                    format!("math::hypot({}, b)", k), format!("f({}) - a", k), format!("-{} < a", k), format!("str::to_uppercase(s + \"q{}\")", k),
                    format!("dbl({})", k), format!("neg({})", k), format!("name({})", k), format!("dbl(neg({})) + neg(dbl(a))", k), format!("(f({}), dbl(s), neg(b), name(t))", k),
                ];
                let trees: Vec<Node<DefaultNumericTypes>> = srcs.iter().map(|s| build_operator_tree(s).unwrap()).collect();
                let want: Vec<String> = trees.iter().map(|n| crate::canon::result_text(&n.eval_with_context(&*ctx))).collect();
                let mut bad = vec![];
                barrier.wait();
                // (the reference above was computed while other threads were still building: recompute it once more now)
                // first the three power expressions alone, many times (a shared memo of the last result would be hit here)
                // the calls of user functions alone, many times (different functions per position, different arguments per thread)
                for _ in 0..6000 {
                    for (i, n) in trees.iter().enumerate().skip(18) {
                        let got = crate::canon::result_text(&n.eval_with_context(&*ctx));
                        if got != want[i] && bad.len() < 3 {
                            bad.push(format!("loop:{}\t{}\t{}", srcs[i], want[i], got));
                        }
                    }
                }
                for _ in 0..30000 {
                    for (i, n) in trees.iter().enumerate().take(3) {
                        let got = crate::canon::result_text(&n.eval_with_context(&*ctx));
                        if got != want[i] && bad.len() < 3 {
                            bad.push(format!("loop:{}\t{}\t{}", srcs[i], want[i], got));
                        }
                    }
                }
                for _ in 0..1500 {
                    for (i, n) in trees.iter().enumerate() {
                        let got = crate::canon::result_text(&n.eval_with_context(&*ctx));
                        if got != want[i] && bad.len() < 3 {
                            bad.push(format!("loop:{}\t{}\t{}", srcs[i], want[i], got));
                        }
                    }
                }
                (bad, srcs, want)
            }));
        }
        let mut all = vec![];
        for h in handles {
            let (bad, srcs, want) = h.join().unwrap();
            for b in bad {
                println!("MISMATCH\t{}", b);
                nbad += 1;
            }
            all.push((srcs, want));
        }
        // the references themselves, now that everything is quiet
        for (srcs, want) in all {
            for (sx, w) in srcs.iter().zip(want.iter()) {
                let got = crate::canon::result_text(&eval_with_context(sx, &*ctx));
                if &got != w {
                    println!("MISMATCH\tloop-ref:{}\t{}\t{}", sx, got, w);
                    nbad += 1;
                }
            }
        }
    }
    println!(
        "THREADS\ttrees={}\tthreads={}\trounds={}+{}+strings+loops\tevaluations={}\tmismatches={}",
        trees.len(),
        threads,
        rounds,
        rounds2,
        trees.len() * threads * (rounds + rounds2 + 4) + threads * 1500 * 18,
        nbad
    );
}
