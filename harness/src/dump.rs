// Dumps the finite tables of the library under test (through the verif hooks) as plain lines.
use evalexpr::*;
use std::io::BufRead;

#[cfg(feature = "hooks")]
fn ops() -> Vec<(&'static str, Vec<Operator<DefaultNumericTypes>>)> {
    use Operator::*;
    let s = |x: &str| x.to_string();
    vec![
        ("RootNode", vec![RootNode]),
        ("Add", vec![Add]), ("Sub", vec![Sub]), ("Neg", vec![Neg]), ("Mul", vec![Mul]), ("Div", vec![Div]),
        ("Mod", vec![Mod]), ("Exp", vec![Exp]),
        ("Eq", vec![Eq]), ("Neq", vec![Neq]), ("Gt", vec![Gt]), ("Lt", vec![Lt]), ("Geq", vec![Geq]), ("Leq", vec![Leq]),
        ("And", vec![And]), ("Or", vec![Or]), ("Not", vec![Not]),
        ("Assign", vec![Assign]), ("AddAssign", vec![AddAssign]), ("SubAssign", vec![SubAssign]),
        ("MulAssign", vec![MulAssign]), ("DivAssign", vec![DivAssign]), ("ModAssign", vec![ModAssign]),
        ("ExpAssign", vec![ExpAssign]), ("AndAssign", vec![AndAssign]), ("OrAssign", vec![OrAssign]),
        ("Tuple", vec![Tuple]), ("Chain", vec![Chain]),
        ("Const", vec![
            Const { value: Value::Int(0) }, Const { value: Value::Float(1.5) }, Const { value: Value::String(s("x")) },
            Const { value: Value::Boolean(true) }, Const { value: Value::Empty }, Const { value: Value::Tuple(vec![]) },
        ]),
        ("VariableIdentifierWrite", vec![VariableIdentifierWrite { identifier: s("") }, VariableIdentifierWrite { identifier: s("max") }]),
        ("VariableIdentifierRead", vec![VariableIdentifierRead { identifier: s("") }, VariableIdentifierRead { identifier: s("max") }]),
        ("FunctionIdentifier", vec![FunctionIdentifier { identifier: s("") }, FunctionIdentifier { identifier: s("max") }]),
    ]
}

pub fn dump() {
    #[cfg(feature = "hooks")]
    {
        for (name, variants) in ops() {
            let props: Vec<_> = variants.iter().map(evalexpr::verif::operator_props).collect();
            let p = props[0];
            let uniform = props.iter().all(|q| *q == p);
            println!(
                "OP\t{}\t{}\t{}\t{}\t{}\t{}\t{}\t{}",
                name, p.0, p.1 as u8, p.2 as u8,
                p.3.map(|n| n.to_string()).unwrap_or_else(|| "None".into()),
                p.4 as u8, p.5 as u8, if uniform { "uniform" } else { "PAYLOAD-DEPENDENT" }
            );
        }
        let mut k = 0;
        while let Some((name, l, r, a)) = evalexpr::verif::token_props(k) {
            println!("TOKP\t{}\t{}\t{}\t{}", name, l as u8, r as u8, a as u8);
            k += 1;
        }
        // character classes, run-length compressed over all Unicode scalar values
        let mut start: u32 = 0;
        let mut cur: Option<String> = None;
        let mut prev: u32 = 0;
        for cp in 0u32..=0x10FFFF {
            let c = match char::from_u32(cp) {
                Some(c) => c,
                None => continue,
            };
            let cls = evalexpr::verif::char_class(c);
            match &cur {
                Some(x) if *x == cls && prev + 1 == cp => {},
                Some(x) if *x == cls && cp == 0xE000 && prev == 0xD7FF => {},
                Some(x) => {
                    println!("CC\t{}\t{}\t{}", start, prev, x);
                    start = cp;
                    cur = Some(cls);
                },
                None => {
                    start = cp;
                    cur = Some(cls);
                },
            }
            prev = cp;
        }
        if let Some(x) = cur {
            println!("CC\t{}\t{}\t{}", start, prev, x);
        }
    }
    // candidate builtin names on stdin (hex, one per line): is the name resolved as a builtin?
    let ctx = EmptyContextWithBuiltinFunctions::<DefaultNumericTypes>::default();
    for line in std::io::stdin().lock().lines() {
        let h = line.unwrap();
        if h.is_empty() {
            continue;
        }
        let name = crate::canon::unhex(&h);
        let mut tree = build_operator_tree::<DefaultNumericTypes>("f()").unwrap();
        for id in tree.iter_function_identifiers_mut() {
            *id = name.clone();
        }
        let found = !matches!(tree.eval_with_context(&ctx), Err(EvalexprError::FunctionIdentifierNotFound(_)));
        println!("BUILTIN\t{}\t{}", h, found as u8);
    }
}
