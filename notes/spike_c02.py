import itertools, subprocess, sys
BIN = {'^':('Exp',120),'*':('Mul',100),'%':('Mod',100),'+':('Add',95),'-':('Sub',95),'<':('Lt',80),'==':('Eq',80),'&&':('And',75),'||':('Or',70)}
ASG = {'=':('Assign',50,True),'+=':('AddAssign',50,False)}
PRE = {'-':'Neg','!':'Not'}
def prec(e):
    k=e[0]
    if k in('lit','var','paren'): return 200
    if k=='bin': return BIN[e[1]][1]
    if k=='pre': return 110
    if k=='asg': return 50
    if k=='call': return 190
def rtl(e):
    return (e[0]=='asg' and ASG[e[1]][2]) or e[0]=='call'
def below(f, o):  # f,o are (prec, rtl)
    return f[0] < o[0] or (f[0]==o[0] and f[1] and o[1])
def pr(e): return (prec(e), rtl(e))
def fits(F, e):
    k=e[0]
    if k in('lit','var'): return True
    if k=='paren': return fits([], e[1])
    if k=='pre': return fits(F+[(110,False)], e[2])
    if k=='call': return fits(F+[(190,True)], e[2])
    if k=='bin':
        o=pr(e)
        return fits(F,e[2]) and all(below(f,o) for f in F) and not below(pr(e[2]),o) and fits(F+[o],e[3])
    if k=='asg':
        o=pr(e)
        return all(below(f,o) for f in F) and fits(F+[o],e[3])
def flat(e):
    k=e[0]
    if k in('lit','var'): return [e[1]]
    if k=='paren': return ['(']+flat(e[1])+[')']
    if k=='pre': return [e[1]]+flat(e[2])
    if k=='call': return [e[1]]+flat(e[2])
    if k=='bin': return flat(e[2])+[e[1]]+flat(e[3])
    if k=='asg': return [e[2],e[1]]+flat(e[3])
def tree(e):
    k=e[0]
    if k=='lit': return e[1]
    if k=='var': return 'r:'+e[1]
    if k=='paren': return 'R['+tree(e[1])+']'
    if k=='pre': return PRE[e[1]]+'['+tree(e[2])+']'
    if k=='call': return 'f:'+e[1]+'['+tree(e[2])+']'
    if k=='bin': return BIN[e[1]][0]+'['+tree(e[2])+' '+tree(e[3])+']'
    if k=='asg': return ASG[e[1]][0]+'[w:'+e[2]+' '+tree(e[3])+']'
def primary(e): return e[0] in ('lit','var','paren','call')
def gen(d):
    """all ASTs with nesting depth <= d"""
    if d==0:
        yield ('lit','1'); yield ('var','a'); return
    sub=list(gen(d-1))
    for e in sub: yield e
    seen=set(map(repr,sub))
    for e in sub:
        if d<=2: yield ('paren',e)
        for u in PRE: yield ('pre',u,e)
        if primary(e): yield ('call','f',e)
        for a in ASG: yield ('asg',a,'x',e)
    for l in sub:
        for r in sub:
            for o in BIN: yield ('bin',o,l,r)
D=int(sys.argv[1]); limit=int(sys.argv[2])
import random
random.seed(1)
cases=[]; seen=set()
for e in gen(D):
    r=repr(e)
    if r in seen: continue
    seen.add(r); cases.append(e)
if len(cases)>limit: cases=random.sample(cases,limit)
inp='\n'.join(' '.join(flat(e)) for e in cases)+'\n'
out=subprocess.run(['/root/scratch/exp/target/release/exp'],input=inp,capture_output=True,text=True).stdout.split('\n')
nf=nfok=nn=nnbad=0; bad=[]
for e,o in zip(cases,out):
    want='R['+tree(e)+']'
    if fits([],e):
        nf+=1
        if o==want: nfok+=1
        else: bad.append(('FITS-BUT-DIFF',' '.join(flat(e)),want,o))
    else:
        nn+=1
        if o==want: nnbad+=1; bad.append(('NOFIT-BUT-SAME',' '.join(flat(e)),want,o))
print(f"cases={len(cases)} fits={nf} fits_ok={nfok} nofit={nn} nofit_but_same={nnbad}")
for b in bad[:25]: print(b)
