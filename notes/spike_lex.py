import random, re, subprocess, sys
random.seed(int(sys.argv[1])); N=int(sys.argv[2]); which=sys.argv[3]  # orig|fixed
WORDS=['a','b1','1','12','1e','2E','e','3','.5','5.','0x1e','0x','true','inf','1e5','x_','1.5e','é','E','1e3x','0']
OPS=['+','-','*','/','%','^','==','!=','>','<','>=','<=','&&','||','!','(',')','=','+=','-=','*=','/=','%=','^=','&&=','||=',',',';']
STRS=['"s"','"//"','"/*"','"a b"','"*/"','""']
WS=[' ','\t','\n','　',' ',' ','\r','\u0085']
def isword(l): return l in WORDS
FLOAT=re.compile(r'^((\d+\.?\d*|\.\d+)([eE][+-]?\d+)?|inf|infinity|nan)$', re.I)
def numeric_or_bool(w):
    if re.match(r'^\d+$',w): return True   # (i64 range: small here)
    if re.match(r'^0x[0-9a-fA-F]+$',w): return True
    if FLOAT.match(w): return True
    return w in('true','false')
def fuses2(l1,l2):
    if isword(l1) and isword(l2): return True
    if l1 in ['+','-','*','/','%','^','=','!','>','<'] and l2.startswith('='): return True
    if l1 in ['&&','||'] and l2.startswith('='): return True
    if l1=='/' and l2[0] in '/*': return True
    return False
def sci3(l1,l2,l3):
    return isword(l1) and l2 in('+','-') and isword(l3) and not numeric_or_bool(l1) and FLOAT.match(l1+l2+l3) is not None
def comment():
    if random.random()<0.5:
        body=''.join(random.choice('ab */"+1 \t/') for _ in range(random.randint(0,5)))
        while '*/' in body: body=body.replace('*/','*')
        if body.endswith('*') and False: pass
        return '/*'+body+'*/'
    body=''.join(random.choice('ab */"+1 \t') for _ in range(random.randint(0,5)))
    return '//'+body+'\n'
def sep(nonempty, after_slash, allow_comments):
    items=[]
    n=random.choice([0,0,1,1,2,3]) if not nonempty else random.choice([1,1,2,3])
    for i in range(n):
        if allow_comments and random.random()<0.4 and not (after_slash and i==0): items.append(comment())
        else: items.append(random.choice(WS))
    return ''.join(items)
def render(ls, allow_comments, canonical):
    out=[]
    need=[False]*(len(ls)-1)
    for i in range(len(ls)-1):
        if fuses2(ls[i],ls[i+1]): need[i]=True
    for i in range(len(ls)-2):
        if sci3(ls[i],ls[i+1],ls[i+2]) and not need[i] and not need[i+1]:
            need[i if random.random()<0.5 else i+1]=True
    s=''
    for i,l in enumerate(ls):
        s+=l
        if i<len(ls)-1:
            if canonical: s+=' '
            else: s+=sep(need[i], l=='/', allow_comments)
    return s
cases=[]
for _ in range(N):
    k=random.randint(1,7)
    ls=[random.choice(WORDS) if random.random()<0.45 else (random.choice(STRS) if random.random()<0.1 else random.choice(OPS)) for _ in range(k)]
    cases.append(ls)
binp='/root/scratch/treedump_'+which
A='\n'.join(render(ls, which=='fixed', False).encode().hex() for ls in cases)+'\n'
texts=[bytes.fromhex(x).decode() for x in A.strip().split('\n')]
B='\n'.join(' '.join(ls).encode().hex() for ls in cases)+'\n'
oa=subprocess.run([binp],input=A,capture_output=True,text=True).stdout.split('\n')
ob=subprocess.run([binp],input=B,capture_output=True,text=True).stdout.split('\n')
bad=[(ls,t,a[:150],b[:150]) for ls,t,a,b in zip(cases,texts,oa,ob) if a!=b]
print(f"{which}: cases={len(cases)} mismatches={len(bad)} ok_trees={sum(1 for a in oa if a and not a.startswith('ERR'))}")
for b in bad[:12]: print(b)
