use evalexpr::*;
const ALPHA: [&str; 16] = ["1","a","f","+","-","*","^","!","=","+=","(",")",",",";","==","&&"];
fn is_val(t:&str)->bool{ matches!(t,"1"|"a"|"f") }
fn is_ident(t:&str)->bool{ matches!(t,"a"|"f") }
fn is_asg(t:&str)->bool{ matches!(t,"="|"+=") }
fn leftsided(t:&str)->bool{ is_val(t) || t=="(" }
fn is_binop(t:&str)->bool{ matches!(t,"+"|"*"|"^"|"="|"+="|"=="|"&&") }
#[derive(PartialEq,Debug,Clone,Copy)] enum Verdict{Good,Unbalanced,Missing,Juxta}
fn recognise(ts:&[&str])->Verdict{
    // balance
    let mut d=0i32; for t in ts { if *t=="(" {d+=1} else if *t==")" { d-=1; if d<0 {return Verdict::Unbalanced} } } if d!=0 {return Verdict::Unbalanced}
    let mut expect_operand=true; // state E
    let mut prev:Option<&str>=None; let mut prev_is_fn=false;
    for (i,t) in ts.iter().enumerate(){
        let next=ts.get(i+1).copied();
        let empty_ok = matches!(prev,None|Some("(")|Some(",")|Some(";"));
        let t=*t;
        if is_val(t){
            if !expect_operand {return Verdict::Juxta}
            let is_fn = is_ident(t) && next.map_or(false,|n| !is_asg(n) && leftsided(n));
            if is_fn { prev_is_fn=true; expect_operand=true; } else { prev_is_fn=false; expect_operand=false; }
        } else if t=="(" { if !expect_operand {return Verdict::Juxta} prev_is_fn=false; }
        else if t==")" { if expect_operand && !empty_ok {return Verdict::Missing} expect_operand=false; prev_is_fn=false; }
        else if t=="," || t==";" { if expect_operand && !empty_ok {return Verdict::Missing} expect_operand=true; prev_is_fn=false; }
        else if t=="!" { if !expect_operand {return Verdict::Juxta} prev_is_fn=false; }
        else if t=="-" { expect_operand=true; prev_is_fn=false; }   // prefix in E, binary in O (rightsided)  -- note: in E after a value? handled: O means prev rightsided
        else if is_binop(t) { if expect_operand {return Verdict::Missing} expect_operand=true; prev_is_fn=false; }
        prev=Some(t);
    }
    let empty_ok = matches!(prev,None|Some(",")|Some(";"));
    if expect_operand && !empty_ok {return Verdict::Missing}
    let _=prev_is_fn;
    Verdict::Good
}
fn arity_bad(n:&Node)->bool{
    let k=n.children().len();
    let bad = match n.operator(){
        Operator::RootNode => k>1,
        Operator::Tuple|Operator::Chain => false,
        Operator::Neg|Operator::Not|Operator::FunctionIdentifier{..} => k!=1,
        Operator::Const{..}|Operator::VariableIdentifierRead{..}|Operator::VariableIdentifierWrite{..} => k!=0,
        _ => k!=2 };
    bad || n.children().iter().any(arity_bad)
}
fn toks(n:&Node, top:bool, elem:bool, out:&mut Vec<String>){
    let ch=n.children();
    match n.operator(){
        Operator::RootNode => { let p = !(top||elem); if p {out.push("(".into())} for c in ch { toks(c,false,false,out) } if p {out.push(")".into())} },
        Operator::Tuple => { for (i,c) in ch.iter().enumerate(){ if i>0 {out.push(",".into())} toks(c,false,true,out) } },
        Operator::Chain => { for (i,c) in ch.iter().enumerate(){ if i>0 {out.push(";".into())} toks(c,false,true,out) } },
        Operator::Neg => { out.push("-".into()); for c in ch {toks(c,false,false,out)} },
        Operator::Not => { out.push("!".into()); for c in ch {toks(c,false,false,out)} },
        Operator::FunctionIdentifier{identifier} => { out.push(identifier.clone()); for c in ch {toks(c,false,false,out)} },
        Operator::Const{value} => out.push(format!("{}",value)),
        Operator::VariableIdentifierRead{identifier}|Operator::VariableIdentifierWrite{identifier} => out.push(identifier.clone()),
        o => { let s=format!("{}",o); let s=s.trim().to_string(); if let Some(c)=ch.get(0){toks(c,false,false,out)} out.push(s); for c in ch.iter().skip(1){toks(c,false,false,out)} }
    }
}
fn main(){
    let maxlen: usize = std::env::args().nth(1).unwrap().parse().unwrap();
    let mut total=0u64; let mut ok_built=0u64; let mut flat_bad=0u64; let mut c13_bad=0u64; let mut good_rejected=0u64; let mut unb_accepted=0u64; let mut bal_reported_unb=0u64;
    let mut ex_flat=vec![]; let mut ex_c13=vec![]; let mut ex_good=vec![]; let mut ex_unb=vec![];
    for len in 0..=maxlen {
        let n=16usize.pow(len as u32);
        for idx in 0..n {
            let mut ts=Vec::with_capacity(len); let mut x=idx; for _ in 0..len { ts.push(ALPHA[x%16]); x/=16; }
            let s=ts.join(" ");
            total+=1;
            let v=recognise(&ts);
            let r=build_operator_tree::<DefaultNumericTypes>(&s);
            match &r {
                Ok(t) => { ok_built+=1;
                    let mut o=vec![]; toks(t,true,false,&mut o);
                    let ab=arity_bad(t);
                    if o.join(" ")!=s && !ab { flat_bad+=1; if ex_flat.len()<8 {ex_flat.push((s.clone(),o.join(" ")))} }
                    if (v==Verdict::Missing||v==Verdict::Juxta) && !ab { c13_bad+=1; if ex_c13.len()<12 {ex_c13.push((s.clone(),format!("{:?}",v)))} }
                    if v==Verdict::Unbalanced { unb_accepted+=1; if ex_unb.len()<5 {ex_unb.push(s.clone())} }
                    if v==Verdict::Good && ab { good_rejected+=1; if ex_good.len()<12 {ex_good.push((s.clone(),"arity".to_string()))} }
                },
                Err(e) => {
                    if v==Verdict::Good { good_rejected+=1; if ex_good.len()<12 {ex_good.push((s.clone(),format!("{:?}",e)))} }
                    if v!=Verdict::Unbalanced && matches!(e,EvalexprError::UnmatchedLBrace|EvalexprError::UnmatchedRBrace) { bal_reported_unb+=1; }
                }
            }
        }
    }
    println!("total={} built_ok={} flatten_mismatch(arity-ok trees)={} c13_illformed_but_arity_ok={} grammatical_but_rejected={} unbalanced_accepted={} balanced_reported_unbalanced={}", total, ok_built, flat_bad, c13_bad, good_rejected, unb_accepted, bal_reported_unb);
    println!("flat examples: {:?}", ex_flat); println!("c13 examples: {:?}", ex_c13); println!("good-but-rejected: {:?}", ex_good); println!("unb: {:?}", ex_unb);
}
