(* Throw-away spike: C02 core on the leaf / prefix / binary fragment.
   insert mirrors Node::insert_back_prioritized branch by branch. *)
From Coq Require Import ZArith List Bool Lia.
Import ListNotations.
Open Scope Z_scope.

Inductive err := AppendedToLeaf | PrecedenceViolation | MissingOperator.
Inductive res (A: Type) := Ok (a: A) | Err (e: err) | Panic.
Arguments Ok {A}. Arguments Err {A}. Arguments Panic {A}.

Section Spike.
Variable binop unop : Type.
Variable bprec : binop -> Z. Variable brtl : binop -> bool.
Variable uprec : unop -> Z.  Variable urtl : unop -> bool.
Hypothesis bprec_lt : forall k, bprec k < 200.
Hypothesis uprec_lt : forall k, uprec k < 200.
Variable fixed : bool.   (* candidate fix: a binary operator may not fill a free operand slot *)

Inductive op := Root | Bin (k: binop) | Un (k: unop) | Leaf (v: nat).
Inductive node := Node (o: op) (ch: list node).
Definition nop n := let 'Node o _ := n in o.
Definition nch n := let 'Node _ c := n in c.

Definition prec o := match o with Root => 200 | Leaf _ => 200 | Bin k => bprec k | Un k => uprec k end.
Definition rtl o := match o with Bin k => brtl k | Un k => urtl k | _ => false end.
Definition maxargs o := match o with Root => 1 | Bin _ => 2 | Un _ => 1 | Leaf _ => 0 end%nat.
Definition is_unary o := match o with Un _ => true | _ => false end.
Definition is_leaf o := match o with Leaf _ => true | _ => false end.
Definition is_root o := match o with Root => true | _ => false end.
Definition below (a b: op) : bool :=
  (prec a <? prec b) || is_unary b || ((prec a =? prec b) && rtl a && rtl b).

Definition bind {A B} (r: res A) (f: A -> res B) : res B :=
  match r with Ok a => f a | Err e => Err e | Panic => Panic end.

Definition on_last {A} (g: A -> res A) : list A -> res (list A) :=
  fix go l := match l with
    | [] => Panic                                   (* children.last().unwrap() *)
    | x :: rest => match rest with
                   | [] => bind (g x) (fun y => Ok [y])
                   | _ => bind (go rest) (fun r => Ok (x :: r))
                   end
    end.

Definition rotate (so: op) (init_nonempty: bool) (n lc: node) : res node :=
  if is_leaf (nop n) then Err AppendedToLeaf
  else if is_root so && init_nonempty then Err MissingOperator
  else if is_root so && is_root (nop n) then Err MissingOperator
  else if is_root (nop n) && negb (match nch n with [] => true | _ => false end) then Err MissingOperator
  else if is_root (nop n) && is_root (nop lc) then Err MissingOperator
  else Ok (Node (nop n) (nch n ++ [lc])).

Fixpoint insert (self n: node) (isroot: bool) {struct self} : res node :=
  match self with
  | Node so sch =>
    if below so (nop n) || isroot then
      if is_leaf so then Err AppendedToLeaf
      else if Nat.eqb (length sch) (maxargs so) then
        bind (on_last (fun lc =>
                 if below (nop lc) (nop n) then insert lc n false
                 else rotate so (Nat.ltb 1 (length sch)) n lc) sch)
             (fun c => Ok (Node so c))
      else if fixed && Nat.eqb (maxargs (nop n)) 2 then Err MissingOperator
      else Ok (Node so (sch ++ [n]))
    else Err PrecedenceViolation
  end.

(* tokens are already disambiguated in this fragment *)
Inductive tok := TLeaf (v: nat) | TBin (k: binop) | TUn (k: unop).
Definition node_of t := match t with TLeaf v => Node (Leaf v) [] | TBin k => Node (Bin k) [] | TUn k => Node (Un k) [] end.
Fixpoint feed (root: node) (ts: list tok) : res node :=
  match ts with [] => Ok root | t :: ts' => bind (insert root (node_of t) true) (fun r => feed r ts') end.

(* ---- spec ---- *)
Inductive expr := ELeaf (v: nat) | EBin (k: binop) (l r: expr) | EUn (k: unop) (e: expr).
Fixpoint flatten e := match e with
  | ELeaf v => [TLeaf v] | EBin k l r => flatten l ++ TBin k :: flatten r | EUn k e => TUn k :: flatten e end.
Fixpoint tree e := match e with
  | ELeaf v => Node (Leaf v) [] | EBin k l r => Node (Bin k) [tree l; tree r] | EUn k e => Node (Un k) [tree e] end.
Definition top e := nop (tree e).
Fixpoint ok (F: list op) (e: expr) : Prop := match e with
  | ELeaf _ => True
  | EUn k e => ok (F ++ [Un k]) e
  | EBin k l r => ok F l /\ Forall (fun f => below f (Bin k) = true) F /\ below (top l) (Bin k) = false /\ ok (F ++ [Bin k]) r
  end.

(* ---- spine ---- *)
Definition frame := (op * list node)%type.
Definition wff (f: frame) := S (length (snd f)) = maxargs (fst f).
Definition inner (f: frame) := match fst f with Bin _ | Un _ => True | _ => False end.
Definition plugf (f: frame) (t: node) := Node (fst f) (snd f ++ [t]).
Fixpoint plug (C: list frame) (t: node) := match C with [] => t | f :: C' => plugf f (plug C' t) end.
Fixpoint plugO (f: frame) (C: list frame) : node :=
  match C with [] => Node (fst f) (snd f) | g :: C' => plugf f (plugO g C') end.
Definition rootf : frame := (Root, []).

Lemma on_last_cons {A} (g: A -> res A) a rest : rest <> [] ->
  on_last g (a :: rest) = bind (on_last g rest) (fun r => Ok (a :: r)).
Proof. destruct rest; [congruence|reflexivity]. Qed.
Lemma on_last_app {A} (g: A -> res A) l x : on_last g (l ++ [x]) = bind (g x) (fun y => Ok (l ++ [y])).
Proof.
  induction l as [|a l IH].
  - reflexivity.
  - cbn [app]. rewrite on_last_cons by (destruct l; discriminate). rewrite IH. destruct (g x); reflexivity.
Qed.

Lemma wff_not_leaf f : wff f -> is_leaf (fst f) = false.
Proof. unfold wff; destruct f as [[| | |] l]; cbn; intros; try reflexivity; lia. Qed.
Lemma wff_open_not_enough f : wff f -> Nat.eqb (length (snd f)) (maxargs (fst f)) = false.
Proof. unfold wff; intros H. apply Nat.eqb_neq. lia. Qed.
Lemma wff_full_enough f t : wff f -> Nat.eqb (length (snd f ++ [t])) (maxargs (fst f)) = true.
Proof. unfold wff; intros H. apply Nat.eqb_eq. rewrite app_length; cbn. lia. Qed.
Lemma inner_prec f : inner f -> prec (fst f) < 200.
Proof. unfold inner; destruct (fst f); cbn; intros; try tauto; auto. Qed.
Lemma nop_plugO f C : nop (plugO f C) = fst f. Proof. destruct C; reflexivity. Qed.
Lemma plug_app C D t : plug (C ++ D) t = plug C (plug D t).
Proof. induction C; cbn; congruence. Qed.
Lemma plugO_plug f C g : plugO f (C ++ [g]) = plug (f :: C) (Node (fst g) (snd g)).
Proof. revert f; induction C as [|h C IH]; intros f; cbn; [reflexivity|]. f_equal. apply IH. Qed.

(* A node that descends everywhere (precedence 200 or unary) reaches the hole and fills it. *)
Lemma insert_fill : forall C f x b,
  wff f -> Forall wff C -> Forall inner C ->
  (prec (nop x) = 200 \/ is_unary (nop x) = true) ->
  below (fst f) (nop x) || b = true ->
  insert (plugO f C) x b = Ok (plug (f :: C) x).
Proof.
  induction C as [|g C IH]; intros f x b Hf HC HI Hx Hb.
  - pose proof (wff_not_leaf _ Hf) as Hnl. pose proof (wff_open_not_enough _ Hf) as Hne.
    destruct f as [o l]; cbn [plugO plug plugf fst snd insert] in *.
    rewrite Hb, Hnl, Hne.
    assert (Hnb: Nat.eqb (maxargs (nop x)) 2 = false) by (destruct x as [[| | |] ?]; cbn in *; try reflexivity; destruct Hx as [Hx|Hx]; [pose proof (bprec_lt k); lia|discriminate]).
    rewrite Hnb, andb_false_r. reflexivity.
  - pose proof (wff_not_leaf _ Hf) as Hnl. pose proof (fun t => wff_full_enough _ t Hf) as Hen.
    destruct f as [o l]. cbn [plugO plug fst snd] in *. unfold plugf at 1; cbn [fst snd insert].
    rewrite Hb, Hnl, Hen, on_last_app.
    rewrite nop_plugO.
    assert (Hbel: below (fst g) (nop x) = true).
    { unfold below. destruct Hx as [Hx|Hx]; [|rewrite Hx, orb_true_r; reflexivity].
      rewrite Hx. pose proof (inner_prec g (Forall_inv HI)). 
      replace (prec (fst g) <? 200) with true by (symmetry; apply Z.ltb_lt; assumption). reflexivity. }
    rewrite Hbel, IH; [reflexivity|..]; try (inversion HC; inversion HI; assumption).
    rewrite Hbel; reflexivity.
Qed.

(* A unary node becomes the new innermost open frame. *)
Lemma insert_unary C f k b :
  wff f -> Forall wff C -> Forall inner C -> below (fst f) (Un k) || b = true ->
  insert (plugO f C) (Node (Un k) []) b = Ok (plugO f (C ++ [(Un k, [])])).
Proof.
  intros. rewrite plugO_plug. apply insert_fill; auto.
Qed.

(* A binary operator walks down the frames that bind weaker, stops at the completed operand, rotates. *)
Lemma insert_binary : forall C f t k b,
  wff f -> Forall wff C -> Forall inner C -> (fst f = Root -> snd f = []) ->
  below (fst f) (Bin k) || b = true ->
  Forall (fun g => below (fst g) (Bin k) = true) C ->
  below (nop t) (Bin k) = false ->
  insert (plug (f :: C) t) (Node (Bin k) []) b = Ok (plugO f (C ++ [(Bin k, [t])])).
Proof.
  induction C as [|g C IH]; intros f t k b Hf HC HI Hr Hb HB Ht.
  - pose proof (wff_not_leaf _ Hf) as Hnl. pose proof (fun t => wff_full_enough _ t Hf) as Hen.
    destruct f as [o l]; cbn [plug plugO plugf app fst snd insert nop] in *.
    rewrite Hb, Hnl, Hen, on_last_app, Ht.
    unfold rotate; cbn [nop nch is_leaf is_root andb negb app].
    destruct o; cbn [is_root andb]; try reflexivity.
    rewrite (Hr eq_refl); reflexivity.
  - pose proof (wff_not_leaf _ Hf) as Hnl. pose proof (fun t => wff_full_enough _ t Hf) as Hen.
    destruct f as [o l]. cbn [plug plugO app fst snd] in *. unfold plugf at 1 3; cbn [fst snd insert nop].
    rewrite Hb, Hnl, Hen, on_last_app.
    change (nop (plugf g (plug C t))) with (fst g).
    rewrite (Forall_inv HB).
    rewrite IH; [reflexivity|..]; try (inversion HC; inversion HI; inversion HB; assumption).
    + intros E. pose proof (Forall_inv HI) as Hi. unfold inner in Hi. rewrite E in Hi. tauto.
    + rewrite (Forall_inv HB); reflexivity.
Qed.

Lemma feed_app r ts us : feed r (ts ++ us) = bind (feed r ts) (fun r' => feed r' us).
Proof. revert r; induction ts as [|t ts IH]; intros r; cbn; [reflexivity|]. destruct (insert r (node_of t) true); cbn; auto. Qed.

(* The round trip, with the spine universally quantified and a continuation k. *)
Lemma wff_rootf : wff rootf. Proof. reflexivity. Qed.
Lemma plug_snoc C f t : plug (rootf :: C ++ [f]) t = plug (rootf :: C) (plugf f t).
Proof. rewrite app_comm_cons, plug_app. reflexivity. Qed.
Lemma Forall_map_fst (P: op -> Prop) (C: list frame) : Forall P (map fst C) -> Forall (fun g => P (fst g)) C.
Proof. induction C; cbn; intros H; constructor; inversion H; auto. Qed.

Theorem feed_expr : forall e C k,
  Forall wff C -> Forall inner C -> ok (map fst C) e ->
  feed (plugO rootf C) (flatten e ++ k) = feed (plug (rootf :: C) (tree e)) k.
Proof.
  induction e as [v|kb l IHl r IHr|ku e IHe]; intros C k HC HI Hok.
  - cbn [flatten app feed node_of tree].
    rewrite (insert_fill C rootf (Node (Leaf v) []) true wff_rootf HC HI);
      [reflexivity | left; reflexivity | apply orb_true_r].
  - cbn [flatten tree ok] in *. destruct Hok as (Hl & HF & Htop & Hr).
    rewrite <- app_assoc. rewrite (IHl C _ HC HI Hl). cbn [app feed node_of].
    rewrite (insert_binary C rootf (tree l) kb true wff_rootf HC HI (fun _ => eq_refl));
      [ | apply orb_true_r | apply Forall_map_fst with (P := fun f => below f (Bin kb) = true); exact HF | exact Htop ].
    cbn [bind].
    rewrite (IHr (C ++ [(Bin kb, [tree l])]) k).
    + rewrite plug_snoc. reflexivity.
    + apply Forall_app; split; [exact HC|]. constructor; [reflexivity|constructor].
    + apply Forall_app; split; [exact HI|]. constructor; [exact I|constructor].
    + rewrite map_app. exact Hr.
  - cbn [flatten tree ok app feed node_of] in *.
    rewrite (insert_unary C rootf ku true wff_rootf HC HI); [ | apply orb_true_r ].
    cbn [bind].
    rewrite (IHe (C ++ [(Un ku, [])]) k).
    + rewrite plug_snoc. reflexivity.
    + apply Forall_app; split; [exact HC|]. constructor; [reflexivity|constructor].
    + apply Forall_app; split; [exact HI|]. constructor; [exact I|constructor].
    + rewrite map_app. exact Hok.
Qed.

Corollary roundtrip e : ok [] e -> feed (Node Root []) (flatten e) = Ok (Node Root [tree e]).
Proof.
  intros H. rewrite <- (app_nil_r (flatten e)). change (Node Root []) with (plugO rootf []).
  rewrite (feed_expr e [] []); [reflexivity|constructor|constructor|exact H].
Qed.
Print Assumptions roundtrip.

(* ---- C13 core: the builder never reorders or drops tokens (needs the fix) ---- *)
Section Tokens.
Definition render (o: op) (subs: list (list tok)) : list tok :=
  match o with
  | Root => concat subs
  | Leaf v => TLeaf v :: concat subs
  | Un k => TUn k :: concat subs
  | Bin k => match subs with [] => [TBin k] | c :: r => c ++ TBin k :: concat r end
  end.
Fixpoint toks (n: node) : list tok := match n with Node o ch => render o (map toks ch) end.
Definition toksl (l: list node) := concat (map toks l).
Lemma toks_eq o ch : toks (Node o ch) =
  match o with Root => toksl ch | Leaf v => TLeaf v :: toksl ch | Un k => TUn k :: toksl ch
  | Bin k => match ch with [] => [TBin k] | c :: r => toks c ++ TBin k :: toksl r end end.
Proof. destruct o; try reflexivity. destruct ch; reflexivity. Qed.
Lemma toksl_app a b : toksl (a ++ b) = toksl a ++ toksl b.
Proof. unfold toksl. rewrite map_app, concat_app. reflexivity. Qed.
Lemma toksl_cons a b : toksl (a :: b) = toks a ++ toksl b. Proof. reflexivity. Qed.
Lemma toksl_nil : toksl [] = []. Proof. reflexivity. Qed.

(* every binary node already has its left operand *)
Inductive wfn : node -> Prop :=
  WF o ch : Forall wfn ch -> (forall k, o = Bin k -> ch <> []) -> wfn (Node o ch).
Definition fresh (n: node) := nch n = [] .

Lemma on_last_inv {A} (g: A -> res A) l r : on_last g l = Ok r ->
  exists init lc lc', l = init ++ [lc] /\ g lc = Ok lc' /\ r = init ++ [lc'].
Proof.
  revert r; induction l as [|a l IH]; intros r H; [discriminate|].
  destruct l as [|b l].
  - cbn in H. destruct (g a) eqn:E; try discriminate. inversion H; subst. exists [], a, a0. auto.
  - rewrite on_last_cons in H by discriminate. destruct (on_last g (b :: l)) eqn:E; try discriminate.
    cbn in H. inversion H; subst. destruct (IH _ eq_refl) as (i & lc & lc' & E1 & E2 & E3).
    exists (a :: i), lc, lc'. rewrite E1, E3. auto.
Qed.

Hypothesis Hfixed : fixed = true.

Fixpoint size (n: node) : nat := match n with Node _ ch => S (list_sum (map size ch)) end.
Lemma size_last o init lc : (size lc < size (Node o (init ++ [lc])))%nat.
Proof. cbn [size]. rewrite map_app, list_sum_app. cbn. lia. Qed.

Lemma insert_toks_m : forall m self, (size self < m)%nat -> forall n b r, wfn self -> fresh n -> nop n <> Root ->
  insert self n b = Ok r -> toks r = toks self ++ toks n /\ wfn r.
Proof.
  induction m as [|m IH]; [intros; lia|]. intros [so sch] Hm n b r Hwf Hfr Hnr H. cbn [insert] in H.
  destruct (below so (nop n) || b); [|discriminate].
  destruct (is_leaf so) eqn:El; [discriminate|].
  inversion Hwf as [o ch Hch Hbin]; subst o ch.
  destruct (Nat.eqb (length sch) (maxargs so)) eqn:Een.
  - destruct (on_last _ sch) as [c| |] eqn:Eo; try discriminate. cbn in H. inversion H; subst r; clear H.
    apply on_last_inv in Eo. destruct Eo as (init & lc & lc' & E1 & E2 & E3). subst sch c.
    assert (Hlc: wfn lc) by (apply Forall_app in Hch; destruct Hch as [_ Hc]; inversion Hc; assumption).
    assert (Hinit: Forall wfn init) by (apply Forall_app in Hch; tauto).
    assert (Hsub: toks lc' = toks lc ++ toks n /\ wfn lc').
    { destruct (below (nop lc) (nop n)) eqn:Eb.
      - eapply (IH lc); eauto. pose proof (size_last so init lc). lia.
      - unfold rotate in E2. destruct (is_leaf (nop n)) eqn:Eln; [discriminate|].
        repeat match type of E2 with (if ?c then _ else _) = _ => destruct c; [discriminate|] end.
        inversion E2; subst lc'. destruct n as [no nc]. unfold fresh in Hfr; cbn in Hfr; subst nc. cbn [nop nch app].
        split.
        + rewrite !toks_eq. destruct no; rewrite ?toksl_cons, ?toksl_nil; rewrite ?app_nil_r; try reflexivity; try discriminate.
          exfalso. unfold below in Eb. cbn [nop is_unary] in Eb. rewrite orb_true_r in Eb. discriminate.
        + constructor; [constructor; [assumption|constructor]|intros; discriminate]. }
    destruct Hsub as [Ht Hw]. split.
    + apply Nat.eqb_eq in Een. rewrite app_length in Een; cbn in Een.
      rewrite !toks_eq. destruct so; cbn in El, Een; try discriminate.
      * rewrite !toksl_app; rewrite ?toksl_cons, ?toksl_nil. rewrite !app_nil_r, Ht, app_assoc. reflexivity.
      * destruct init as [|i0 init]; cbn in Een; [lia|]. cbn [app]. rewrite !toksl_app; rewrite ?toksl_cons, ?toksl_nil.
        rewrite !app_nil_r, Ht. rewrite <- !app_assoc. cbn [app]. rewrite <- !app_assoc. reflexivity.
      * rewrite !toksl_app; rewrite ?toksl_cons, ?toksl_nil. rewrite !app_nil_r, Ht. cbn [app]. rewrite app_assoc. reflexivity.
    + constructor; [apply Forall_app; split; [assumption|constructor; [assumption|constructor]]|].
      intros k E. destruct init; discriminate.
  - rewrite Hfixed in H; cbn [andb] in H. destruct (Nat.eqb (maxargs (nop n)) 2) eqn:E2; [discriminate|].
    inversion H; subst r; clear H. split.
    + rewrite !toks_eq. destruct so; cbn in El; try discriminate.
      * rewrite toksl_app, toksl_cons, toksl_nil, app_nil_r. reflexivity.
      * destruct sch as [|c rest]; [exfalso; eapply Hbin; eauto|]. cbn [app].
        rewrite toksl_app, toksl_cons, toksl_nil, app_nil_r, <- app_assoc. reflexivity.
      * rewrite toksl_app, toksl_cons, toksl_nil, app_nil_r. reflexivity.
    + constructor.
      * apply Forall_app; split; [assumption|]. constructor; [|constructor].
        destruct n as [no nc]. unfold fresh in Hfr; cbn in Hfr; subst nc. constructor; [constructor|].
        intros k E. subst no. cbn in E2. discriminate.
      * intros k E. subst so. destruct sch; [exfalso; eapply Hbin; eauto|discriminate].
Qed.

Lemma insert_toks self n b r : wfn self -> fresh n -> nop n <> Root ->
  insert self n b = Ok r -> toks r = toks self ++ toks n /\ wfn r.
Proof. apply (insert_toks_m (S (size self))). lia. Qed.

Theorem feed_toks : forall ts root r, wfn root -> feed root ts = Ok r -> toks r = toks root ++ ts.
Proof.
  induction ts as [|t ts IH]; intros root r Hw H; cbn [feed] in H.
  - inversion H; subst. rewrite app_nil_r; reflexivity.
  - destruct (insert root (node_of t) true) as [r1| |] eqn:E; try discriminate. cbn [bind] in H.
    apply insert_toks in E; [|assumption|destruct t; reflexivity|destruct t; discriminate].
    destruct E as [E Hw1]. rewrite (IH _ _ Hw1 H), E, <- app_assoc. f_equal.
    destruct t; cbn [node_of]; rewrite toks_eq; reflexivity.
Qed.
Print Assumptions feed_toks.
End Tokens.
End Spike.
