import random, subprocess, sys
exec(open('spike_c02.py').read().split("D=int(sys.argv[1])")[0])
BIN.update({'/':('Div',100),'!=':('Neq',80),'>':('Gt',80),'>=':('Geq',80),'<=':('Leq',80)})
ASG.update({'-=':('SubAssign',50,False),'*=':('MulAssign',50,False),'/=':('DivAssign',50,False),'%=':('ModAssign',50,False),'^=':('ExpAssign',50,False),'&&=':('AndAssign',50,False),'||=':('OrAssign',50,False)})
random.seed(int(sys.argv[1])); N=int(sys.argv[2])
def rnd(d):
    if d==0 or random.random()<0.15:
        return random.choice([('lit','1'),('lit','2.5'),('lit','true'),('lit','"s"'),('var','a'),('var','b')])
    k=random.random()
    if k<0.45: return ('bin',random.choice(list(BIN)),rnd(d-1),rnd(d-1))
    if k<0.60: return ('pre',random.choice('-!'),rnd(d-1))
    if k<0.72: return ('paren',rnd(d-1))
    if k<0.84:
        a=rnd(d-1)
        return ('call','f',a if primary(a) else ('paren',a))
    return ('asg',random.choice(list(ASG)),random.choice('xy'),rnd(d-1))
def fix(F,e):
    """insert minimal parens so that e fits (paren_min) - top-down"""
    k=e[0]
    if k in('lit','var'): return e
    if k=='paren': return ('paren',fix([],e[1]))
    if k=='pre': return ('pre',e[1],fix(F+[(110,False)],e[2]))
    if k=='call': return ('call',e[1],fix(F+[(190,True)],e[2]))
    o=pr(e)
    if not all(below(f,o) for f in F): return ('paren',fix([],e))
    if k=='asg': return ('asg',e[1],e[2],fix(F+[o],e[3]))
    l=e[2]
    if below(pr(l),o): l=('paren',fix([],l))
    else: l=fix(F,l)
    return ('bin',e[1],l,fix(F+[o],e[3]))
cases=[]
for i in range(N):
    e=rnd(random.randint(2,7))
    if random.random()<0.7: e=fix([],e)
    cases.append(e)
def render(e):
    # dash handling: '- -' needs space; join with spaces always
    return ' '.join(flat(e))
inp='\n'.join(render(e) for e in cases)+'\n'
out=subprocess.run(['/root/scratch/exp/target/release/exp'],input=inp,capture_output=True,text=True).stdout.split('\n')
nf=nfok=nn=nnbad=0; bad=[]
for e,o in zip(cases,out):
    want='R['+tree(e)+']'
    want=want.replace('2.5','2.5').replace('"s"','"s"')
    if fits([],e):
        nf+=1
        if o==want: nfok+=1
        else: bad.append(('FITS-BUT-DIFF',render(e),want,o))
    else:
        nn+=1
        if o==want: nnbad+=1; bad.append(('NOFIT-BUT-SAME',render(e),want,o))
print(f"cases={len(cases)} fits={nf} fits_ok={nfok} nofit={nn} nofit_but_same={nnbad} maxlen={max(len(render(e)) for e in cases)}")
for b in bad[:10]: print(b)
