(* C05 -- Tuples and chains compose: `,` aggregates, `;` sequences.
   This file holds only the property theorems; every proof is `exact <lemma of Proofs/C05.v or Proofs/C02.v>`.

   Vocabulary (Spec/Grammar.v): a sequence (seq) is a chain of tuples of elements, an element being an
   expression or absent; nesting arises only through Paren inside expressions.  flatten_seq renders it,
   tree_of_seq_top is the reference tree: RootNode [Chain [item ...]] as soon as there is a `;`, an item
   being an element root or a Tuple of element roots; an absent element is the RootNode without children. *)
From Coq Require Import Floats.SpecFloat Strings.String.
Require Import Model.Base Model.Syntax Model.F64 Model.Lexer Model.Value Model.Context Model.Builder Model.Eval.
Require Import Spec.OpTable Spec.Grammar Proofs.TableFacts Proofs.C02 Proofs.C05.

(* ---- the tree ---- *)

(* Every sequence mixing `,` and `;` in any order, with any elements including absent ones, assignments and
   nested parenthesised sequences at any depth, is parsed into its reference tree. *)
Theorem C05_tree : forall s : seq, ok_seq s ->
  tokens_to_operator_tree (flatten_seq s) = Ok (tree_of_seq_top s).
Proof. exact seq_parse. Qed.

(* The same for one parenthesis level on top of ANY root_stack `tail` (top at the head), k being what
   follows: the level's tokens take the fresh level root to the stack level_end tail s, and
   collapse_all_sequences -- run at `)` and at the end of the input -- closes that into the reference RootNode
   of the sequence and leaves the stack below untouched. *)
Theorem C05_level : forall (tail : list node) (s : seq) (k : list token), ok_seq s -> follow_ok k ->
  (exists lr', build_loop (flatten_seq s ++ k) (root_node :: tail) false = build_loop k (level_end tail s) lr')
  /\ collapse_all_sequences (level_end tail s) = Ok (tree_of_seq_top s :: tail).
Proof. exact level_tree. Qed.

(* The root_stack invariant: a level is [R], Tuple :: R0, Chain :: R0 or Tuple :: Chain :: R0 (top first, R0
   the empty placeholder root of the level), and the last child X of the top sequence node is a RootNode: the
   root of the element being parsed (level_shape is defined in Proofs/C05.v by exactly these four cases). *)
Theorem C05_stack_invariant : forall (tail : list node) (s : seq), ok_seq s ->
  level_shape tail (level_end tail s).
Proof. exact level_end_shape. Qed.

(* The tuple operator binds tighter than the chain operator: `a, b; c, d` is a chain of two tuples,
   for all elements a b c d (absent ones included). *)
Theorem C05_tuple_binds_tighter : forall a b c d : elem, ok_seq [[a; b]; [c; d]] ->
  tokens_to_operator_tree
    (flatten_elem a ++ TComma :: flatten_elem b ++ TSemicolon :: flatten_elem c ++ TComma :: flatten_elem d)
  = Ok (Node ORootNode [Node OChain [Node OTuple [elem_root a; elem_root b]; Node OTuple [elem_root c; elem_root d]]]).
Proof. exact tuple_binds_tighter. Qed.

(* In general: with at least one `;` the tree is one Chain of the items in order, and an item with at least one
   `,` is one flat Tuple of its elements; a Tuple never contains a Chain except through parentheses. *)
Theorem C05_chain_of_tuples : forall (t1 t2 : tuple) (rest : list tuple), ok_seq (t1 :: t2 :: rest) ->
  tokens_to_operator_tree (flatten_seq (t1 :: t2 :: rest)) =
  Ok (Node ORootNode [Node OChain (map item_tree (t1 :: t2 :: rest))])
  /\ forall (e1 e2 : elem) (more : list elem),
       item_tree (e1 :: e2 :: more) = Node OTuple (map elem_root (e1 :: e2 :: more)).
Proof. exact chain_of_tuples. Qed.

(* ---- the value (eval_in_order, Spec/Grammar.v: the sub-trees left to right, threading context and log) ---- *)

(* evaluating any node is: its children in order, then its operator *)
Theorem C05_eval_node : forall (O : std_oracle) (o : operator) (ch : list node) (c : ctx) (lg : log),
  eval_mut O (Node o ch) c lg =
  match eval_in_order O ch c lg with
  | (Ok vs, c1, lg1) => op_eval_mut O o vs c1 lg1
  | (Err e, c1, lg1) => (Err e, c1, lg1)
  | (Panic s, c1, lg1) => (Panic s, c1, lg1)
  end.
Proof. exact eval_mut_node. Qed.

(* `;` evaluates all its elements in order and yields the last one's value, in the context all of them left *)
Theorem C05_value_chain : forall (O : std_oracle) (ch : list node) (c : ctx) (lg : log) (vs : list value) (c1 : ctx) (lg1 : log),
  ch <> [] -> eval_in_order O ch c lg = (Ok vs, c1, lg1) ->
  eval_mut O (Node OChain ch) c lg = (Ok (last vs VEmpty), c1, lg1).
Proof. exact chain_value. Qed.

(* `,` yields the tuple of all its elements' values *)
Theorem C05_value_tuple : forall (O : std_oracle) (ch : list node) (c : ctx) (lg : log) (vs : list value) (c1 : ctx) (lg1 : log),
  eval_in_order O ch c lg = (Ok vs, c1, lg1) ->
  eval_mut O (Node OTuple ch) c lg = (Ok (VTuple vs), c1, lg1).
Proof. exact tuple_value. Qed.

(* the elements are evaluated strictly in order, each in the context and log the earlier ones left *)
Theorem C05_value_in_order : forall (O : std_oracle) (a b : list node) (c : ctx) (lg : log),
  eval_in_order O (a ++ b) c lg =
  match eval_in_order O a c lg with
  | (Ok vs, c1, lg1) =>
      match eval_in_order O b c1 lg1 with
      | (Ok ws, c2, lg2) => (Ok (vs ++ ws), c2, lg2)
      | r => r
      end
  | r => r
  end.
Proof. exact eval_in_order_app. Qed.

(* the first failing element decides; the later ones are not evaluated *)
Theorem C05_value_error : forall (O : std_oracle) (o : operator) (a : list node) (x : node) (b : list node)
    (c : ctx) (lg : log) (vs : list value) (c1 : ctx) (lg1 : log) (e : error) (c2 : ctx) (lg2 : log),
  eval_in_order O a c lg = (Ok vs, c1, lg1) -> eval_mut O x c1 lg1 = (Err e, c2, lg2) ->
  eval_mut O (Node o (a ++ x :: b)) c lg = (Err e, c2, lg2).
Proof. exact first_error_decides. Qed.

(* an absent element (leading, trailing or doubled separator, or `()`) is the empty value *)
Theorem C05_empty : forall (O : std_oracle) (c : ctx) (lg : log),
  elem_root None = Node ORootNode [] /\ tree_of PUnit = Node ORootNode [] /\
  eval_mut O (Node ORootNode []) c lg = (Ok VEmpty, c, lg).
Proof. exact absent_is_empty. Qed.

(* an element root, or a pair of parentheses around one expression, is transparent *)
Theorem C05_root_transparent : forall (O : std_oracle) (n : node) (c : ctx) (lg : log),
  eval_mut O (Node ORootNode [n]) c lg = eval_mut O n c lg.
Proof. exact single_root_value. Qed.

(* so a chain ending in `;` evaluates all its items and yields the empty value *)
Theorem C05_trailing_semicolon : forall (O : std_oracle) (s : seq) (c : ctx) (lg : log) (vs : list value) (c1 : ctx) (lg1 : log),
  s <> [] -> eval_in_order O (map item_tree s) c lg = (Ok vs, c1, lg1) ->
  eval_mut O (tree_of_seq_top (s ++ [[None]])) c lg = (Ok VEmpty, c1, lg1).
Proof. exact trailing_semicolon_seq. Qed.

(* the value of a whole input with at least one `;` is the value of the Chain of its items *)
Theorem C05_value_seq : forall (O : std_oracle) (t1 t2 : tuple) (rest : list tuple) (c : ctx) (lg : log),
  eval_mut O (tree_of_seq_top (t1 :: t2 :: rest)) c lg =
  eval_mut O (Node OChain (map item_tree (t1 :: t2 :: rest))) c lg.
Proof. exact chain_seq_value. Qed.

(* ---- non-vacuity and the inputs named in the property ---- *)

Definition one : expr := Lit (LInt 1). Definition two : expr := Lit (LInt 2).
Definition three : expr := Lit (LInt 3). Definition four : expr := Lit (LInt 4).
Definition var_x : expr := Var (s2l "x"%string).

(* `1, 2; 3, 4` *)
Example C05_a_b_c_d :
  tokens_to_operator_tree [TInt 1; TComma; TInt 2; TSemicolon; TInt 3; TComma; TInt 4] =
  Ok (Node ORootNode [Node OChain [Node OTuple [Node ORootNode [Node (OConst (VInt 1)) []]; Node ORootNode [Node (OConst (VInt 2)) []]];
                                   Node OTuple [Node ORootNode [Node (OConst (VInt 3)) []]; Node ORootNode [Node (OConst (VInt 4)) []]]]]).
Proof. vm_compute. reflexivity. Qed.

(* the three inputs of the property text: `1, 2; 3`   `1; 2, 3; 4`   `x = 1; x, 2; x + 1` *)
Example C05_tuple_then_chain :
  ok_seq [[Some one; Some two]; [Some three]] /\
  ok_seq [[Some one]; [Some two; Some three]; [Some four]] /\
  ok_seq [[Some (Asg AAssign (s2l "x"%string) one)]; [Some var_x; Some two]; [Some (Bin BAdd var_x one)]] /\
  flatten_seq [[Some (Asg AAssign (s2l "x"%string) one)]; [Some var_x; Some two]; [Some (Bin BAdd var_x one)]] =
  [TIdentifier (s2l "x"%string); TAssign; TInt 1; TSemicolon; TIdentifier (s2l "x"%string); TComma; TInt 2; TSemicolon;
   TIdentifier (s2l "x"%string); TPlus; TInt 1].
Proof. vm_compute. repeat split; reflexivity. Qed.

Example C05_values : forall O : std_oracle,
  (* 1, 2; 3  =  3 *)
  fst (fst (eval_mut O (tree_of_seq_top [[Some one; Some two]; [Some three]]) empty_hashmap [])) = Ok (VInt 3) /\
  (* 1; 2, 3; 4  =  4 *)
  fst (fst (eval_mut O (tree_of_seq_top [[Some one]; [Some two; Some three]; [Some four]]) empty_hashmap [])) = Ok (VInt 4) /\
  (* x = 1; x, 2; x + 1  =  2 *)
  fst (fst (eval_mut O (tree_of_seq_top [[Some (Asg AAssign (s2l "x"%string) one)]; [Some var_x; Some two]; [Some (Bin BAdd var_x one)]])
                     empty_hashmap [])) = Ok (VInt 2) /\
  (* x = 1; x, 2  =  (1, 2) *)
  fst (fst (eval_mut O (tree_of_seq_top [[Some (Asg AAssign (s2l "x"%string) one)]; [Some var_x; Some two]]) empty_hashmap []))
    = Ok (VTuple [VInt 1; VInt 2]) /\
  (* x = 1;  =  () *)
  fst (fst (eval_mut O (tree_of_seq_top [[Some (Asg AAssign (s2l "x"%string) one)]; [None]]) empty_hashmap [])) = Ok VEmpty.
Proof. intros O. repeat split; vm_compute; reflexivity. Qed.

(* the hypothesis of C05_value_chain / C05_value_tuple on the items of `x = 1; x, 2`: the assignment yields the
   empty value and its effect is seen by the tuple *)
Example C05_in_order_instance : forall O : std_oracle,
  fst (fst (eval_in_order O (map item_tree [[Some (Asg AAssign (s2l "x"%string) one)]; [Some var_x; Some two]])
                          empty_hashmap [])) = Ok [VEmpty; VTuple [VInt 1; VInt 2]].
Proof. intros O. vm_compute. reflexivity. Qed.

(* nesting and absent elements: `(1, ; ()), (2; 3,)` *)
Example C05_nested :
  let s : seq := [[Some (Paren [[Some one; None]; [Some PUnit]]); Some (Paren [[Some two]; [Some three; None]])]] in
  ok_seq s /\
  flatten_seq s = [TLBrace; TInt 1; TComma; TSemicolon; TLBrace; TRBrace; TRBrace; TComma;
                   TLBrace; TInt 2; TSemicolon; TInt 3; TComma; TRBrace] /\
  tokens_to_operator_tree (flatten_seq s) = Ok (tree_of_seq_top s).
Proof. cbn zeta. repeat split; vm_compute; reflexivity. Qed.

(* a level in the fourth shape: after `1; 2, 3` the stack is Tuple :: Chain :: R0 *)
Example C05_shape_instance :
  level_end [] [[Some one]; [Some two; Some three]] =
  [Node OTuple [elem_root (Some two); elem_root (Some three)]; Node OChain [elem_root (Some one)]; root_node].
Proof. reflexivity. Qed.
