(* FloatIEEE2 -- the model's float arithmetic (Model/F64.v) IS IEEE-754 binary64, second part.

   Props/FloatIEEE.v states that + - * / sqrt, i64->f64, decimal->f64 and compare are the correctly
   rounded operations ON FINITE INPUTS, through real values (which cannot see the sign of a zero).
   This file closes what that leaves open -- exactly the rows (+-0.0, inf, NaN) that the verified
   properties C03 / C10 stress:
     A. the special-value tables (NaN, +-inf, +-0) of + - * / sqrt neg abs
     B. the SIGN of results, in particular of zero results, for finite operands
     C. the derived comparisons f_eqb / f_ltb / f_leb / f_gtb / f_geb
     D. `%` (f_rem, hand-written in the model) is the exact C fmod
     E. floor / ceil / round (f_round_int, hand-written in the model)
     F. the classification predicates f_is_nan / f_is_finite / f_is_infinite / f_is_normal
   This file holds only the theorems; every proof is `exact <lemma of Proofs/FloatBridge2.v>`.

   AXIOMS.  By special dispensation this file and Proofs/FloatBridge2.v import Flocq and Coq's Reals.
   The output of Print Assumptions is recorded after each theorem.  "CLOSED" means
   "Closed under the global context" (no axiom at all); "4 axioms" means exactly the four axioms of the
   classical real numbers of Coq's standard library
       ClassicalDedekindReals.sig_not_dec, ClassicalDedekindReals.sig_forall_dec,
       FunctionalExtensionality.functional_extensionality_dep, Classical_Prop.classic
   and nothing else (checked with a scratch file that Requires this one, see the end of the file).
   Every theorem whose statement does not mention real numbers is CLOSED. *)
From Coq Require Import ZArith Reals Bool Floats.SpecFloat.
From Flocq Require Import Core.Core IEEE754.BinarySingleNaN.
Require Import Model.Base Model.F64.
Require Import Proofs.FloatBridge Proofs.FloatBridge2.

(* Vocabulary (notations only, nothing is hidden behind a definition):
     NaN, Inf s, Zero s, Fin s m e   the four constructors of spec_float; s = true is the NEGATIVE sign;
                                     Fin s m e is the non-zero number (-1)^s * m * 2^e
     rval x   the real value of a spec_float (0 for zeros, infinities and NaN)
     valid    SpecFloat.valid_binary 53 1024: canonical mantissa/exponent, exponent <= 971
     sign_SF, is_nan_SF, is_finite_SF  Flocq's projections of a spec_float (sign_SF NaN = false;
                                     is_finite_SF holds of zeros and Fin) *)
Local Notation NaN := S754_nan (only parsing).
Local Notation Inf := S754_infinity (only parsing).
Local Notation Zero := S754_zero (only parsing).
Local Notation Fin := S754_finite (only parsing).
Local Notation rval := (SF2R radix2).
Local Notation valid := (valid_binary 53 1024).

(* ------------------------------------------------------------------------------------------ *)
(* A. Special values: the IEEE-754 tables.  Every combination of operand classes in which at     *)
(*    least one operand is NaN, an infinity or a zero.  All CLOSED (case analysis).              *)
(* ------------------------------------------------------------------------------------------ *)

Theorem add_nan : forall x : f64, f_add NaN x = NaN /\ f_add x NaN = NaN.
Proof. exact FloatBridge2.add_nan. Qed.
(* Print Assumptions add_nan.  ==> CLOSED *)

Theorem add_special : forall (sx sy : bool) (m : positive) (e : Z),
  (* infinities: inf + inf of the same sign, inf - inf = NaN, inf + anything finite *)
  f_add (Inf sx) (Inf sx) = Inf sx /\
  f_add (Inf sx) (Inf (negb sx)) = NaN /\
  f_add (Inf sx) (Zero sy) = Inf sx /\ f_add (Zero sy) (Inf sx) = Inf sx /\
  f_add (Inf sx) (Fin sy m e) = Inf sx /\ f_add (Fin sy m e) (Inf sx) = Inf sx /\
  (* zeros: the sum of two zeros is -0 only when both are -0; +0 + -0 = +0 *)
  f_add (Zero sx) (Zero sy) = Zero (sx && sy) /\
  f_add (Zero sx) (Fin sy m e) = Fin sy m e /\ f_add (Fin sy m e) (Zero sx) = Fin sy m e /\
  (* x + (-x) = +0 in round-to-nearest *)
  f_add (Fin sx m e) (Fin (negb sx) m e) = Zero false.
Proof. exact FloatBridge2.add_special. Qed.
(* ==> CLOSED *)

Theorem sub_nan : forall x : f64, f_sub NaN x = NaN /\ f_sub x NaN = NaN.
Proof. exact FloatBridge2.sub_nan. Qed.
(* ==> CLOSED *)

Theorem sub_special : forall (sx sy : bool) (m : positive) (e : Z),
  f_sub (Inf sx) (Inf sx) = NaN /\
  f_sub (Inf sx) (Inf (negb sx)) = Inf sx /\
  f_sub (Inf sx) (Zero sy) = Inf sx /\ f_sub (Zero sy) (Inf sx) = Inf (negb sx) /\
  f_sub (Inf sx) (Fin sy m e) = Inf sx /\ f_sub (Fin sy m e) (Inf sx) = Inf (negb sx) /\
  (* zeros: -0 only from (-0) - (+0) *)
  f_sub (Zero sx) (Zero sy) = Zero (sx && negb sy) /\
  f_sub (Zero sx) (Fin sy m e) = Fin (negb sy) m e /\ f_sub (Fin sy m e) (Zero sx) = Fin sy m e /\
  (* x - x = +0 in round-to-nearest *)
  f_sub (Fin sx m e) (Fin sx m e) = Zero false.
Proof. exact FloatBridge2.sub_special. Qed.
(* ==> CLOSED *)

Theorem mul_nan : forall x : f64, f_mul NaN x = NaN /\ f_mul x NaN = NaN.
Proof. exact FloatBridge2.mul_nan. Qed.
(* ==> CLOSED *)

Theorem mul_special : forall (sx sy : bool) (m : positive) (e : Z),
  f_mul (Inf sx) (Inf sy) = Inf (xorb sx sy) /\
  f_mul (Inf sx) (Fin sy m e) = Inf (xorb sx sy) /\ f_mul (Fin sx m e) (Inf sy) = Inf (xorb sx sy) /\
  f_mul (Inf sx) (Zero sy) = NaN /\ f_mul (Zero sx) (Inf sy) = NaN /\          (* inf * 0 *)
  f_mul (Zero sx) (Zero sy) = Zero (xorb sx sy) /\
  f_mul (Zero sx) (Fin sy m e) = Zero (xorb sx sy) /\ f_mul (Fin sx m e) (Zero sy) = Zero (xorb sx sy).
Proof. exact FloatBridge2.mul_special. Qed.
(* ==> CLOSED *)

Theorem div_nan : forall x : f64, f_div NaN x = NaN /\ f_div x NaN = NaN.
Proof. exact FloatBridge2.div_nan. Qed.
(* ==> CLOSED *)

Theorem div_special : forall (sx sy : bool) (m : positive) (e : Z),
  f_div (Inf sx) (Inf sy) = NaN /\
  f_div (Zero sx) (Zero sy) = NaN /\
  f_div (Inf sx) (Zero sy) = Inf (xorb sx sy) /\
  f_div (Inf sx) (Fin sy m e) = Inf (xorb sx sy) /\
  f_div (Fin sx m e) (Zero sy) = Inf (xorb sx sy) /\       (* x / 0 for finite non-zero x *)
  f_div (Zero sx) (Inf sy) = Zero (xorb sx sy) /\
  f_div (Fin sx m e) (Inf sy) = Zero (xorb sx sy) /\
  f_div (Zero sx) (Fin sy m e) = Zero (xorb sx sy).
Proof. exact FloatBridge2.div_special. Qed.
(* ==> CLOSED *)

(* sqrt(-0) = -0, sqrt(+inf) = +inf, sqrt of anything negative is NaN; the square root of a positive
   number is never NaN and never negative (its value is given by FloatIEEE.IEEE_sqrt) *)
Theorem sqrt_special : forall (s : bool) (m : positive) (e : Z),
  f_sqrt NaN = NaN /\
  f_sqrt (Inf false) = Inf false /\ f_sqrt (Inf true) = NaN /\
  f_sqrt (Zero s) = Zero s /\
  f_sqrt (Fin true m e) = NaN /\
  (is_nan_SF (f_sqrt (Fin false m e)) = false /\ sign_SF (f_sqrt (Fin false m e)) = false).
Proof. exact FloatBridge2.sqrt_special2. Qed.
(* ==> CLOSED *)

Theorem neg_table : forall (s : bool) (m : positive) (e : Z),
  f_neg NaN = NaN /\ f_neg (Inf s) = Inf (negb s) /\ f_neg (Zero s) = Zero (negb s) /\
  f_neg (Fin s m e) = Fin (negb s) m e.
Proof. exact FloatBridge2.neg_table. Qed.
(* ==> CLOSED *)

Theorem abs_table : forall (s : bool) (m : positive) (e : Z),
  f_abs NaN = NaN /\ f_abs (Inf s) = Inf false /\ f_abs (Zero s) = Zero false /\
  f_abs (Fin s m e) = Fin false m e.
Proof. exact FloatBridge2.abs_table. Qed.
(* ==> CLOSED *)

Theorem neg_sign : forall x : f64, is_nan_SF x = false ->
  sign_SF (f_neg x) = negb (sign_SF x) /\ is_nan_SF (f_neg x) = false.
Proof. exact FloatBridge2.neg_sign. Qed.
(* ==> CLOSED *)

Theorem abs_sign : forall x : f64, sign_SF (f_abs x) = false.
Proof. exact FloatBridge2.abs_sign. Qed.
(* ==> CLOSED *)

(* subtraction is addition of the negation, on every class of operand *)
Theorem sub_is_add_neg : forall x y : f64, f_sub x y = f_add x (f_neg y).
Proof. exact FloatBridge2.f_sub_add_neg. Qed.
(* ==> CLOSED *)

(* ------------------------------------------------------------------------------------------ *)
(* B. The sign of results for finite operands                                                    *)
(* ------------------------------------------------------------------------------------------ *)

(* Products and quotients: whenever the result is not NaN its sign is the xor of the signs -- for
   every class of operand, for exact zeros, and for results that UNDERFLOW to zero or overflow. *)
Theorem mul_sign : forall x y : f64, is_nan_SF (f_mul x y) = false ->
  sign_SF (f_mul x y) = xorb (sign_SF x) (sign_SF y).
Proof. exact FloatBridge2.mul_sign. Qed.
(* ==> CLOSED *)

Theorem div_sign : forall x y : f64, is_nan_SF (f_div x y) = false ->
  sign_SF (f_div x y) = xorb (sign_SF x) (sign_SF y).
Proof. exact FloatBridge2.div_sign. Qed.
(* ==> CLOSED *)

(* finite operands: never NaN (validity is not even needed) *)
Theorem mul_sign_finite : forall x y : f64, is_finite_SF x = true -> is_finite_SF y = true ->
  is_nan_SF (f_mul x y) = false /\ sign_SF (f_mul x y) = xorb (sign_SF x) (sign_SF y).
Proof. exact FloatBridge2.mul_sign_finite. Qed.
(* ==> CLOSED *)

Theorem div_sign_finite : forall x y : f64, is_finite_SF x = true ->
  (match y with S754_finite _ _ _ => true | _ => false end) = true ->
  is_nan_SF (f_div x y) = false /\ sign_SF (f_div x y) = xorb (sign_SF x) (sign_SF y).
Proof. exact FloatBridge2.div_sign_finite. Qed.
(* ==> CLOSED *)

Theorem mul_zero_sign : forall (x y : f64) (s : bool),
  f_mul x y = Zero s -> s = xorb (sign_SF x) (sign_SF y).
Proof. exact FloatBridge2.mul_zero_sign. Qed.
(* ==> CLOSED *)

Theorem div_zero_sign : forall (x y : f64) (s : bool),
  f_div x y = Zero s -> s = xorb (sign_SF x) (sign_SF y).
Proof. exact FloatBridge2.div_zero_sign. Qed.
(* ==> CLOSED *)

(* Sums and differences of finite operands: the sign of the result is the sign of the EXACT sum; when
   the exact sum is zero the result is -0 iff both operands are negative (IEEE-754 6.3 for
   round-to-nearest).  Overflow to an infinity included. *)
Theorem add_sign : forall x y : f64,
  valid x = true -> valid y = true -> is_finite_SF x = true -> is_finite_SF y = true ->
  is_nan_SF (f_add x y) = false /\
  sign_SF (f_add x y) =
    match Rcompare (rval x + rval y) 0 with
    | Eq => sign_SF x && sign_SF y
    | Lt => true
    | Gt => false
    end.
Proof. exact FloatBridge2.IEEE_add_sign. Qed.
(* ==> 4 axioms *)

Theorem sub_sign : forall x y : f64,
  valid x = true -> valid y = true -> is_finite_SF x = true -> is_finite_SF y = true ->
  is_nan_SF (f_sub x y) = false /\
  sign_SF (f_sub x y) =
    match Rcompare (rval x - rval y) 0 with
    | Eq => sign_SF x && negb (sign_SF y)
    | Lt => true
    | Gt => false
    end.
Proof. exact FloatBridge2.IEEE_sub_sign. Qed.
(* ==> 4 axioms *)

(* a zero SUM: operands of opposite signs (or +0 and -0) give +0, two negative zeros give -0 *)
Theorem add_exact_zero : forall x y : f64,
  valid x = true -> valid y = true -> is_finite_SF x = true -> is_finite_SF y = true ->
  (rval x + rval y = 0)%R -> f_add x y = Zero (sign_SF x && sign_SF y).
Proof. exact FloatBridge2.add_exact_zero. Qed.
(* ==> 4 axioms *)

Theorem sub_exact_zero : forall x y : f64,
  valid x = true -> valid y = true -> is_finite_SF x = true -> is_finite_SF y = true ->
  (rval x - rval y = 0)%R -> f_sub x y = Zero (sign_SF x && negb (sign_SF y)).
Proof. exact FloatBridge2.sub_exact_zero. Qed.
(* ==> 4 axioms *)

(* and a sum is a zero ONLY when it is exactly zero (addition does not underflow to zero) *)
Theorem add_zero_only_exact : forall (x y : f64) (s : bool),
  valid x = true -> valid y = true -> is_finite_SF x = true -> is_finite_SF y = true ->
  f_add x y = Zero s -> (rval x + rval y = 0)%R.
Proof. exact FloatBridge2.add_zero_only_exact. Qed.
(* ==> 4 axioms *)

(* ------------------------------------------------------------------------------------------ *)
(* C. Rust's == < <= > >= on f64                                                                 *)
(* ------------------------------------------------------------------------------------------ *)

(* NaN compares false with everything, itself included *)
Theorem cmp_nan : forall x : f64,
  f_eqb NaN x = false /\ f_eqb x NaN = false /\
  f_ltb NaN x = false /\ f_ltb x NaN = false /\
  f_leb NaN x = false /\ f_leb x NaN = false /\
  f_gtb NaN x = false /\ f_gtb x NaN = false /\
  f_geb NaN x = false /\ f_geb x NaN = false.
Proof. exact FloatBridge2.cmp_nan. Qed.
(* ==> CLOSED *)

(* +0 and -0 are equal and neither is less *)
Theorem cmp_zeros : forall s1 s2 : bool,
  f_eqb (Zero s1) (Zero s2) = true /\ f_ltb (Zero s1) (Zero s2) = false /\
  f_leb (Zero s1) (Zero s2) = true /\ f_gtb (Zero s1) (Zero s2) = false /\
  f_geb (Zero s1) (Zero s2) = true.
Proof. exact FloatBridge2.cmp_zeros. Qed.
(* ==> CLOSED *)

(* finite values (zeros included) compare as their real values *)
Theorem cmp_finite : forall x y : f64,
  valid x = true -> valid y = true -> is_finite_SF x = true -> is_finite_SF y = true ->
  f_eqb x y = Req_bool (rval x) (rval y) /\
  f_ltb x y = Rlt_bool (rval x) (rval y) /\
  f_leb x y = Rle_bool (rval x) (rval y) /\
  f_gtb x y = Rlt_bool (rval y) (rval x) /\
  f_geb x y = Rle_bool (rval y) (rval x).
Proof. exact FloatBridge2.cmp_finite. Qed.
(* ==> 4 axioms *)

(* +inf is above and -inf is below every finite value *)
Theorem cmp_inf_finite : forall x : f64, is_finite_SF x = true ->
  f_ltb x (Inf false) = true /\ f_leb x (Inf false) = true /\ f_eqb x (Inf false) = false /\
  f_gtb x (Inf false) = false /\ f_geb x (Inf false) = false /\
  f_ltb (Inf false) x = false /\ f_leb (Inf false) x = false /\ f_eqb (Inf false) x = false /\
  f_gtb (Inf false) x = true /\ f_geb (Inf false) x = true /\
  f_ltb (Inf true) x = true /\ f_leb (Inf true) x = true /\ f_eqb (Inf true) x = false /\
  f_gtb (Inf true) x = false /\ f_geb (Inf true) x = false /\
  f_ltb x (Inf true) = false /\ f_leb x (Inf true) = false /\ f_eqb x (Inf true) = false /\
  f_gtb x (Inf true) = true /\ f_geb x (Inf true) = true.
Proof. exact FloatBridge2.cmp_inf_finite. Qed.
(* ==> CLOSED *)

Theorem cmp_inf_inf : forall s : bool,
  f_eqb (Inf s) (Inf s) = true /\ f_leb (Inf s) (Inf s) = true /\ f_geb (Inf s) (Inf s) = true /\
  f_ltb (Inf s) (Inf s) = false /\ f_gtb (Inf s) (Inf s) = false /\
  f_ltb (Inf true) (Inf false) = true /\ f_leb (Inf true) (Inf false) = true /\
  f_eqb (Inf true) (Inf false) = false /\ f_eqb (Inf false) (Inf true) = false /\
  f_gtb (Inf false) (Inf true) = true /\ f_geb (Inf false) (Inf true) = true /\
  f_ltb (Inf false) (Inf true) = false /\ f_leb (Inf false) (Inf true) = false /\
  f_gtb (Inf true) (Inf false) = false /\ f_geb (Inf true) (Inf false) = false.
Proof. exact FloatBridge2.cmp_inf_inf. Qed.
(* ==> CLOSED *)

(* ------------------------------------------------------------------------------------------ *)
(* D. `%` on f64 (C fmod)                                                                        *)
(* ------------------------------------------------------------------------------------------ *)

(* NaN operands, an infinite dividend, a zero divisor give NaN; an infinite divisor gives the (finite)
   dividend back; a zero dividend is returned with its sign *)
Theorem rem_special : forall (x : f64) (s sy : bool) (m : positive) (e : Z),
  f_rem NaN x = NaN /\ f_rem x NaN = NaN /\
  f_rem (Inf s) x = NaN /\
  f_rem x (Zero s) = NaN /\
  (is_finite_SF x = true -> f_rem x (Inf s) = x) /\
  f_rem (Zero s) (Fin sy m e) = Zero s.
Proof. exact FloatBridge2.rem_special. Qed.
(* ==> CLOSED *)

(* the sign of a remainder is the sign of the dividend, ALSO when the remainder is zero; never NaN *)
Theorem rem_sign : forall (sx : bool) (mx : positive) (ex : Z) (sy : bool) (my : positive) (ey : Z),
  is_nan_SF (f_rem (Fin sx mx ex) (Fin sy my ey)) = false /\
  sign_SF (f_rem (Fin sx mx ex) (Fin sy my ey)) = sx.
Proof. exact FloatBridge2.rem_signed. Qed.
(* ==> CLOSED *)

(* finite x (zeros included), finite non-zero y: r = x - trunc(x / y) * y, EXACTLY (no rounding),
   with |r| < |y| and the sign of x.  Ztrunc is truncation toward zero. *)
Theorem IEEE_rem : forall x y : f64,
  valid x = true -> valid y = true -> is_finite_SF x = true ->
  (match y with S754_finite _ _ _ => true | _ => false end) = true ->
  let r := f_rem x y in
  valid r = true /\ is_finite_SF r = true /\
  sign_SF r = sign_SF x /\
  (Rabs (rval r) < Rabs (rval y))%R /\
  (rval x = IZR (Ztrunc (rval x / rval y)) * rval y + rval r)%R.
Proof. exact FloatBridge2.IEEE_rem. Qed.
(* ==> 4 axioms *)

Theorem IEEE_rem_value : forall x y : f64,
  valid x = true -> valid y = true -> is_finite_SF x = true ->
  (match y with S754_finite _ _ _ => true | _ => false end) = true ->
  (rval (f_rem x y) = rval x - IZR (Ztrunc (rval x / rval y)) * rval y)%R.
Proof. exact FloatBridge2.IEEE_rem_value. Qed.
(* ==> 4 axioms *)

(* ------------------------------------------------------------------------------------------ *)
(* E. floor / ceil / round                                                                       *)
(* ------------------------------------------------------------------------------------------ *)

(* NaN, infinities (and zeros) are returned unchanged *)
Theorem round_int_special : forall (md : rmode) (s : bool),
  f_round_int md NaN = NaN /\ f_round_int md (Inf s) = Inf s /\ f_round_int md (Zero s) = Zero s.
Proof. exact FloatBridge2.round_int_special. Qed.
(* ==> CLOSED *)

(* the sign is always kept, so a zero result carries the sign of the argument: ceil(-0.5) = -0 *)
Theorem round_int_sign : forall (md : rmode) (x : f64),
  sign_SF (f_round_int md x) = sign_SF x /\ is_nan_SF (f_round_int md x) = is_nan_SF x.
Proof. exact FloatBridge2.round_int_sign. Qed.
(* ==> CLOSED *)

(* Zfloor / Zceil: Flocq's integer floor and ceiling of a real.  The result is that integer EXACTLY *)
Theorem IEEE_floor : forall x : f64, valid x = true -> is_finite_SF x = true ->
  valid (f_floor x) = true /\ is_finite_SF (f_floor x) = true /\
  rval (f_floor x) = IZR (Zfloor (rval x)) /\ sign_SF (f_floor x) = sign_SF x.
Proof. exact FloatBridge2.IEEE_floor. Qed.
(* ==> 4 axioms *)

Theorem IEEE_ceil : forall x : f64, valid x = true -> is_finite_SF x = true ->
  valid (f_ceil x) = true /\ is_finite_SF (f_ceil x) = true /\
  rval (f_ceil x) = IZR (Zceil (rval x)) /\ sign_SF (f_ceil x) = sign_SF x.
Proof. exact FloatBridge2.IEEE_ceil. Qed.
(* ==> 4 axioms *)

(* ZnearestA = Znearest (Zle_bool 0): nearest integer, ties away from zero (characterised below) *)
Theorem IEEE_round : forall x : f64, valid x = true -> is_finite_SF x = true ->
  valid (f_round x) = true /\ is_finite_SF (f_round x) = true /\
  rval (f_round x) = IZR (ZnearestA (rval x)) /\ sign_SF (f_round x) = sign_SF x.
Proof. exact FloatBridge2.IEEE_round. Qed.
(* ==> 4 axioms *)

(* what ZnearestA is, without reference to Flocq's definition: within 1/2 of the argument, and at a
   tie the candidate of larger magnitude *)
Theorem ZnearestA_spec : forall a : R,
  (Rabs (a - IZR (ZnearestA a)) <= / 2)%R /\
  ((Rabs (a - IZR (ZnearestA a)) = / 2)%R -> (Rabs a <= Rabs (IZR (ZnearestA a)))%R).
Proof. exact FloatBridge2.ZnearestA_spec. Qed.
(* ==> two of the 4 axioms: ClassicalDedekindReals.sig_forall_dec,
       FunctionalExtensionality.functional_extensionality_dep *)

(* ------------------------------------------------------------------------------------------ *)
(* F. Classification                                                                             *)
(* ------------------------------------------------------------------------------------------ *)

Theorem classify_table : forall (s : bool) (m : positive) (e : Z),
  f_is_nan NaN = true /\ f_is_nan (Inf s) = false /\ f_is_nan (Zero s) = false /\ f_is_nan (Fin s m e) = false /\
  f_is_infinite NaN = false /\ f_is_infinite (Inf s) = true /\ f_is_infinite (Zero s) = false /\
  f_is_infinite (Fin s m e) = false /\
  f_is_finite NaN = false /\ f_is_finite (Inf s) = false /\ f_is_finite (Zero s) = true /\
  f_is_finite (Fin s m e) = true /\
  f_is_normal NaN = false /\ f_is_normal (Inf s) = false /\ f_is_normal (Zero s) = false.
Proof. exact FloatBridge2.classify_table. Qed.
(* ==> CLOSED *)

Theorem classify : forall x : f64,
  f_is_nan x = is_nan_SF x /\ f_is_finite x = is_finite_SF x /\
  (f_is_nan x = true <-> x = NaN) /\
  (f_is_infinite x = true <-> exists s, x = Inf s) /\
  (f_is_finite x = negb (f_is_nan x || f_is_infinite x)) /\
  (f_is_nan x && f_is_infinite x = false) /\
  (f_is_normal x = true -> f_is_finite x = true /\ forall s, x <> Zero s).
Proof. exact FloatBridge2.classify_flocq. Qed.
(* ==> CLOSED *)

(* normal = finite and of magnitude at least 2^-1022 (hence non-zero and not subnormal) *)
Theorem normal_char : forall x : f64, valid x = true ->
  (f_is_normal x = true <-> is_finite_SF x = true /\ (bpow radix2 (-1022) <= Rabs (rval x))%R).
Proof. exact FloatBridge2.normal_char. Qed.
(* ==> two of the 4 axioms: ClassicalDedekindReals.sig_forall_dec,
       FunctionalExtensionality.functional_extensionality_dep *)

(* ------------------------------------------------------------------------------------------ *)
(* G. The characterisations through (real value, sign) determine the results uniquely            *)
(* ------------------------------------------------------------------------------------------ *)

Theorem finite_determined : forall a b : f64,
  valid a = true -> valid b = true -> is_finite_SF a = true -> is_finite_SF b = true ->
  rval a = rval b -> sign_SF a = sign_SF b -> a = b.
Proof. exact FloatBridge2.finite_determined. Qed.
(* ==> 4 axioms *)

(* ------------------------------------------------------------------------------------------ *)
(* Examples (all by computation)                                                                 *)
(* ------------------------------------------------------------------------------------------ *)

(* doubles used below, built with the (verified) literal and integer conversions *)
Local Notation d_2_5 := (f_of_decimal 25 (-1)).
Local Notation d_7_5 := (f_of_decimal 75 (-1)).
Local Notation d_1_5 := (f_of_decimal 15 (-1)).
Local Notation d_0_5 := (f_of_decimal 5 (-1)).
Local Notation d_0_3 := (f_of_decimal 3 (-1)).
Local Notation d_below_half := (f_of_bits 4602678819172646911). (* 0x3FDFFFFFFFFFFFFF = 0.49999999999999994 *)

Example signed_zero_arithmetic :
  f_add (Zero true) (Zero false) = Zero false /\              (* -0.0 + 0.0 = +0.0 *)
  f_add (Zero true) (Zero true) = Zero true /\                (* -0.0 + -0.0 = -0.0 *)
  f_sub (Zero false) (Zero false) = Zero false /\             (* 0.0 - 0.0 = +0.0 *)
  f_sub (Zero true) (Zero false) = Zero true /\               (* -0.0 - 0.0 = -0.0 *)
  f_mul (Zero false) (f_of_Z (-5)) = Zero true /\             (* 0.0 * -5 = -0.0 *)
  f_mul (Zero true) (f_of_Z (-5)) = Zero false /\
  f_div (Zero false) (f_of_Z (-5)) = Zero true /\
  f_add (f_of_Z 5) (f_of_Z (-5)) = Zero false /\              (* 5 + -5 = +0.0 *)
  f_sub (f_of_Z (-5)) (f_of_Z (-5)) = Zero false /\           (* -5 - -5 = +0.0 *)
  f_sqrt (Zero true) = Zero true /\                           (* sqrt(-0.0) = -0.0 *)
  f_neg (Zero false) = Zero true /\ f_abs (Zero true) = Zero false /\
  (* underflow to zero keeps the xor sign: 2^-1074 * -2^-1074 = -0.0,  2^-1074 / -2^1023 = -0.0 *)
  f_mul (f_of_bits 1) (f_neg (f_of_bits 1)) = Zero true /\
  f_div (f_of_bits 1) (f_neg (f_of_bits 9214364837600034816)) = Zero true.
Proof. repeat split; vm_compute; reflexivity. Qed.

Example special_value_arithmetic :
  f_sub (Inf false) (Inf false) = NaN /\ f_add (Inf false) (Inf true) = NaN /\
  f_mul (Inf false) (Zero true) = NaN /\ f_div (Zero false) (Zero false) = NaN /\
  f_div (Inf true) (Inf false) = NaN /\
  f_div (f_of_Z 1) (Zero false) = Inf false /\ f_div (f_of_Z 1) (Zero true) = Inf true /\
  f_div (f_of_Z (-1)) (Zero false) = Inf true /\
  f_div (f_of_Z 1) (Inf true) = Zero true /\
  f_sqrt (f_of_Z (-1)) = NaN /\ f_sqrt (Inf false) = Inf false /\
  f_add NaN (f_of_Z 1) = NaN.
Proof. repeat split; vm_compute; reflexivity. Qed.

Example comparison_examples :
  f_eqb NaN NaN = false /\ f_leb NaN NaN = false /\ f_geb NaN NaN = false /\
  f_eqb (Zero true) (Zero false) = true /\ f_ltb (Zero true) (Zero false) = false /\
  f_ltb (f_of_Z 1) (Inf false) = true /\ f_gtb (f_of_Z 1) (Inf true) = true /\
  f_ltb d_0_3 d_0_5 = true /\ f_geb d_0_3 d_0_5 = false /\ f_eqb d_0_5 d_0_5 = true /\
  f_ltb (f_neg d_0_5) (f_neg d_0_3) = true.
Proof. repeat split; vm_compute; reflexivity. Qed.

Example rem_examples :
  f_rem (f_neg d_7_5) (f_of_Z 2) = f_neg d_1_5 /\             (* -7.5 % 2 = -1.5 *)
  f_rem d_7_5 (f_of_Z (-2)) = d_1_5 /\                        (* 7.5 % -2 = 1.5 *)
  f_rem (f_of_Z 5) (Inf false) = f_of_Z 5 /\                  (* 5 % inf = 5 *)
  f_rem (f_of_Z (-6)) (f_of_Z 3) = Zero true /\               (* -6 % 3 = -0.0 *)
  f_rem (f_of_Z 6) (f_of_Z 3) = Zero false /\
  f_rem (Zero true) (f_of_Z 3) = Zero true /\                 (* -0.0 % 3 = -0.0 *)
  f_rem (f_of_Z 5) (Zero false) = NaN /\ f_rem (Inf false) (f_of_Z 5) = NaN /\
  f_rem (f_of_Z 5) NaN = NaN /\
  (* exponents 2000 binades apart: f64::MAX % 2^-1074 = 0, f64::MAX % 3 = 2 *)
  f_rem (f_of_bits 9218868437227405311) (f_of_bits 1) = Zero false /\
  f_rem (f_of_bits 9218868437227405311) (f_of_Z 3) = f_of_Z 2.
Proof. repeat split; vm_compute; reflexivity. Qed.

Example round_examples :
  f_floor (f_neg d_0_5) = f_of_Z (-1) /\                      (* floor(-0.5) = -1 *)
  f_ceil (f_neg d_0_5) = Zero true /\                         (* ceil(-0.5) = -0.0 *)
  f_floor d_0_5 = Zero false /\ f_ceil d_0_5 = f_of_Z 1 /\
  f_round d_2_5 = f_of_Z 3 /\                                 (* round(2.5) = 3 *)
  f_round (f_neg d_2_5) = f_of_Z (-3) /\                      (* round(-2.5) = -3 *)
  f_round d_0_5 = f_of_Z 1 /\ f_round (f_neg d_0_5) = f_of_Z (-1) /\
  f_round d_below_half = Zero false /\                        (* round(0.49999999999999994) = 0 *)
  f_of_decimal 49999999999999994 (-17) = d_below_half /\
  f_round (f_neg d_0_3) = Zero true /\                        (* round(-0.3) = -0.0 *)
  f_round d_1_5 = f_of_Z 2 /\ f_floor d_7_5 = f_of_Z 7 /\ f_ceil (f_neg d_7_5) = f_of_Z (-7) /\
  (* already integral: 2^53 + 2 (exponent 1), f64::MAX *)
  f_round (f_of_Z 9007199254740994) = f_of_Z 9007199254740994 /\
  f_floor (f_of_bits 9218868437227405311) = f_of_bits 9218868437227405311 /\
  (* the largest non-integral double 2^52 - 0.5 *)
  f_round (f_of_bits 4841369599423283199) = f_of_Z 4503599627370496 /\
  f_floor (f_of_bits 4841369599423283199) = f_of_Z 4503599627370495 /\
  f_floor (Inf true) = Inf true /\ f_round NaN = NaN /\ f_ceil (Zero true) = Zero true.
Proof. repeat split; vm_compute; reflexivity. Qed.

Example classify_examples :
  f_is_normal (f_of_bits 4503599627370496) = true /\          (* 0x0010000000000000 = 2^-1022 *)
  f_is_normal (f_of_bits 4503599627370495) = false /\         (* the largest subnormal *)
  f_is_normal (f_of_Z 1) = true /\ f_is_normal (Zero false) = false /\
  f_is_normal (Inf false) = false /\ f_is_normal NaN = false /\
  f_is_finite (f_of_bits 1) = true /\ f_is_infinite (Inf true) = true /\ f_is_nan NaN = true.
Proof. repeat split; vm_compute; reflexivity. Qed.

(* the hypotheses of the theorems above are met by ordinary inputs *)
Example hypotheses_met :
  valid (f_neg d_7_5) = true /\ is_finite_SF (f_neg d_7_5) = true /\
  valid (f_of_Z 2) = true /\ (match f_of_Z 2 with S754_finite _ _ _ => true | _ => false end) = true /\
  valid d_below_half = true /\ is_finite_SF d_below_half = true /\
  is_nan_SF (f_mul (f_of_bits 1) (f_neg (f_of_bits 1))) = false /\
  valid (Zero true) = true /\ is_finite_SF (Zero true) = true.
Proof. repeat split; vm_compute; reflexivity. Qed.

(* Print Assumptions, checked with a scratch file that Requires this one.  For every theorem marked
   "4 axioms" above the output is exactly:
     Axioms:
     ClassicalDedekindReals.sig_not_dec : forall P : Prop, {~ ~ P} + {~ P}
     ClassicalDedekindReals.sig_forall_dec
       : forall P : nat -> Prop,
         (forall n : nat, {P n} + {~ P n}) -> {n : nat | ~ P n} + {forall n : nat, P n}
     FunctionalExtensionality.functional_extensionality_dep
       : forall (A : Type) (B : A -> Type) (f g : forall x : A, B x), (forall x : A, f x = g x) -> f = g
     Classical_Prop.classic : forall P : Prop, P \/ ~ P
   and for those marked CLOSED "Closed under the global context". *)
