(* C16 -- Serde support round-trips expressions and contexts (the part that is evalexpr's own logic;
   serde's derive output and the ron wire format are exercised by real round trips in the harness). *)
From Coq Require Import Floats.SpecFloat.
Require Import Model.Base Model.Syntax Model.Value Model.Context Model.Interface Model.Display Spec.SerdeSpec.

Theorem C16_node_tree : forall (message : Type) (display : error -> message) (s : str) (n : node),
  build_operator_tree s = Ok n -> deserialize_node message display s = DOk message node n.
Proof. exact node_same_tree. Qed.

Theorem C16_node_error : forall (message : Type) (display : error -> message) (s : str) (e : error),
  build_operator_tree s = Err e -> deserialize_node message display s = DErr message node (display e).
Proof. exact node_same_error. Qed.

(* for ANY wire codec of the two serialized fields that round-trips: same variables (every value type; floats are
   SpecFloat values, hence bit-exact up to the one NaN), same builtin switch, no functions *)
Theorem C16_ctx : forall (wire : Type) (enc : list (str * value) * bool -> wire) (dec : wire -> option (list (str * value) * bool)),
  (forall x, dec (enc x) = Some x) ->
  forall c : ctx,
  deserialize_ctx wire dec (serialize_ctx wire enc c) = Some (mkctx KHashMap (c_vars c) [] (c_off c)).
Proof. exact ctx_roundtrip. Qed.

Theorem C16_ctx_observations : forall (wire : Type) (enc : list (str * value) * bool -> wire) (dec : wire -> option (list (str * value) * bool)),
  (forall x, dec (enc x) = Some x) ->
  forall (c c' : ctx), c_kind c = KHashMap -> deserialize_ctx wire dec (serialize_ctx wire enc c) = Some c' ->
  (forall x, get_value c' x = get_value c x) /\
  are_builtin_functions_disabled c' = are_builtin_functions_disabled c /\
  (forall f, lookup_function c' f = None).
Proof.
  intros wire enc dec H c c' Hk Hd. rewrite (ctx_roundtrip wire enc dec H) in Hd. inversion Hd; subst c'; clear Hd.
  unfold get_value, are_builtin_functions_disabled, lookup_function, has_store; cbn. rewrite Hk. repeat split; reflexivity.
Qed.

(* instantiated with the modelled Display of errors (Model/Display.v error_fmt, compared as text with the
   implementation on every C01 run): the message of a failed deserialization is the message of the failed precompilation *)
Theorem C16_node_error_message : forall (F : fmt_oracle) (s : str) (e : error),
  build_operator_tree s = Err e -> deserialize_node str (error_fmt F) s = DErr str node (error_fmt F e).
Proof. intros F. exact (node_same_error str (error_fmt F)). Qed.
