(* C12 -- All evaluation entry points are views of one evaluator.
   `wrappers` (Gen/Interface.v) is translated from src/interface/mod.rs and src/tree/mod.rs on every run;
   `run_entry_gen` interprets a translated wrapper literally; `run_entry` is the projection specification. *)
From Coq Require Import Strings.String Floats.SpecFloat.
Require Import Model.Base Model.Syntax Model.F64 Model.Lexer Model.Builder Model.Value Model.Context Model.Eval
               Model.Interface Model.InterfaceDefs Gen.Interface Model.InterfaceGen.
Require Import Spec.RefEval Proofs.C12.

(* every one of the 2 x 3 x 8 entry points (string / tree level; context-free / shared / mutable context;
   untyped and seven typed forms), on every source string, context and log, returns the untyped result
   of the one evaluator projected to its type; the string forms precompile then evaluate; the context-free
   forms evaluate in a fresh empty HashMapContext that is dropped *)
Theorem C12_views : forall (O : std_oracle) (l : elevel) (m : emode) (t : etype) (s : str) (c : ctx) (lg : log),
  translation_complete = true ->
  run_entry_gen O l m t s c lg = run_entry O m t s c lg.
Proof. exact entry_gen_eq. Qed.

Theorem C12_typed : forall (O : std_oracle) (l : elevel) (m : emode) (t : etype) (s : str) (c : ctx) (lg : log),
  translation_complete = true ->
  run_entry_gen O l m t s c lg =
    let '(r, c', lg') := run_entry_gen O l m XValue s c lg in (project t r, c', lg').
Proof. exact entry_typed. Qed.

Theorem C12_precompile : forall (O : std_oracle) (m : emode) (t : etype) (s : str) (c : ctx) (lg : log),
  translation_complete = true ->
  run_entry_gen O LvString m t s c lg = run_entry_gen O LvNode m t s c lg.
Proof. exact entry_level_independent. Qed.

Theorem C12_ctxfree : forall (O : std_oracle) (l : elevel) (t : etype) (s : str) (c : ctx) (lg : log),
  translation_complete = true ->
  run_entry_gen O l MFree t s c lg = (fst (fst (run_entry_gen O l MMut t s empty_hashmap [])), c, lg).
Proof. exact entry_ctxfree. Qed.

Theorem C12_build_error : forall (O : std_oracle) (l : elevel) (m : emode) (t : etype) (s : str) (c : ctx) (lg : log) (x : error),
  translation_complete = true ->
  build_operator_tree s = Err x -> run_entry_gen O l m t s c lg = (Err x, c, lg).
Proof. exact entry_build_err. Qed.

(* the translation covered all 49 public functions of this run's source *)
Example C12_translation_complete : translation_complete = true /\ length wrappers = 49%nat.
Proof. split; reflexivity. Qed.

(* the projection, spelled out on its distinguishing inputs *)
Example C12_projection_rows :
  project XInt (Ok (VInt 1)) = Ok (VInt 1) /\
  project XInt (Ok (VFloat (f_of_Z 1))) = Err (EExpectedInt (VFloat (f_of_Z 1))) /\
  project XNumber (Ok (VInt 1)) = Ok (VFloat (f_of_Z 1)) /\
  project XNumber (Ok (VBool true)) = Err (EExpectedNumber (VBool true)) /\
  project XTuple (Ok VEmpty) = Err (EExpectedTuple VEmpty) /\
  project XEmpty (Ok VEmpty) = Ok VEmpty /\
  project XString (Err EContextNotMutable) = Err EContextNotMutable.
Proof. repeat split. Qed.

(* ---- tree-level entry points on ANY tree -------------------------------------------------------------------------
   C12_views applies the `Node::eval*` family to parser output only.  A `Node` can also be built by hand through the
   public constructors (arities and shapes no source string denotes): the 24 tree-level wrappers are the same
   projections of the same two evaluators on every such tree. *)
Theorem C12_node_views : forall (O : std_oracle) (m : emode) (t : etype) (n : node) (c : ctx) (lg : log),
  translation_complete = true ->
  run_node_entry_gen O m t n c lg = run_node_entry O m t n c lg.
Proof. exact node_entry_gen_eq. Qed.

(* every entry point on a source string that builds is the tree-level projection applied to the built tree *)
Theorem C12_entry_is_node_entry : forall (O : std_oracle) (l : elevel) (m : emode) (t : etype) (s : str) (n : node) (c : ctx) (lg : log),
  translation_complete = true ->
  build_operator_tree s = Ok n ->
  run_entry_gen O l m t s c lg = run_node_entry O m t n c lg.
Proof. exact entry_is_node_entry. Qed.

(* ---- the projection as an algebra --------------------------------------------------------------------------------- *)
Theorem C12_project_value : forall r, project XValue r = r.
Proof. exact project_value. Qed.

Theorem C12_project_idem : forall t r, project t (project t r) = project t r.
Proof. exact project_idem. Qed.

(* a typed success has the requested type ... *)
Theorem C12_project_ok_typed : forall t r v, project t r = Ok v -> has_etype t v = true.
Proof. exact project_ok_typed. Qed.

(* ... and is the evaluator's own value (an integer seen as a number is its conversion to double) *)
Theorem C12_project_ok_source : forall t r v,
  project t r = Ok v ->
  exists w, r = Ok w /\ (v = w \/ (t = XNumber /\ exists i, w = VInt i /\ v = VFloat (f_of_Z i))).
Proof. exact project_ok_source. Qed.

(* errors and panics of the evaluator pass through every view unchanged *)
Theorem C12_project_not_ok : forall t r, (forall v, r <> Ok v) -> project t r = r.
Proof. exact project_not_ok. Qed.

(* a typed view fails only with the evaluator's own error, or with the expected-type error that carries the
   evaluator's (wrongly typed) value *)
Theorem C12_project_err_source : forall t r x,
  project t r = Err x ->
  r = Err x \/ exists w, r = Ok w /\ has_etype t w = false /\
     x = match t with
         | XValue => x | XString => EExpectedString w | XInt => EExpectedInt w | XFloat => EExpectedFloat w
         | XNumber => EExpectedNumber w | XBoolean => EExpectedBoolean w | XTuple => EExpectedTuple w
         | XEmpty => EExpectedEmpty w
         end.
Proof. exact project_err_source. Qed.

(* ---- one evaluator behind all context modes (C11 seen through the entry points) -------------------------------------
   on a tree without assignment operators (also a hand-built one) the mutable-context and the shared-context entry
   point of every result type return the same answer, leave the same context and make the same user-function calls;
   the context-free entry point answers as the shared one on the empty context; on source strings that build,
   across both levels *)
Theorem C12_node_modes_agree : forall (O : std_oracle) (t : etype) (n : node) (c : ctx) (lg : log),
  no_assign n = true ->
  run_node_entry O MMut t n c lg = run_node_entry O MRo t n c lg.
Proof. exact node_modes_agree. Qed.

Theorem C12_node_free_is_ro_on_empty : forall (O : std_oracle) (t : etype) (n : node) (c : ctx) (lg : log),
  no_assign n = true ->
  run_node_entry O MFree t n c lg = (fst (fst (run_node_entry O MRo t n empty_hashmap [])), c, lg).
Proof. exact node_free_is_ro_on_empty. Qed.

Theorem C12_entry_modes_agree : forall (O : std_oracle) (l l' : elevel) (t : etype) (s : str) (n : node) (c : ctx) (lg : log),
  translation_complete = true ->
  build_operator_tree s = Ok n -> no_assign n = true ->
  run_entry_gen O l MMut t s c lg = run_entry_gen O l' MRo t s c lg.
Proof. exact entry_modes_agree. Qed.

(* decided at run time: if the traced mutable run reaches no assignment (there may be assignment operators behind a
   failure), both modes coincide; if it applies one, the shared-context entry point of EVERY result type answers
   ContextNotMutable with the user-function calls made up to there and the context untouched, and the mutable one is the
   projection of the mutable run *)
Theorem C12_node_modes_agree_dynamic : forall (O : std_oracle) (t : etype) (n : node) (c : ctx) (lg : log),
  snd (eval_traced O n c lg None) = None ->
  run_node_entry O MMut t n c lg = run_node_entry O MRo t n c lg.
Proof. exact node_modes_agree_dynamic. Qed.

Theorem C12_node_ro_refuses : forall (O : std_oracle) (t : etype) (n : node) (c : ctx) (lg : log)
    (r : outcome value) (c' : ctx) (lg' l0 : log),
  eval_traced O n c lg None = (r, c', lg', Some l0) ->
  run_node_entry O MRo t n c lg = (Err EContextNotMutable, c, l0) /\
  run_node_entry O MMut t n c lg = (project t r, c', lg').
Proof. exact node_ro_refuses. Qed.

(* non-vacuity: a hand-built tree that no source denotes (an addition with three children) still goes through
   every tree-level entry point as the projection says *)
Example C12_node_views_hand : forall (O : std_oracle) (c : ctx) (lg : log),
  let n := Node OAdd [Node (OConst (VInt 1)) []; Node (OConst (VInt 2)) []; Node (OConst (VInt 3)) []] in
  run_node_entry_gen O MRo XInt n c lg = run_node_entry O MRo XInt n c lg /\
  run_node_entry_gen O MFree XString n c lg = run_node_entry O MFree XString n c lg.
Proof. intros O c lg n. split; apply node_entry_gen_eq; reflexivity. Qed.

