(* C12 -- All evaluation entry points are views of one evaluator.
   `wrappers` (Gen/Interface.v) is translated from src/interface/mod.rs and src/tree/mod.rs on every run;
   `run_entry_gen` interprets a translated wrapper literally; `run_entry` is the projection specification. *)
From Coq Require Import Strings.String Floats.SpecFloat.
Require Import Model.Base Model.Syntax Model.F64 Model.Lexer Model.Builder Model.Value Model.Context Model.Eval
               Model.Interface Model.InterfaceDefs Gen.Interface Model.InterfaceGen.
Require Import Proofs.C12.

(* every one of the 2 x 3 x 8 entry points (string / tree level; context-free / shared / mutable context;
   untyped and seven typed forms), on every source string, context and log, returns the untyped result
   of the one evaluator projected to its type; the string forms precompile then evaluate; the context-free
   forms evaluate in a fresh empty HashMapContext that is dropped *)
Theorem C12_views : forall (O : std_oracle) (l : elevel) (m : emode) (t : etype) (s : str) (c : ctx) (lg : log),
  translation_complete = true ->
  run_entry_gen O l m t s c lg = run_entry O m t s c lg.
Proof. exact entry_gen_eq. Qed.

Theorem C12_typed : forall (O : std_oracle) (l : elevel) (m : emode) (t : etype) (s : str) (c : ctx) (lg : log),
  translation_complete = true ->
  run_entry_gen O l m t s c lg =
    let '(r, c', lg') := run_entry_gen O l m XValue s c lg in (project t r, c', lg').
Proof. exact entry_typed. Qed.

Theorem C12_precompile : forall (O : std_oracle) (m : emode) (t : etype) (s : str) (c : ctx) (lg : log),
  translation_complete = true ->
  run_entry_gen O LvString m t s c lg = run_entry_gen O LvNode m t s c lg.
Proof. exact entry_level_independent. Qed.

Theorem C12_ctxfree : forall (O : std_oracle) (l : elevel) (t : etype) (s : str) (c : ctx) (lg : log),
  translation_complete = true ->
  run_entry_gen O l MFree t s c lg = (fst (fst (run_entry_gen O l MMut t s empty_hashmap [])), c, lg).
Proof. exact entry_ctxfree. Qed.

Theorem C12_build_error : forall (O : std_oracle) (l : elevel) (m : emode) (t : etype) (s : str) (c : ctx) (lg : log) (x : error),
  translation_complete = true ->
  build_operator_tree s = Err x -> run_entry_gen O l m t s c lg = (Err x, c, lg).
Proof. exact entry_build_err. Qed.

(* the translation covered all 49 public functions of this run's source *)
Example C12_translation_complete : translation_complete = true /\ length wrappers = 49%nat.
Proof. split; reflexivity. Qed.

(* the projection, spelled out on its distinguishing inputs *)
Example C12_projection_rows :
  project XInt (Ok (VInt 1)) = Ok (VInt 1) /\
  project XInt (Ok (VFloat (f_of_Z 1))) = Err (EExpectedInt (VFloat (f_of_Z 1))) /\
  project XNumber (Ok (VInt 1)) = Ok (VFloat (f_of_Z 1)) /\
  project XNumber (Ok (VBool true)) = Err (EExpectedNumber (VBool true)) /\
  project XTuple (Ok VEmpty) = Err (EExpectedTuple VEmpty) /\
  project XEmpty (Ok VEmpty) = Ok VEmpty /\
  project XString (Err EContextNotMutable) = Err EContextNotMutable.
Proof. repeat split. Qed.
