(* C14, mutable half -- "the mutable variants visit the same occurrences", about a modelled LOOP.

   Model/Iter.v gives the effect of `for op in tree.iter_operators_mut() { *op = f(op) }` as the
   structural map map_desc_ops / rename_with; with that alone the sentence above holds by definition.
   Spec/IterMut.v models OperatorIterMut (src/tree/iter.rs) as the explicit-stack loop it is: a stack
   of children iterators (parent position, next index, number of children), `next` = pop exhausted
   iterators / yield the next child / push its children iterator, the consumer overwriting the
   operator at the yielded position of the current tree between two calls.  The theorems below say
   that this loop hands out exactly the positions NodeIter visits, in the same order, and has exactly
   the effect Model/Iter.v assumes -- so every C14 theorem about rename_with rests on the loop.

   This file holds only theorems; every proof is `exact <lemma of Proofs/C14Mut.v>`.
   Vocabulary: Spec/IterMut.v (node_at, update_op_at, frame, mut_next, mut_loop, iter_mut_run / _apply /
   _positions / _idents, desc_paths, replace_at, path_lt, increasing), Spec/Preorder.v
   (preorder_descendants, same_shape). *)
From Coq Require Import Strings.String.
Require Import Model.Base Model.Syntax Model.Value Model.Iter.
Require Import Spec.Preorder Spec.IterMut Proofs.C14 Proofs.C14Mut.

(* ------------------------------------------------------------------------------------------ *)
(* C14_mut_positions: the positions handed out                                                 *)
(* ------------------------------------------------------------------------------------------ *)

(* every tree: the loop hands out the positions of all proper descendants in pre-order
   (desc_paths, structural); looked up in the tree they are the nodes of preorder_descendants, i.e.
   (C14_preorder) exactly what the immutable NodeIter yields, in the same order; there are
   node_size n - 1 of them and the fuel is never exhausted (no Panic 90), no position dangles
   (no Panic 91) *)
Theorem C14_mut_positions : forall n : node,
  iter_mut_positions n = Ok (desc_paths n) /\
  map (node_at n) (desc_paths n) = map Some (preorder_descendants n) /\
  (forall l, iter_all n = Ok l -> map (node_at n) (desc_paths n) = map Some l) /\
  length (desc_paths n) = pred (node_size n) /\
  is_panic (iter_mut_positions n) = false.
Proof. exact mut_positions_all. Qed.

(* desc_paths, independently of any traversal: it lists exactly the positions that exist in the tree
   except the root, in strictly increasing pre-order (lexicographic, a prefix first) -- which
   determines the list *)
Theorem C14_mut_positions_char : forall n : node,
  (forall p, In p (desc_paths n) <-> p <> [] /\ exists d, node_at n p = Some d) /\
  increasing (desc_paths n).
Proof. exact desc_paths_char. Qed.

(* path_lt is a strict order, so `increasing` excludes repetitions: no position is handed out twice *)
Theorem C14_mut_positions_order :
  (forall p, ~ path_lt p p) /\ (forall p q r, path_lt p q -> path_lt q r -> path_lt p r).
Proof. exact path_lt_order. Qed.

(* ------------------------------------------------------------------------------------------ *)
(* C14_mut_apply: the effect of the loop                                                       *)
(* ------------------------------------------------------------------------------------------ *)

(* whatever the consumer writes (any f): the positions handed out are the same, the operator the
   consumer sees at each of them is the ORIGINAL operator of that node (each position is handed out
   once, before anything at or below it is written), and the final tree is map_desc_ops f n *)
Theorem C14_mut_run : forall (f : operator -> operator) (n : node),
  iter_mut_run f n =
  Ok (combine (desc_paths n) (map nop (preorder_descendants n)), map_desc_ops f n).
Proof. exact iter_mut_run_combine. Qed.

(* the loop has exactly the effect Model/Iter.v assumes, on every tree; the shape is preserved and
   the root operator is untouched *)
Theorem C14_mut_apply : forall (f : operator -> operator) (n : node),
  iter_mut_apply f n = Ok (map_desc_ops f n) /\
  same_shape n (map_desc_ops f n) /\
  nop (map_desc_ops f n) = nop n.
Proof. exact mut_apply_all. Qed.

(* the loop invariant, from an arbitrary state: t is the current tree, x the node at position q of
   it, its children iterator is on top of an arbitrary rest R of the stack.  With fuel for the proper
   descendants of x plus k, the loop hands out their positions (in pre-order, with their operators),
   leaves t with the subtree at q rewritten below its root, and goes on with R and fuel k *)
Theorem C14_mut_loop_stack :
  forall (f : operator -> operator) (t : node) (q : path) (x : node) (R : list frame) (k : nat),
  node_at t q = Some x ->
  mut_loop f (pred (node_size x) + k) t (children_iter_mut t q :: R) =
  do r <- mut_loop f k (replace_at t q (map_desc_ops f x)) R;
  Ok (combine (map (app q) (desc_paths x)) (map nop (preorder_descendants x)) ++ fst r, snd r).
Proof. exact mut_loop_stack. Qed.

(* ------------------------------------------------------------------------------------------ *)
(* C14_mut_filter: the five identifier iterators                                               *)
(* ------------------------------------------------------------------------------------------ *)

(* `for id in n.iter_<sel>_mut() { *id = g(id) }` run as the loop (for ANY selector, in particular
   the five of Model/Iter.v): the final tree is rename_with sel g n, and the identifier strings handed
   to g, in order, are exactly what the immutable iterator iter_with sel n lists *)
Theorem C14_mut_filter : forall (sel : operator -> option str) (g : str -> str) (n : node),
  iter_mut_apply (rewrite_ident sel g) n = Ok (rename_with sel g n) /\
  exists l, iter_with sel n = Ok l /\ iter_mut_idents sel g n = Ok (l, rename_with sel g n).
Proof. exact mut_filter. Qed.

(* spelled out for the five pairs iter_X / iter_X_mut *)
Theorem C14_mut_filter_five : forall (g : str -> str) (n : node),
  (exists l, iter_identifiers n = Ok l /\
             iter_mut_idents ident_any g n = Ok (l, rename_with ident_any g n)) /\
  (exists l, iter_variable_identifiers n = Ok l /\
             iter_mut_idents ident_var g n = Ok (l, rename_with ident_var g n)) /\
  (exists l, iter_read_variable_identifiers n = Ok l /\
             iter_mut_idents ident_read g n = Ok (l, rename_with ident_read g n)) /\
  (exists l, iter_write_variable_identifiers n = Ok l /\
             iter_mut_idents ident_write g n = Ok (l, rename_with ident_write g n)) /\
  (exists l, iter_function_identifiers n = Ok l /\
             iter_mut_idents ident_fn g n = Ok (l, rename_with ident_fn g n)).
Proof. exact mut_filter_five. Qed.

(* ------------------------------------------------------------------------------------------ *)
(* Examples                                                                                    *)
(* ------------------------------------------------------------------------------------------ *)

Local Open Scope nat_scope.   (* positions are lists of nat; Model.Base opens Z_scope *)

Definition mx_a : str := s2l "a". Definition mx_b : str := s2l "b". Definition mx_c : str := s2l "c".
Definition mx_d : str := s2l "d". Definition mx_f : str := s2l "f".

(* a Chain with four children: an EMPTY RootNode first; an Add whose FIRST (non-last) child has a
   child and a grandchild; a 4-ary Tuple with a nested call in the middle; an empty RootNode last *)
Definition mx_tree : node :=
  Node ORootNode
    [Node OChain
       [Node ORootNode [];
        Node OAdd
          [Node (OFunctionIdentifier mx_f) [Node ONeg [Node (OVariableIdentifierRead mx_a) []]];
           Node (OVariableIdentifierWrite mx_c) []];
        Node OTuple
          [Node (OVariableIdentifierRead mx_a) [];
           Node (OFunctionIdentifier mx_f) [Node (OVariableIdentifierRead mx_b) []];
           Node (OConst (VInt 1)) [];
           Node (OVariableIdentifierRead mx_d) []];
        Node ORootNode []]].

(* the positions, in the order the loop hands them out *)
Example C14_mut_ex_positions :
  iter_mut_positions mx_tree =
  Ok [[0]; [0;0]; [0;1]; [0;1;0]; [0;1;0;0]; [0;1;0;0;0]; [0;1;1];
      [0;2]; [0;2;0]; [0;2;1]; [0;2;1;0]; [0;2;2]; [0;2;3]; [0;3]]%nat.
Proof. vm_compute. reflexivity. Qed.

(* three calls of next by hand: the stacks (top first).  The empty RootNode child pushes an
   iterator over zero children, which the third call pops before it advances to the Add *)
Example C14_mut_ex_next :
  let s0 := [children_iter_mut mx_tree []] in
  s0 = [Frame [] 0 1] /\
  mut_next mx_tree s0 = Some ([0], [Frame [0] 0 4; Frame [] 1 1]) /\
  mut_next mx_tree [Frame [0] 0 4; Frame [] 1 1] =
    Some ([0;0], [Frame [0;0] 0 0; Frame [0] 1 4; Frame [] 1 1]) /\
  mut_next mx_tree [Frame [0;0] 0 0; Frame [0] 1 4; Frame [] 1 1] =
    Some ([0;1], [Frame [0;1] 0 2; Frame [0] 2 4; Frame [] 1 1]) /\
  mut_next mx_tree [Frame [0;3] 0 0; Frame [0] 4 4; Frame [] 1 1] = None.
Proof. vm_compute. repeat split; reflexivity. Qed.

(* the operators the consumer sees and the final tree, for a consumer that overwrites EVERY operator
   (also those of inner nodes whose children are still to be visited) with Tuple: the traversal is
   not disturbed *)
Example C14_mut_ex_overwrite_all :
  iter_mut_run (fun _ => OTuple) mx_tree =
  Ok ([([0], OChain); ([0;0], ORootNode); ([0;1], OAdd); ([0;1;0], OFunctionIdentifier mx_f);
       ([0;1;0;0], ONeg); ([0;1;0;0;0], OVariableIdentifierRead mx_a);
       ([0;1;1], OVariableIdentifierWrite mx_c);
       ([0;2], OTuple); ([0;2;0], OVariableIdentifierRead mx_a); ([0;2;1], OFunctionIdentifier mx_f);
       ([0;2;1;0], OVariableIdentifierRead mx_b); ([0;2;2], OConst (VInt 1));
       ([0;2;3], OVariableIdentifierRead mx_d); ([0;3], ORootNode)]%nat,
      Node ORootNode
        [Node OTuple
           [Node OTuple [];
            Node OTuple [Node OTuple [Node OTuple [Node OTuple []]]; Node OTuple []];
            Node OTuple [Node OTuple []; Node OTuple [Node OTuple []]; Node OTuple []; Node OTuple []];
            Node OTuple []]]).
Proof. vm_compute. reflexivity. Qed.

(* the five identifier loops with g = prepend 'z': the strings handed to g and the final tree
   (compared with the immutable iterators and rename_with by computation) *)
Example C14_mut_ex_idents :
  let g := fun s : str => 122%N :: s in
  iter_mut_idents ident_any g mx_tree =
    Ok ([mx_f; mx_a; mx_c; mx_a; mx_f; mx_b; mx_d], rename_with ident_any g mx_tree) /\
  iter_identifiers mx_tree = Ok [mx_f; mx_a; mx_c; mx_a; mx_f; mx_b; mx_d] /\
  iter_mut_idents ident_var g mx_tree =
    Ok ([mx_a; mx_c; mx_a; mx_b; mx_d], rename_with ident_var g mx_tree) /\
  iter_variable_identifiers mx_tree = Ok [mx_a; mx_c; mx_a; mx_b; mx_d] /\
  iter_mut_idents ident_read g mx_tree = Ok ([mx_a; mx_a; mx_b; mx_d], rename_with ident_read g mx_tree) /\
  iter_mut_idents ident_write g mx_tree = Ok ([mx_c], rename_with ident_write g mx_tree) /\
  iter_mut_idents ident_fn g mx_tree = Ok ([mx_f; mx_f], rename_with ident_fn g mx_tree) /\
  iter_mut_apply (rewrite_ident ident_fn g) mx_tree =
    Ok (Node ORootNode
          [Node OChain
             [Node ORootNode [];
              Node OAdd
                [Node (OFunctionIdentifier (s2l "zf")) [Node ONeg [Node (OVariableIdentifierRead mx_a) []]];
                 Node (OVariableIdentifierWrite mx_c) []];
              Node OTuple
                [Node (OVariableIdentifierRead mx_a) [];
                 Node (OFunctionIdentifier (s2l "zf")) [Node (OVariableIdentifierRead mx_b) []];
                 Node (OConst (VInt 1)) [];
                 Node (OVariableIdentifierRead mx_d) []];
              Node ORootNode []]]).
Proof. vm_compute. repeat split; reflexivity. Qed.

(* degenerate trees: a leaf (nothing handed out), a root with only empty RootNode children *)
Example C14_mut_ex_degenerate :
  iter_mut_run (fun _ => OAdd) (Node (OConst (VInt 7)) []) = Ok ([], Node (OConst (VInt 7)) []) /\
  iter_mut_run (fun _ => OAdd) (Node OChain [Node ORootNode []; Node ORootNode []; Node ORootNode []]) =
    Ok ([([0], ORootNode); ([1], ORootNode); ([2], ORootNode)]%nat,
        Node OChain [Node OAdd []; Node OAdd []; Node OAdd []]).
Proof. vm_compute. split; reflexivity. Qed.

(* the fuel is tight: with one unit less than node_size the loop on mx_tree stops with Panic 90;
   a position that does not exist in the tree is reported as Panic 91 *)
Example C14_mut_ex_fuel :
  mut_loop (fun o => o) (node_size mx_tree - 2) mx_tree [children_iter_mut mx_tree []] = Panic 90 /\
  is_ok (mut_loop (fun o => o) (node_size mx_tree - 1) mx_tree [children_iter_mut mx_tree []]) = true /\
  mut_loop (fun o => o) 5 mx_tree [Frame [7%nat] 0 1] = Panic 91.
Proof. vm_compute. repeat split; reflexivity. Qed.
