(* IntText -- the integer printer of the model prints THE decimal notation.
   This file holds only the property theorems; every proof is `exact <lemma of Proofs/IntText.v>`.

   int_to_string (Model/Value.v) is the model of Rust's Display for i64; it is what str::from,
   Display for Value, error messages and token display use, and the C10 specification uses the same
   function.  It is a digit loop with 20 digits of fuel that returns a normal-looking string when the
   fuel runs out.  Here it is tied to the INDEPENDENT printer `decimal` of Spec/LexSpec.v (the one the
   C06 theorems relate to the lexer), to the digit valuation `digits_val` and to `tokenize`.
   45 is '-', 48 is '0'. *)
From Coq Require Import Strings.String Floats.SpecFloat.
Require Import Model.Base Model.Syntax Model.F64 Model.Lexer Model.Value.
Require Import Spec.LexSpec Proofs.IntText.

(* ---- 1. non-negative values: exactly the text of `decimal` (also for 0: both are "0") ---- *)

Theorem IntText_nonneg : forall z : Z, 0 <= z < 10 ^ 20 -> int_to_string z = decimal z.
Proof. exact int_text_nonneg. Qed.

Theorem IntText_nonneg_i64 : forall z : Z, 0 <= z <= i64_max -> int_to_string z = decimal z.
Proof. exact int_text_nonneg_i64. Qed.

Theorem IntText_zero : int_to_string 0 = [48%N] /\ decimal 0 = [48%N].
Proof. exact int_text_zero. Qed.

(* ---- 2. negative values: a minus sign and the text of the absolute value ---- *)

Theorem IntText_neg : forall z : Z, - 10 ^ 20 < z < 0 -> int_to_string z = 45%N :: decimal (- z).
Proof. exact int_text_neg. Qed.

(* includes i64_min, whose absolute value 2^63 is not an i64 but is below 10^20 *)
Theorem IntText_neg_i64 : forall z : Z, i64_min <= z < 0 -> int_to_string z = 45%N :: decimal (- z).
Proof. exact int_text_neg_i64. Qed.

(* ---- 3. the digits denote the value ---- *)

(* the text without its sign has the value |z|, is non-empty, consists of ASCII digits only and
   has no leading zero unless it is exactly "0" *)
Theorem IntText_value : forall z : Z, i64_min <= z <= i64_max ->
  let ds := if z <? 0 then tl (int_to_string z) else int_to_string z in
  digits_val ds = Z.abs z /\ ds <> [] /\ all_digits ds /\ (forall t, ds = 48%N :: t -> t = []).
Proof. exact int_text_value. Qed.

(* the same on the whole range the fuel covers *)
Theorem IntText_value_wide : forall z : Z, - 10 ^ 20 < z < 10 ^ 20 ->
  let ds := if z <? 0 then tl (int_to_string z) else int_to_string z in
  digits_val ds = Z.abs z /\ ds <> [] /\ all_digits ds /\ (forall t, ds = 48%N :: t -> t = []).
Proof. exact int_text_value_wide. Qed.

(* the text begins with '-' exactly for the negative values *)
Theorem IntText_sign : forall z : Z, - 10 ^ 20 < z < 10 ^ 20 -> (hd 0%N (int_to_string z) = 45%N <-> z < 0).
Proof. exact int_text_sign. Qed.

(* ---- 4. different integers have different texts ---- *)

Theorem IntText_injective : forall a b : Z, i64_min <= a <= i64_max -> i64_min <= b <= i64_max ->
  int_to_string a = int_to_string b -> a = b.
Proof. exact int_text_injective. Qed.

Theorem IntText_injective_wide : forall a b : Z, - 10 ^ 20 < a < 10 ^ 20 -> - 10 ^ 20 < b < 10 ^ 20 ->
  int_to_string a = int_to_string b -> a = b.
Proof. exact int_text_injective_wide. Qed.

(* ---- 5. the bound is real: the function is NOT the decimal notation for every z >= 0 ---- *)

Theorem IntText_fuel_needed : exists z : Z, 0 <= z /\ int_to_string z <> decimal z.
Proof. exact int_text_fuel_needed. Qed.

(* the first such value is 10^20 (IntText_nonneg covers everything below): its leading 1 is lost.
   No i64 (and no u64 / usize, see n_to_string in Model/Display.v) reaches it. *)
Theorem IntText_fuel_needed_explicit :
  int_to_string (10 ^ 20) = zeros 20 /\ decimal (10 ^ 20) = 49%N :: zeros 20.
Proof. exact int_text_fuel_needed_explicit. Qed.

(* ---- 6. round trip through the lexer ---- *)

Theorem IntText_roundtrip : forall z : Z, 0 <= z <= i64_max -> tokenize (int_to_string z) = Ok [TInt z].
Proof. exact int_text_roundtrip. Qed.

(* the text of a negative value is the two tokens minus, |z| (an instance of C06_embedded) ... *)
Theorem IntText_roundtrip_neg : forall z : Z, i64_min < z < 0 ->
  tokenize (int_to_string z) = Ok [TMinus; TInt (- z)].
Proof. exact int_text_roundtrip_neg. Qed.

(* ... except for i64_min: its digits denote 2^63, which is no Int token (C06_dec_overflow) *)
Theorem IntText_roundtrip_min :
  tokenize (int_to_string i64_min) = Ok [TMinus; TFloat (f_of_decimal 9223372036854775808 0)].
Proof. exact int_text_roundtrip_min. Qed.

(* ---- 7. str::from and Display for Value on integers ---- *)

Theorem IntText_str_from : forall (O : std_oracle) (z : Z), i64_min <= z <= i64_max ->
  str_from O (VInt z) = (if z <? 0 then 45%N :: decimal (- z) else decimal z) /\
  value_display O (VInt z) = (if z <? 0 then 45%N :: decimal (- z) else decimal z).
Proof. exact int_text_str_from. Qed.

(* ---- 8. examples ---- *)

Example IntText_ex :
  int_to_string 0 = s2l "0"%string /\
  int_to_string 7 = s2l "7"%string /\
  int_to_string (-7) = s2l "-7"%string /\
  int_to_string 9223372036854775807 = s2l "9223372036854775807"%string /\
  int_to_string (-9223372036854775808) = s2l "-9223372036854775808"%string.
Proof. exact int_text_examples. Qed.

(* the hypotheses are met by ordinary values and by both ends of the i64 range *)
Example IntText_ex_ranges :
  (0 <= 1234567890123456789 <= i64_max) /\ (i64_min <= -42 < 0) /\ (i64_min < -42 < 0) /\
  (i64_min <= i64_min <= i64_max) /\ (i64_min <= i64_max <= i64_max) /\
  (0 <= i64_max < 10 ^ 20) /\ (- 10 ^ 20 < i64_min < 0).
Proof. vm_compute. repeat split; discriminate. Qed.

Example IntText_ex_roundtrip :
  tokenize (int_to_string 1234567890123456789) = Ok [TInt 1234567890123456789] /\
  tokenize (int_to_string (-42)) = Ok [TMinus; TInt 42] /\
  tokenize (int_to_string i64_max) = Ok [TInt i64_max] /\
  tokenize (int_to_string (i64_min + 1)) = Ok [TMinus; TInt i64_max].
Proof. repeat split; vm_compute; reflexivity. Qed.
