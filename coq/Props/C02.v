(* C02 -- Precedence and associativity alone determine the operator tree.
   This file holds only the property theorems; every proof is `exact <lemma of Proofs/C02.v>`.

   Vocabulary (Spec/Grammar.v): expr is the grammar (14 binary, 2 prefix, 9 assignment operators, calls,
   literals, variables, parenthesised sequences); flatten renders an expression as tokens; tree_of is the tree
   it denotes; ok F e is the parenthesisation rule of the DOCUMENTED precedence table (doc_prec, doc_rtl);
   paren_min inserts exactly the required parentheses into a parenthesis-free AST, strip forgets them.
   The generated tables of the crate enter only through Proofs/TableFacts.v (order isomorphism). *)
From Coq Require Import Floats.SpecFloat Strings.String.
Require Import Model.Base Model.Syntax Model.Builder.
Require Import Spec.OpTable Spec.Grammar Proofs.TableFacts Proofs.C02.

(* Every well-parenthesised expression -- any depth, any operators, any redundant parentheses, tuples,
   chains and `()` inside parentheses -- is parsed into exactly its reference tree. *)
Theorem C02_parse : forall e : expr, ok_top e ->
  tokens_to_operator_tree (flatten e) = Ok (Node ORootNode [tree_of e]).
Proof. exact expr_parse_top. Qed.

(* The generalised round trip.  The element being parsed has the open spine C (frames from the element root
   to the hole, Proofs/C02.v: plugO / plug), it sits in the root_stack at position (c, tail) (Proofs/C02.v:
   put), k is what follows; lr is last_token_is_rightsided_value.  Reading the tokens of e fills the hole
   with tree_of e and touches nothing else.
   - follow_ok k: the next token is neither an assignment nor the start of an operand, so that a final
     identifier of e is read as a variable (the one-token lookahead);
   - lr = false, i.e. the previous token cannot end an operand, so that a leading minus is a negation;
     after a function name lr is true, and e is then an argument (is_arg), which never starts with a minus. *)
Theorem C02_roundtrip : forall (e : expr) (C : list frame) (k : list token) (c : cur) (tail : list node) (lr : bool),
  cur_ok c -> Forall wff C -> Forall inner C -> ok (map fkind C) e = true -> follow_ok k ->
  is_arg e = true \/ lr = false ->
  build_loop (flatten e ++ k) (put c (plugO rootf C) tail) lr =
  build_loop k (put c (plug (rootf :: C) (tree_of e)) tail) true.
Proof. exact expr_parse. Qed.

(* The required parentheses exist for every AST: paren_min r is well-parenthesised, it is r when the
   parentheses are forgotten, and it parses to its reference tree. *)
Theorem C02_required : forall r : raw_expr, raw_wf r = true ->
  ok_top (paren_min [] r) /\ strip (paren_min [] r) = r /\
  tokens_to_operator_tree (flatten (paren_min [] r)) = Ok (Node ORootNode [tree_of (paren_min [] r)]).
Proof. exact required_parens. Qed.

(* In particular for EVERY AST over the 14 binary, 2 prefix and 9 assignment operators, function application,
   literals and variables (no hypothesis beyond "contains no tuple / chain / `()` operand"). *)
Theorem C02_required_plain : forall r : raw_expr, no_seq r = true ->
  ok_top (paren_min [] r) /\ strip (paren_min [] r) = r /\
  tokens_to_operator_tree (flatten (paren_min [] r)) = Ok (Node ORootNode [tree_of (paren_min [] r)]).
Proof. exact required_parens_plain. Qed.

(* Redundant parentheses never change the tree's meaning: two well-parenthesised renderings of the same AST
   give trees that are equal once every RootNode wrapping a single child is forgotten. *)
Theorem C02_redundant : forall e e' : expr, ok_top e -> ok_top e' -> strip e = strip e' ->
  exists n n', tokens_to_operator_tree (flatten e) = Ok n /\ tokens_to_operator_tree (flatten e') = Ok n'
               /\ strip_roots n = strip_roots n'.
Proof. exact redundant_parens. Qed.

(* ... and that common tree is the tree of the AST itself (rtree, Proofs/C02.v: no RootNode except the empty
   ones of absent sequence elements). *)
Theorem C02_tree_of_ast : forall e : expr, ok_top e ->
  exists n, tokens_to_operator_tree (flatten e) = Ok n /\ strip_roots n = rtree (strip e).
Proof. exact tree_of_ast. Qed.

(* A minus is the binary Sub exactly when the previous token can end an operand (`)`, identifier, literal),
   the prefix Neg otherwise; token_step (Proofs/C02.v) is the loop body of tokens_to_operator_tree. *)
Theorem C02_minus : forall (prev : token) (ts : list token) (st : list node) (lr : bool),
  build_loop (prev :: TMinus :: ts) st lr =
  (do st1 <- token_step prev (Some TMinus) st lr;
   do st2 <- insert_node (Node (if ends_operand prev then OSub else ONeg) []) st1;
   build_loop ts st2 false).
Proof. exact minus_decision. Qed.

Theorem C02_minus_first : forall (ts : list token),
  build_loop (TMinus :: ts) [root_node] false =
  (do st <- insert_node (Node ONeg []) [root_node]; build_loop ts st false).
Proof. exact minus_first. Qed.

(* An identifier is a write target before an assignment operator, a function name before a token that starts
   an operand (`(`, identifier, literal), a variable otherwise (also at the end of the input). *)
Theorem C02_ident : forall (id : str) (ts : list token) (st : list node) (lr : bool),
  build_loop (TIdentifier id :: ts) st lr =
  (do st1 <- insert_node
       (Node match ts with
             | nx :: _ =>
                 if assignment_token nx then OVariableIdentifierWrite id
                 else if starts_operand nx then OFunctionIdentifier id
                 else OVariableIdentifierRead id
             | [] => OVariableIdentifierRead id
             end []) st;
   build_loop ts st1 true).
Proof. exact ident_decision_full. Qed.

(* The generated tables are order-isomorphic to the documented ones (the only place the numbers of the crate
   are looked at). *)
Theorem C02_tables :
  (forall a b : op_kind, (Gen.Tables.impl_prec a ?= Gen.Tables.impl_prec b) = (doc_prec a ?= doc_prec b)) /\
  (forall k : op_kind, Gen.Tables.impl_ltr k = negb (doc_rtl k)) /\
  (forall k : op_kind, Gen.Tables.impl_max_args k = doc_arity k) /\
  (forall k : op_kind, Gen.Tables.impl_is_unary k = doc_prefix k) /\
  (forall k : op_kind, Gen.Tables.impl_is_leaf k = doc_atom k).
Proof. exact tables_agree. Qed.

(* ---- non-vacuity: concrete inputs meeting the hypotheses ---- *)

Definition va : expr := Var (s2l "a"%string). Definition vb : expr := Var (s2l "b"%string). Definition vc : expr := Var (s2l "c"%string).

(* a = -b ^ 2 * (c + 1) - f (a, b) % 3 || !(b == c) && a < b *)
Definition sample : expr :=
  Asg AAssign (s2l "a"%string)
    (Bin BOr
       (Bin BSub
          (Bin BMul (Pre UNeg (Bin BExp vb (Lit (LInt 2)))) (PExpr (Bin BAdd vc (Lit (LInt 1)))))
          (Bin BMod (Call (s2l "f"%string) (Paren [[Some va; Some vb]])) (Lit (LInt 3))))
       (Bin BAnd (Pre UNot (PExpr (Bin BEq vb vc))) (Bin BLt va vb))).

Example C02_sample_ok : ok_top sample.
Proof. vm_compute. reflexivity. Qed.

Example C02_sample_parse : tokens_to_operator_tree (flatten sample) = Ok (Node ORootNode [tree_of sample]).
Proof. vm_compute. reflexivity. Qed.

(* the rule is tight on the classic pairs: without the parentheses the AST is not ok, and the parser indeed
   builds another tree *)
Example C02_needs_parens :
  ok [] (Bin BMul (Bin BAdd va vb) vc) = false /\
  tokens_to_operator_tree (flatten (Bin BMul (Bin BAdd va vb) vc)) = Ok (Node ORootNode [tree_of (Bin BAdd va (Bin BMul vb vc))]) /\
  ok [] (Bin BSub va (Bin BSub vb vc)) = false /\
  ok [] (Bin BSub (Bin BSub va vb) vc) = true /\
  ok [] (Asg AAssign (s2l "a"%string) (Asg AAssign (s2l "b"%string) vc)) = true /\
  ok [] (Bin BExp va (Pre UNeg (Bin BExp vb vc))) = false.       (* x ^ -y ^ z: not claimed *)
Proof. vm_compute. repeat split; reflexivity. Qed.

(* the round trip in the middle of `a + b * HERE - ...`: spine [Add a; Mul b], inside an open tuple *)
Example C02_roundtrip_instance :
  let C : list frame := [(OAdd, [tree_of va]); (OMul, [tree_of vb])] in
  let c := InSeq OTuple [Node ORootNode []] in
  cur_ok c /\ Forall wff C /\ Forall inner C /\ ok (map fkind C) (Bin BExp vc va) = true
  /\ follow_ok [TMinus; TInt 1] /\ follow_ok [TRBrace] /\ follow_ok [].
Proof.
  cbn zeta. repeat split; try reflexivity;
    repeat (constructor; try (split; [reflexivity|]); try reflexivity); cbn; lia.
Qed.

(* a raw AST that needs parentheses in three places *)
Definition raw_sample : raw_expr :=
  RBin BMul (RBin BAdd (RVar (s2l "a"%string)) (RLit (LInt 1)))
       (RPre UNeg (RBin BExp (RVar (s2l "b"%string))
                     (RAsg AAdd (s2l "c"%string) (RCall (s2l "f"%string) (RBin BSub (RVar (s2l "a"%string)) (RSeq [[Some (RVar (s2l "a"%string)); None]])))))).

Example C02_raw_sample : raw_wf raw_sample = true /\
  flatten (paren_min [] raw_sample) =
  [TLBrace; TIdentifier (s2l "a"%string); TPlus; TInt 1; TRBrace; TStar; TMinus; TIdentifier (s2l "b"%string); THat;
   TLBrace; TIdentifier (s2l "c"%string); TPlusAssign; TIdentifier (s2l "f"%string);
   TLBrace; TIdentifier (s2l "a"%string); TMinus; TLBrace; TIdentifier (s2l "a"%string); TComma; TRBrace; TRBrace; TRBrace].
Proof. vm_compute. split; reflexivity. Qed.

(* two renderings of one AST *)
Example C02_redundant_instance :
  let e1 := Bin BAdd va (Bin BMul vb vc) in
  let e2 := PExpr (Bin BAdd (PExpr (PExpr va)) (PExpr (Bin BMul vb (PExpr vc)))) in
  ok_top e1 /\ ok_top e2 /\ strip e1 = strip e2 /\ flatten e1 <> flatten e2.
Proof. cbn zeta. repeat split; try reflexivity. discriminate. Qed.
