(* C10 -- Builtin functions compute what the documentation says.
   This file holds only the property theorems; every proof is `exact <lemma of Proofs/C10.v>`.
   The reference (names, argument shapes, results, classes) is Spec/BuiltinSpec.v.
   `bclass r` is the outcome class of r: BVal v / BArith / BType / BArity / BBounds (/ BOther: never produced). *)
From Coq Require Import Strings.String Floats.SpecFloat.
Require Import Model.Base Model.Syntax Model.F64 Model.Lexer Model.Value Model.Context Model.Builtins Model.Eval.
Require Import Spec.OpTable Spec.BuiltinSpec Proofs.Common Proofs.C10.
Require Gen.BuiltinNames.

(* ---------------------------------------------------------------------------------------------- *)
(* Names: the model resolves exactly the 49 documented names; so does the running implementation
   (impl_builtin_names is probed from the crate on every run), and none of the probed near-miss names
   (other case, missing prefix, one-edit neighbours, the optional regex / random names) resolves. *)
Theorem C10_names : forall (O : std_oracle) (name : str),
  (exists f, builtin_function O name = Some f) <-> In name (map s2l documented_names).
Proof. exact names_iff. Qed.

Theorem C10_names_match_implementation : forall n : string,
  In n Gen.BuiltinNames.impl_builtin_names <-> In n documented_names.
Proof. exact impl_names. Qed.

Theorem C10_probed_absent_names : forall (O : std_oracle) (n : string),
  In n Gen.BuiltinNames.probed_absent_names -> builtin_function O (s2l n) = None.
Proof. exact absent_names. Qed.

Theorem C10_table_rows_are_the_documented_names : forall O : std_oracle,
  map (fun r => fst (fst r)) (spec_table O) = documented_names.
Proof. exact spec_names. Qed.

(* the classes of this property refine those of C03 *)
Theorem C10_classes_refine_C03 : forall r : outcome value, coarse (bclass r) = class_of r.
Proof. exact coarse_bclass. Qed.

(* ---------------------------------------------------------------------------------------------- *)
(* The whole table: every builtin, on every well-formed argument, is in the relation of its row. *)
Theorem C10_builtin : forall (O : std_oracle) (name : str) (f : value -> outcome value),
  builtin_function O name = Some f ->
  exists sh R, spec_of O name = Some (sh, R) /\ forall v, wf v -> R v (bclass (f v)).
Proof. exact builtin_spec_wf. Qed.

(* A wrong number of arguments or a wrong argument type is an error, never a value.  (The one place
   where the error is OutOfBoundsAccess instead: str::substring(s, negative, non-int).) *)
Theorem C10_wrong_arity_or_type : forall (O : std_oracle) (name : str) (f : value -> outcome value)
    (sh : shape) (R : value -> bcls -> Prop) (v : value),
  builtin_function O name = Some f -> spec_of O name = Some (sh, R) -> has_shape sh v = false ->
  bclass (f v) = BType \/ bclass (f v) = BArity \/ (sh = ShSubstring /\ bclass (f v) = BBounds).
Proof. exact wrong_shape. Qed.

(* ... and an argument of the documented shape is never rejected as ill-typed *)
Theorem C10_documented_shape_accepted : forall (O : std_oracle) (name : str) (f : value -> outcome value)
    (sh : shape) (R : value -> bcls -> Prop) (v : value),
  builtin_function O name = Some f -> spec_of O name = Some (sh, R) -> has_shape sh v = true -> wf v ->
  bclass (f v) <> BType /\ bclass (f v) <> BArity.
Proof. exact right_shape. Qed.

(* ---------------------------------------------------------------------------------------------- *)
(* The same, name by name.  `math1 g v` = VFloat (g x) for a number v converted to the double x,
   BType for anything else; `on_num2 g v` = VFloat (g x y) for v = (a, b) two numbers, else BType. *)
Open Scope string_scope.

Theorem C10_math1 : forall (O : std_oracle) (v : value),
  let call (name : string) := option_map (fun f => bclass (f v)) (builtin_function O (s2l name)) in
  call "math::ln" = Some (math1 (o_math1 O MLn) v) /\
  call "math::log2" = Some (math1 (o_math1 O MLog2) v) /\
  call "math::log10" = Some (math1 (o_math1 O MLog10) v) /\
  call "math::exp" = Some (math1 (o_math1 O MExp) v) /\
  call "math::exp2" = Some (math1 (o_math1 O MExp2) v) /\
  call "math::cos" = Some (math1 (o_math1 O MCos) v) /\
  call "math::acos" = Some (math1 (o_math1 O MAcos) v) /\
  call "math::cosh" = Some (math1 (o_math1 O MCosh) v) /\
  call "math::acosh" = Some (math1 (o_math1 O MAcosh) v) /\
  call "math::sin" = Some (math1 (o_math1 O MSin) v) /\
  call "math::asin" = Some (math1 (o_math1 O MAsin) v) /\
  call "math::sinh" = Some (math1 (o_math1 O MSinh) v) /\
  call "math::asinh" = Some (math1 (o_math1 O MAsinh) v) /\
  call "math::tan" = Some (math1 (o_math1 O MTan) v) /\
  call "math::atan" = Some (math1 (o_math1 O MAtan) v) /\
  call "math::tanh" = Some (math1 (o_math1 O MTanh) v) /\
  call "math::atanh" = Some (math1 (o_math1 O MAtanh) v) /\
  call "math::cbrt" = Some (math1 (o_math1 O MCbrt) v) /\
  call "math::sqrt" = Some (math1 f_sqrt v).
Proof. exact p_math1. Qed.

(* argument order as documented: math::log(x, base), math::pow(x, y), math::atan2(y, x), math::hypot(a, b);
   `o_math2 O m a b` is Rust's `a.m(b)` *)
Theorem C10_math2 : forall (O : std_oracle) (v : value),
  let call (name : string) := option_map (fun f => bclass (f v)) (builtin_function O (s2l name)) in
  call "math::log" = Some (on_num2 (fun x base => o_math2 O MLog x base) v) /\
  call "math::pow" = Some (on_num2 (fun x y => o_math2 O MPow x y) v) /\
  call "math::atan2" = Some (on_num2 (fun y x => o_math2 O MAtan2 y x) v) /\
  call "math::hypot" = Some (on_num2 (fun a b => o_math2 O MHypot a b) v).
Proof. exact p_math2. Qed.

Theorem C10_rounding : forall (O : std_oracle) (v : value),
  let call (name : string) := option_map (fun f => bclass (f v)) (builtin_function O (s2l name)) in
  call "floor" = Some (math1 f_floor v) /\
  call "ceil" = Some (math1 f_ceil v) /\
  call "round" = Some (math1 f_round v).
Proof. exact p_rounding. Qed.

Theorem C10_float_predicates : forall (O : std_oracle) (v : value),
  let call (name : string) := option_map (fun f => bclass (f v)) (builtin_function O (s2l name)) in
  call "math::is_nan" = Some (float_pred f_is_nan v) /\
  call "math::is_finite" = Some (float_pred f_is_finite v) /\
  call "math::is_infinite" = Some (float_pred f_is_infinite v) /\
  call "math::is_normal" = Some (float_pred f_is_normal v).
Proof. exact p_float_predicates. Qed.

(* exact on integers, an arithmetic error on MIN, float abs on floats *)
Theorem C10_abs : forall (O : std_oracle) (v : value), wf v ->
  option_map (fun f => bclass (f v)) (builtin_function O (s2l "math::abs")) = Some (spec_abs v).
Proof. exact p_abs. Qed.

Theorem C10_bitops : forall (O : std_oracle) (v : value),
  let call (name : string) := option_map (fun f => bclass (f v)) (builtin_function O (s2l name)) in
  let both_ints (g : Z -> Z -> Z) := match v with VTuple [VInt a; VInt b] => BVal (VInt (g a b)) | _ => BType end in
  call "bitand" = Some (both_ints Z.land) /\
  call "bitor" = Some (both_ints Z.lor) /\
  call "bitxor" = Some (both_ints Z.lxor) /\
  call "bitnot" = Some (on_int Z.lnot v).
Proof. exact p_bitops. Qed.

(* shifts by 0..63 bits are exact (shl modulo 2^64 into the signed range, shr = floor division);
   any other amount still yields an integer, never an error or a panic *)
Theorem C10_shifts : forall (O : std_oracle) (a n : Z),
  let call (name : string) :=
    option_map (fun f => bclass (f (VTuple [VInt a; VInt n]))) (builtin_function O (s2l name)) in
  (0 <= n <= 63 ->
     call "shl" = Some (BVal (VInt (wrap64 (a * 2 ^ n)))) /\ call "shr" = Some (BVal (VInt (a / 2 ^ n)))) /\
  (exists r, call "shl" = Some (BVal (VInt r))) /\ (exists r, call "shr" = Some (BVal (VInt r))).
Proof. exact p_shifts. Qed.

Theorem C10_shifts_all_arguments : forall (O : std_oracle) (v : value) (f_shl f_shr : value -> outcome value),
  builtin_function O (s2l "shl") = Some f_shl -> builtin_function O (s2l "shr") = Some f_shr ->
  on_int2 spec_shl v (bclass (f_shl v)) /\ on_int2 spec_shr v (bclass (f_shr v)).
Proof. exact p_shift_rel. Qed.

(* wrap64 z is the one 64-bit integer congruent to z modulo 2^64 *)
Theorem C10_wrap64_meaning : forall z : Z,
  wraps_to z (wrap64 z) /\ forall r, wraps_to z r -> r = wrap64 z.
Proof. exact p_wrap64. Qed.

Theorem C10_typeof : forall (O : std_oracle) (v : value),
  option_map (fun f => bclass (f v)) (builtin_function O (s2l "typeof")) = Some (spec_typeof v).
Proof. exact p_typeof. Qed.

Theorem C10_if : forall (O : std_oracle) (v : value),
  option_map (fun f => bclass (f v)) (builtin_function O (s2l "if")) = Some (spec_if v).
Proof. exact p_if. Qed.

(* bytes for a string, elements for a tuple *)
Theorem C10_len : forall (O : std_oracle) (v : value),
  option_map (fun f => bclass (f v)) (builtin_function O (s2l "len")) = Some (spec_len v).
Proof. exact p_len. Qed.

(* Display of the value, a top-level string unquoted *)
Theorem C10_str_from : forall (O : std_oracle) (v : value),
  option_map (fun f => bclass (f v)) (builtin_function O (s2l "str::from")) = Some (spec_str_from O v).
Proof. exact p_str_from. Qed.

(* case mapping is the oracle's (Rust std) to_lowercase / to_uppercase on strings, a type error otherwise *)
Theorem C10_str_case : forall (O : std_oracle) (v : value),
  let call (name : string) := option_map (fun f => bclass (f v)) (builtin_function O (s2l name)) in
  call "str::to_lowercase" = Some (on_str (o_to_lowercase O) v) /\
  call "str::to_uppercase" = Some (on_str (o_to_uppercase O) v).
Proof. exact p_str_case. Qed.

Theorem C10_contains : forall (O : std_oracle) (v : value) (f : value -> outcome value),
  builtin_function O (s2l "contains") = Some f -> spec_contains v (bclass (f v)).
Proof. exact p_contains. Qed.

Theorem C10_contains_any : forall (O : std_oracle) (v : value) (f : value -> outcome value),
  builtin_function O (s2l "contains_any") = Some f -> spec_contains_any v (bclass (f v)).
Proof. exact p_contains_any. Qed.

(* str::trim removes a maximal white-space prefix and suffix (relation `trimmed`) *)
Theorem C10_trim : forall (O : std_oracle) (v : value) (f : value -> outcome value),
  builtin_function O (s2l "str::trim") = Some f -> spec_trim v (bclass (f v)).
Proof. exact p_trim. Qed.

(* the relation determines the result: it is the model's (and the lexer's White_Space table's) trim *)
Theorem C10_trim_unique : forall s r : str, trimmed s r <-> r = trim s.
Proof. exact p_trim_unique. Qed.

(* str::substring: the bytes [start, end) when that is a range between character boundaries,
   OutOfBoundsAccess otherwise -- never a made-up value *)
Theorem C10_substring : forall (O : std_oracle) (v : value) (f : value -> outcome value),
  builtin_function O (s2l "str::substring") = Some f -> spec_substring v (bclass (f v)).
Proof. exact p_substring. Qed.

(* when the range exists (hence: all the OutOfBounds cases), that it is unique, and its length *)
Theorem C10_substring_range : forall (s : str) (a b : Z),
  ((exists r, byte_range s a b r) <->
   0 <= a <= b /\ b <= Z.of_N (byte_len s) /\ is_boundary s a /\ is_boundary s b) /\
  (forall r r', byte_range s a b r -> byte_range s a b r' -> r = r') /\
  (forall r, byte_range s a b r -> Z.of_N (byte_len r) = b - a).
Proof. exact p_substring_range. Qed.

(* len and str::substring use the same unit *)
Theorem C10_len_substring_same_unit : forall (O : std_oracle) (f_len f_sub : value -> outcome value),
  builtin_function O (s2l "len") = Some f_len -> builtin_function O (s2l "str::substring") = Some f_sub ->
  (forall s n, f_len (VString s) = Ok (VInt n) -> f_sub (VTuple [VString s; VInt 0; VInt n]) = Ok (VString s)) /\
  (forall s a b r, f_sub (VTuple [VString s; VInt a; VInt b]) = Ok r ->
     exists t, r = VString t /\ f_len r = Ok (VInt (b - a))).
Proof. exact p_same_unit. Qed.

(* ---------------------------------------------------------------------------------------------- *)
(* min / max *)
Theorem C10_minmax : forall (O : std_oracle) (f_min f_max : value -> outcome value),
  builtin_function O (s2l "min") = Some f_min -> builtin_function O (s2l "max") = Some f_max ->
  forall v, wf v ->
    spec_extremum is_min v (bclass (f_min v)) /\ spec_extremum is_max v (bclass (f_max v)).
Proof. exact p_minmax. Qed.

(* spelled out: a non-empty list of 64-bit integers and non-NaN doubles *)
Theorem C10_minmax_list : forall (O : std_oracle) (f_min f_max : value -> outcome value) (l : list value),
  builtin_function O (s2l "min") = Some f_min -> builtin_function O (s2l "max") = Some f_max ->
  l <> [] -> Forall wf l -> forallb is_num l = true -> existsb is_nan_value l = false ->
  (exists r, f_min (VTuple l) = Ok r /\ In r l /\ forall y, In y l -> ~ num_lt y r) /\
  (exists r, f_max (VTuple l) = Ok r /\ In r l /\ forall y, In y l -> ~ num_lt r y).
Proof. exact p_minmax_list. Qed.

Theorem C10_minmax_single : forall (O : std_oracle) (f_min f_max : value -> outcome value) (n : value),
  builtin_function O (s2l "min") = Some f_min -> builtin_function O (s2l "max") = Some f_max ->
  is_num n = true -> f_min n = Ok n /\ f_max n = Ok n.
Proof. exact p_minmax_single. Qed.

Theorem C10_minmax_errors : forall (O : std_oracle) (f : value -> outcome value) (name : string),
  name = "min" \/ name = "max" -> builtin_function O (s2l name) = Some f ->
  bclass (f (VTuple [])) = BArity /\
  (forall l, forallb is_num l = false -> bclass (f (VTuple l)) = BType) /\
  (forall v, arg_list v = None -> bclass (f v) = BType).
Proof. exact p_minmax_errors. Qed.

(* the comparison of the min/max reference is the language's own `<` *)
Theorem C10_num_lt_is_the_language_lt : forall (O : std_oracle) (a b : value) (c : ctx) (lg : log),
  is_num a = true -> is_num b = true ->
  (num_lt a b <-> fst (op_eval O OLt [a; b] c lg) = Ok (VBool true)).
Proof. exact p_num_lt. Qed.

(* what the min/max proof rests on: `i64 as f64` is monotone and never NaN *)
Theorem C10_int_to_float_monotone : forall x y : Z, in_i64 x = true -> in_i64 y = true -> x <= y ->
  f_ltb (f_of_Z y) (f_of_Z x) = false /\ f_is_nan (f_of_Z x) = false.
Proof. exact (fun x y Hx Hy Hxy => conj (f_of_Z_mono x y Hx Hy Hxy) (f_of_Z_not_nan x Hx)). Qed.

(* ---------------------------------------------------------------------------------------------- *)
(* non-vacuity and concrete rows (the witnesses of the property text among them) *)
Example C10_rows : forall O : std_oracle,
  let call (name : string) (v : value) := option_map (fun f => f v) (builtin_function O (s2l name)) in
  let e19 := VFloat (f_of_Z (10 ^ 19)) in let two_e19 := VFloat (f_of_Z (2 * 10 ^ 19)) in
  call "min" (VTuple [e19; two_e19]) = Some (Ok e19) /\
  call "max" (VTuple [VFloat (f_neg (f_of_Z (10 ^ 19))); VFloat (f_neg (f_of_Z (2 * 10 ^ 19)))])
    = Some (Ok (VFloat (f_neg (f_of_Z (10 ^ 19))))) /\
  call "min" (VInt 5) = Some (Ok (VInt 5)) /\
  call "min" (VTuple [VInt 3; VFloat (f_of_Z 2); VInt 2]) = Some (Ok (VFloat (f_of_Z 2))) /\
  call "max" (VTuple [VInt 3; VFloat (f_of_Z 3)]) = Some (Ok (VInt 3)) /\
  call "min" (VTuple []) = Some (Err (EWrongFunctionArgumentAmount 1 None 0)) /\
  call "math::abs" (VInt i64_min) = Some (Err (ENegationError (VInt i64_min))) /\
  call "math::abs" (VInt (-7)) = Some (Ok (VInt 7)) /\
  call "shl" (VTuple [VInt 1; VInt 63]) = Some (Ok (VInt i64_min)) /\
  call "shl" (VTuple [VInt 1; VInt 64]) = Some (Ok (VInt 1)) /\
  call "shr" (VTuple [VInt (-7); VInt 1]) = Some (Ok (VInt (-4))) /\
  call "shr" (VTuple [VInt 1; VInt (-1)]) = Some (Ok (VInt 0)) /\
  call "len" (VString [228; 98]%N) = Some (Ok (VInt 3)) /\
  call "str::substring" (VTuple [VString [228; 98]%N; VInt 1]) = Some (Err EOutOfBoundsAccess) /\
  call "str::substring" (VTuple [VString [228; 98]%N; VInt 2]) = Some (Ok (VString [98%N])) /\
  call "str::substring" (VTuple [VString [228; 98]%N; VInt 2; VInt 1]) = Some (Err EOutOfBoundsAccess) /\
  call "str::substring" (VTuple [VString [228; 98]%N; VInt (-1); VBool true]) = Some (Err EOutOfBoundsAccess) /\
  call "math::log" (VTuple [VInt 8; VInt 2]) = Some (Ok (VFloat (o_math2 O MLog (f_of_Z 8) (f_of_Z 2)))) /\
  call "math::atan2" (VTuple [VInt 1; VInt 2]) = Some (Ok (VFloat (o_math2 O MAtan2 (f_of_Z 1) (f_of_Z 2)))) /\
  call "floor" (VFloat (f_neg (f_of_decimal 25 (-1)))) = Some (Ok (VFloat (f_neg (f_of_Z 3)))) /\
  call "round" (VFloat (f_of_decimal 25 (-1))) = Some (Ok (VFloat (f_of_Z 3))) /\
  call "contains" (VTuple [VTuple [VInt 1; VFloat (f_of_Z 2)]; VInt 2]) = Some (Ok (VBool false)) /\
  call "contains_any" (VTuple [VTuple [VInt 1; VInt 2]; VTuple [VInt 5; VInt 2]]) = Some (Ok (VBool true)) /\
  call "if" (VTuple [VBool false; VInt 1; VInt 2]) = Some (Ok (VInt 2)) /\
  call "str::trim" (VString [32; 97; 32; 98; 9]%N) = Some (Ok (VString [97; 32; 98]%N)) /\
  call "str::from" (VTuple [VString [97%N]; VInt (-12); VBool true])
    = Some (Ok (VString (s2l "(""a"", -12, true)"))) /\
  call "typeof" VEmpty = Some (Ok (VString (s2l "empty"))) /\
  call "random" VEmpty = None.
Proof. intros. repeat split; vm_compute; reflexivity. Qed.

(* the hypotheses used above are satisfiable by non-trivial inputs *)
Example C10_hypotheses_inhabited :
  wf (VTuple [VInt i64_min; VFloat (f_of_Z 2); VInt i64_max]) /\
  (let l := [VInt i64_min; VFloat (f_of_Z 2); VInt i64_max] in
   l <> [] /\ Forall wf l /\ forallb is_num l = true /\ existsb is_nan_value l = false) /\
  has_shape ShNums (VTuple [VInt 1; VFloat (f_of_Z 2)]) = true /\
  has_shape ShNums (VTuple [VInt 1; VBool true]) = false /\
  has_shape ShSubstring (VTuple [VString []; VInt 0]) = true /\
  has_shape ShIf (VTuple [VInt 1; VInt 2; VInt 3]) = false /\
  (exists r, byte_range [228; 98]%N 2 3 r) /\
  In "min" Gen.BuiltinNames.impl_builtin_names /\ In "random" Gen.BuiltinNames.probed_absent_names.
Proof.
  split; [vm_compute; tauto|]. split.
  { cbv zeta. split; [discriminate|]. split; [repeat constructor; vm_compute; reflexivity|]. split; reflexivity. }
  repeat split; try reflexivity.
  - exists [98%N]. exists [228%N], []. repeat split.
  - apply mem_in. vm_compute. reflexivity.
  - apply mem_in. vm_compute. reflexivity.
Qed.
Close Scope string_scope.
