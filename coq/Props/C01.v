(* C01 -- The library never panics, whatever the input.
   Every model function returns `outcome A = Ok a | Err e | Panic site`; the Panic sites are the unwrap(),
   unreachable!(), indexing, slicing and swap_remove of the Rust code (tools/panic_sites.json audits that the
   source has no site the model does not know).  "Never panics" = no model function ever returns Panic. *)
From Coq Require Import Strings.String Floats.SpecFloat.
Require Import Model.Base Model.Syntax Model.F64 Model.Lexer Model.Builder Model.Value Model.Context Model.Builtins
               Model.Eval Model.Iter Model.Interface Model.Script Model.InterfaceDefs Gen.Interface Model.InterfaceGen.
Require Import Proofs.Common Proofs.BuilderFacts Proofs.C01Lex Proofs.C01Build Proofs.C01Eval Proofs.C01.

(* every input string: any list of Unicode scalar values, no length bound in the model *)
Theorem C01_tokenize : forall s : str, is_panic (tokenize s) = false.
Proof. exact tokenize_no_panic. Qed.

(* every token list *)
Theorem C01_build : forall ts : list token, is_panic (tokens_to_operator_tree ts) = false.
Proof. exact build_no_panic. Qed.

Theorem C01_precompile : forall s : str, is_panic (build_operator_tree s) = false.
Proof. exact parse_no_panic. Qed.

(* the insertion step alone, for ANY tree it is applied to (only the generated tables matter) *)
Theorem C01_insert : forall (self n : node) (b : bool), is_panic (insert_back_prioritized self n b) = false.
Proof. exact insert_no_panic. Qed.

(* every tree -- also hand-built ones with wrong arities -- every context kind, every std oracle,
   user functions that do not themselves panic (the property's hypothesis) *)
Theorem C01_eval : forall (O : std_oracle) (n : node) (c : ctx) (lg : log),
  (forall f g a, lookup_function c f = Some g -> is_panic (g a) = false) ->
  is_panic (fst (eval_ro O n c lg)) = false /\ is_panic (fst (fst (eval_mut O n c lg))) = false.
Proof. exact eval_no_panic. Qed.

(* every builtin on every argument value: extreme integers, out-of-range shift amounts, non-finite floats,
   non-ASCII strings, nested and empty tuples *)
Theorem C01_builtins : forall (O : std_oracle) (name : str) (f : value -> outcome value) (a : value),
  builtin_function O name = Some f -> is_panic (f a) = false.
Proof. exact builtins_no_panic. Qed.

Theorem C01_iter : forall n : node, is_panic (iter_all n) = false.
Proof. exact iter_no_panic. Qed.

(* every entry point (2 levels x 3 context modes x 8 result types), as TRANSLATED from the source *)
Theorem C01_entry : forall (O : std_oracle) (l : elevel) (m : emode) (t : etype) (s : str) (c : ctx) (lg : log),
  translation_complete = true ->
  Forall (fun kv : str * ufun => forall a, is_panic (snd kv a) = false) (c_funs c) ->
  is_panic (fst (fst (run_entry_gen O l m t s c lg))) = false.
Proof. exact entry_gen_no_panic. Qed.

(* every history of context operations *)
Theorem C01_history : forall (O : std_oracle) (ops : list cop) (c : ctx) (lg : log),
  Forall (fun kv : str * ufun => forall a, is_panic (snd kv a) = false) (c_funs c) ->
  Forall cout_no_panic (snd (run_script O (c, lg) ops)).
Proof. exact history_no_panic. Qed.

(* recursion is bounded by the input: the tree is at most (number of tokens + 1) deep, and every recursive
   function of the library (insertion, evaluation, Display, Drop) recurses over that tree *)
Theorem C01_depth : forall (ts : list token) (n : node),
  tokens_to_operator_tree ts = Ok n -> (depth n <= length ts + 1)%nat.
Proof. exact build_depth. Qed.

Theorem C01_depth_chars : forall (s : str) (n : node),
  build_operator_tree s = Ok n -> (depth n <= length s + 1)%nat.
Proof. exact parse_depth_chars. Qed.

(* non-vacuity: the sites the property's text names, now errors or values *)
Example C01_named_sites : forall O : std_oracle,
  (exists f, builtin_function O (s2l "shl") = Some f /\ f (VTuple [VInt 1; VInt 64]) = Ok (VInt 1)) /\
  (exists f, builtin_function O (s2l "shr") = Some f /\ f (VTuple [VInt 1; VInt (-1)]) = Ok (VInt 0)) /\
  (exists f, builtin_function O (s2l "math::abs") = Some f /\ f (VInt i64_min) = Err (ENegationError (VInt i64_min))) /\
  (exists f, builtin_function O (s2l "str::substring") = Some f /\
             f (VTuple [VString [228%N; 98%N]; VInt 1]) = Err EOutOfBoundsAccess).
Proof.
  intros O. repeat split; eexists; (split; [reflexivity|]); vm_compute; reflexivity.
Qed.
