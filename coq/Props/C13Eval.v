(* C13 -- Malformed expressions are rejected, never given a meaning (evaluation part).
   This file holds only the property theorems; every proof is `exact <lemma of Proofs/C13Eval.v>`.

   Props/C13.v shows: input the recogniser rejects (wellformed ts = false) either fails to build or builds
   a tree with an operand-count defect (has_bad_arity n = true).  Here: such a tree never evaluates
   to a value -- by either evaluator, in any context of any kind, whatever the user functions in the
   context do, for every std oracle -- and so no entry point ever returns Ok for rejected input.

   Vocabulary:
     wellformed, has_bad_arity   Spec/Recognizer.v (parenthesis counter + operand/operator automaton;
                                 some node has a number of children its operator's shape does not accept)
     roots_small n               Proofs/C13Eval.v: every RootNode in n has at most one child
                                   roots_small (Node o ch) =
                                     (negb (is_root_op o) || (length ch <=? 1)) && forallb roots_small ch
     is_ok r                     r = Ok _  (so `is_ok r = false` means: an error or a panic, never a value)

   Why roots_small: has_bad_arity asks a RootNode to have at most one child, but Operator::eval accepts
   a RootNode with any number of values (it returns the first).  That is the only shape has_bad_arity
   flags and the dispatchers accept (C13_root_side_condition); the builder never produces it
   (C13_built_roots_small). *)
From Coq Require Import Strings.String Floats.SpecFloat.
Require Import Model.Base Model.Syntax Model.F64 Model.Lexer Model.Builder Model.Value Model.Context
               Model.Builtins Model.Eval Model.Interface.
Require Import Spec.Recognizer Proofs.C13Eval.

(* ---- 1. an operand-count defect is never given a value ---- *)

(* every tree the builder returns, from ANY token list *)
Theorem C13_arity_eval : forall (O : std_oracle) (ts : list token) (n : node) (c : ctx) (lg : log),
  tokens_to_operator_tree ts = Ok n -> has_bad_arity n = true ->
  is_ok (fst (eval_ro O n c lg)) = false /\ is_ok (fst (fst (eval_mut O n c lg))) = false.
Proof. exact arity_eval. Qed.

(* more generally every tree, built or not, in which no RootNode has two or more children *)
Theorem C13_arity_eval_tree : forall (O : std_oracle) (n : node) (c : ctx) (lg : log),
  roots_small n = true -> has_bad_arity n = true ->
  is_ok (fst (eval_ro O n c lg)) = false /\ is_ok (fst (fst (eval_mut O n c lg))) = false.
Proof. exact arity_eval_tree. Qed.

(* built trees are such trees *)
Theorem C13_built_roots_small : forall (ts : list token) (n : node),
  tokens_to_operator_tree ts = Ok n -> roots_small n = true.
Proof. exact built_roots_small. Qed.

(* the side condition cannot be dropped: a RootNode with two children is flagged by has_bad_arity
   and evaluates (to its first child) *)
Theorem C13_root_side_condition :
  exists n, has_bad_arity n = true /\ roots_small n = false /\
    forall (O : std_oracle) (c : ctx) (lg : log),
      eval_ro O n c lg = (Ok (VInt 1), lg) /\ eval_mut O n c lg = (Ok (VInt 1), c, lg).
Proof. exact root_two_children_evaluates. Qed.

(* ---- 2. the sentence of the property ---- *)

(* token lists: what the recogniser rejects and the builder nevertheless builds never evaluates
   successfully (if the builder fails there is no tree to evaluate: C13_rejected) *)
Theorem C13_never_ok : forall (ts : list token) (n : node) (O : std_oracle) (c : ctx) (lg : log),
  wellformed ts = false -> tokens_to_operator_tree ts = Ok n ->
  is_ok (fst (eval_ro O n c lg)) = false /\ is_ok (fst (fst (eval_mut O n c lg))) = false.
Proof. exact never_ok. Qed.

(* source strings, through build_operator_tree ... *)
Theorem C13_never_ok_tree : forall (s : str) (ts : list token) (n : node) (O : std_oracle) (c : ctx) (lg : log),
  tokenize s = Ok ts -> wellformed ts = false -> build_operator_tree s = Ok n ->
  is_ok (fst (eval_ro O n c lg)) = false /\ is_ok (fst (fst (eval_mut O n c lg))) = false.
Proof. exact never_ok_tree. Qed.

(* ... and through every evaluation entry point: all three modes (fresh / read-only / mutable context)
   and all eight result types *)
Theorem C13_never_ok_entry : forall (s : str) (ts : list token),
  tokenize s = Ok ts -> wellformed ts = false ->
  forall (O : std_oracle) (m : emode) (t : etype) (c : ctx) (lg : log),
    is_ok (fst (fst (run_entry O m t s c lg))) = false.
Proof. exact never_ok_entry. Qed.

(* ---- 3. examples ---- *)

(* an oracle record for computing (the examples do not touch it) *)
Definition ex_oracle : std_oracle :=
  Build_std_oracle (fun _ x => x) (fun _ x _ => x) (fun _ => []) (fun s => s) (fun s => s).

(* a HashMapContext with the variable a = 5 and the user function f = identity *)
Definition ex_ctx : ctx := mkctx KHashMap [(s2l "a", VInt 5)] [(s2l "f", fun v => Ok v)] false.

(* the ill-formed inputs of the property text meet the hypotheses of C13_never_ok_entry ... *)
Example C13_examples_hypotheses :
  tokenize (s2l "+ 1 2") = Ok [TPlus; TInt 1; TInt 2] /\ wellformed [TPlus; TInt 1; TInt 2] = false /\
  tokenize (s2l "1 + 2 ( )") = Ok [TInt 1; TPlus; TInt 2; TLBrace; TRBrace] /\
    wellformed [TInt 1; TPlus; TInt 2; TLBrace; TRBrace] = false /\
  tokenize (s2l "- 1 ( )") = Ok [TMinus; TInt 1; TLBrace; TRBrace] /\
    wellformed [TMinus; TInt 1; TLBrace; TRBrace] = false /\
  tokenize (s2l "1 2") = Ok [TInt 1; TInt 2] /\ wellformed [TInt 1; TInt 2] = false /\
  tokenize (s2l "1 +") = Ok [TInt 1; TPlus] /\ wellformed [TInt 1; TPlus] = false.
Proof. repeat split; vm_compute; reflexivity. Qed.

(* ... and the conclusion holds, computed: no entry point returns Ok, in an empty HashMapContext and in
   one with a variable and a user function *)
Example C13_examples_conclusion : forall (m : emode) (t : etype),
  is_ok (fst (fst (run_entry ex_oracle m t (s2l "+ 1 2") empty_hashmap []))) = false /\
  is_ok (fst (fst (run_entry ex_oracle m t (s2l "1 + 2 ( )") empty_hashmap []))) = false /\
  is_ok (fst (fst (run_entry ex_oracle m t (s2l "- 1 ( )") empty_hashmap []))) = false /\
  is_ok (fst (fst (run_entry ex_oracle m t (s2l "1 2") empty_hashmap []))) = false /\
  is_ok (fst (fst (run_entry ex_oracle m t (s2l "1 +") empty_hashmap []))) = false /\
  is_ok (fst (fst (run_entry ex_oracle m t (s2l "+ 1 2") ex_ctx []))) = false /\
  is_ok (fst (fst (run_entry ex_oracle m t (s2l "1 + 2 ( )") ex_ctx []))) = false /\
  is_ok (fst (fst (run_entry ex_oracle m t (s2l "- 1 ( )") ex_ctx []))) = false /\
  is_ok (fst (fst (run_entry ex_oracle m t (s2l "1 2") ex_ctx []))) = false /\
  is_ok (fst (fst (run_entry ex_oracle m t (s2l "1 +") ex_ctx []))) = false.
Proof. intros m t. destruct m, t; vm_compute; repeat split; reflexivity. Qed.

(* the first four fail in the builder; `1 +` is built, with an arity defect, and fails in the evaluators *)
Example C13_examples_errors :
  build_operator_tree (s2l "+ 1 2") = Err (EWrongOperatorArgumentAmount 2 0) /\
  build_operator_tree (s2l "1 + 2 ( )") = Err EMissingOperatorOutsideOfBrace /\
  build_operator_tree (s2l "- 1 ( )") = Err EMissingOperatorOutsideOfBrace /\
  build_operator_tree (s2l "1 2") = Err EAppendedToLeafNode /\
  build_operator_tree (s2l "1 +") = Ok (Node ORootNode [Node OAdd [Node (OConst (VInt 1)) []]]).
Proof. repeat split; vm_compute; reflexivity. Qed.

(* the hypotheses of C13_never_ok, C13_arity_eval and C13_arity_eval_tree are met by `1 +` ... *)
Example C13_never_ok_nonvacuous :
  exists n, tokens_to_operator_tree [TInt 1; TPlus] = Ok n /\ wellformed [TInt 1; TPlus] = false /\
    has_bad_arity n = true /\ roots_small n = true /\
    fst (eval_ro ex_oracle n empty_hashmap []) = Err (EWrongOperatorArgumentAmount 2 1) /\
    fst (fst (eval_mut ex_oracle n empty_hashmap [])) = Err (EWrongOperatorArgumentAmount 2 1) /\
    fst (eval_ro ex_oracle n ex_ctx []) = Err (EWrongOperatorArgumentAmount 2 1) /\
    fst (fst (eval_mut ex_oracle n ex_ctx [])) = Err (EWrongOperatorArgumentAmount 2 1).
Proof. eexists. repeat split; vm_compute; reflexivity. Qed.

(* ... and by `f a +` and `a =`: the user function f IS called (the log shows it), the defect above it
   is an error all the same; an assignment without right-hand side is an error in both evaluators *)
Example C13_never_ok_user_function :
  exists n, tokens_to_operator_tree [TIdentifier (s2l "f"); TIdentifier (s2l "a"); TPlus] = Ok n /\
    wellformed [TIdentifier (s2l "f"); TIdentifier (s2l "a"); TPlus] = false /\
    has_bad_arity n = true /\
    eval_ro ex_oracle n ex_ctx [] = (Err (EWrongOperatorArgumentAmount 2 1), [(s2l "f", VInt 5)]) /\
    eval_mut ex_oracle n ex_ctx [] = (Err (EWrongOperatorArgumentAmount 2 1), ex_ctx, [(s2l "f", VInt 5)]).
Proof. eexists. repeat split; vm_compute; reflexivity. Qed.

Example C13_never_ok_assignment :
  exists n, tokens_to_operator_tree [TIdentifier (s2l "a"); TAssign] = Ok n /\
    wellformed [TIdentifier (s2l "a"); TAssign] = false /\
    has_bad_arity n = true /\
    fst (eval_ro ex_oracle n ex_ctx []) = Err EContextNotMutable /\
    fst (fst (eval_mut ex_oracle n ex_ctx [])) = Err (EWrongOperatorArgumentAmount 2 1).
Proof. eexists. repeat split; vm_compute; reflexivity. Qed.
