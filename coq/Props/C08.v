(* C08 -- Strict left-to-right evaluation; the first error wins.
   This file holds only the property theorems; every proof is `exact <lemma of Proofs/C08.v>`.
   The reference (relation big/bigs/apply_op, the fold eval_children, chain, own_log) is Spec/RefEval.v.

   On "evaluated exactly once": the model is a pure function, so "how often a sub-tree is evaluated" is
   observable only through its effects.  It is pinned down three ways: (1) C08_ref -- a derivation of the
   reference relation contains exactly one sub-derivation per evaluated child and none for the children
   after a stop; (2) C08_children -- the evaluator IS the left fold that visits each child once;
   (3) C08_order / C08_once -- the call log of a node is the concatenation, in child order, of the logs of
   its children (each taken once) followed by the operator's own entry. *)
From Coq Require Import Strings.String Floats.SpecFloat.
Require Import Model.Base Model.Syntax Model.F64 Model.Lexer Model.Value Model.Context Model.Builtins Model.Eval.
Require Import Spec.RefEval Proofs.Common Proofs.C08.

(* ---- the reference relation ---- *)

(* the mutable evaluator satisfies the big-step relation, for every tree, context and initial log ... *)
Theorem C08_ref : forall (O : std_oracle) (c : ctx) (lg : log) (n : node),
  big O c lg n (fst (fst (eval_mut O n c lg))) (snd (fst (eval_mut O n c lg))) (snd (eval_mut O n c lg)).
Proof. exact eval_mut_big. Qed.

(* ... the relation is functional ... *)
Theorem C08_ref_functional : forall (O : std_oracle) (c : ctx) (lg : log) (n : node)
    (r1 : outcome value) (c1 : ctx) (lg1 : log) (r2 : outcome value) (c2 : ctx) (lg2 : log),
  big O c lg n r1 c1 lg1 -> big O c lg n r2 c2 lg2 -> r1 = r2 /\ c1 = c2 /\ lg1 = lg2.
Proof. exact big_functional. Qed.

(* ... so it holds of nothing but the evaluator's answer *)
Theorem C08_ref_iff : forall (O : std_oracle) (c : ctx) (lg : log) (n : node)
    (r : outcome value) (c' : ctx) (lg' : log),
  big O c lg n r c' lg' <-> eval_mut O n c lg = (r, c', lg').
Proof. exact big_iff. Qed.

(* the "apply the operator" step of the relation (11 rules) is the model's mutable dispatcher *)
Theorem C08_apply_sound : forall (O : std_oracle) (o : operator) (vs : list value) (c : ctx) (lg : log)
    (r : outcome value) (c' : ctx) (lg' : log),
  apply_op O o vs c lg r c' lg' -> op_eval_mut O o vs c lg = (r, c', lg').
Proof. exact apply_sound. Qed.

Theorem C08_apply_complete : forall (O : std_oracle) (o : operator) (vs : list value) (c : ctx) (lg : log)
    (r : outcome value) (c' : ctx) (lg' : log),
  op_eval_mut O o vs c lg = (r, c', lg') -> apply_op O o vs c lg r c' lg'.
Proof. exact apply_complete. Qed.

(* ---- the children loop is a left fold; the operator is applied afterwards ---- *)
Theorem C08_children : forall (O : std_oracle) (o : operator) (ch : list node) (c : ctx) (lg : log),
  eval_mut O (Node o ch) c lg =
  match eval_children (eval_mut O) ch c lg with
  | (Ok vs, c1, lg1) => op_eval_mut O o vs c1 lg1
  | (Err e, c1, lg1) => (Err e, c1, lg1)
  | (Panic p, c1, lg1) => (Panic p, c1, lg1)
  end.
Proof. exact eval_mut_children. Qed.

Theorem C08_children_ro : forall (O : std_oracle) (o : operator) (ch : list node) (c : ctx) (lg : log),
  eval_ro O (Node o ch) c lg =
  match eval_children_ro (eval_ro O) ch c lg with
  | (Ok vs, lg1) => op_eval O o vs c lg1
  | (Err e, lg1) => (Err e, lg1)
  | (Panic p, lg1) => (Panic p, lg1)
  end.
Proof. exact eval_ro_children. Qed.

(* ---- the log: entries are only appended, and what a tree appends does not depend on what is there ---- *)
Theorem C08_log_frame : forall (O : std_oracle) (n : node) (c : ctx) (r : outcome value) (c' : ctx) (d lg : log),
  eval_mut O n c [] = (r, c', d) -> eval_mut O n c lg = (r, c', lg ++ d).
Proof. exact eval_mut_from_nil. Qed.

Theorem C08_log_frame_ro : forall (O : std_oracle) (n : node) (c : ctx) (r : outcome value) (d lg : log),
  eval_ro O n c [] = (r, d) -> eval_ro O n c lg = (r, lg ++ d).
Proof. exact eval_ro_from_nil. Qed.

(* the operator's own contribution: one entry (f, a) for a one-argument call that finds a user function f *)
Theorem C08_op_log : forall (O : std_oracle) (o : operator) (vs : list value) (c : ctx) (lg : log)
    (r : outcome value) (c' : ctx) (lg' : log),
  op_eval_mut O o vs c lg = (r, c', lg') ->
  lg' = lg ++ own_log o vs c /\
  forall lgx, op_eval_mut O o vs c lgx = (r, c', lgx ++ own_log o vs c).
Proof. exact op_eval_mut_frame. Qed.

(* ---- order ----
   If the children x1..xn, run one after the other (xi in the context x(i-1) left) each from an empty
   log, yield values vs and logs d1..dn, then the node applies its operator to vs in the last context,
   and the node's log is  lg ++ d1 ++ .. ++ dn ++ own entry. *)
Theorem C08_order : forall (O : std_oracle) (o : operator) (ch : list node) (c : ctx) (lg : log)
    (vs : list value) (ds : list log) (c1 : ctx),
  chain (eval_mut O) c ch vs ds c1 ->
  eval_mut O (Node o ch) c lg = op_eval_mut O o vs c1 (lg ++ concat ds) /\
  snd (eval_mut O (Node o ch) c lg) = lg ++ concat ds ++ own_log o vs c1.
Proof. exact order_mut. Qed.

(* every run in which all children have a value is such a chain *)
Theorem C08_order_exists : forall (O : std_oracle) (ch : list node) (c : ctx) (lg : log)
    (vs : list value) (c1 : ctx) (lg1 : log),
  eval_children (eval_mut O) ch c lg = (Ok vs, c1, lg1) ->
  exists ds, chain (eval_mut O) c ch vs ds c1 /\ lg1 = lg ++ concat ds.
Proof. exact order_mut_exists. Qed.

(* the number of logged calls of a node = sum over its children (each counted once) + its own *)
Theorem C08_once : forall (O : std_oracle) (o : operator) (ch : list node) (c : ctx) (lg : log)
    (vs : list value) (ds : list log) (c1 : ctx),
  chain (eval_mut O) c ch vs ds c1 ->
  length (snd (eval_mut O (Node o ch) c lg)) =
  (length lg + list_sum (map (@length _) ds) + length (own_log o vs c1))%nat.
Proof. exact once_mut. Qed.

(* f(x): x is evaluated, then f is called once with its value; the entry follows those of x *)
Theorem C08_call_once : forall (O : std_oracle) (f : str) (x : node) (c : ctx) (lg : log)
    (a : value) (c1 : ctx) (lg1 : log) (g : ufun),
  eval_mut O x c lg = (Ok a, c1, lg1) -> lookup_function c1 f = Some g ->
  eval_mut O (Node (OFunctionIdentifier f) [x]) c lg =
  (fst (call_function O c1 lg1 f a), c1, lg1 ++ [(f, a)]).
Proof. exact call_once. Qed.

(* ---- the first error wins ----
   children `pre` all have values; the next child x stops (error or panic) with s, leaving context c2 and
   having logged d: the node stops with s, in context c2, with log lg ++ logs of pre ++ d -- whatever
   the operator o and whatever the later children `post` are: they contribute nothing. *)
Theorem C08_first_error : forall (O : std_oracle) (o : operator) (pre : list node) (x : node) (post : list node)
    (c : ctx) (lg : log) (vs : list value) (ds : list log) (c1 : ctx) (s : stop) (c2 : ctx) (d : log),
  chain (eval_mut O) c pre vs ds c1 ->
  eval_mut O x c1 [] = (stopped s, c2, d) ->
  eval_mut O (Node o (pre ++ x :: post)) c lg = (stopped s, c2, lg ++ concat ds ++ d).
Proof. exact first_stop_mut. Qed.

(* ---- the same for the read-only evaluator ---- *)
Theorem C08_order_ro : forall (O : std_oracle) (o : operator) (ch : list node) (c : ctx) (lg : log)
    (vs : list value) (ds : list log),
  chain_ro (eval_ro O) c ch vs ds ->
  eval_ro O (Node o ch) c lg = op_eval O o vs c (lg ++ concat ds) /\
  snd (eval_ro O (Node o ch) c lg) = lg ++ concat ds ++ own_log o vs c.
Proof. exact order_ro. Qed.

Theorem C08_order_exists_ro : forall (O : std_oracle) (ch : list node) (c : ctx) (lg : log)
    (vs : list value) (lg1 : log),
  eval_children_ro (eval_ro O) ch c lg = (Ok vs, lg1) ->
  exists ds, chain_ro (eval_ro O) c ch vs ds /\ lg1 = lg ++ concat ds.
Proof. exact order_ro_exists. Qed.

Theorem C08_first_error_ro : forall (O : std_oracle) (o : operator) (pre : list node) (x : node) (post : list node)
    (c : ctx) (lg : log) (vs : list value) (ds : list log) (s : stop) (d : log),
  chain_ro (eval_ro O) c pre vs ds ->
  eval_ro O x c [] = (stopped s, d) ->
  eval_ro O (Node o (pre ++ x :: post)) c lg = (stopped s, lg ++ concat ds ++ d).
Proof. exact first_stop_ro. Qed.

(* ---- no short-circuit ----
   a && b, a || b: when a yields a boolean -- false for &&, true for || included -- b is evaluated:
   the final context and log are those b left, and if b stops, so does the node. *)
Theorem C08_no_shortcircuit : forall (O : std_oracle) (o : operator) (a b : node) (c : ctx) (lg : log)
    (x : bool) (c1 : ctx) (lg1 : log) (rb : outcome value) (c2 : ctx) (lg2 : log),
  o = OAnd \/ o = OOr ->
  eval_mut O a c lg = (Ok (VBool x), c1, lg1) ->
  eval_mut O b c1 lg1 = (rb, c2, lg2) ->
  eval_mut O (Node o [a; b]) c lg =
  (match rb with Ok vb => fst (op_eval O o [VBool x; vb] c2 lg2) | _ => rb end, c2, lg2).
Proof. exact no_shortcircuit_mut. Qed.

Theorem C08_no_shortcircuit_ro : forall (O : std_oracle) (o : operator) (a b : node) (c : ctx) (lg : log)
    (x : bool) (lg1 : log) (rb : outcome value) (lg2 : log),
  o = OAnd \/ o = OOr ->
  eval_ro O a c lg = (Ok (VBool x), lg1) ->
  eval_ro O b c lg1 = (rb, lg2) ->
  eval_ro O (Node o [a; b]) c lg =
  (match rb with Ok vb => fst (op_eval O o [VBool x; vb] c lg2) | _ => rb end, lg2).
Proof. exact no_shortcircuit_ro. Qed.

(* ---- x op= rhs reads x AFTER rhs was evaluated: from c1, the context rhs left, not from c ---- *)
Theorem C08_opassign_reads_after_rhs : forall (O : std_oracle) (o b : operator) (x : str) (rhs : node)
    (c : ctx) (lg : log) (v : value) (c1 : ctx) (lg1 : log),
  assign_base o = Some b ->
  eval_mut O rhs c lg = (Ok v, c1, lg1) ->
  eval_mut O (Node o [Node (OVariableIdentifierWrite x) []; rhs]) c lg =
  match get_value c1 x with
  | None => (Err (EVariableIdentifierNotFound x), c1, lg1)
  | Some old =>
      match fst (op_eval O b [old; v] c1 lg1) with
      | Ok res =>
          match set_value c1 x res with
          | Ok c2 => (Ok VEmpty, c2, lg1)
          | Err e => (Err e, c1, lg1)
          | Panic p => (Panic p, c1, lg1)
          end
      | Err e => (Err e, c1, lg1)
      | Panic p => (Panic p, c1, lg1)
      end
  end.
Proof. exact opassign_reads_after_rhs. Qed.

Theorem C08_assign_after_rhs : forall (O : std_oracle) (x : str) (rhs : node)
    (c : ctx) (lg : log) (v : value) (c1 : ctx) (lg1 : log),
  eval_mut O rhs c lg = (Ok v, c1, lg1) ->
  eval_mut O (Node OAssign [Node (OVariableIdentifierWrite x) []; rhs]) c lg =
  match set_value c1 x v with
  | Ok c2 => (Ok VEmpty, c2, lg1)
  | Err e => (Err e, c1, lg1)
  | Panic p => (Panic p, c1, lg1)
  end.
Proof. exact assign_after_rhs. Qed.

(* ---- concrete runs (also: the hypotheses above are met by non-trivial inputs) ---- *)
Definition f_name : str := s2l "f"%string.
Definition x_name : str := s2l "x"%string.
(* a context whose user function f returns its argument; every call of f is recorded in the log *)
Definition ctx_f : ctx := mkctx KHashMap [] [(f_name, fun a : value => Ok a)] false.
Definition ctx_f_x (v : value) : ctx := mkctx KHashMap [(x_name, v)] [(f_name, fun a : value => Ok a)] false.
Definition lit (v : value) : node := Node (OConst v) [].
Definition call_f (n : node) : node := Node (OFunctionIdentifier f_name) [n].
Definition set_x (n : node) : node := Node OAssign [Node (OVariableIdentifierWrite x_name) []; n].

(* the hypotheses of C08_call_once are met: f(1) on ctx_f *)
Example C08_ex_call_once_hyps : forall O,
  eval_mut O (lit (VInt 1)) ctx_f [] = (Ok (VInt 1), ctx_f, []) /\
  (exists g, lookup_function ctx_f f_name = Some g) /\
  eval_mut O (call_f (lit (VInt 1))) ctx_f [] = (Ok (VInt 1), ctx_f, [(f_name, VInt 1)]).
Proof. intros. repeat split; try (vm_compute; reflexivity). eexists. vm_compute. reflexivity. Qed.

(* false && f(true)  and  true || f(false): f is called *)
Example C08_ex_and : forall O,
  eval_mut O (Node OAnd [lit (VBool false); call_f (lit (VBool true))]) ctx_f [] =
  (Ok (VBool false), ctx_f, [(f_name, VBool true)]).
Proof. intros. vm_compute. reflexivity. Qed.

Example C08_ex_or : forall O,
  eval_mut O (Node OOr [lit (VBool true); call_f (lit (VBool false))]) ctx_f [] =
  (Ok (VBool true), ctx_f, [(f_name, VBool false)]) /\
  eval_ro O (Node OOr [lit (VBool true); call_f (lit (VBool false))]) ctx_f [] =
  (Ok (VBool true), [(f_name, VBool false)]).
Proof. intros. split; vm_compute; reflexivity. Qed.

(* false && (1/0) fails *)
Example C08_ex_and_error : forall O,
  eval_mut O (Node OAnd [lit (VBool false); Node ODiv [lit (VInt 1); lit (VInt 0)]]) ctx_f [] =
  (Err (EDivisionError (VInt 1) (VInt 0)), ctx_f, []).
Proof. intros. vm_compute. reflexivity. Qed.

(* (f(1), x = 5, 1/0, f(2), x = 6): f(1) and x = 5 happened, f(2) and x = 6 did not *)
Example C08_ex_first_error : forall O,
  eval_mut O (Node OTuple [call_f (lit (VInt 1)); set_x (lit (VInt 5));
                           Node ODiv [lit (VInt 1); lit (VInt 0)];
                           call_f (lit (VInt 2)); set_x (lit (VInt 6))]) ctx_f [] =
  (Err (EDivisionError (VInt 1) (VInt 0)), ctx_f_x (VInt 5), [(f_name, VInt 1)]).
Proof. intros. vm_compute. reflexivity. Qed.

(* the hypotheses of C08_first_error on that input *)
Example C08_ex_first_error_hyps : forall O,
  chain (eval_mut O) ctx_f [call_f (lit (VInt 1)); set_x (lit (VInt 5))]
        [VInt 1; VEmpty] [[(f_name, VInt 1)]; []] (ctx_f_x (VInt 5)) /\
  eval_mut O (Node ODiv [lit (VInt 1); lit (VInt 0)]) (ctx_f_x (VInt 5)) [] =
  (stopped (SErr (EDivisionError (VInt 1) (VInt 0))), ctx_f_x (VInt 5), []).
Proof.
  intros. split.
  - eapply chain_cons; [vm_compute; reflexivity|].
    eapply chain_cons; [vm_compute; reflexivity|]. apply chain_nil.
  - vm_compute. reflexivity.
Qed.

(* f(f(1)) + f(2): inner call, outer call, then the right operand *)
Example C08_ex_order : forall O,
  eval_mut O (Node OAdd [call_f (call_f (lit (VInt 1))); call_f (lit (VInt 2))]) ctx_f [] =
  (Ok (VInt 3), ctx_f, [(f_name, VInt 1); (f_name, VInt 1); (f_name, VInt 2)]).
Proof. intros. vm_compute. reflexivity. Qed.

(* with x = 1:  x += (x = 10; 1)  stores 11, not 2 *)
Example C08_ex_opassign : forall O,
  eval_mut O (Node OAddAssign [Node (OVariableIdentifierWrite x_name) [];
                               Node OChain [set_x (lit (VInt 10)); lit (VInt 1)]]) (ctx_f_x (VInt 1)) [] =
  (Ok VEmpty, ctx_f_x (VInt 11), []).
Proof. intros. vm_compute. reflexivity. Qed.

(* without x:  x += (x = 10; 1)  succeeds, because x exists once the right-hand side has run *)
Example C08_ex_opassign_unbound : forall O,
  eval_mut O (Node OAddAssign [Node (OVariableIdentifierWrite x_name) [];
                               Node OChain [set_x (lit (VInt 10)); lit (VInt 1)]]) ctx_f [] =
  (Ok VEmpty, ctx_f_x (VInt 11), []).
Proof. intros. vm_compute. reflexivity. Qed.
