(* C04 -- Variables keep the last assigned value; HashMapContext is type safe.
   This file holds only the property theorems; every proof is `exact <lemma of Proofs/C04.v>`.
   The abstract state, its operations and the abstract machine are in Spec/AbsCtx.v. *)
From Coq Require Import Strings.String Floats.SpecFloat.
Require Import Model.Base Model.Syntax Model.F64 Model.Lexer Model.Builder Model.Value Model.Context
               Model.Builtins Model.Eval Model.Interface Model.Script.
Require Import Spec.AbsCtx Proofs.Common Proofs.C04.

(* ---------------------------------------------------------------------------------------------- *)
(* set_value: last write wins, other names / functions / switch / kind untouched                  *)
(* ---------------------------------------------------------------------------------------------- *)

(* (set_value only ever succeeds on a HashMapContext, so no hypothesis on the kind is needed) *)
Theorem C04_last_write : forall (c : ctx) (x : str) (v : value) (c' : ctx),
  set_value c x v = Ok c' ->
  get_value c' x = Some v /\
  (forall y, y <> x -> get_value c' y = get_value c y) /\
  (forall f, lookup_function c' f = lookup_function c f) /\
  are_builtin_functions_disabled c' = are_builtin_functions_disabled c /\
  c_kind c' = c_kind c.
Proof. exact last_write. Qed.

(* A value of another type is refused with the error naming the type of the CURRENT value.
   set_value returns either a new context or an error: in the error case there is no new context,
   the caller keeps the one it had (C04_failed_set_step says this for the history machine). *)
Theorem C04_type_safe : forall (c : ctx) (x : str) (v old : value),
  c_kind c = KHashMap -> get_value c x = Some old -> type_of old <> type_of v ->
  set_value c x v =
    Err (match old with
         | VString _ => EExpectedString v | VFloat _ => EExpectedFloat v | VInt _ => EExpectedInt v
         | VBool _ => EExpectedBoolean v | VTuple _ => EExpectedTuple v | VEmpty => EExpectedEmpty v
         end) /\
  set_value c x v = Err (expected_type old v).
Proof. exact type_safe. Qed.

Theorem C04_failed_set_step : forall (O : std_oracle) (c : ctx) (lg : log) (x : str) (v : value) (e : error),
  set_value c x v = Err e -> fst (step O (c, lg) (CSet x v)) = (c, lg).
Proof. exact failed_set_step. Qed.

(* same type: accepted; type_of ignores the length of a tuple *)
Theorem C04_same_type : forall (c : ctx) (x : str) (v old : value),
  c_kind c = KHashMap -> get_value c x = Some old -> type_of old = type_of v ->
  exists c', set_value c x v = Ok c'.
Proof. exact same_type_ok. Qed.

Theorem C04_fresh : forall (c : ctx) (x : str) (v : value),
  c_kind c = KHashMap -> get_value c x = None -> exists c', set_value c x v = Ok c'.
Proof. exact fresh_ok. Qed.

(* ---------------------------------------------------------------------------------------------- *)
(* refinement of the abstract machine                                                             *)
(* ---------------------------------------------------------------------------------------------- *)

(* Every history of context operations (all thirteen `cop`s, every evaluation entry: mutable,
   immutable, context-free, tree building), started in a HashMapContext c and an abstract state a
   that abs relates: the final states are related, the logs are equal, and the outputs agree step
   by step (a dump is compared through abs). *)
Theorem C04_refines : forall (O : std_oracle) (ops : list cop) (c : ctx) (a : astate) (lg : log),
  c_kind c = KHashMap -> aeq (abs c) a ->
  c_kind (fst (fst (run_script O (c, lg) ops))) = KHashMap /\
  aeq (abs (fst (fst (run_script O (c, lg) ops)))) (fst (fst (arun O (a, lg) ops))) /\
  snd (fst (run_script O (c, lg) ops)) = snd (fst (arun O (a, lg) ops)) /\
  Forall2 out_match (snd (run_script O (c, lg) ops)) (snd (arun O (a, lg) ops)).
Proof. exact refines. Qed.

Theorem C04_refines_from_empty : forall (O : std_oracle) (ops : list cop),
  aeq (abs (fst (fst (run_script O (empty_hashmap, []) ops)))) (fst (fst (arun O (a_empty, []) ops))) /\
  snd (fst (run_script O (empty_hashmap, []) ops)) = snd (fst (arun O (a_empty, []) ops)) /\
  Forall2 out_match (snd (run_script O (empty_hashmap, []) ops)) (snd (arun O (a_empty, []) ops)).
Proof. exact refines_initial. Qed.

(* the one-step simulation the fold is built from *)
Theorem C04_refines_step : forall (O : std_oracle) (op : cop) (c : ctx) (a : astate) (lg : log)
                                  (c' : ctx) (lg' : log) (o : cout),
  c_kind c = KHashMap /\ aeq (abs c) a ->
  step O (c, lg) op = ((c', lg'), o) ->
  exists a' ao, astep O (a, lg) op = ((a', lg'), ao) /\
                (c_kind c' = KHashMap /\ aeq (abs c') a') /\ out_match o ao.
Proof. exact sim_step. Qed.

(* the evaluator itself is simulated, node by node (not treated as a black box) *)
Theorem C04_refines_eval : forall (O : std_oracle) (n : node) (c : ctx) (a : astate) (lg : log)
                                  (r : outcome value) (c' : ctx) (lg' : log),
  c_kind c = KHashMap /\ aeq (abs c) a ->
  eval_mut O n c lg = (r, c', lg') ->
  exists a', a_eval O true n a lg = (r, a', lg') /\ (c_kind c' = KHashMap /\ aeq (abs c') a').
Proof. exact sim_eval_mut. Qed.

Theorem C04_refines_eval_ro : forall (O : std_oracle) (n : node) (c : ctx) (a : astate) (lg : log),
  c_kind c = KHashMap /\ aeq (abs c) a ->
  a_eval O false n a lg = (fst (eval_ro O n c lg), a, snd (eval_ro O n c lg)).
Proof. exact sim_eval_ro. Qed.

(* ---------------------------------------------------------------------------------------------- *)
(* the representation invariant (unique keys) and how the evaluator changes a context             *)
(* ---------------------------------------------------------------------------------------------- *)

(* Whatever eval_mut does to the context is a finite sequence of SUCCESSFUL set_value calls
   (sv_star is the reflexive-transitive closure of `set_value _ x v = Ok _`), so C04_last_write and
   C04_type_safe govern expression assignments too; kind, functions and switch never change and the
   unique-keys invariant is preserved. *)
Theorem C04_eval_preserves_wf : forall (O : std_oracle) (n : node) (c : ctx) (lg : log),
  let c' := snd (fst (eval_mut O n c lg)) in
  sv_star c c' /\ c_kind c' = c_kind c /\ c_funs c' = c_funs c /\ c_off c' = c_off c /\
  (NoDup (map fst (c_vars c)) /\ NoDup (map fst (c_funs c)) ->
   NoDup (map fst (c_vars c')) /\ NoDup (map fst (c_funs c'))).
Proof. exact eval_mut_frame. Qed.

(* one operator application: the context is returned as it was, or it is the result of exactly one
   successful set_value (then the operator is an assignment operator and the value is Empty) *)
Theorem C04_operator_changes_by_set_value : forall (O : std_oracle) (o : operator) (args : list value) (c : ctx) (lg : log),
  let '(r, c', lg') := op_eval_mut O o args c lg in
  c' = c \/ (r = Ok VEmpty /\ is_assign_op o = true /\ exists x v, set_value c x v = Ok c').
Proof. exact op_eval_mut_ctx. Qed.

Theorem C04_invariant_step : forall (O : std_oracle) (op : cop) (c : ctx) (lg : log),
  NoDup (map fst (c_vars c)) /\ NoDup (map fst (c_funs c)) ->
  NoDup (map fst (c_vars (fst (fst (step O (c, lg) op))))) /\
  NoDup (map fst (c_funs (fst (fst (step O (c, lg) op))))).
Proof. exact step_inv. Qed.

Theorem C04_invariant : forall (O : std_oracle) (ops : list cop) (c : ctx) (lg : log),
  NoDup (map fst (c_vars c)) /\ NoDup (map fst (c_funs c)) ->
  NoDup (map fst (c_vars (fst (fst (run_script O (c, lg) ops))))) /\
  NoDup (map fst (c_funs (fst (fst (run_script O (c, lg) ops))))).
Proof. exact run_script_inv. Qed.

Theorem C04_invariant_initial : forall k : ckind,
  NoDup (map fst (c_vars (initial_ctx k))) /\ NoDup (map fst (c_funs (initial_ctx k))).
Proof. exact inv_initial. Qed.

(* ---------------------------------------------------------------------------------------------- *)
(* expression assignment and the eight op-assign operators                                        *)
(* ---------------------------------------------------------------------------------------------- *)

(* `x = e`: set_value on the context that evaluating e leaves behind *)
Theorem C04_expr_assign : forall (O : std_oracle) (x : str) (e : node) (c : ctx) (lg : log)
                                 (v : value) (c1 : ctx) (lg1 : log),
  eval_mut O e c lg = (Ok v, c1, lg1) ->
  eval_mut O (Node OAssign [Node (OVariableIdentifierWrite x) []; e]) c lg =
  match set_value c1 x v with
  | Ok c2 => (Ok VEmpty, c2, lg1)
  | Err err => (Err err, c1, lg1)
  | Panic s => (Panic s, c1, lg1)
  end.
Proof. exact expr_assign. Qed.

(* value level: x o= v  is  read x, apply the base operator, bind x -- as an equation on
   (result, context, log) *)
Theorem C04_opassign : forall (O : std_oracle) (o b : operator) (x : str) (v : value) (c : ctx) (lg : log),
  assign_base o = Some b ->
  op_eval_mut O o [VString x; v] c lg =
  match (do cur <- match get_value c x with Some w => Ok w | None => Err (EVariableIdentifierNotFound x) end;
         do r <- fst (op_eval O b [cur; v] c lg);
         set_value c x r) with
  | Ok c' => (Ok VEmpty, c', lg)
  | Err e => (Err e, c, lg)
  | Panic s => (Panic s, c, lg)
  end.
Proof. exact opassign_value. Qed.

(* program level.  `x o= e` reads x AFTER evaluating e, `x = x o e` reads x BEFORE: the two programs
   yield the same (result, context, log) when x is bound and evaluating e leaves the binding of x as
   it was (whatever else e does, including failing). *)
Theorem C04_opassign_prog : forall (O : std_oracle) (o b : operator) (x : str) (e : node) (c : ctx) (lg : log)
                                   (cur : value) (re : outcome value) (c1 : ctx) (lg1 : log),
  assign_base o = Some b ->
  get_value c x = Some cur ->
  eval_mut O e c lg = (re, c1, lg1) ->
  get_value c1 x = Some cur ->
  eval_mut O (Node o [Node (OVariableIdentifierWrite x) []; e]) c lg =
  eval_mut O (Node OAssign [Node (OVariableIdentifierWrite x) [];
                            Node b [Node (OVariableIdentifierRead x) []; e]]) c lg.
Proof. exact opassign_prog_bound. Qed.

(* x unbound: both report x as not found, provided e succeeds without any effect *)
Theorem C04_opassign_prog_unbound : forall (O : std_oracle) (o b : operator) (x : str) (e : node) (c : ctx) (lg : log) (v : value),
  assign_base o = Some b ->
  get_value c x = None ->
  eval_mut O e c lg = (Ok v, c, lg) ->
  eval_mut O (Node o [Node (OVariableIdentifierWrite x) []; e]) c lg
    = (Err (EVariableIdentifierNotFound x), c, lg) /\
  eval_mut O (Node OAssign [Node (OVariableIdentifierWrite x) [];
                            Node b [Node (OVariableIdentifierRead x) []; e]]) c lg
    = (Err (EVariableIdentifierNotFound x), c, lg).
Proof. exact opassign_prog_unbound. Qed.

(* a syntactic sufficient condition: e contains no assignment operator at all *)
Theorem C04_no_assign_no_change : forall (O : std_oracle) (n : node),
  no_assign n = true -> forall c lg, snd (fst (eval_mut O n c lg)) = c.
Proof. exact eval_mut_no_assign. Qed.

Theorem C04_opassign_prog_assignment_free : forall (O : std_oracle) (o b : operator) (x : str) (e : node)
                                                   (c : ctx) (lg : log) (cur : value),
  assign_base o = Some b -> no_assign e = true -> get_value c x = Some cur ->
  eval_mut O (Node o [Node (OVariableIdentifierWrite x) []; e]) c lg =
  eval_mut O (Node OAssign [Node (OVariableIdentifierWrite x) [];
                            Node b [Node (OVariableIdentifierRead x) []; e]]) c lg.
Proof. exact opassign_prog_no_assign. Qed.

(* The unrestricted statement "x o= e behaves as x = x o e" is FALSE of the model (and of the crate):
   with x = 1,  x += (x = 5; 1)  leaves x = 6,  x = x + (x = 5; 1)  leaves x = 2. *)
Theorem C04_opassign_prog_refuted : forall O : std_oracle,
  exists (o b : operator) (x : str) (e : node) (c : ctx) (lg : log),
    assign_base o = Some b /\ get_value c x <> None /\
    eval_mut O (Node o [Node (OVariableIdentifierWrite x) []; e]) c lg <>
    eval_mut O (Node OAssign [Node (OVariableIdentifierWrite x) [];
                              Node b [Node (OVariableIdentifierRead x) []; e]]) c lg.
Proof. exact opassign_prog_refuted. Qed.

(* a failed operator application (any result other than Ok Empty) returns the context it was given *)
Theorem C04_failed_assign_unchanged : forall (O : std_oracle) (o : operator) (args : list value) (c : ctx) (lg : log)
                                             (r : outcome value) (c' : ctx) (lg' : log),
  op_eval_mut O o args c lg = (r, c', lg') -> r <> Ok VEmpty -> c' = c.
Proof. exact failed_assign_unchanged. Qed.

(* ---------------------------------------------------------------------------------------------- *)
(* clearing, listing, cloning                                                                     *)
(* ---------------------------------------------------------------------------------------------- *)

Theorem C04_clear : forall c : ctx,
  (* clear_variables: every name unbound, every type assignable again; functions and switch kept *)
  ((forall x, get_value (clear_variables c) x = None) /\
   (c_kind c = KHashMap -> forall x v, exists c', set_value (clear_variables c) x v = Ok c') /\
   iter_variables (clear_variables c) = [] /\
   (forall f, lookup_function (clear_variables c) f = lookup_function c f) /\
   are_builtin_functions_disabled (clear_variables c) = are_builtin_functions_disabled c) /\
  (* clear_functions: user functions only *)
  ((forall f, lookup_function (clear_functions c) f = None) /\
   (forall x, get_value (clear_functions c) x = get_value c x) /\
   iter_variables (clear_functions c) = iter_variables c /\
   are_builtin_functions_disabled (clear_functions c) = are_builtin_functions_disabled c) /\
  (* clear: both; the switch is untouched *)
  ((forall x, get_value (clear c) x = None) /\
   (forall f, lookup_function (clear c) f = None) /\
   iter_variables (clear c) = [] /\
   are_builtin_functions_disabled (clear c) = are_builtin_functions_disabled c).
Proof. exact clear_spec. Qed.

Theorem C04_listing : forall c : ctx,
  NoDup (map fst (c_vars c)) /\ NoDup (map fst (c_funs c)) ->
  (forall x v, In (x, v) (iter_variables c) <-> get_value c x = Some v) /\
  NoDup (iter_variable_names c).
Proof. exact listing. Qed.

(* Cloning a persistent value is the identity.  That a clone and its original do not influence each
   other afterwards cannot be expressed in this model (there is no aliasing in it); it is tested by
   the history generator of the harness (clone, mutate one side, observe both). *)
Theorem C04_clone : forall (O : std_oracle) (c : ctx) (lg : log), fst (step O (c, lg) CClone) = (c, lg).
Proof. exact clone_identity. Qed.

(* ---------------------------------------------------------------------------------------------- *)
(* non-vacuity                                                                                    *)
(* ---------------------------------------------------------------------------------------------- *)

Example C04_ex_history : forall O,
  snd (run_script O (empty_hashmap, [])
         [CSet ex_x (VInt 1); CSet ex_x (VBool true); CGet ex_x;
          CSet ex_x (VInt 7); CGet ex_x; CClrV; CSet ex_x (VBool true); CGet ex_x;
          CEv (EEval LvString MMut XValue) (s2l "x = false; x ||= true; x"%string)]) =
  [OUnit (Ok tt); OUnit (Err (EExpectedInt (VBool true))); OGet (Some (VInt 1));
   OUnit (Ok tt); OGet (Some (VInt 7)); OUnit (Ok tt); OUnit (Ok tt); OGet (Some (VBool true));
   OVal (Ok (VBool true))].
Proof. intros. vm_compute. reflexivity. Qed.

(* hypotheses of C04_last_write / C04_type_safe / C04_same_type / C04_fresh are met *)
Example C04_ex_set :
  (exists c', set_value ex_ctx ex_x (VInt 7) = Ok c') /\
  (c_kind ex_ctx = KHashMap /\ get_value ex_ctx ex_x = Some (VInt 1) /\ type_of (VInt 1) <> type_of (VFloat (f_of_Z 1))) /\
  (let c := mkctx KHashMap [(ex_x, VTuple [VInt 1])] [] false in
   c_kind c = KHashMap /\ get_value c ex_x = Some (VTuple [VInt 1]) /\ type_of (VTuple [VInt 1]) = type_of (VTuple []) /\
   set_value c ex_x (VTuple []) = Ok (mkctx KHashMap [(ex_x, VTuple [])] [] false)) /\
  (c_kind ex_ctx = KHashMap /\ get_value ex_ctx (s2l "y"%string) = None).
Proof.
  split; [eexists; reflexivity|]. split; [repeat split; discriminate|].
  split; [repeat split|repeat split].
Qed.

(* hypotheses of C04_opassign_prog (e = a call of a builtin), of the unbound variant, of the
   assignment-free variant *)
Example C04_ex_opassign_prog : forall O,
  let e := Node (OFunctionIdentifier (s2l "len"%string)) [Node (OConst (VString ex_x)) []] in
  assign_base OAddAssign = Some OAdd /\ get_value ex_ctx ex_x = Some (VInt 1) /\
  eval_mut O e ex_ctx [] = (Ok (VInt 1), ex_ctx, []) /\ no_assign e = true /\
  get_value empty_hashmap ex_x = None /\ eval_mut O e empty_hashmap [] = (Ok (VInt 1), empty_hashmap, []).
Proof. intros. repeat split. Qed.

(* ... and by an e WITH effects: it assigns another variable and calls a user function (logged); x keeps its value *)
Example C04_ex_opassign_prog_effect : forall O,
  let rec := s2l "rec"%string in
  let y := s2l "y"%string in
  let c := mkctx KHashMap [(ex_x, VInt 1)] [(rec, fun a => Ok a)] false in
  let e := Node OChain [Node ORootNode [Node OAssign [Node (OVariableIdentifierWrite y) []; Node (OConst (VInt 2)) []]];
                        Node ORootNode [Node (OFunctionIdentifier rec) [Node (OConst (VInt 3)) []]]] in
  assign_base OAddAssign = Some OAdd /\ get_value c ex_x = Some (VInt 1) /\
  exists c1, eval_mut O e c [] = (Ok (VInt 3), c1, [(rec, VInt 3)]) /\
             get_value c1 ex_x = Some (VInt 1) /\ get_value c1 y = Some (VInt 2) /\ get_value c y = None.
Proof. intros. split; [reflexivity|]. split; [reflexivity|]. eexists. repeat split. Qed.

Example C04_ex_opassign_parse :
  build_operator_tree (s2l "x += (x = 5; 1)"%string) =
  Ok (Node ORootNode [Node OAddAssign [Node (OVariableIdentifierWrite ex_x) []; ex_e]]).
Proof. exact ex_parse. Qed.

Example C04_ex_opassign_differs : forall O,
  get_value (snd (fst (eval_mut O (Node OAddAssign [Node (OVariableIdentifierWrite ex_x) []; ex_e]) ex_ctx []))) ex_x
    = Some (VInt 6) /\
  get_value (snd (fst (eval_mut O (Node OAssign [Node (OVariableIdentifierWrite ex_x) [];
                                                 Node OAdd [Node (OVariableIdentifierRead ex_x) []; ex_e]]) ex_ctx []))) ex_x
    = Some (VInt 2).
Proof. exact opassign_prog_differs. Qed.

Example C04_ex_opassign_differs_unbound : forall O,
  let e := Node OAssign [Node (OVariableIdentifierWrite (s2l "y"%string)) []; Node (OConst (VInt 1)) []] in
  eval_mut O (Node OAddAssign [Node (OVariableIdentifierWrite ex_x) []; e]) empty_hashmap [] =
    (Err (EVariableIdentifierNotFound ex_x), mkctx KHashMap [(s2l "y"%string, VInt 1)] [] false, []) /\
  eval_mut O (Node OAssign [Node (OVariableIdentifierWrite ex_x) [];
                            Node OAdd [Node (OVariableIdentifierRead ex_x) []; e]]) empty_hashmap [] =
    (Err (EVariableIdentifierNotFound ex_x), empty_hashmap, []).
Proof. exact opassign_prog_differs_unbound. Qed.
