(* C09 -- Function resolution: call forms, shadowing and the builtin switch.
   This file holds only the property theorems; every proof is `exact <lemma of Proofs/C09.v>`. *)
From Coq Require Import Strings.String Floats.SpecFloat.
Require Import Model.Base Model.Syntax Model.F64 Model.Lexer Model.Builder Model.Value Model.Context
               Model.Builtins Model.Eval Model.Interface Model.Script.
Require Import Spec.AbsCtx Proofs.Common Proofs.C04 Proofs.C09.

(* ---------------------------------------------------------------------------------------------- *)
(* resolution order                                                                               *)
(* ---------------------------------------------------------------------------------------------- *)

(* The complete behaviour of the FunctionIdentifier arm, as one equation on (result, log).
   A function defined in the context is applied and the call logged; its answer is the result --
   EXCEPT in the known class, where that answer is Err (EFunctionIdentifierNotFound _): then the
   switch and the builtin of the same name are consulted as if the context had defined nothing
   (known finding, see C09_refuted_known).  With no user function: unknown if builtins are disabled,
   else the builtin of that name, else unknown. *)
Theorem C09_resolution : forall (O : std_oracle) (c : ctx) (lg : log) (f : str) (a : value),
  call_function O c lg f a =
  match lookup_function c f with
  | Some g =>
      (match g a with
       | Err (EFunctionIdentifierNotFound _) =>
           if are_builtin_functions_disabled c then g a
           else match builtin_function O f with
                | Some b => b a
                | None => Err (EFunctionIdentifierNotFound f)
                end
       | r => r
       end, lg ++ [(f, a)])
  | None =>
      (if are_builtin_functions_disabled c then Err (EFunctionIdentifierNotFound f)
       else match builtin_function O f with
            | Some b => b a
            | None => Err (EFunctionIdentifierNotFound f)
            end, lg)
  end.
Proof. exact resolution. Qed.

(* "A function defined in the context always takes precedence over a builtin of the same name":
   proved outside the known class  { g a = Err (EFunctionIdentifierNotFound _) }. *)
Theorem C09_user_first_outside_known : forall (O : std_oracle) (c : ctx) (lg : log) (f : str) (a : value) (g : ufun),
  lookup_function c f = Some g ->
  (forall s, g a <> Err (EFunctionIdentifierNotFound s)) ->
  call_function O c lg f a = (g a, lg ++ [(f, a)]).
Proof. exact user_first_outside_known. Qed.

(* Inside the known class the sentence is FALSE: a user function `max` that answers
   Err (EFunctionIdentifierNotFound "max"), builtins enabled, argument (1, 2): the builtin's 2 comes back. *)
Theorem C09_refuted_known : forall O : std_oracle,
  exists (c : ctx) (lg : log) (f : str) (a : value) (g : ufun),
    lookup_function c f = Some g /\ are_builtin_functions_disabled c = false /\
    g a = Err (EFunctionIdentifierNotFound f) /\
    call_function O c lg f a = (Ok (VInt 2), lg ++ [(f, a)]) /\
    fst (call_function O c lg f a) <> g a.
Proof. exact refuted_known. Qed.

Theorem C09_no_user_function : forall (O : std_oracle) (c : ctx) (lg : log) (f : str) (a : value),
  lookup_function c f = None ->
  call_function O c lg f a =
  (if are_builtin_functions_disabled c then Err (EFunctionIdentifierNotFound f)
   else match builtin_function O f with
        | Some b => b a
        | None => Err (EFunctionIdentifierNotFound f)
        end, lg).
Proof. exact no_user_function. Qed.

(* with builtins disabled every name the context does not define -- every builtin name -- is unknown *)
Theorem C09_disabled : forall (O : std_oracle) (c : ctx) (lg : log) (f : str) (a : value),
  are_builtin_functions_disabled c = true -> lookup_function c f = None ->
  fst (call_function O c lg f a) = Err (EFunctionIdentifierNotFound f).
Proof. exact disabled. Qed.

(* ---------------------------------------------------------------------------------------------- *)
(* the three kinds of context                                                                     *)
(* ---------------------------------------------------------------------------------------------- *)

Theorem C09_kinds_empty : forall (O : std_oracle) (c : ctx),
  c_kind c = KEmpty ->
  are_builtin_functions_disabled c = true /\
  set_builtin_functions_disabled c false = Err EBuiltinFunctionsCannotBeEnabled /\
  set_builtin_functions_disabled c true = Ok c /\
  (forall x, get_value c x = None) /\ (forall f, lookup_function c f = None) /\
  (forall lg f a, call_function O c lg f a = (Err (EFunctionIdentifierNotFound f), lg)).
Proof. exact kind_empty. Qed.

Theorem C09_kinds_empty_builtin : forall (O : std_oracle) (c : ctx),
  c_kind c = KEmptyBuiltin ->
  are_builtin_functions_disabled c = false /\
  set_builtin_functions_disabled c true = Err EBuiltinFunctionsCannotBeDisabled /\
  set_builtin_functions_disabled c false = Ok c /\
  (forall x, get_value c x = None) /\ (forall f, lookup_function c f = None) /\
  (forall lg f a, call_function O c lg f a =
                  (match builtin_function O f with
                   | Some b => b a
                   | None => Err (EFunctionIdentifierNotFound f)
                   end, lg)).
Proof. exact kind_empty_builtin. Qed.

(* HashMapContext: the switch can always be set, is read back, and nothing else changes *)
Theorem C09_kinds_hashmap : forall (c : ctx) (b : bool),
  c_kind c = KHashMap ->
  exists c', set_builtin_functions_disabled c b = Ok c' /\
             are_builtin_functions_disabled c' = b /\ c_kind c' = KHashMap /\
             (forall x, get_value c' x = get_value c x) /\
             (forall f, lookup_function c' f = lookup_function c f).
Proof. exact kind_hashmap. Qed.

Theorem C09_kinds_constructors :
  c_kind empty_context = KEmpty /\ c_kind empty_context_builtin = KEmptyBuiltin /\ c_kind empty_hashmap = KHashMap /\
  are_builtin_functions_disabled empty_hashmap = false.
Proof. exact kinds_of_constructors. Qed.

(* clear_functions removes user functions only: variables and switch untouched (C04_clear), and
   every call then goes to the switch / the builtins.  Cloning is the identity (C04_clone), so the
   switch survives it. *)
Theorem C09_clear_functions : forall (O : std_oracle) (c : ctx) (lg : log) (f : str) (a : value),
  call_function O (clear_functions c) lg f a =
  (if are_builtin_functions_disabled c then Err (EFunctionIdentifierNotFound f)
   else match builtin_function O f with
        | Some b => b a
        | None => Err (EFunctionIdentifierNotFound f)
        end, lg) /\
  (forall x, get_value (clear_functions c) x = get_value c x) /\
  are_builtin_functions_disabled (clear_functions c) = are_builtin_functions_disabled c.
Proof. exact clear_functions_full. Qed.

(* ---------------------------------------------------------------------------------------------- *)
(* separate namespaces                                                                            *)
(* ---------------------------------------------------------------------------------------------- *)

(* binding a variable never changes function lookup or any call *)
Theorem C09_namespaces_set_value : forall (O : std_oracle) (c : ctx) (x : str) (v : value) (c' : ctx),
  set_value c x v = Ok c' ->
  (forall f, lookup_function c' f = lookup_function c f) /\
  (forall lg f a, call_function O c' lg f a = call_function O c lg f a).
Proof. exact set_value_keeps_functions. Qed.

(* defining a function never changes a variable; the last definition of a name wins *)
Theorem C09_namespaces_set_function : forall (c : ctx) (f : str) (g : ufun) (c' : ctx),
  set_function c f g = Ok c' ->
  lookup_function c' f = Some g /\
  (forall f', f' <> f -> lookup_function c' f' = lookup_function c f') /\
  (forall x, get_value c' x = get_value c x) /\
  iter_variables c' = iter_variables c /\
  are_builtin_functions_disabled c' = are_builtin_functions_disabled c.
Proof. exact set_function_spec. Qed.

(* ---------------------------------------------------------------------------------------------- *)
(* the builder: an identifier is a write target, a function, or a variable read                   *)
(* ---------------------------------------------------------------------------------------------- *)

Theorem C09_identifier_classification : forall (id : str) (next : option token) (last_rightsided : bool),
  token_to_operator (TIdentifier id) next last_rightsided =
  Some match next with
       | Some (TAssign | TPlusAssign | TMinusAssign | TStarAssign | TSlashAssign | TPercentAssign
              | THatAssign | TAndAssign | TOrAssign) => OVariableIdentifierWrite id
       | Some (TLBrace | TIdentifier _ | TFloat _ | TInt _ | TBoolean _ | TString _) => OFunctionIdentifier id
       | _ => OVariableIdentifierRead id
       end.
Proof. exact identifier_classification. Qed.

(* the two generated token tables say what the sentence of the property says *)
Theorem C09_assignment_tokens : forall t : token,
  is_assignment t = true <->
  In t [TAssign; TPlusAssign; TMinusAssign; TStarAssign; TSlashAssign; TPercentAssign; THatAssign; TAndAssign; TOrAssign].
Proof. exact assignment_tokens. Qed.

Theorem C09_leftsided_tokens : forall t : token,
  is_leftsided_value t = true <->
  t = TLBrace \/ (exists s, t = TIdentifier s) \/ (exists f, t = TFloat f) \/ (exists i, t = TInt i) \/
  (exists b, t = TBoolean b) \/ (exists s, t = TString s).
Proof. exact leftsided_tokens. Qed.

(* ---------------------------------------------------------------------------------------------- *)
(* the call forms, over token lists with arbitrary payloads                                       *)
(* `atom t n`: t is a literal token and n its constant leaf, or t is an identifier and n the      *)
(* variable read of it (Proofs/C09.v, five constructors)                                          *)
(* ---------------------------------------------------------------------------------------------- *)

Theorem C09_call_paren : forall (f : str) (t : token) (n : node), atom t n ->
  tokens_to_operator_tree [TIdentifier f; TLBrace; t; TRBrace] =
  Ok (Node ORootNode [Node (OFunctionIdentifier f) [Node ORootNode [n]]]).
Proof. exact call_paren. Qed.

Theorem C09_call_juxta : forall (f : str) (t : token) (n : node), atom t n ->
  tokens_to_operator_tree [TIdentifier f; t] = Ok (Node ORootNode [Node (OFunctionIdentifier f) [n]]).
Proof. exact call_juxta. Qed.

Theorem C09_call_nested : forall (f g : str) (t : token) (n : node), atom t n ->
  tokens_to_operator_tree [TIdentifier f; TIdentifier g; t] =
  Ok (Node ORootNode [Node (OFunctionIdentifier f) [Node (OFunctionIdentifier g) [n]]]).
Proof. exact call_nested. Qed.

Theorem C09_call_nested_paren : forall (f g : str) (t : token) (n : node), atom t n ->
  tokens_to_operator_tree [TIdentifier f; TIdentifier g; TLBrace; t; TRBrace] =
  Ok (Node ORootNode [Node (OFunctionIdentifier f) [Node (OFunctionIdentifier g) [Node ORootNode [n]]]]).
Proof. exact call_nested_paren. Qed.

Theorem C09_call_empty : forall f : str,
  tokens_to_operator_tree [TIdentifier f; TLBrace; TRBrace] =
  Ok (Node ORootNode [Node (OFunctionIdentifier f) [Node ORootNode []]]).
Proof. exact call_empty. Qed.

Theorem C09_call_tuple : forall (f : str) (ta : token) (na : node) (tb : token) (nb : node),
  atom ta na -> atom tb nb ->
  tokens_to_operator_tree [TIdentifier f; TLBrace; ta; TComma; tb; TRBrace] =
  Ok (Node ORootNode [Node (OFunctionIdentifier f)
        [Node ORootNode [Node OTuple [Node ORootNode [na]; Node ORootNode [nb]]]]]).
Proof. exact call_tuple. Qed.

(* otherwise the identifier is a variable *)
Theorem C09_variable : forall (x : str) (t : token) (n : node), atom t n ->
  tokens_to_operator_tree [TIdentifier x] = Ok (Node ORootNode [Node (OVariableIdentifierRead x) []]) /\
  tokens_to_operator_tree [TLBrace; TIdentifier x; TRBrace] =
    Ok (Node ORootNode [Node ORootNode [Node (OVariableIdentifierRead x) []]]) /\
  tokens_to_operator_tree [TIdentifier x; TPlus; t] =
    Ok (Node ORootNode [Node OAdd [Node (OVariableIdentifierRead x) []; n]]) /\
  tokens_to_operator_tree [TIdentifier x; TEq; t] =
    Ok (Node ORootNode [Node OEq [Node (OVariableIdentifierRead x) []; n]]) /\
  tokens_to_operator_tree [TIdentifier x; TComma; t] =
    Ok (Node ORootNode [Node OTuple [Node ORootNode [Node (OVariableIdentifierRead x) []]; Node ORootNode [n]]]) /\
  tokens_to_operator_tree [TIdentifier x; TSemicolon; t] =
    Ok (Node ORootNode [Node OChain [Node ORootNode [Node (OVariableIdentifierRead x) []]; Node ORootNode [n]]]).
Proof. exact variable_forms. Qed.

Theorem C09_write_target : forall (x : str) (t : token) (n : node), atom t n ->
  tokens_to_operator_tree [TIdentifier x; TAssign; t] =
    Ok (Node ORootNode [Node OAssign [Node (OVariableIdentifierWrite x) []; n]]) /\
  tokens_to_operator_tree [TIdentifier x; TPlusAssign; t] =
    Ok (Node ORootNode [Node OAddAssign [Node (OVariableIdentifierWrite x) []; n]]) /\
  tokens_to_operator_tree [TIdentifier x; TOrAssign; t] =
    Ok (Node ORootNode [Node OOrAssign [Node (OVariableIdentifierWrite x) []; n]]).
Proof. exact write_forms. Qed.

(* ---------------------------------------------------------------------------------------------- *)
(* what the call forms pass to the function                                                       *)
(* ---------------------------------------------------------------------------------------------- *)

(* f() passes Empty *)
Theorem C09_call_empty_eval : forall (O : std_oracle) (f : str) (c : ctx) (lg : log),
  eval_mut O (Node ORootNode [Node (OFunctionIdentifier f) [Node ORootNode []]]) c lg =
  (fst (call_function O c lg f VEmpty), c, snd (call_function O c lg f VEmpty)).
Proof. exact call_empty_eval. Qed.

(* f(e) and f e pass the value of e, for an arbitrary argument tree e *)
Theorem C09_call_paren_eval : forall (O : std_oracle) (f : str) (e : node) (c : ctx) (lg : log)
                                     (v : value) (c1 : ctx) (lg1 : log),
  eval_mut O e c lg = (Ok v, c1, lg1) ->
  eval_mut O (Node ORootNode [Node (OFunctionIdentifier f) [Node ORootNode [e]]]) c lg =
  (fst (call_function O c1 lg1 f v), c1, snd (call_function O c1 lg1 f v)).
Proof. exact call_paren_eval. Qed.

Theorem C09_call_juxta_eval : forall (O : std_oracle) (f : str) (e : node) (c : ctx) (lg : log)
                                     (v : value) (c1 : ctx) (lg1 : log),
  eval_mut O e c lg = (Ok v, c1, lg1) ->
  eval_mut O (Node ORootNode [Node (OFunctionIdentifier f) [e]]) c lg =
  (fst (call_function O c1 lg1 f v), c1, snd (call_function O c1 lg1 f v)).
Proof. exact call_juxta_eval. Qed.

(* f(a, b) passes the 2-tuple of the values, evaluated left to right *)
Theorem C09_call_tuple_eval : forall (O : std_oracle) (f : str) (ea eb : node) (c : ctx) (lg : log)
                                     (va : value) (c1 : ctx) (lg1 : log) (vb : value) (c2 : ctx) (lg2 : log),
  eval_mut O ea c lg = (Ok va, c1, lg1) -> eval_mut O eb c1 lg1 = (Ok vb, c2, lg2) ->
  eval_mut O (Node ORootNode [Node (OFunctionIdentifier f)
                [Node ORootNode [Node OTuple [Node ORootNode [ea]; Node ORootNode [eb]]]]]) c lg =
  (fst (call_function O c2 lg2 f (VTuple [va; vb])), c2, snd (call_function O c2 lg2 f (VTuple [va; vb]))).
Proof. exact call_tuple_eval. Qed.

(* the same four forms through the immutable evaluator, literal arguments *)
Theorem C09_call_forms_eval_ro : forall (O : std_oracle) (f : str) (va vb : value) (c : ctx) (lg : log),
  eval_ro O (Node ORootNode [Node (OFunctionIdentifier f) [Node ORootNode []]]) c lg
    = call_function O c lg f VEmpty /\
  eval_ro O (Node ORootNode [Node (OFunctionIdentifier f) [Node ORootNode [Node (OConst va) []]]]) c lg
    = call_function O c lg f va /\
  eval_ro O (Node ORootNode [Node (OFunctionIdentifier f) [Node (OConst va) []]]) c lg
    = call_function O c lg f va /\
  eval_ro O (Node ORootNode [Node (OFunctionIdentifier f)
               [Node ORootNode [Node OTuple [Node ORootNode [Node (OConst va) []];
                                             Node ORootNode [Node (OConst vb) []]]]]]) c lg
    = call_function O c lg f (VTuple [va; vb]).
Proof. exact call_forms_eval_ro. Qed.

(* ---------------------------------------------------------------------------------------------- *)
(* non-vacuity                                                                                    *)
(* ---------------------------------------------------------------------------------------------- *)

(* one name, a variable and a function at once: n(n) applies the function n to the variable n *)
Example C09_ex_namespaces : forall O : std_oracle,
  get_value ex_both_ctx ex_n = Some (VInt 1) /\
  (exists g, lookup_function ex_both_ctx ex_n = Some g) /\
  (do n <- tokens_to_operator_tree [TIdentifier ex_n; TLBrace; TIdentifier ex_n; TRBrace];
   fst (eval_ro O n ex_both_ctx [])) = Ok (VInt 2).
Proof. exact ex_namespaces. Qed.

(* the hypotheses of the two namespace theorems are met: define a function n, then bind a variable n *)
Example C09_ex_set_function :
  exists c', set_function empty_hashmap ex_n (apply_libfn ex_n LId) = Ok c' /\
             set_value c' ex_n (VInt 1) = Ok (mkctx KHashMap [(ex_n, VInt 1)] [(ex_n, apply_libfn ex_n LId)] false).
Proof. exact ex_set_function. Qed.

(* `max` is a builtin; it is unknown exactly when the switch is on / in an EmptyContext *)
Example C09_ex_disabled : forall O : std_oracle,
  builtin_function O ex_max <> None /\
  fst (call_function O (mkctx KHashMap [] [] true) [] ex_max (VTuple [VInt 1; VInt 2])) = Err (EFunctionIdentifierNotFound ex_max) /\
  fst (call_function O (mkctx KHashMap [] [] false) [] ex_max (VTuple [VInt 1; VInt 2])) = Ok (VInt 2) /\
  fst (call_function O empty_context [] ex_max (VTuple [VInt 1; VInt 2])) = Err (EFunctionIdentifierNotFound ex_max) /\
  fst (call_function O empty_context_builtin [] ex_max (VTuple [VInt 1; VInt 2])) = Ok (VInt 2).
Proof. exact ex_disabled. Qed.

(* a user `max` outside the known class shadows the builtin and is logged *)
Example C09_ex_shadowing : forall O : std_oracle,
  let c := mkctx KHashMap [] [(ex_max, apply_libfn ex_max (LKonst (VInt 0)))] false in
  call_function O c [] ex_max (VTuple [VInt 1; VInt 2]) = (Ok (VInt 0), [(ex_max, VTuple [VInt 1; VInt 2])]).
Proof. exact ex_shadowing. Qed.

(* the hypothesis of the call-form theorems is met by every literal and by identifiers *)
Example C09_ex_atoms :
  atom (TInt 7) (Node (OConst (VInt 7)) []) /\ atom (TString ex_n) (Node (OConst (VString ex_n)) []) /\
  atom (TIdentifier ex_n) (Node (OVariableIdentifierRead ex_n) []).
Proof. repeat split; constructor. Qed.
