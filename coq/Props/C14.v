(* C14 -- Identifier iterators describe exactly the identifiers of the expression.
   This file holds only the property theorems; every proof is `exact <lemma of Proofs/C14.v>`.
   Vocabulary (Spec/Preorder.v): preorder_descendants / preorder, occurrences + classes, names,
   subseq, interleave, same_shape, targets_are_identifiers, writes_are_targets, rename_*. *)
From Coq Require Import Strings.String Floats.SpecFloat.
Require Import Model.Base Model.Syntax Model.F64 Model.Lexer Model.Builder Model.Value Model.Context Model.Builtins
               Model.Eval Model.Iter Model.Interface.
Require Import Spec.OpTable Spec.Grammar Spec.Preorder Proofs.Common Proofs.C14.

(* ------------------------------------------------------------------------------------------ *)
(* C14_preorder: the explicit-stack loop yields the proper descendants in pre-order            *)
(* ------------------------------------------------------------------------------------------ *)

(* every tree, any depth and width: NodeIter collects exactly the structural pre-order list of the
   proper descendants; the fuel node_size n is never exhausted (no Panic 90); it yields
   node_size n - 1 nodes *)
Theorem C14_preorder : forall n : node,
  iter_all n = Ok (preorder_descendants n) /\ is_panic (iter_all n) = false /\
  length (preorder_descendants n) = pred (node_size n).
Proof. exact preorder_all. Qed.

(* the loop invariant, over an arbitrary stack of pending child lists (top at the head): with fuel at
   least the total number of pending nodes, the collected list is the concatenation of their pre-orders *)
Theorem C14_preorder_stack : forall (fuel : nat) (stack : list (list node)),
  (fold_right (fun l acc => fold_right (fun c acc' => node_size c + acc') O l + acc) O stack <= fuel)%nat ->
  iter_collect fuel stack = Ok (flat_map (flat_map preorder) stack).
Proof. exact iter_collect_stack. Qed.

(* ------------------------------------------------------------------------------------------ *)
(* C14_classes                                                                                 *)
(* ------------------------------------------------------------------------------------------ *)

(* the five immutable identifier iterators are filter-maps over the pre-order list *)
Theorem C14_classes_filter_map : forall n : node,
  iter_identifiers n = Ok (filter_map (fun d => ident_any (nop d)) (preorder_descendants n)) /\
  iter_variable_identifiers n = Ok (filter_map (fun d => ident_var (nop d)) (preorder_descendants n)) /\
  iter_read_variable_identifiers n = Ok (filter_map (fun d => ident_read (nop d)) (preorder_descendants n)) /\
  iter_write_variable_identifiers n = Ok (filter_map (fun d => ident_write (nop d)) (preorder_descendants n)) /\
  iter_function_identifiers n = Ok (filter_map (fun d => ident_fn (nop d)) (preorder_descendants n)).
Proof. exact classes_filter_map. Qed.

(* against the occurrence list of the Spec (class, name): all names; the names of one class *)
Theorem C14_classes : forall n : node,
  iter_identifiers n = Ok (map snd (occurrences n)) /\
  iter_variable_identifiers n = Ok (names is_variable (occurrences n)) /\
  iter_read_variable_identifiers n = Ok (names is_read (occurrences n)) /\
  iter_write_variable_identifiers n = Ok (names is_write (occurrences n)) /\
  iter_function_identifiers n = Ok (names is_function (occurrences n)).
Proof. exact classes_occurrences. Qed.

(* the class-specific lists are sub-sequences, in the same order; the variables are the reads and
   the writes interleaved, the identifiers are the variables and the functions interleaved *)
Theorem C14_classes_subseq : forall (n : node) (ids vars reads writes funs : list str),
  iter_identifiers n = Ok ids -> iter_variable_identifiers n = Ok vars ->
  iter_read_variable_identifiers n = Ok reads -> iter_write_variable_identifiers n = Ok writes ->
  iter_function_identifiers n = Ok funs ->
  subseq vars ids /\ subseq funs ids /\ subseq reads vars /\ subseq writes vars /\
  interleave reads writes vars /\ interleave vars funs ids.
Proof. exact classes_subseq. Qed.

(* ... and the premises always hold: no iterator fails or panics *)
Theorem C14_classes_total : forall (sel : operator -> option str) (n : node), exists l, iter_with sel n = Ok l.
Proof. exact iter_with_total. Qed.

(* ------------------------------------------------------------------------------------------ *)
(* C14_mut_same: the mutable iterators visit the same occurrences                              *)
(* ------------------------------------------------------------------------------------------ *)

(* a `for id in tree.iter_<sel>_mut() { *id = g(id) }` loop (rename_with sel g): the descendants of the
   result are, position by position (the positions of iter_all), the descendants of n with the operator
   rewritten; the root operator is untouched; the shape is identical *)
Theorem C14_mut_same : forall (sel : operator -> option str) (g : str -> str) (n : node),
  preorder_descendants (rename_with sel g n) =
    map (map_all_ops (rewrite_ident sel g)) (preorder_descendants n) /\
  map nop (preorder_descendants (rename_with sel g n)) =
    map (fun d => rewrite_ident sel g (nop d)) (preorder_descendants n) /\
  nop (rename_with sel g n) = nop n /\
  same_shape n (rename_with sel g n) /\
  length (preorder_descendants (rename_with sel g n)) = length (preorder_descendants n).
Proof. exact mut_same_all. Qed.

(* what happens to one operator: only a selected identifier changes, and only its name *)
Theorem C14_mut_rewrite : forall (sel : operator -> option str) (g : str -> str) (o : operator),
  rewrite_ident sel g o =
  match sel o, occurrence_of o with
  | Some _, (_, s) :: _ => set_name o (g s)
  | _, _ => o
  end.
Proof. exact rewrite_ident_spec. Qed.

(* writing back every identifier unchanged leaves the tree unchanged *)
Theorem C14_mut_same_id : forall (sel : operator -> option str) (g : str -> str) (n : node),
  (forall s, g s = s) -> rename_with sel g n = n.
Proof. exact rename_with_id. Qed.

(* each of the five mutable iterators visits exactly what its immutable twin lists: afterwards the
   immutable iterator lists the images, in the same order *)
Theorem C14_mut_same_visits : forall (sel : operator -> option str) (g : str -> str) (n : node) (l : list str),
  In sel [ident_any; ident_var; ident_read; ident_write; ident_fn] ->
  iter_with sel n = Ok l -> iter_with sel (rename_with sel g n) = Ok (map g l).
Proof. exact rename_with_same. Qed.

(* ... and nothing of the other classes *)
Theorem C14_mut_other_classes : forall (g : str -> str) (n : node),
  (forall l, iter_function_identifiers n = Ok l -> iter_function_identifiers (rename_with ident_var g n) = Ok l) /\
  (forall l, iter_variable_identifiers n = Ok l -> iter_variable_identifiers (rename_with ident_fn g n) = Ok l) /\
  (forall l, iter_write_variable_identifiers n = Ok l -> iter_write_variable_identifiers (rename_with ident_read g n) = Ok l) /\
  (forall l, iter_read_variable_identifiers n = Ok l -> iter_read_variable_identifiers (rename_with ident_write g n) = Ok l).
Proof. exact mut_other_classes. Qed.

(* renaming through iter_variable_identifiers_mut is the structural renaming of the Spec below the root *)
Theorem C14_mut_rename_tree : forall (r : str -> str) (o : operator) (ch : list node),
  rename_with ident_var r (Node o ch) = Node o (map (rename_tree r) ch).
Proof. exact rename_with_var_children. Qed.

(* ------------------------------------------------------------------------------------------ *)
(* C14_not_found: evaluation reports only unknown identifiers that the iterators list          *)
(* ------------------------------------------------------------------------------------------ *)

(* eval_with_context_mut.  Hypotheses: the user functions do not answer with a NotFound error of their
   own; every assignment node has an identifier leaf as target (an op= reads the variable named by the
   VALUE of its first child); the root operator is not an identifier (it is never listed).
   An unknown variable is listed by iter_variable_identifiers (a read, or the target of an op=);
   an unknown function is listed by iter_function_identifiers, is not a function of the context and is
   not an enabled builtin. *)
Theorem C14_not_found : forall (O : std_oracle) (n : node) (c : ctx) (lg : log),
  functions_never_not_found c -> targets_are_identifiers n -> ident_any (nop n) = None ->
  (forall x, fst (fst (eval_mut O n c lg)) = Err (EVariableIdentifierNotFound x) ->
     exists l, iter_variable_identifiers n = Ok l /\ In x l) /\
  (forall f, fst (fst (eval_mut O n c lg)) = Err (EFunctionIdentifierNotFound f) ->
     (exists l, iter_function_identifiers n = Ok l /\ In f l) /\
     lookup_function c f = None /\
     (are_builtin_functions_disabled c = true \/ builtin_function O f = None)).
Proof. exact not_found_mut. Qed.

(* eval_with_context: no condition on assignment targets (it never reads one), and the unknown variable
   is a READ identifier *)
Theorem C14_not_found_ro : forall (O : std_oracle) (n : node) (c : ctx) (lg : log),
  functions_never_not_found c -> ident_any (nop n) = None ->
  (forall x, fst (eval_ro O n c lg) = Err (EVariableIdentifierNotFound x) ->
     exists l, iter_read_variable_identifiers n = Ok l /\ In x l) /\
  (forall f, fst (eval_ro O n c lg) = Err (EFunctionIdentifierNotFound f) ->
     (exists l, iter_function_identifiers n = Ok l /\ In f l) /\
     lookup_function c f = None /\
     (are_builtin_functions_disabled c = true \/ builtin_function O f = None)).
Proof. exact not_found_ro. Qed.

(* any root operator: the name is among the identifiers of the whole tree, root included *)
Theorem C14_not_found_any_root : forall (O : std_oracle) (n : node) (c : ctx) (lg : log),
  functions_never_not_found c -> targets_are_identifiers n ->
  (forall x, fst (fst (eval_mut O n c lg)) = Err (EVariableIdentifierNotFound x) ->
     In x (filter_map (fun d => ident_var (nop d)) (preorder n))) /\
  (forall f, fst (fst (eval_mut O n c lg)) = Err (EFunctionIdentifierNotFound f) ->
     In f (filter_map (fun d => ident_fn (nop d)) (preorder n)) /\
     lookup_function c f = None /\
     (are_builtin_functions_disabled c = true \/ builtin_function O f = None)).
Proof. exact not_found_mut_incl. Qed.

Theorem C14_not_found_ro_any_root : forall (O : std_oracle) (n : node) (c : ctx) (lg : log),
  functions_never_not_found c ->
  (forall x, fst (eval_ro O n c lg) = Err (EVariableIdentifierNotFound x) ->
     In x (filter_map (fun d => ident_read (nop d)) (preorder n))) /\
  (forall f, fst (eval_ro O n c lg) = Err (EFunctionIdentifierNotFound f) ->
     In f (filter_map (fun d => ident_fn (nop d)) (preorder n)) /\
     lookup_function c f = None /\
     (are_builtin_functions_disabled c = true \/ builtin_function O f = None)).
Proof. exact not_found_ro_incl. Qed.

(* evaluation never changes the kind, the functions or the builtin flag of the context (so the two
   function conditions above hold of the context at the time of the call as well) *)
Theorem C14_eval_keeps_functions : forall (O : std_oracle) (n : node) (c : ctx) (lg : log),
  c_kind c = c_kind (snd (fst (eval_mut O n c lg))) /\
  c_funs c = c_funs (snd (fst (eval_mut O n c lg))) /\
  c_off c = c_off (snd (fst (eval_mut O n c lg))).
Proof. exact eval_mut_same_funs. Qed.

(* no builtin answers with a NotFound error *)
Theorem C14_builtins_never_not_found : forall (O : std_oracle) (f : str) (b : value -> outcome value) (a : value),
  builtin_function O f = Some b -> is_not_found (b a) = false.
Proof. exact builtins_never_not_found. Qed.

(* ------------------------------------------------------------------------------------------ *)
(* C14_rename: renaming variables consistently in tree and context does not change the result  *)
(* ------------------------------------------------------------------------------------------ *)

(* r injective; no user function answers "variable not found" itself; assignment-target identifiers
   occur exactly as the first child of assignment nodes (writes_are_targets; elsewhere such a leaf
   evaluates to its own NAME as a string value).  Then evaluating the renamed tree in the renamed context
   gives the same value, the same log of user-function calls, the renamed context, and the same error
   except that VariableIdentifierNotFound(x) becomes VariableIdentifierNotFound(r x).
   Function identifiers are not renamed. *)
Theorem C14_rename_tree : forall (O : std_oracle) (r : str -> str) (n : node) (c : ctx) (lg : log),
  injective r -> functions_never_variable_not_found c -> writes_are_targets n ->
  eval_mut O (rename_tree r n) (rename_ctx r c) lg = rename_result r (eval_mut O n c lg).
Proof. exact rename_mut. Qed.

Theorem C14_rename_tree_ro : forall (O : std_oracle) (r : str -> str) (n : node) (c : ctx) (lg : log),
  injective r -> functions_never_variable_not_found c -> writes_are_targets n ->
  eval_ro O (rename_tree r n) (rename_ctx r c) lg = rename_result_ro r (eval_ro O n c lg).
Proof. exact rename_ro. Qed.

(* through the mutable iterator iter_variable_identifiers_mut, for a tree whose root operator is not a
   variable identifier (every parser output: its root is the RootNode) *)
Theorem C14_rename : forall (O : std_oracle) (r : str -> str) (n : node) (c : ctx) (lg : log),
  injective r -> functions_never_variable_not_found c -> writes_are_targets n -> ident_var (nop n) = None ->
  eval_mut O (rename_with ident_var r n) (rename_ctx r c) lg = rename_result r (eval_mut O n c lg).
Proof. exact rename_mut_iter. Qed.

Theorem C14_rename_ro : forall (O : std_oracle) (r : str -> str) (n : node) (c : ctx) (lg : log),
  injective r -> functions_never_variable_not_found c -> writes_are_targets n -> ident_var (nop n) = None ->
  eval_ro O (rename_with ident_var r n) (rename_ctx r c) lg = rename_result_ro r (eval_ro O n c lg).
Proof. exact rename_ro_iter. Qed.

(* the side conditions: the stronger shape implies the weaker, the stronger function condition the
   weaker, and both shapes have executable checkers *)
Theorem C14_side_conditions :
  (forall n, writes_are_targets n -> targets_are_identifiers n) /\
  (forall c, functions_never_not_found c -> functions_never_variable_not_found c) /\
  (forall n, targets_are_identifiersb n = true -> targets_are_identifiers n) /\
  (forall n, writes_are_targetsb n = true -> writes_are_targets n).
Proof. exact side_conditions. Qed.

(* ------------------------------------------------------------------------------------------ *)
(* C14_source_order: the iterators list the identifiers of the SOURCE, in order, with classes  *)
(* ------------------------------------------------------------------------------------------ *)

(* Grammar, rendering (flatten_seq) and reference tree (tree_of_seq_top) are those of Spec/Grammar.v
   (C02 proves that the parser returns tree_of_seq_top s for the tokens flatten_seq s).
   token_occurrences reads the identifier tokens from left to right and classes each by the token that
   follows it.  For every accepted program: the occurrence list of the tree is the occurrence list of
   the tokens, hence each of the five iterators lists exactly the identifiers of its class in source order. *)
Theorem C14_source_order : forall s : seq, ok_seq s ->
  occurrences (tree_of_seq_top s) = token_occurrences (flatten_seq s) /\
  iter_identifiers (tree_of_seq_top s) = Ok (map snd (token_occurrences (flatten_seq s))) /\
  iter_variable_identifiers (tree_of_seq_top s) = Ok (names is_variable (token_occurrences (flatten_seq s))) /\
  iter_read_variable_identifiers (tree_of_seq_top s) = Ok (names is_read (token_occurrences (flatten_seq s))) /\
  iter_write_variable_identifiers (tree_of_seq_top s) = Ok (names is_write (token_occurrences (flatten_seq s))) /\
  iter_function_identifiers (tree_of_seq_top s) = Ok (names is_function (token_occurrences (flatten_seq s))).
Proof. exact source_order_seq. Qed.

(* one expression, under any stack F of enclosing operators *)
Theorem C14_source_order_expr : forall (F : list op_kind) (e : expr), ok F e = true ->
  occurrences_incl (tree_of e) = token_occurrences (flatten e) /\
  iter_identifiers (Node ORootNode [tree_of e]) = Ok (map snd (token_occurrences (flatten e))).
Proof. exact source_order_expr. Qed.

(* the classification by the next token is the builder's own (token -> operator match) *)
Theorem C14_source_order_builder_classes : forall (x : str) (next : option token) (last_rightsided : bool),
  token_to_operator (TIdentifier x) next last_rightsided = Some (op_of_class (class_by_next next) x).
Proof. exact class_by_next_builder. Qed.

(* every tree of the grammar meets the side conditions of C14_not_found and C14_rename *)
Theorem C14_grammar_side_conditions : forall s : seq,
  writes_are_targets (tree_of_seq_top s) /\ ident_any (nop (tree_of_seq_top s)) = None.
Proof. exact wat_tree_of_seq_top. Qed.

(* ------------------------------------------------------------------------------------------ *)
(* Examples: the hypotheses are satisfiable by a non-trivial input, and they are needed        *)
(* ------------------------------------------------------------------------------------------ *)

Definition ex_a : str := s2l "a". Definition ex_b : str := s2l "b". Definition ex_c : str := s2l "c".
Definition ex_d : str := s2l "d". Definition ex_f : str := s2l "f". Definition ex_g : str := s2l "g".

(* `a = f(b + 1); c += a; g(c, d)`: nested calls, an assignment, an op-assignment, a sequence, a tuple *)
Definition ex_tree : node :=
  Node ORootNode
    [Node OChain
       [Node ORootNode
          [Node OAssign
             [Node (OVariableIdentifierWrite ex_a) [];
              Node (OFunctionIdentifier ex_f)
                [Node ORootNode [Node OAdd [Node (OVariableIdentifierRead ex_b) []; Node (OConst (VInt 1)) []]]]]];
        Node ORootNode
          [Node OAddAssign [Node (OVariableIdentifierWrite ex_c) []; Node (OVariableIdentifierRead ex_a) []]];
        Node ORootNode
          [Node (OFunctionIdentifier ex_g)
             [Node ORootNode
                [Node OTuple
                   [Node ORootNode [Node (OVariableIdentifierRead ex_c) []];
                    Node ORootNode [Node (OVariableIdentifierRead ex_d) []]]]]]]].

Example C14_ex_tree_is_parser_output :
  build_operator_tree (s2l "a = f(b + 1); c += a; g(c, d)") = Ok ex_tree.
Proof. vm_compute. reflexivity. Qed.

(* a HashMapContext with two variables and two user functions *)
Definition ex_ctx : ctx :=
  mkctx KHashMap [(ex_b, VInt 2); (ex_c, VInt 10)]
        [(ex_f, fun v => Ok v); (ex_g, fun v => match v with VTuple _ => Ok v | _ => Err (EExpectedTuple v) end)]
        false.

Example C14_ex_side_conditions :
  writes_are_targets ex_tree /\ targets_are_identifiers ex_tree /\ ident_any (nop ex_tree) = None /\
  functions_never_not_found ex_ctx /\ functions_never_variable_not_found ex_ctx.
Proof.
  assert (Hw : writes_are_targets ex_tree) by (apply writes_are_targetsb_sound; vm_compute; reflexivity).
  assert (Hf : functions_never_not_found ex_ctx).
  { intros f g a [H|[H|[]]]; injection H as <- <-; [reflexivity|]. destruct a; reflexivity. }
  split; [exact Hw|]. split; [exact (wat_tai _ Hw)|]. split; [reflexivity|]. split; [exact Hf|].
  exact (never_not_found_vnf _ Hf).
Qed.

(* the ten iterators on the example: occurrences in source order with their classes *)
Example C14_ex_iterators :
  occurrences ex_tree =
    [(CWrite, ex_a); (CFunction, ex_f); (CRead, ex_b); (CWrite, ex_c); (CRead, ex_a);
     (CFunction, ex_g); (CRead, ex_c); (CRead, ex_d)] /\
  iter_identifiers ex_tree = Ok [ex_a; ex_f; ex_b; ex_c; ex_a; ex_g; ex_c; ex_d] /\
  iter_variable_identifiers ex_tree = Ok [ex_a; ex_b; ex_c; ex_a; ex_c; ex_d] /\
  iter_read_variable_identifiers ex_tree = Ok [ex_b; ex_a; ex_c; ex_d] /\
  iter_write_variable_identifiers ex_tree = Ok [ex_a; ex_c] /\
  iter_function_identifiers ex_tree = Ok [ex_f; ex_g] /\
  iter_identifiers (rename_with ident_var (fun s => 122%N :: s) ex_tree) =
    Ok [s2l "za"; ex_f; s2l "zb"; s2l "zc"; s2l "za"; ex_g; s2l "zc"; s2l "zd"].
Proof. repeat split; vm_compute; reflexivity. Qed.

(* the unknown variable d is reported (and listed) after a and c were updated and f was called; other
   contexts: b unknown; f unknown; everything known *)
Example C14_ex_not_found : forall O : std_oracle,
  eval_mut O ex_tree ex_ctx [] =
    (Err (EVariableIdentifierNotFound ex_d),
     mkctx KHashMap [(ex_b, VInt 2); (ex_c, VInt 13); (ex_a, VInt 3)] (c_funs ex_ctx) false,
     [(ex_f, VInt 3)]) /\
  fst (fst (eval_mut O ex_tree (mkctx KHashMap [(ex_d, VBool true)] (c_funs ex_ctx) false) [])) =
    Err (EVariableIdentifierNotFound ex_b) /\
  fst (fst (eval_mut O ex_tree (mkctx KHashMap [(ex_b, VInt 2)] [] false) [])) = Err (EFunctionIdentifierNotFound ex_f) /\
  eval_mut O ex_tree (mkctx KHashMap [(ex_b, VInt 2); (ex_c, VInt 10); (ex_d, VBool true)] (c_funs ex_ctx) false) [] =
    (Ok (VTuple [VInt 13; VBool true]),
     mkctx KHashMap [(ex_b, VInt 2); (ex_c, VInt 13); (ex_d, VBool true); (ex_a, VInt 3)] (c_funs ex_ctx) false,
     [(ex_f, VInt 3); (ex_g, VTuple [VInt 13; VBool true])]).
Proof. intros O. repeat split; vm_compute; reflexivity. Qed.

(* an instance of C14_rename: prefixing every variable with z *)
Example C14_ex_rename : forall O : std_oracle,
  injective (fun s => 122%N :: s) /\
  eval_mut O (rename_with ident_var (fun s => 122%N :: s) ex_tree) (rename_ctx (fun s => 122%N :: s) ex_ctx) [] =
    (Err (EVariableIdentifierNotFound (s2l "zd")),
     mkctx KHashMap [(s2l "zb", VInt 2); (s2l "zc", VInt 13); (s2l "za", VInt 3)] (c_funs ex_ctx) false,
     [(ex_f, VInt 3)]).
Proof. intros O. split; [intros a b H; injection H; auto|vm_compute; reflexivity]. Qed.

(* the side conditions are needed.  (1) `"x" += 1` is accepted by the parser, its target is not an
   identifier: evaluation reports the unknown variable x although no iterator lists anything. *)
Example C14_not_found_needs_identifier_targets : forall O : std_oracle,
  exists n,
    build_operator_tree (34%N :: 120%N :: 34%N :: s2l " += 1") = Ok n /\
    fst (fst (eval_mut O n empty_hashmap [])) = Err (EVariableIdentifierNotFound (s2l "x")) /\
    iter_identifiers n = Ok [].
Proof. intros O. eexists. split; [vm_compute; reflexivity|]. split; vm_compute; reflexivity. Qed.

(* (2) `a + b += 1` (parser output: AddAssign [Add [a; b-as-target]; 1]): with a = "x" the op= reads the
   variable "xb", which is no identifier of the expression *)
Example C14_not_found_needs_identifier_targets_2 : forall O : std_oracle,
  exists n,
    build_operator_tree (s2l "a + b += 1") = Ok n /\
    fst (fst (eval_mut O n (mkctx KHashMap [(ex_a, VString (s2l "x"))] [] false) [])) =
      Err (EVariableIdentifierNotFound (s2l "xb")) /\
    iter_identifiers n = Ok [ex_a; ex_b].
Proof. intros O. eexists. split; [vm_compute; reflexivity|]. split; vm_compute; reflexivity. Qed.

(* (3) a target identifier outside a target position evaluates to its own name: renaming changes the value *)
Example C14_rename_needs_writes_are_targets : forall O : std_oracle,
  let n := Node ORootNode [Node (OVariableIdentifierWrite ex_a) []] in
  let r := fun s : str => 122%N :: s in
  targets_are_identifiers n /\
  fst (fst (eval_mut O n empty_hashmap [])) = Ok (VString ex_a) /\
  fst (fst (eval_mut O (rename_with ident_var r n) (rename_ctx r empty_hashmap) [])) = Ok (VString (s2l "za")).
Proof.
  intros O n r. split; [apply targets_are_identifiersb_sound; reflexivity|]. split; vm_compute; reflexivity.
Qed.

(* (4) a renaming that is not injective can merge two variables *)
Example C14_rename_needs_injective : forall O : std_oracle,
  let n := Node ORootNode [Node OSub [Node (OVariableIdentifierRead ex_a) []; Node (OVariableIdentifierRead ex_b) []]] in
  let c := mkctx KHashMap [(ex_a, VInt 5); (ex_b, VInt 2)] [] false in
  let r := fun _ : str => ex_a in
  writes_are_targets n /\
  fst (fst (eval_mut O n c [])) = Ok (VInt 3) /\
  fst (fst (eval_mut O (rename_with ident_var r n) (rename_ctx r c) [])) = Ok (VInt 0).
Proof.
  intros O n c r. split; [apply writes_are_targetsb_sound; reflexivity|]. split; vm_compute; reflexivity.
Qed.

(* the example program as an AST of the grammar: accepted, rendered to the tokens the lexer produces,
   denoting ex_tree; its token occurrences *)
Definition ex_seq : seq :=
  [[Some (Asg AAssign ex_a (Call ex_f (PExpr (Bin BAdd (Var ex_b) (Lit (LInt 1))))))];
   [Some (Asg AAdd ex_c (Var ex_a))];
   [Some (Call ex_g (Paren [[Some (Var ex_c); Some (Var ex_d)]]))]].

Example C14_ex_source_order :
  ok_seq ex_seq /\
  tokenize (s2l "a = f(b + 1); c += a; g(c, d)") = Ok (flatten_seq ex_seq) /\
  tree_of_seq_top ex_seq = ex_tree /\
  token_occurrences (flatten_seq ex_seq) =
    [(CWrite, ex_a); (CFunction, ex_f); (CRead, ex_b); (CWrite, ex_c); (CRead, ex_a);
     (CFunction, ex_g); (CRead, ex_c); (CRead, ex_d)].
Proof. repeat split; vm_compute; reflexivity. Qed.
