(* FloatIEEE -- the model's float arithmetic (Model/F64.v, executable SpecFloat operations at
   precision 53 / emax 1024) IS IEEE-754 binary64 with round-to-nearest-even.

   Everywhere else in the development this is taken as the definition of "f64 arithmetic"; here it is
   tied to the real-number semantics of Flocq 4.1.0 (IEEE754/BinarySingleNaN.v).
   This file holds only the theorems; every proof is `exact <lemma of Proofs/FloatBridge.v>`.

   AXIOMS.  By special dispensation this file and Proofs/FloatBridge.v import Flocq and Coq's Reals.
   Theorems that mention real numbers, or Flocq's proof-carrying type binary_float, depend on exactly
   the four axioms of the classical real numbers of Coq's standard library
       ClassicalDedekindReals.sig_not_dec, ClassicalDedekindReals.sig_forall_dec,
       FunctionalExtensionality.functional_extensionality_dep, Classical_Prop.classic
   and on nothing else; the purely computational equivalences of part 1 are closed.  The output of
   Print Assumptions is pasted after each theorem ("4 axioms" abbreviates the list above; it was
   checked to be exactly that list, see the end of the file). *)
From Coq Require Import ZArith Reals Floats.SpecFloat.
From Flocq Require Import Core.Core IEEE754.BinarySingleNaN.
Require Import Model.Base Model.F64 Model.Lexer.
Require Import Proofs.FloatBridge.

(* Vocabulary (notations only, nothing is hidden behind a definition):
     fexp   the exponent function of the binary64 format: FLT with emin = 3 - emax - prec = -1074
     rnd x  the element of that format (with unbounded exponent above) nearest to the real x, ties to even
     rval x the real value of a spec_float (0 for zeros, infinities and NaN)
     valid  SpecFloat.valid_binary 53 1024: canonical mantissa/exponent, exponent <= 971 *)
Local Notation fexp := (FLT_exp (3 - 1024 - 53) 53).
Local Notation rnd := (round radix2 (FLT_exp (3 - 1024 - 53) 53) ZnearestE).
Local Notation rval := (SF2R radix2).
Local Notation valid := (valid_binary 53 1024).

(* ------------------------------------------------------------------------------------------ *)
(* 1. Flocq's mode-parameterised functions at mode_NE are the SpecFloat functions               *)
(*    (the "TODO: lemme equivalence pour le cas mode_NE" of BinarySingleNaN.v), any precision   *)
(* ------------------------------------------------------------------------------------------ *)

Theorem EQ_binary_round_aux : forall (prec emax : Z) (sx : bool) (mx ex : Z) (lx : location),
  BinarySingleNaN.binary_round_aux prec emax mode_NE sx mx ex lx =
  SpecFloat.binary_round_aux prec emax sx mx ex lx.
Proof. exact binary_round_aux_equiv. Qed.
(* Print Assumptions EQ_binary_round_aux.  ==> Closed under the global context *)

Theorem EQ_binary_round : forall (prec emax : Z) (s : bool) (m : positive) (e : Z),
  BinarySingleNaN.binary_round prec emax mode_NE s m e = SpecFloat.binary_round prec emax s m e.
Proof. exact binary_round_equiv. Qed.
(* ==> Closed under the global context *)

Theorem EQ_binary_normalize :
  forall (prec emax : Z) (Hp : Prec_gt_0 prec) (He : Prec_lt_emax prec emax) (m e : Z) (szero : bool),
  B2SF (BinarySingleNaN.binary_normalize prec emax Hp He mode_NE m e szero) =
  SpecFloat.binary_normalize prec emax m e szero.
Proof. exact binary_normalize_equiv. Qed.
(* ==> 4 axioms (Flocq's binary_normalize carries a validity proof that uses the reals) *)

Theorem EQ_add :
  forall (prec emax : Z) (Hp : Prec_gt_0 prec) (He : Prec_lt_emax prec emax) (x y : binary_float prec emax),
  B2SF (Bplus mode_NE x y) = SFadd prec emax (B2SF x) (B2SF y).
Proof. exact Bplus_equiv. Qed.
(* ==> 4 axioms *)

Theorem EQ_sub :
  forall (prec emax : Z) (Hp : Prec_gt_0 prec) (He : Prec_lt_emax prec emax) (x y : binary_float prec emax),
  B2SF (Bminus mode_NE x y) = SFsub prec emax (B2SF x) (B2SF y).
Proof. exact Bminus_equiv. Qed.
(* ==> 4 axioms *)

Theorem EQ_mul :
  forall (prec emax : Z) (Hp : Prec_gt_0 prec) (He : Prec_lt_emax prec emax) (x y : binary_float prec emax),
  B2SF (Bmult mode_NE x y) = SFmul prec emax (B2SF x) (B2SF y).
Proof. exact Bmult_equiv. Qed.
(* ==> 4 axioms *)

Theorem EQ_div :
  forall (prec emax : Z) (Hp : Prec_gt_0 prec) (He : Prec_lt_emax prec emax) (x y : binary_float prec emax),
  B2SF (Bdiv mode_NE x y) = SFdiv prec emax (B2SF x) (B2SF y).
Proof. exact Bdiv_equiv. Qed.
(* ==> 4 axioms *)

Theorem EQ_sqrt :
  forall (prec emax : Z) (Hp : Prec_gt_0 prec) (He : Prec_lt_emax prec emax) (x : binary_float prec emax),
  B2SF (Bsqrt mode_NE x) = SFsqrt prec emax (B2SF x).
Proof. exact Bsqrt_equiv. Qed.
(* ==> 4 axioms *)

Theorem EQ_compare : forall (prec emax : Z) (x y : binary_float prec emax),
  Bcompare x y = SFcompare (B2SF x) (B2SF y).
Proof. exact Bcompare_equiv. Qed.
(* ==> Closed under the global context *)

Theorem EQ_opp : forall (prec emax : Z) (x : binary_float prec emax), B2SF (Bopp x) = SFopp (B2SF x).
Proof. exact Bopp_equiv. Qed.
(* ==> Closed under the global context *)

Theorem EQ_abs : forall (prec emax : Z) (x : binary_float prec emax), B2SF (Babs x) = SFabs (B2SF x).
Proof. exact Babs_equiv. Qed.
(* ==> Closed under the global context *)

(* ------------------------------------------------------------------------------------------ *)
(* 2. + - * / sqrt are correctly rounded; overflow gives the infinity of the right sign         *)
(* ------------------------------------------------------------------------------------------ *)

Theorem IEEE_add : forall x y : f64,
  valid x = true -> valid y = true -> is_finite_SF x = true -> is_finite_SF y = true ->
  let z := f_add x y in
  valid z = true /\
  if Rlt_bool (Rabs (rnd (rval x + rval y))) (bpow radix2 1024)
  then rval z = rnd (rval x + rval y) /\ is_finite_SF z = true
  else z = S754_infinity (sign_SF x) /\ sign_SF x = sign_SF y.
Proof. exact FloatBridge.IEEE_add. Qed.
(* ==> 4 axioms *)

Theorem IEEE_sub : forall x y : f64,
  valid x = true -> valid y = true -> is_finite_SF x = true -> is_finite_SF y = true ->
  let z := f_sub x y in
  valid z = true /\
  if Rlt_bool (Rabs (rnd (rval x - rval y))) (bpow radix2 1024)
  then rval z = rnd (rval x - rval y) /\ is_finite_SF z = true
  else z = S754_infinity (sign_SF x) /\ sign_SF x = negb (sign_SF y).
Proof. exact FloatBridge.IEEE_sub. Qed.
(* ==> 4 axioms *)

Theorem IEEE_mul : forall x y : f64,
  valid x = true -> valid y = true -> is_finite_SF x = true -> is_finite_SF y = true ->
  let z := f_mul x y in
  valid z = true /\
  if Rlt_bool (Rabs (rnd (rval x * rval y))) (bpow radix2 1024)
  then rval z = rnd (rval x * rval y) /\ is_finite_SF z = true
  else z = S754_infinity (xorb (sign_SF x) (sign_SF y)).
Proof. exact FloatBridge.IEEE_mul. Qed.
(* ==> 4 axioms *)

(* the divisor is finite and non-zero: as a spec_float, an S754_finite *)
Theorem IEEE_div : forall x y : f64,
  valid x = true -> valid y = true -> is_finite_SF x = true ->
  (match y with S754_finite _ _ _ => true | _ => false end) = true ->
  let z := f_div x y in
  valid z = true /\
  if Rlt_bool (Rabs (rnd (rval x / rval y))) (bpow radix2 1024)
  then rval z = rnd (rval x / rval y) /\ is_finite_SF z = true
  else z = S754_infinity (xorb (sign_SF x) (sign_SF y)).
Proof. exact FloatBridge.IEEE_div. Qed.
(* ==> 4 axioms *)

(* sqrt cannot overflow.  (Reals' sqrt is 0 on negative numbers, where f_sqrt is NaN, of real value 0;
   the last conjunct says exactly when the result is a number.) *)
Theorem IEEE_sqrt : forall x : f64,
  valid x = true ->
  let z := f_sqrt x in
  valid z = true /\
  rval z = rnd (sqrt (rval x)) /\
  is_finite_SF z = match x with S754_zero _ => true | S754_finite false _ _ => true | _ => false end.
Proof. exact FloatBridge.IEEE_sqrt. Qed.
(* ==> 4 axioms *)

(* Closure: on ALL valid inputs (NaN, infinities, zeros included) every operation returns a valid value *)
Theorem valid_add : forall x y : f64, valid x = true -> valid y = true -> valid (f_add x y) = true.
Proof. exact f_add_valid. Qed.
Theorem valid_sub : forall x y : f64, valid x = true -> valid y = true -> valid (f_sub x y) = true.
Proof. exact f_sub_valid. Qed.
Theorem valid_mul : forall x y : f64, valid x = true -> valid y = true -> valid (f_mul x y) = true.
Proof. exact f_mul_valid. Qed.
Theorem valid_div : forall x y : f64, valid x = true -> valid y = true -> valid (f_div x y) = true.
Proof. exact f_div_valid. Qed.
Theorem valid_sqrt : forall x : f64, valid x = true -> valid (f_sqrt x) = true.
Proof. exact f_sqrt_valid. Qed.
Theorem valid_neg : forall x : f64, valid x = true -> valid (f_neg x) = true.
Proof. exact f_neg_valid. Qed.
Theorem valid_abs : forall x : f64, valid x = true -> valid (f_abs x) = true.
Proof. exact f_abs_valid. Qed.
Theorem valid_rem : forall x y : f64, valid x = true -> valid y = true -> valid (f_rem x y) = true.
Proof. exact f_rem_valid. Qed.
Theorem valid_round_int : forall (md : rmode) (x : f64), valid x = true -> valid (f_round_int md x) = true.
Proof. exact f_round_int_valid. Qed.
Theorem valid_of_Z : forall z : Z, valid (f_of_Z z) = true.
Proof. exact f_of_Z_valid. Qed.
(* ==> valid_neg, valid_abs: Closed under the global context; the others: 4 axioms
       (validity of the rounded result is obtained from Flocq's binary_round_aux_correct) *)

(* ------------------------------------------------------------------------------------------ *)
(* 3. `i64 as f64`                                                                              *)
(* ------------------------------------------------------------------------------------------ *)

Theorem IEEE_of_int : forall z : Z,
  let f := f_of_Z z in
  valid f = true /\
  if Rlt_bool (Rabs (rnd (IZR z))) (bpow radix2 1024)
  then rval f = rnd (IZR z) /\ is_finite_SF f = true
  else f = S754_infinity (z <? 0).
Proof. exact FloatBridge.IEEE_of_int. Qed.
(* ==> 4 axioms *)

(* no overflow on the i64 range: the conversion is the nearest double, always finite *)
Theorem IEEE_of_i64 : forall z : Z, in_i64 z = true ->
  valid (f_of_Z z) = true /\ rval (f_of_Z z) = rnd (IZR z) /\ is_finite_SF (f_of_Z z) = true.
Proof. exact FloatBridge.IEEE_of_i64. Qed.
(* ==> 4 axioms *)

(* ------------------------------------------------------------------------------------------ *)
(* 4. Decimal literals (property C06): f_of_decimal m e is the double nearest to m * 10^e,      *)
(*    for EVERY m > 0 and EVERY integer e, the clamped ranges e > 400 and e < -400 - log2 m     *)
(*    included.  (Not partial.)                                                                 *)
(* ------------------------------------------------------------------------------------------ *)

Theorem IEEE_of_decimal : forall m e : Z, 0 < m ->
  let x := (IZR m * powerRZ 10 e)%R in
  let z := f_of_decimal m e in
  valid z = true /\
  if Rlt_bool (Rabs (rnd x)) (bpow radix2 1024)
  then rval z = rnd x /\ is_finite_SF z = true
  else z = S754_infinity false.
Proof. exact FloatBridge.IEEE_of_decimal. Qed.
(* ==> 4 axioms *)

(* m = 0 *)
Theorem IEEE_of_decimal_zero : forall e : Z, f_of_decimal 0 e = S754_zero false.
Proof. exact of_decimal_zero. Qed.
(* ==> Closed under the global context *)

(* why the clamping in f_of_decimal is sound -- two facts about real numbers only *)
Theorem decimal_huge_overflows : forall m e : Z, 0 < m -> 400 < e ->
  (bpow radix2 1024 <= IZR m * powerRZ 10 e)%R /\
  Rlt_bool (Rabs (rnd (IZR m * powerRZ 10 e))) (bpow radix2 1024) = false.
Proof. exact FloatBridge.decimal_huge_overflows. Qed.
(* ==> 4 axioms *)

Theorem decimal_tiny_rounds_to_zero : forall m e : Z, 0 < m -> e < -400 - Z.log2 m ->
  (0 < IZR m * powerRZ 10 e < bpow radix2 (-1075))%R /\ rnd (IZR m * powerRZ 10 e) = 0%R.
Proof. exact FloatBridge.decimal_tiny_rounds_to_zero. Qed.
(* ==> 4 axioms *)

(* "nearest" without reference to Flocq's round: the result is in the format and no element of the
   format is closer to the decimal value *)
Theorem IEEE_of_decimal_nearest : forall m e : Z, 0 < m ->
  let x := (IZR m * powerRZ 10 e)%R in
  let z := f_of_decimal m e in
  (Rabs (rnd x) < bpow radix2 1024)%R ->
  generic_format radix2 fexp (rval z) /\
  forall g : R, generic_format radix2 fexp g -> (Rabs (rval z - x) <= Rabs (g - x))%R.
Proof. exact FloatBridge.IEEE_of_decimal_nearest. Qed.
(* ==> 4 axioms *)

(* ------------------------------------------------------------------------------------------ *)
(* 5. Comparison                                                                                *)
(* ------------------------------------------------------------------------------------------ *)

Theorem IEEE_compare : forall x y : f64,
  valid x = true -> valid y = true -> is_finite_SF x = true -> is_finite_SF y = true ->
  f_compare x y = Some (Rcompare (rval x) (rval y)).
Proof. exact FloatBridge.IEEE_compare. Qed.
(* ==> 4 axioms *)

(* ------------------------------------------------------------------------------------------ *)
(* Examples (all by computation)                                                                *)
(* ------------------------------------------------------------------------------------------ *)

(* valid holds of concrete doubles: 1.0, 0.1, the largest double, the smallest subnormal, -0, inf, NaN;
   and it is a real restriction: the non-canonical representation 1 * 2^0 of 1.0 is rejected, as is a
   mantissa of 54 bits or an exponent above 971 *)
Example valid_examples :
  valid (f_of_bits 4607182418800017408) = true /\   (* 0x3FF0000000000000 = 1.0 *)
  valid (f_of_bits 4591870180066957722) = true /\   (* 0x3FB999999999999A = 0.1 *)
  valid (f_of_bits 9218868437227405311) = true /\   (* 0x7FEFFFFFFFFFFFFF = max *)
  valid (f_of_bits 1) = true /\                     (* 2^-1074 *)
  valid (S754_zero true) = true /\ valid (S754_infinity false) = true /\ valid S754_nan = true /\
  valid (S754_finite false 1 0) = false /\
  valid (S754_finite false (2 ^ 53) 0) = false /\
  valid (S754_finite false (2 ^ 53 - 1) 972) = false.
Proof. repeat split; vm_compute; reflexivity. Qed.

(* the literal 0.1 = 1 * 10^-1 is the double 0x3FB999999999999A *)
Example of_decimal_one_tenth : bits_of_f (f_of_decimal 1 (-1)) = 4591870180066957722.
Proof. vm_compute. reflexivity. Qed.

(* every branch of f_of_decimal, including both clamps and the overflow alternative *)
Example of_decimal_branches :
  f_of_decimal 1 401 = S754_infinity false /\                                      (* clamp e > 400 *)
  f_of_decimal 2 308 = S754_infinity false /\                                      (* 2e308 overflows *)
  bits_of_f (f_of_decimal 17976931348623157 292) = 9218868437227405311 /\          (* f64::MAX *)
  bits_of_f (f_of_decimal 15 (-1)) = 4609434218613702656 /\                        (* 1.5 *)
  bits_of_f (f_of_decimal 22250738585072011 (-324)) = 4503599627370495 /\          (* largest subnormal *)
  bits_of_f (f_of_decimal 5 (-324)) = 1 /\                                         (* rounds up to 2^-1074 *)
  f_of_decimal 2 (-324) = S754_zero false /\                                       (* rounds down to +0 *)
  f_of_decimal 1 (-401) = S754_zero false /\                                       (* clamp *)
  f_of_decimal (10 ^ 500) (-1) = S754_infinity false.                              (* e < 0 and overflow *)
Proof. repeat split; vm_compute; reflexivity. Qed.

(* the hypotheses of the IEEE_* theorems are met by ordinary inputs; 0.1 + 0.2 = 0.30000000000000004;
   an overflow; ties to even in i64 -> f64 *)
Example arithmetic_examples :
  let a := f_of_decimal 1 (-1) in
  let b := f_of_decimal 2 (-1) in
  let big := f_of_bits 9218868437227405311 in
  valid a = true /\ valid b = true /\ is_finite_SF a = true /\ is_finite_SF b = true /\
  bits_of_f (f_add a b) = 4599075939470750516 /\             (* 0x3FD3333333333334 *)
  bits_of_f (f_sqrt (f_of_Z 2)) = 4609047870845172685 /\     (* 0x3FF6A09E667F3BCD *)
  bits_of_f (f_div (f_of_Z 1) (f_of_Z 3)) = 4599676419421066581 /\
  valid big = true /\ is_finite_SF big = true /\
  f_add big big = S754_infinity false /\
  f_mul big (f_neg big) = S754_infinity true /\
  f_of_Z 9007199254740993 = f_of_Z 9007199254740992 /\       (* 2^53 + 1 ties to even *)
  f_of_Z 9007199254740995 = f_of_Z 9007199254740996 /\
  in_i64 9007199254740993 = true /\
  f_compare a b = Some Lt.
Proof. repeat split; vm_compute; reflexivity. Qed.

(* Print Assumptions, checked with a scratch file that Requires this one.  For every theorem marked
   "4 axioms" above the output is exactly:
     Axioms:
     ClassicalDedekindReals.sig_not_dec : forall P : Prop, {~ ~ P} + {~ P}
     ClassicalDedekindReals.sig_forall_dec
       : forall P : nat -> Prop,
         (forall n : nat, {P n} + {~ P n}) -> {n : nat | ~ P n} + {forall n : nat, P n}
     FunctionalExtensionality.functional_extensionality_dep
       : forall (A : Type) (B : A -> Type) (f g : forall x : A, B x), (forall x : A, f x = g x) -> f = g
     Classical_Prop.classic : forall P : Prop, P \/ ~ P
   and for the others "Closed under the global context". *)
