(* END TO END -- from SOURCE STRINGS to reference trees.
   This file holds only the property theorems; every proof is `exact <lemma of Proofs/EndToEnd.v>`.

   Three finished results are composed into one statement about source text:
     C02_parse       tokens_to_operator_tree (flatten e) = Ok (Node ORootNode [tree_of e])   for ok_top e
     C06_embedded    tokenize (join ls seps) = Ok (map <token of lexeme> ls)                 for valid separators
     C07_separators  ... independently of the separators
     Model.Interface.build_operator_tree s = tokenize s >>= tokens_to_operator_tree.

   Vocabulary: Spec/Grammar.v (expr, flatten, tree_of, ok_top), Spec/LexSpec.v (lexeme, text, gap, join,
   valid_seps, lexemes_wf), Spec/Render.v (lexeme_token: the token a lexeme denotes; lexeme_of_token /
   lexemes_of: the canonical lexemes of tokens; renderable; spaces).
   `LexSpec.join ls seps` is the SOURCE STRING: gap 0, lexeme 0, gap 1, lexeme 1, ..., trailing gap.

   EXCLUDED: float literals (LexSpec has no float printer; lexeme_of_token (TFloat _) = None) and negative
   integer literals (no single lexeme denotes TInt (-3)); see E2E_excluded below. *)
From Coq Require Import Strings.String Floats.SpecFloat.
Require Import Model.Base Model.Syntax Model.F64 Model.Lexer Model.Builder Model.Value Model.Context Model.Eval
               Model.Interface.
Require Import Spec.OpTable Spec.Grammar Spec.LexSpec Spec.Render.
Require Import Proofs.EndToEnd.

(* 1. The canonical lexemes of a token list are well formed (what C06_embedded / C07_separators need)
      and denote exactly these tokens. *)
Theorem E2E_tokens : forall (ts : list token) (ls : list lexeme), lexemes_of ts = Some ls ->
  lexemes_wf ls /\ map lexeme_token ls = ts.
Proof. exact lexemes_of_sound. Qed.

(* ... hence every validly separated text of these lexemes is tokenized to ts, and building from the
   text is building from ts -- for ANY token list, also one the builder rejects *)
Theorem E2E_tokenize : forall (ts : list token) (ls : list lexeme) (seps : list gap),
  lexemes_of ts = Some ls -> valid_seps ls seps -> tokenize (LexSpec.join ls seps) = Ok ts.
Proof. exact tokenize_rendering. Qed.

Theorem E2E_build : forall (ts : list token) (ls : list lexeme) (seps : list gap),
  lexemes_of ts = Some ls -> valid_seps ls seps ->
  build_operator_tree (LexSpec.join ls seps) = tokens_to_operator_tree ts.
Proof. exact build_rendering. Qed.

(* 2. EVERY rendering of a well-parenthesised AST as a source string, with ANY valid choice of white space
      and comments between the lexemes, precompiles to exactly the reference tree. *)
Theorem E2E_parse : forall (e : expr) (ls : list lexeme) (seps : list gap),
  ok_top e -> lexemes_of (flatten e) = Some ls -> valid_seps ls seps ->
  build_operator_tree (LexSpec.join ls seps) = Ok (Node ORootNode [tree_of e]).
Proof. exact e2e_parse. Qed.

(* non-vacuity, in general: one space everywhere is a valid separator assignment of every lexeme list ... *)
Theorem E2E_spaces_valid : forall ls : list lexeme, valid_seps ls (spaces (S (length ls))).
Proof. exact spaces_valid. Qed.

(* ... and the declarative class `renderable` (integer literals in 0 .. i64_max, booleans, strings of any
   content, identifiers that are words without a literal form; no floats) has lexemes: every renderable
   well-parenthesised AST HAS a source text, and all its source texts precompile to the reference tree *)
Theorem E2E_renderable : forall e : expr, ok_top e -> renderable e ->
  exists ls : list lexeme, lexemes_of (flatten e) = Some ls /\
    (exists seps, valid_seps ls seps) /\
    forall seps, valid_seps ls seps ->
      build_operator_tree (LexSpec.join ls seps) = Ok (Node ORootNode [tree_of e]).
Proof. exact e2e_renderable. Qed.

(* 3. Separators are irrelevant for precompilation: equal trees or the same error, for ANY well-formed
      lexeme list (also one that is no expression) *)
Theorem E2E_separators_irrelevant : forall (ls : list lexeme) (s1 s2 : list gap),
  lexemes_wf ls -> valid_seps ls s1 -> valid_seps ls s2 ->
  build_operator_tree (LexSpec.join ls s1) = build_operator_tree (LexSpec.join ls s2).
Proof. exact e2e_separators. Qed.

(* ... and for every entry point: same value or error, same context afterwards, same log *)
Theorem E2E_separators_irrelevant_eval :
  forall (O : std_oracle) (ls : list lexeme) (s1 s2 : list gap) (m : emode) (t : etype) (c : ctx) (lg : log),
  lexemes_wf ls -> valid_seps ls s1 -> valid_seps ls s2 ->
  run_entry O m t (LexSpec.join ls s1) c lg = run_entry O m t (LexSpec.join ls s2) c lg.
Proof. exact e2e_separators_eval. Qed.

(* 4. Evaluating any rendering through any entry point (free / read-only / mutable context, any result type)
      is evaluating the reference tree. *)
Theorem E2E_eval :
  forall (O : std_oracle) (e : expr) (ls : list lexeme) (seps : list gap) (m : emode) (t : etype) (c : ctx) (lg : log),
  ok_top e -> lexemes_of (flatten e) = Some ls -> valid_seps ls seps ->
  run_entry O m t (LexSpec.join ls seps) c lg =
  match m with
  | MRo => let '(r, lg') := eval_ro O (Node ORootNode [tree_of e]) c lg in (project t r, c, lg')
  | MMut => let '(r, c', lg') := eval_mut O (Node ORootNode [tree_of e]) c lg in (project t r, c', lg')
  | MFree => let '(r, _, _) := eval_mut O (Node ORootNode [tree_of e]) empty_hashmap [] in (project t r, c, lg)
  end.
Proof. exact e2e_eval. Qed.

(* a boolean test that is sufficient for valid_seps (used below) *)
Theorem E2E_valid_seps_test : forall (ls : list lexeme) (seps : list gap),
  valid_seps_b ls seps = true -> valid_seps ls seps.
Proof. exact valid_seps_b_sound. Qed.

(* ... and one for renderable: integer literals in range, no floats, identifiers that are words starting with
   a scalar value >= 65 (letters, `_`, everything beyond ASCII) other than true / false / inf / infinity / nan *)
Theorem E2E_renderable_test : forall e : expr,
  forallb (fun t => match t with
                    | TIdentifier w => letter_ident_b w
                    | TInt n => (0 <=? n) && (n <=? i64_max)
                    | TFloat _ => false
                    | _ => true
                    end) (flatten e) = true ->
  renderable e.
Proof. exact renderable_test. Qed.

(* ---- 5. examples ---- *)

(*  x = f (a, "s /*t*/ \"q\"") + g y * (b - 1) / c
    binary operators, two calls (one with a tuple, one with a bare argument), an assignment, a string
    literal containing comment markers and quotes, parentheses *)
Definition e2e_sample : expr :=
  Asg AAssign (s2l "x"%string)
    (Bin BAdd
       (Call (s2l "f"%string)
             (Paren [[Some (Var (s2l "a"%string)); Some (Lit (LString (s2l "s /*t*/ ""q"""%string)))]]))
       (Bin BDiv
          (Bin BMul (Call (s2l "g"%string) (Var (s2l "y"%string)))
                    (PExpr (Bin BSub (Var (s2l "b"%string)) (Lit (LInt 1)))))
          (Var (s2l "c"%string)))).

Definition e2e_lexemes : list lexeme :=
  [LWord (s2l "x"%string); LOp XAssign; LWord (s2l "f"%string); LOp XLBrace; LWord (s2l "a"%string); LOp XComma;
   LStr (s2l "s /*t*/ ""q"""%string); LOp XRBrace; LOp XPlus; LWord (s2l "g"%string); LWord (s2l "y"%string);
   LOp XStar; LOp XLBrace; LWord (s2l "b"%string); LOp XMinus; LWord (s2l "1"%string); LOp XRBrace; LOp XSlash;
   LWord (s2l "c"%string)].

(* the tightest rendering: the only separator that is needed stands between g and y *)
Definition e2e_seps_tight : list gap := [[]; []; []; []; []; []; []; []; []; []; [SWs 32%N]].

(* comments and exotic white space wherever they are allowed *)
Definition e2e_seps_rich : list gap :=
  [ [SLine (s2l "assign"%string); SWs 9%N];                               (*   x   : line comment, tab *)
    [SWs 12288%N];                                                          (* x = : ideographic space *)
    [SBlock (s2l "* the call *"%string)];                                   (* = f *)
    [];                                                                     (* f ( *)
    [SWs 160%N];                                                            (* ( a : no-break space *)
    [SBlock []];                                                            (* a , : the empty comment *)
    [SWs 10%N; SWs 8232%N];                                                 (* , string : newline, line separator *)
    [];                                                                     (* string ) *)
    [SLine (s2l " + follows /* not a block"%string); SWs 32%N];             (* ) + *)
    [SWs 8195%N];                                                           (* + g : em space *)
    [SBlock (s2l "y is the argument"%string)];                              (* g y : a comment separates words *)
    [];                                                                     (* y * *)
    [SBlock (s2l "/"%string)];                                              (* * ( : the comment /*/*/ *)
    []; []; []; [];                                                         (* ( b - 1 ) *)
    [SWs 32%N];                                                             (* ) / *)
    [SWs 32%N; SBlock (s2l " after a slash: white space first "%string)];   (* / c *)
    [SWs 13%N; SWs 10%N; SLine (s2l "end"%string)] ].                       (* trailing *)

Example E2E_ex_hypotheses :
  ok_top e2e_sample /\ renderable e2e_sample /\ lexemes_of (flatten e2e_sample) = Some e2e_lexemes /\
  valid_seps e2e_lexemes e2e_seps_tight /\ valid_seps e2e_lexemes e2e_seps_rich /\
  valid_seps e2e_lexemes (spaces 20) /\ ~ valid_seps e2e_lexemes [].
Proof.
  split; [vm_compute; reflexivity|].
  split; [|split; [vm_compute; reflexivity|]].
  - apply renderable_test. vm_compute. reflexivity.
  - split; [apply valid_seps_b_sound; vm_compute; reflexivity|].
    split; [apply valid_seps_b_sound; vm_compute; reflexivity|].
    split; [exact (spaces_valid e2e_lexemes)|].
    intros (_ & H & _). apply (H 9%nat (LWord (s2l "g"%string)) (LWord (s2l "y"%string)));
      reflexivity.
Qed.

(* the two source strings *)
Example E2E_ex_texts :
  LexSpec.join e2e_lexemes e2e_seps_tight = s2l "x=f(a,""s /*t*/ \""q\"""")+g y*(b-1)/c"%string /\
  LexSpec.join e2e_lexemes e2e_seps_rich =
    s2l "//assign"%string ++ [10; 9]%N ++ s2l "x"%string ++ [12288%N] ++ s2l "=/** the call **/f("%string ++ [160%N] ++
    s2l "a/**/,"%string ++ [10; 8232]%N ++ s2l """s /*t*/ \""q\"""")// + follows /* not a block"%string ++ [10%N] ++
    s2l " +"%string ++ [8195%N] ++
    s2l "g/*y is the argument*/y*/*/*/(b-1) / /* after a slash: white space first */c"%string ++ [13; 10]%N ++
    s2l "//end"%string ++ [10%N].
Proof. split; vm_compute; reflexivity. Qed.

(* both precompile to the reference tree (by computation; E2E_parse says so for every valid separator choice) *)
Example E2E_ex_same_tree :
  build_operator_tree (LexSpec.join e2e_lexemes e2e_seps_tight) = Ok (Node ORootNode [tree_of e2e_sample]) /\
  build_operator_tree (LexSpec.join e2e_lexemes e2e_seps_rich) = Ok (Node ORootNode [tree_of e2e_sample]) /\
  build_operator_tree (LexSpec.join e2e_lexemes (spaces 20)) = Ok (Node ORootNode [tree_of e2e_sample]) /\
  tree_of e2e_sample =
    Node OAssign
      [Node (OVariableIdentifierWrite (s2l "x"%string)) [];
       Node OAdd
         [Node (OFunctionIdentifier (s2l "f"%string))
            [Node ORootNode
               [Node OTuple
                  [Node ORootNode [Node (OVariableIdentifierRead (s2l "a"%string)) []];
                   Node ORootNode [Node (OConst (VString (s2l "s /*t*/ ""q"""%string))) []]]]];
          Node ODiv
            [Node OMul
               [Node (OFunctionIdentifier (s2l "g"%string)) [Node (OVariableIdentifierRead (s2l "y"%string)) []];
                Node ORootNode
                  [Node OSub [Node (OVariableIdentifierRead (s2l "b"%string)) []; Node (OConst (VInt 1)) []]]];
             Node (OVariableIdentifierRead (s2l "c"%string)) []]]].
Proof. repeat split; vm_compute; reflexivity. Qed.

(* what valid_seps excludes is really different: without the separator g and y are one word, and a comment
   directly after the lexeme "/" makes the rest of the line a comment *)
Example E2E_ex_invalid_differs :
  build_operator_tree (s2l "x=f(a,""s"")+gy*(b-1)/c"%string) <> build_operator_tree (s2l "x=f(a,""s"")+g y*(b-1)/c"%string) /\
  build_operator_tree (s2l "a//**/b"%string) = Ok (Node ORootNode [Node (OVariableIdentifierRead (s2l "a"%string)) []]).
Proof. split; [vm_compute; discriminate|vm_compute; reflexivity]. Qed.

(* the exclusions: no float literal, no negative integer literal, no identifier with a literal form *)
Example E2E_excluded :
  (forall f, lexeme_of_token (TFloat f) = None) /\
  (forall f, ~ renderable (Lit (LFloat f))) /\
  lexeme_of_token (TInt (-3)) = None /\
  lexeme_of_token (TInt (i64_max + 1)) = None /\
  lexeme_of_token (TInt i64_max) = Some (LWord (s2l "9223372036854775807"%string)) /\
  lexeme_of_token (TIdentifier (s2l "inf"%string)) = None /\
  lexeme_of_token (TIdentifier (s2l "true"%string)) = None /\
  lexeme_of_token (TIdentifier (s2l "0x1F"%string)) = None /\
  lexeme_of_token (TIdentifier (s2l "a b"%string)) = None /\
  lexeme_of_token (TIdentifier (s2l "1e"%string)) = Some (LWord (s2l "1e"%string)).
Proof.
  split; [reflexivity|]. split; [intros f H; inversion H as [|t ts Ht _]; exact Ht|].
  repeat split; vm_compute; reflexivity.
Qed.

(* the scientific join is a matter of SEPARATORS, not of renderability: the identifier `1e` minus 3 is
   renderable; written "1e - 3" (or with one of the two gaps) it is that subtraction, and the text "1e-3",
   which valid_seps excludes by its `sci` clause, is a float literal *)
Example E2E_ex_sci :
  let e := Bin BSub (Var (s2l "1e"%string)) (Lit (LInt 3)) in
  let ls := [LWord (s2l "1e"%string); LOp XMinus; LWord (s2l "3"%string)] in
  ok_top e /\ lexemes_of (flatten e) = Some ls /\
  valid_seps ls [[]; []; [SWs 32%N]] /\ valid_seps ls [[]; [SBlock []]] /\
  build_operator_tree (s2l "1e- 3"%string) = Ok (Node ORootNode [tree_of e]) /\
  build_operator_tree (s2l "1e/**/-3"%string) = Ok (Node ORootNode [tree_of e]) /\
  build_operator_tree (s2l "1e-3"%string) = Ok (Node ORootNode [Node (OConst (VFloat (f_of_decimal 1 (-3)))) []]).
Proof.
  cbv zeta. split; [vm_compute; reflexivity|]. split; [vm_compute; reflexivity|].
  split; [apply valid_seps_b_sound; vm_compute; reflexivity|].
  split; [apply valid_seps_b_sound; vm_compute; reflexivity|].
  repeat split; vm_compute; reflexivity.
Qed.
