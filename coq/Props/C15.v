(* C15 -- Expressions, values and contexts are safe to share across threads (the part a theorem can carry).
   Send + Sync of the eight public types is decided by rustc (harness/src/send_sync.rs); the premise that
   read-only evaluation touches nothing but its arguments is the purity audit (tools/audit_purity.py);
   what is proved: under that premise every interleaving gives every thread its sequential result. *)
From Coq Require Import List Arith Lia Floats.SpecFloat.
Import ListNotations.
Require Import Model.Base Model.Syntax Model.Value Model.Context Model.Eval.
Require Import Spec.Interleave Proofs.C15.

(* generic: any thread count, any finite interleaving, any deterministic step over shared immutable data *)
Theorem C15_schedule_independent : forall (shared state : Type) (step : shared -> state -> state) (d : shared)
    (schedule : list nat) (threads : list state) (j : nat) (dflt : state),
  (j < length threads)%nat ->
  nth j (run_schedule shared state step d threads schedule) dflt =
  run_alone shared state step d (nth j threads dflt) (steps_of j schedule).
Proof. exact schedule_independent. Qed.

(* instantiation: a thread either still has to evaluate its tree or holds its result; one step evaluates
   read-only against the shared (tree list, context).  Whatever the schedule, a thread that was scheduled
   at least once holds exactly the sequential result eval_ro O n c []. *)
Inductive tstate := Pending (n : node) | Done (r : outcome value * log).

Definition eval_step (O : std_oracle) (c : ctx) (s : tstate) : tstate :=
  match s with Pending n => Done (eval_ro O n c []) | Done r => Done r end.

Theorem C15_eval_schedule_independent : forall (O : std_oracle) (c : ctx) (schedule : list nat) (trees : list node) (j : nat),
  (j < length trees)%nat -> (0 < steps_of j schedule)%nat ->
  nth j (run_schedule ctx tstate (eval_step O) c (map Pending trees) schedule) (Done (Panic 0, [])) =
  Done (eval_ro O (nth j trees (Node ORootNode [])) c []).
Proof.
  intros O c schedule trees j Hj Hs.
  rewrite (schedule_independent ctx tstate (eval_step O) c schedule (map Pending trees) j) by (rewrite map_length; exact Hj).
  replace (nth j (map Pending trees) (Done (Panic 0, []))) with (Pending (nth j trees (Node ORootNode []))).
  - destruct (steps_of j schedule) as [|n]; [lia|]. cbn [run_alone eval_step].
    clear Hs. induction n as [|n IH]; cbn [run_alone eval_step]; [reflexivity|exact IH].
  - clear Hs. revert j Hj. induction trees as [|t ts IH]; intros j Hj; cbn in *; [lia|].
    destruct j; [reflexivity|]. apply IH. lia.
Qed.

Example C15_two_threads_any_order :
  forall O c a b, run_schedule ctx tstate (eval_step O) c [Pending a; Pending b] [1; 0; 1]%nat
                = run_schedule ctx tstate (eval_step O) c [Pending a; Pending b] [0; 1]%nat.
Proof. intros. reflexivity. Qed.
