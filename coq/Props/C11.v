(* C11 -- Read-only evaluation equals mutable evaluation and never mutates.
   This file holds only the property theorems; every proof is `exact <lemma of Proofs/C11.v>`.
   All theorems are about EVERY tree (not only parser output) and every context kind.
   Reference notions (Spec/RefEval.v): is_assign, no_assign, eval_traced (the mutable run that also
   reports the log position of the first APPLICATION of an assignment operator), project_ro. *)
From Coq Require Import Strings.String Floats.SpecFloat.
Require Import Model.Base Model.Syntax Model.F64 Model.Lexer Model.Builder Model.Value Model.Context Model.Builtins
               Model.Eval Model.Interface.
Require Import Spec.RefEval Proofs.Common Proofs.C08 Proofs.C11.

(* ---- agreement ---- *)

(* a tree without assignment operators: same result, same log, and the mutable run returns the context
   it was given *)
Theorem C11_agree : forall (O : std_oracle) (n : node) (c : ctx) (lg : log),
  no_assign n = true ->
  eval_mut O n c lg = (fst (eval_ro O n c lg), c, snd (eval_ro O n c lg)).
Proof. exact agree_static. Qed.

(* the same under the weaker, dynamic condition: the tree may contain assignment operators as long as
   none is applied in this run (e.g. an earlier sibling fails) *)
Theorem C11_agree_dynamic : forall (O : std_oracle) (n : node) (c : ctx) (lg : log),
  snd (eval_traced O n c lg None) = None ->
  eval_mut O n c lg = (fst (eval_ro O n c lg), c, snd (eval_ro O n c lg)).
Proof. exact agree_dynamic. Qed.

(* ---- projection ---- *)

(* the traced run is the mutable run: forgetting the marker gives eval_mut *)
Theorem C11_traced_is_mut : forall (O : std_oracle) (n : node) (c : ctx) (lg : log) (mk : option log),
  fst (eval_traced O n c lg mk) = eval_mut O n c lg.
Proof. exact traced_faithful. Qed.

(* the read-only evaluator is the projection of the (traced) mutable run: ContextNotMutable with the log
   truncated at the first application of an assignment operator, if there is one -- any error that the
   run meets earlier has then already been reported, since the run stops at it --, otherwise the very
   result and log of the mutable run.
   "Application" means: the node's children all evaluated to values; the operator may then still reject
   their number or types in eval_mut (WrongOperatorArgumentAmount, ExpectedString ...), whereas the
   read-only dispatcher answers ContextNotMutable without looking at them (see C11_ex_arity). *)
Theorem C11_project : forall (O : std_oracle) (n : node) (c : ctx) (lg : log),
  eval_ro O n c lg = project_ro (eval_traced O n c lg None).
Proof. exact ro_is_projection. Qed.

(* the two cases spelled out *)
Theorem C11_marked : forall (O : std_oracle) (n : node) (c : ctx) (lg : log)
    (r : outcome value) (c' : ctx) (lg' l0 : log),
  eval_traced O n c lg None = (r, c', lg', Some l0) ->
  eval_mut O n c lg = (r, c', lg') /\ eval_ro O n c lg = (Err EContextNotMutable, l0).
Proof. exact traced_marked. Qed.

Theorem C11_unmarked : forall (O : std_oracle) (n : node) (c : ctx) (lg : log)
    (r : outcome value) (c' : ctx) (lg' : log),
  eval_traced O n c lg None = (r, c', lg', None) ->
  eval_mut O n c lg = (r, c, lg') /\ eval_ro O n c lg = (r, lg') /\ c' = c.
Proof. exact traced_unmarked. Qed.

(* "truncates the log there": the marker extends the initial log and is a prefix of the final log *)
Theorem C11_marker_position : forall (O : std_oracle) (n : node) (c : ctx) (lg : log)
    (r : outcome value) (c' : ctx) (lg' l0 : log),
  eval_traced O n c lg None = (r, c', lg', Some l0) ->
  exists d1 d2, l0 = lg ++ d1 /\ lg' = l0 ++ d2.
Proof. exact marker_is_between. Qed.

(* a tree without assignment operators never sets the marker (so C11_agree is an instance of C11_project) *)
Theorem C11_no_assign_unmarked : forall (O : std_oracle) (n : node),
  no_assign n = true -> forall (c : ctx) (lg : log) (mk : option log), snd (eval_traced O n c lg mk) = mk.
Proof. exact no_assign_unmarked. Qed.

(* ---- purity ----
   eval_ro does not return a context at all: a caller of the read-only entry points keeps the context it
   passed.  In the model this is true by construction (run_entry hands c back), so the theorems below are
   trivial; that the Rust `&C` really is not changed behind the model's back rests on Rust's type system
   (no `&mut` can be obtained from `&C`) together with the purity audit of C15 (no interior mutability,
   no global state in the crate). *)
Theorem C11_pure : forall (O : std_oracle) (t : etype) (s : str) (c : ctx) (lg : log),
  snd (fst (run_entry O MRo t s c lg)) = c.
Proof. exact run_entry_ro_ctx. Qed.

Theorem C11_pure_observations : forall (O : std_oracle) (t : etype) (s : str) (c : ctx) (lg : log) (x : str),
  let c' := snd (fst (run_entry O MRo t s c lg)) in
  get_value c' x = get_value c x /\ iter_variables c' = iter_variables c /\
  lookup_function c' x = lookup_function c x /\
  are_builtin_functions_disabled c' = are_builtin_functions_disabled c.
Proof. exact run_entry_ro_observations. Qed.

(* ---- contexts without a variable store: KNoStore (a user context with the default set_value),
        KEmpty, KEmptyBuiltin -- everything but KHashMap ---- *)

(* every application of an assignment operator fails, context and log untouched *)
Theorem C11_nostore : forall (O : std_oracle) (o : operator) (vs : list value) (c : ctx) (lg : log),
  c_kind c <> KHashMap -> is_assign o = true ->
  exists e, op_eval_mut O o vs c lg = (Err e, c, lg).
Proof. exact nostore_apply. Qed.

(* with operands that pass the arity / target / lookup / operator checks the error is ContextNotMutable *)
Theorem C11_nostore_assign : forall (O : std_oracle) (x : str) (v : value) (c : ctx) (lg : log),
  c_kind c <> KHashMap ->
  op_eval_mut O OAssign [VString x; v] c lg = (Err EContextNotMutable, c, lg).
Proof. exact nostore_assign. Qed.

Theorem C11_nostore_opassign : forall (O : std_oracle) (o b : operator) (x : str) (v : value) (c : ctx) (lg : log)
    (old res : value),
  c_kind c <> KHashMap ->
  assign_base o = Some b -> get_value c x = Some old -> fst (op_eval O b [old; v] c lg) = Ok res ->
  op_eval_mut O o [VString x; v] c lg = (Err EContextNotMutable, c, lg).
Proof. exact nostore_opassign. Qed.

(* no tree changes such a context, and a tree whose root is an assignment operator never has a value *)
Theorem C11_nostore_tree : forall (O : std_oracle) (n : node) (c : ctx) (lg : log),
  c_kind c <> KHashMap -> snd (fst (eval_mut O n c lg)) = c.
Proof. exact nostore_tree_ctx. Qed.

Theorem C11_nostore_node : forall (O : std_oracle) (o : operator) (ch : list node) (c : ctx) (lg : log),
  c_kind c <> KHashMap -> is_assign o = true ->
  exists s, fst (fst (eval_mut O (Node o ch) c lg)) = stopped s.
Proof. exact nostore_assign_node. Qed.

(* ---- concrete runs ---- *)
Definition f_name : str := s2l "f"%string.
Definition x_name : str := s2l "x"%string.
Definition funs_f : list (str * ufun) := [(f_name, fun a : value => Ok a)].
Definition ctx_f : ctx := mkctx KHashMap [] funs_f false.
Definition ctx_f_x (v : value) : ctx := mkctx KHashMap [(x_name, v)] funs_f false.
Definition ctx_nostore : ctx := mkctx KNoStore [(x_name, VInt 1)] funs_f false.
Definition lit (v : value) : node := Node (OConst v) [].
Definition call_f (n : node) : node := Node (OFunctionIdentifier f_name) [n].
Definition wr_x : node := Node (OVariableIdentifierWrite x_name) [].
Definition set_x (n : node) : node := Node OAssign [wr_x; n].

(* f(1) + 2 has no assignment: both evaluators agree *)
Example C11_ex_agree : forall O,
  no_assign (Node OAdd [call_f (lit (VInt 1)); lit (VInt 2)]) = true /\
  eval_ro O (Node OAdd [call_f (lit (VInt 1)); lit (VInt 2)]) ctx_f [] = (Ok (VInt 3), [(f_name, VInt 1)]) /\
  eval_mut O (Node OAdd [call_f (lit (VInt 1)); lit (VInt 2)]) ctx_f [] = (Ok (VInt 3), ctx_f, [(f_name, VInt 1)]).
Proof. intros. repeat split; vm_compute; reflexivity. Qed.

(* (f(1), x = 5, f(2)): the mutable run finishes; the read-only run stops at the assignment, f(1) logged *)
Example C11_ex_project : forall O,
  eval_traced O (Node OTuple [call_f (lit (VInt 1)); set_x (lit (VInt 5)); call_f (lit (VInt 2))]) ctx_f [] None =
  (Ok (VTuple [VInt 1; VEmpty; VInt 2]), ctx_f_x (VInt 5), [(f_name, VInt 1); (f_name, VInt 2)],
   Some [(f_name, VInt 1)]) /\
  eval_ro O (Node OTuple [call_f (lit (VInt 1)); set_x (lit (VInt 5)); call_f (lit (VInt 2))]) ctx_f [] =
  (Err EContextNotMutable, [(f_name, VInt 1)]).
Proof. intros. split; vm_compute; reflexivity. Qed.

(* (1/0, x = 5): the earlier error is reported, not ContextNotMutable; the marker is not set
   although the tree contains an assignment (C11_agree_dynamic applies, C11_agree does not) *)
Example C11_ex_earlier_error : forall O,
  eval_ro O (Node OTuple [Node ODiv [lit (VInt 1); lit (VInt 0)]; set_x (lit (VInt 5))]) ctx_f [] =
  (Err (EDivisionError (VInt 1) (VInt 0)), []) /\
  snd (eval_traced O (Node OTuple [Node ODiv [lit (VInt 1); lit (VInt 0)]; set_x (lit (VInt 5))]) ctx_f [] None) = None /\
  no_assign (Node OTuple [Node ODiv [lit (VInt 1); lit (VInt 0)]; set_x (lit (VInt 5))]) = false.
Proof. intros. repeat split; vm_compute; reflexivity. Qed.

(* a malformed assignment node (no children): eval_mut reports the arity, eval_ro ContextNotMutable *)
Example C11_ex_arity : forall O,
  eval_mut O (Node OAssign []) ctx_f [] = (Err (EWrongOperatorArgumentAmount 2 0), ctx_f, []) /\
  eval_ro O (Node OAssign []) ctx_f [] = (Err EContextNotMutable, []) /\
  snd (eval_traced O (Node OAssign []) ctx_f [] None) = Some [].
Proof. intros. repeat split; vm_compute; reflexivity. Qed.

(* a context without store that knows x = 1:  x = 2  and  x += 2  fail with ContextNotMutable;
   on EmptyContext  x += 2  fails earlier, at the lookup *)
Example C11_ex_nostore : forall O,
  eval_mut O (set_x (lit (VInt 2))) ctx_nostore [] = (Err EContextNotMutable, ctx_nostore, []) /\
  eval_mut O (Node OAddAssign [wr_x; lit (VInt 2)]) ctx_nostore [] = (Err EContextNotMutable, ctx_nostore, []) /\
  eval_mut O (Node OAddAssign [wr_x; lit (VInt 2)]) empty_context [] =
  (Err (EVariableIdentifierNotFound x_name), empty_context, []).
Proof. intros. repeat split; vm_compute; reflexivity. Qed.

(* the hypotheses of C11_nostore_opassign are met *)
Example C11_ex_nostore_hyps : forall O,
  c_kind ctx_nostore <> KHashMap /\ assign_base OAddAssign = Some OAdd /\
  get_value ctx_nostore x_name = Some (VInt 1) /\
  fst (op_eval O OAdd [VInt 1; VInt 2] ctx_nostore []) = Ok (VInt 3).
Proof. intros. repeat split; try (vm_compute; reflexivity). discriminate. Qed.
