(* C03 -- Operators compute exact, correctly typed results or a typed error.
   This file holds only the property theorems; every proof is `exact <lemma of Proofs/C03.v>`. *)
From Coq Require Import Floats.SpecFloat.
Require Import Model.Base Model.Syntax Model.F64 Model.Lexer Model.Value Model.Context Model.Eval.
Require Import Spec.OpTable Proofs.Common Proofs.C03.

(* For every std oracle, every binary operator, all well-formed operand values of every type, every
   context and log: the class (value / arithmetic error / type error) of what Operator::eval returns
   is the class of the reference table.  The value is compared exactly (floats as SpecFloat values). *)
Theorem C03_binop : forall (O : std_oracle) (o : binop) (a b : value) (c : ctx) (lg : log),
  wf a -> wf b ->
  class_of (fst (op_eval O (op_of_binop o) [a; b] c lg)) = spec_binop O o a b.
Proof. exact binop_class. Qed.

Theorem C03_binop_accepted : forall (O : std_oracle) (o : binop) (a b : value) (c : ctx) (lg : log),
  wf a -> wf b ->
  spec_ok O o a b (class_of (fst (op_eval O (op_of_binop o) [a; b] c lg))).
Proof. exact binop_spec_ok. Qed.

Theorem C03_unop : forall (O : std_oracle) (u : unop) (a : value) (c : ctx) (lg : log),
  class_of (fst (op_eval O (op_of_unop u) [a] c lg)) = spec_unop u a.
Proof. exact unop_class. Qed.

(* never a wrapped value *)
Theorem C03_no_wrap : forall (O : std_oracle) (o : binop) (x y r : Z) (c : ctx) (lg : log),
  in_i64 x = true -> in_i64 y = true ->
  fst (op_eval O (op_of_binop o) [VInt x; VInt y] c lg) = Ok (VInt r) ->
  exact_int o x y = Some r /\ in_i64 r = true /\ (o = BDiv \/ o = BMod -> y <> 0).
Proof. exact binop_no_wrap. Qed.

Theorem C03_arity_binary : forall (O : std_oracle) (o : binop) (args : list value) (c : ctx) (lg : log),
  length args <> 2%nat ->
  fst (op_eval O (op_of_binop o) args c lg) = Err (EWrongOperatorArgumentAmount 2 (N.of_nat (length args))).
Proof. exact binop_arity. Qed.

Theorem C03_arity_prefix : forall (O : std_oracle) (u : unop) (args : list value) (c : ctx) (lg : log),
  length args <> 1%nat ->
  fst (op_eval O (op_of_unop u) args c lg) = Err (EWrongOperatorArgumentAmount 1 (N.of_nat (length args))).
Proof. exact unop_arity. Qed.

(* the vocabulary of the reference: == is the structural relation veq, string order is lexicographic *)
Theorem C03_equality_is_structural : forall a b : value, value_eqb a b = true <-> veq a b.
Proof. exact value_eqb_spec. Qed.

Theorem C03_string_order_is_lexicographic : forall x y : str, str_ltb x y = true <-> str_lt x y.
Proof. exact str_ltb_spec. Qed.

(* non-vacuity: concrete rows of the table *)
Example C03_row_overflow : forall O c lg,
  class_of (fst (op_eval O OAdd [VInt i64_max; VInt 1] c lg)) = CArith /\
  class_of (fst (op_eval O ODiv [VInt i64_min; VInt (-1)] c lg)) = CArith /\
  class_of (fst (op_eval O OSub [VInt 0; VInt i64_min] c lg)) = CArith /\
  class_of (fst (op_eval O ODiv [VInt (-7); VInt 2] c lg)) = CVal (VInt (-3)) /\
  class_of (fst (op_eval O OMod [VInt (-7); VInt 2] c lg)) = CVal (VInt (-1)) /\
  class_of (fst (op_eval O OAdd [VString [97%N]; VInt 1] c lg)) = CType /\
  class_of (fst (op_eval O OEq [VInt 1; VFloat (f_of_Z 1)] c lg)) = CVal (VBool false).
Proof. intros. repeat split; vm_compute; reflexivity. Qed.
