(* END TO END, FLOAT LITERALS INCLUDED -- from SOURCE STRINGS to reference trees.
   This file holds only the property theorems; every proof is `exact <lemma of Proofs/EndToEndF.v>`.

   Props/EndToEnd.v connects an expression to its source strings through the FUNCTION
   `lexemes_of : list token -> option (list lexeme)`, which is None on every TFloat (there is no float
   printer), so none of its theorems speaks about an expression with a float literal.  Here the connection
   is the RELATION

       lexemes_wf ls /\ map lexeme_token ls = flatten e          "ls denotes the tokens of e"

   which needs no printer: ANY well-formed lexeme list that denotes the tokens will do, so every spelling of
   a float literal (1.5, 1.50, 15e-1, .5, 10., 2E+3, 0.002, 2e-3 ...) is covered.

   Vocabulary: Spec/Grammar.v (expr, flatten, tree_of, ok_top), Spec/LexSpec.v (lexeme, text, gap, join,
   valid_seps, lexemes_wf, float_lit, float_text, float_value, float_wf, has_dot_or_exp), Spec/Render.v
   (lexeme_token, renderable_ident, spaces), Spec/RenderF.v (float_lexeme, renderableF).
   `LexSpec.join ls seps` is the SOURCE STRING: gap 0, lexeme 0, gap 1, lexeme 1, ..., trailing gap.

   `float_value fl` is F64.f_of_decimal of the digits and the exponent; that this is the double nearest to
   the decimal number is a separate theorem (Props/FloatIEEE.v, Props/FloatIEEE2.v) -- nothing here imports
   Flocq or Reals.

   STILL EXCLUDED (by E2EF_renderable only; E2EF_parse / E2EF_eval have no such restriction): float tokens that
   are the value of no decimal literal with a dot or an exponent: f_of_decimal rounds a non-negative decimal
   number, so -0.0 (proved: E2EF_excluded_negzero), the negative doubles and NaN are not such values (the
   text -1.5 is the two lexemes `-` `1.5`).  +infinity IS the value of a literal (1e999).  The words inf / infinity / nan are lexemes that denote float tokens (known finding
   of C06), so texts containing them are covered by E2EF_parse, not by E2EF_renderable. *)
From Coq Require Import Strings.String Floats.SpecFloat.
Require Import Model.Base Model.Syntax Model.F64 Model.Lexer Model.Builder Model.Value Model.Context Model.Eval
               Model.Interface.
Require Import Spec.OpTable Spec.Grammar Spec.LexSpec Spec.Render Spec.RenderF.
Require Import Proofs.EndToEnd Proofs.EndToEndF.

(* 1. C06_embedded, with the denotation map of Spec/Render.v: every validly separated text of well-formed
      lexemes (float lexemes included) is tokenized to the tokens the lexemes denote. *)
Theorem E2EF_tokenize : forall (ls : list lexeme) (seps : list gap),
  lexemes_wf ls -> valid_seps ls seps ->
  tokenize (LexSpec.join ls seps) = Ok (map lexeme_token ls).
Proof. exact tokenize_joinF. Qed.

(* 2. EVERY source string made of ANY well-formed lexeme list that denotes the tokens of a well-parenthesised
      AST, with ANY valid choice of white space and comments, precompiles to exactly the reference tree.
      Float literals, in any of their spellings, are included. *)
Theorem E2EF_parse : forall (e : expr) (ls : list lexeme) (seps : list gap),
  ok_top e -> lexemes_wf ls -> map lexeme_token ls = flatten e -> valid_seps ls seps ->
  build_operator_tree (LexSpec.join ls seps) = Ok (Node ORootNode [tree_of e]).
Proof. exact e2ef_parse. Qed.

(* 3. Evaluating any such source string through any entry point (free / read-only / mutable context, any
      result type) is evaluating the reference tree. *)
Theorem E2EF_eval :
  forall (O : std_oracle) (e : expr) (ls : list lexeme) (seps : list gap) (m : emode) (t : etype) (c : ctx) (lg : log),
  ok_top e -> lexemes_wf ls /\ map lexeme_token ls = flatten e -> valid_seps ls seps ->
  run_entry O m t (LexSpec.join ls seps) c lg =
  match m with
  | MRo => let '(r, lg') := eval_ro O (Node ORootNode [tree_of e]) c lg in (project t r, c, lg')
  | MMut => let '(r, c', lg') := eval_mut O (Node ORootNode [tree_of e]) c lg in (project t r, c', lg')
  | MFree => let '(r, _, _) := eval_mut O (Node ORootNode [tree_of e]) empty_hashmap [] in (project t r, c, lg)
  end.
Proof. exact e2ef_eval. Qed.

(* 4. A float literal HAS a lexeme (Spec/RenderF.v:
        float_lexeme fl := if <the exponent is written with + or -> then LSci fl else LWord (float_text fl) );
      the lexeme is well formed, its text is the text of the literal, and it denotes the float token
      of the literal's value. *)
Theorem E2EF_float_lexeme : forall fl : float_lit, float_wf fl -> has_dot_or_exp fl ->
  lexeme_wf (float_lexeme fl) /\
  text (float_lexeme fl) = float_text fl /\
  lexeme_token (float_lexeme fl) = TFloat (float_value fl).
Proof. exact float_lexeme_spec. Qed.

(* 5. The declarative class renderableF: as Render.renderable (integer literals in 0 .. i64_max, booleans,
      strings of any content, identifiers that are words without a literal form), and a float literal is
      allowed when its value is the value of some decimal literal with a dot or an exponent
        renderableF_token (TFloat x) := exists fl, float_wf fl /\ has_dot_or_exp fl /\ float_value fl = x.
      Every renderableF well-parenthesised AST HAS a source text, and all source texts of its lexemes
      precompile to the reference tree. *)
Theorem E2EF_renderable : forall e : expr, ok_top e -> renderableF e ->
  exists ls : list lexeme, lexemes_wf ls /\ map lexeme_token ls = flatten e /\
    (exists seps, valid_seps ls seps) /\
    forall seps, valid_seps ls seps ->
      build_operator_tree (LexSpec.join ls seps) = Ok (Node ORootNode [tree_of e]).
Proof. exact e2ef_renderable. Qed.

(* the float-free class of Props/EndToEnd.v is a special case *)
Theorem E2EF_renderable_extends : forall e : expr, renderable e -> renderableF e.
Proof. exact renderable_renderableF. Qed.

(* 6. Different spellings, different separators: two lexeme lists that both denote the tokens of e (1.5 and
      1.50, 2e-3 and 0.002 ...), each with valid separators of its own, precompile to the same tree. *)
Theorem E2EF_separators_float :
  forall (e : expr) (ls1 ls2 : list lexeme) (s1 s2 : list gap),
  ok_top e ->
  lexemes_wf ls1 -> map lexeme_token ls1 = flatten e -> valid_seps ls1 s1 ->
  lexemes_wf ls2 -> map lexeme_token ls2 = flatten e -> valid_seps ls2 s2 ->
  build_operator_tree (LexSpec.join ls1 s1) = build_operator_tree (LexSpec.join ls2 s2).
Proof. exact e2ef_separators. Qed.

(* boolean tests that are sufficient for the hypotheses (used in the examples below) *)
Theorem E2EF_lexemes_wf_test : forall ls : list lexeme, forallb lexeme_wf_b ls = true -> lexemes_wf ls.
Proof. exact lexemes_wf_test. Qed.

Theorem E2EF_float_wf_test : forall fl : float_lit, float_wf_b fl = true -> float_wf fl.
Proof. exact float_wf_b_sound. Qed.

Theorem E2EF_has_dot_or_exp_test : forall fl : float_lit, has_dot_or_exp_b fl = true -> has_dot_or_exp fl.
Proof. exact has_dot_or_exp_b_sound. Qed.

(* `lits` are candidate literals for the float tokens of e *)
Theorem E2EF_renderable_test : forall (lits : list float_lit) (e : expr),
  forallb (renderableF_token_b lits) (flatten e) = true -> renderableF e.
Proof. exact renderableF_test. Qed.

(* ---- 7. examples ---- *)

(*  x = 1.5 * y + 2e-3 / (.5 - 10.)
    four float literals: digits.digits, a signed exponent, no integer part, no fractional digits *)
Definition fl_1p5  : float_lit := FloatLit (s2l "1"%string)  (Some (s2l "5"%string)) NoExp.
Definition fl_2em3 : float_lit := FloatLit (s2l "2"%string)  None (Exp false SMinus (s2l "3"%string)).
Definition fl_p5   : float_lit := FloatLit []                (Some (s2l "5"%string)) NoExp.
Definition fl_10p  : float_lit := FloatLit (s2l "10"%string) (Some []) NoExp.

Definition e2ef_sample : expr :=
  Asg AAssign (s2l "x"%string)
    (Bin BAdd
       (Bin BMul (Lit (LFloat (f_of_decimal 15 (-1)))) (Var (s2l "y"%string)))
       (Bin BDiv (Lit (LFloat (f_of_decimal 2 (-3))))
                 (PExpr (Bin BSub (Lit (LFloat (f_of_decimal 5 (-1)))) (Lit (LFloat (f_of_decimal 10 0))))))).

Definition e2ef_lexemes : list lexeme :=
  [LWord (s2l "x"%string); LOp XAssign; float_lexeme fl_1p5; LOp XStar; LWord (s2l "y"%string); LOp XPlus;
   float_lexeme fl_2em3; LOp XSlash; LOp XLBrace; float_lexeme fl_p5; LOp XMinus; float_lexeme fl_10p; LOp XRBrace].

(* the literals are well formed, their texts and values, and which kind of lexeme each one is: only the
   literal with a signed exponent is an LSci, the others are words *)
Example E2EF_ex_literals :
  (float_wf fl_1p5 /\ has_dot_or_exp fl_1p5) /\ (float_wf fl_2em3 /\ has_dot_or_exp fl_2em3) /\
  (float_wf fl_p5 /\ has_dot_or_exp fl_p5) /\ (float_wf fl_10p /\ has_dot_or_exp fl_10p) /\
  float_text fl_1p5 = s2l "1.5"%string /\ float_text fl_2em3 = s2l "2e-3"%string /\
  float_text fl_p5 = s2l ".5"%string /\ float_text fl_10p = s2l "10."%string /\
  float_lexeme fl_1p5 = LWord (s2l "1.5"%string) /\ float_lexeme fl_2em3 = LSci fl_2em3 /\
  float_lexeme fl_p5 = LWord (s2l ".5"%string) /\ float_lexeme fl_10p = LWord (s2l "10."%string) /\
  float_value fl_1p5 = f_of_decimal 15 (-1) /\ float_value fl_2em3 = f_of_decimal 2 (-3) /\
  float_value fl_p5 = f_of_decimal 5 (-1) /\ float_value fl_10p = f_of_decimal 10 0 /\
  (* the four doubles: 1.5 = 3 * 2^-1, 0.002 (rounded), 0.5 = 2^-1, 10 = 5 * 2^1 *)
  f_of_decimal 15 (-1) = S754_finite false 6755399441055744 (-52) /\
  f_of_decimal 2 (-3) = S754_finite false 4611686018427388 (-61) /\
  f_of_decimal 5 (-1) = S754_finite false 4503599627370496 (-53) /\
  f_of_decimal 10 0 = S754_finite false 5629499534213120 (-49).
Proof.
  assert (W : forall fl, float_wf_b fl = true -> has_dot_or_exp_b fl = true -> float_wf fl /\ has_dot_or_exp fl).
  { intros fl H1 H2. split; [apply float_wf_b_sound; exact H1|apply has_dot_or_exp_b_sound; exact H2]. }
  split; [apply W; vm_compute; reflexivity|]. split; [apply W; vm_compute; reflexivity|].
  split; [apply W; vm_compute; reflexivity|]. split; [apply W; vm_compute; reflexivity|].
  repeat split; vm_compute; reflexivity.
Qed.

(* a separator assignment with a block comment, a newline and a trailing line comment *)
Definition e2ef_seps : list gap :=
  [ [];                                   (*   x    *)
    [SWs 32%N];                           (* x =    *)
    [SWs 32%N];                           (* = 1.5  *)
    [SBlock (s2l " times "%string)];      (* 1.5 *  : a block comment directly after a float literal *)
    [];                                   (* * y    *)
    [SWs 10%N];                           (* y +    : newline *)
    [SWs 32%N];                           (* + 2e-3 *)
    [];                                   (* 2e-3 / *)
    [SWs 32%N];                           (* / (    *)
    [];                                   (* ( .5   *)
    [SWs 32%N];                           (* .5 -   *)
    [SWs 32%N];                           (* - 10.  *)
    [];                                   (* 10. )  *)
    [SLine (s2l "end"%string)] ].         (* trailing *)

(* the tightest text: no separator is needed anywhere *)
Definition e2ef_seps_tight : list gap := [].

(* the hypotheses of E2EF_parse / E2EF_eval / E2EF_separators_float hold *)
Example E2EF_ex_hypotheses :
  ok_top e2ef_sample /\ lexemes_wf e2ef_lexemes /\ map lexeme_token e2ef_lexemes = flatten e2ef_sample /\
  valid_seps e2ef_lexemes e2ef_seps /\ valid_seps e2ef_lexemes e2ef_seps_tight /\
  valid_seps e2ef_lexemes (spaces 14).
Proof.
  split; [vm_compute; reflexivity|].
  split; [apply lexemes_wf_test; vm_compute; reflexivity|].
  split; [vm_compute; reflexivity|].
  split; [apply valid_seps_b_sound; vm_compute; reflexivity|].
  split; [apply valid_seps_b_sound; vm_compute; reflexivity|].
  exact (spaces_valid e2ef_lexemes).
Qed.

(* ... and so do those of E2EF_renderable *)
Example E2EF_ex_renderable : ok_top e2ef_sample /\ renderableF e2ef_sample.
Proof.
  split; [vm_compute; reflexivity|].
  apply (renderableF_test [fl_1p5; fl_2em3; fl_p5; fl_10p]). vm_compute. reflexivity.
Qed.

(* the source strings *)
Example E2EF_ex_texts :
  LexSpec.join e2ef_lexemes e2ef_seps =
    s2l "x = 1.5/* times */*y"%string ++ [10%N] ++ s2l "+ 2e-3/ (.5 - 10.)//end"%string ++ [10%N] /\
  LexSpec.join e2ef_lexemes e2ef_seps_tight = s2l "x=1.5*y+2e-3/(.5-10.)"%string.
Proof. split; vm_compute; reflexivity. Qed.

(* they precompile to the reference tree, whose leaves are Const (VFloat _) (by computation; E2EF_parse
   says so for every valid separator choice and every spelling) *)
Example E2EF_ex_tree :
  build_operator_tree (s2l "x = 1.5/* times */*y"%string ++ [10%N] ++ s2l "+ 2e-3/ (.5 - 10.)//end"%string ++ [10%N])
    = Ok (Node ORootNode [tree_of e2ef_sample]) /\
  build_operator_tree (s2l "x=1.5*y+2e-3/(.5-10.)"%string) = Ok (Node ORootNode [tree_of e2ef_sample]) /\
  tree_of e2ef_sample =
    Node OAssign
      [Node (OVariableIdentifierWrite (s2l "x"%string)) [];
       Node OAdd
         [Node OMul
            [Node (OConst (VFloat (S754_finite false 6755399441055744 (-52)))) [];           (* 1.5 *)
             Node (OVariableIdentifierRead (s2l "y"%string)) []];
          Node ODiv
            [Node (OConst (VFloat (S754_finite false 4611686018427388 (-61)))) [];           (* 0.002 *)
             Node ORootNode
               [Node OSub
                  [Node (OConst (VFloat (S754_finite false 4503599627370496 (-53)))) [];     (* 0.5 *)
                   Node (OConst (VFloat (S754_finite false 5629499534213120 (-49)))) []]]]]]. (* 10 *)
Proof. repeat split; vm_compute; reflexivity. Qed.

(* the same through the theorem, not by running the lexer and the builder *)
Example E2EF_ex_by_theorem :
  build_operator_tree (LexSpec.join e2ef_lexemes e2ef_seps) = Ok (Node ORootNode [tree_of e2ef_sample]).
Proof.
  destruct E2EF_ex_hypotheses as (Hok & Hwf & Hts & Hs & _).
  exact (E2EF_parse e2ef_sample e2ef_lexemes e2ef_seps Hok Hwf Hts Hs).
Qed.

(* OTHER SPELLINGS of the same expression:  x = 1.50 * y + 0.002 / (5E-1 - 1e1)
   now 0.002 is a word and 5E-1 is the LSci; 1e1 (unsigned exponent) is a word.  The lexeme list denotes
   the same tokens, so by E2EF_separators_float the text precompiles to the same tree. *)
Definition fl_1p50  : float_lit := FloatLit (s2l "1"%string) (Some (s2l "50"%string)) NoExp.
Definition fl_0p002 : float_lit := FloatLit (s2l "0"%string) (Some (s2l "002"%string)) NoExp.
Definition fl_5Em1  : float_lit := FloatLit (s2l "5"%string) None (Exp true SMinus (s2l "1"%string)).
Definition fl_1e1   : float_lit := FloatLit (s2l "1"%string) None (Exp false SNone (s2l "1"%string)).

Definition e2ef_lexemes' : list lexeme :=
  [LWord (s2l "x"%string); LOp XAssign; float_lexeme fl_1p50; LOp XStar; LWord (s2l "y"%string); LOp XPlus;
   float_lexeme fl_0p002; LOp XSlash; LOp XLBrace; float_lexeme fl_5Em1; LOp XMinus; float_lexeme fl_1e1; LOp XRBrace].

Example E2EF_ex_spellings :
  float_lexeme fl_1p50 = LWord (s2l "1.50"%string) /\ float_lexeme fl_0p002 = LWord (s2l "0.002"%string) /\
  float_lexeme fl_5Em1 = LSci fl_5Em1 /\ float_lexeme fl_1e1 = LWord (s2l "1e1"%string) /\
  lexemes_wf e2ef_lexemes' /\ map lexeme_token e2ef_lexemes' = flatten e2ef_sample /\
  valid_seps e2ef_lexemes' (spaces 14) /\ valid_seps e2ef_lexemes' [] /\
  LexSpec.join e2ef_lexemes' [] = s2l "x=1.50*y+0.002/(5E-1-1e1)"%string /\
  build_operator_tree (LexSpec.join e2ef_lexemes' []) = build_operator_tree (LexSpec.join e2ef_lexemes e2ef_seps).
Proof.
  assert (Hwf' : lexemes_wf e2ef_lexemes') by (apply lexemes_wf_test; vm_compute; reflexivity).
  assert (Hts' : map lexeme_token e2ef_lexemes' = flatten e2ef_sample) by (vm_compute; reflexivity).
  assert (Hs' : valid_seps e2ef_lexemes' []) by (apply valid_seps_b_sound; vm_compute; reflexivity).
  split; [vm_compute; reflexivity|]. split; [vm_compute; reflexivity|].
  split; [vm_compute; reflexivity|]. split; [vm_compute; reflexivity|].
  split; [exact Hwf'|]. split; [exact Hts'|].
  split; [exact (spaces_valid e2ef_lexemes')|]. split; [exact Hs'|].
  split; [vm_compute; reflexivity|].
  destruct E2EF_ex_hypotheses as (Hok & Hwf & Hts & Hs & _).
  exact (E2EF_separators_float e2ef_sample e2ef_lexemes' e2ef_lexemes [] e2ef_seps Hok Hwf' Hts' Hs' Hwf Hts Hs).
Qed.

(* what valid_seps excludes is really different: a float word directly followed by a word is ONE word
   (an identifier), and the coefficient `2e`, a sign and digits without separators are ONE literal *)
Example E2EF_ex_invalid_differs :
  ~ valid_seps [float_lexeme fl_1p5; LWord (s2l "y"%string)] [] /\
  build_operator_tree (s2l "1.5y"%string) = Ok (Node ORootNode [Node (OVariableIdentifierRead (s2l "1.5y"%string)) []]) /\
  ~ valid_seps [LWord (s2l "2e"%string); LOp XMinus; LWord (s2l "3"%string)] [] /\
  build_operator_tree (s2l "2e-3"%string) = Ok (Node ORootNode [Node (OConst (VFloat (f_of_decimal 2 (-3)))) []]).
Proof.
  split; [|split; [vm_compute; reflexivity|split; [|vm_compute; reflexivity]]].
  - intros (_ & H & _). apply (H 0%nat (float_lexeme fl_1p5) (LWord (s2l "y"%string))); reflexivity.
  - intros (_ & _ & H & _).
    destruct (H 0%nat (LWord (s2l "2e"%string)) (LOp XMinus) (LWord (s2l "3"%string)) eq_refl eq_refl eq_refl)
      as [F|F]; [|exact (F eq_refl)|exact (F eq_refl)].
    exists (s2l "2e"%string), XMinus, (s2l "3"%string).
    split; [reflexivity|]. split; [reflexivity|]. split; [right; reflexivity|]. split; [reflexivity|].
    exists fl_2em3. destruct E2EF_ex_literals as (_ & (Hwf & Hde) & _).
    split; [exact Hwf|]. split; [exact Hde|]. vm_compute. reflexivity.
Qed.

(* what renderableF still excludes: a float token that is the value of no literal, e.g. -0.0
   (written -0.0 it is the two lexemes `-` `0.0`, i.e. the expression Pre UNeg (Lit (LFloat +0.0))) *)
Example E2EF_excluded_negzero : ~ renderableF (Lit (LFloat (S754_zero true))).
Proof. exact negzero_not_renderableF. Qed.
