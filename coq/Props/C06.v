(* C06 -- Literals denote exactly their value.
   This file holds only the property theorems; every proof is `exact <lemma of Proofs/C06.v or C07.v>`.
   Vocabulary: Spec/LexSpec.v (quote, decimal, hex, float_lit, word, lexeme, valid_seps ...);
   tokenize / lex / parse_float are the model (Model/Lexer.v).
   "After pre the lexer is between lexemes with accumulator acc" is written with the model's lex alone:
       forall s, lex LNormal [] (pre ++ s) = lex LNormal acc s. *)
From Coq Require Import Strings.String Floats.SpecFloat.
Require Import Model.Base Model.Syntax Model.F64 Model.Lexer.
Require Import Spec.LexSpec Proofs.LexFacts Proofs.C06 Proofs.C07.

(* ---- strings ---- *)

(* t is ANY list of scalar values: quotes, backslashes, comment markers, newlines, operators ... *)
Theorem C06_string : forall t : str, tokenize (quote t) = Ok [TString t].
Proof. exact string_alone. Qed.

(* embedded, lexer level: after the quoted text lexing goes on in state Normal with ONE String token pushed *)
Theorem C06_string_in : forall (pre post t : str) (acc : list ptoken),
  (forall s, lex LNormal [] (pre ++ s) = lex LNormal acc s) ->
  str_to_partial_tokens (pre ++ quote t ++ post) = lex LNormal (PToken (TString t) :: acc) post.
Proof. exact string_in_k. Qed.

(* embedded, token level: the tokens before, the String token, the tokens after (or the error of the rest) *)
Theorem C06_string_between : forall (pre post t : str) (acc : list ptoken) (ts1 : list token),
  (forall s, lex LNormal [] (pre ++ s) = lex LNormal acc s) -> tokenize pre = Ok ts1 ->
  tokenize (pre ++ quote t ++ post) = bind (tokenize post) (fun ts2 => Ok (ts1 ++ TString t :: ts2)).
Proof. exact string_between. Qed.

(* inside a string (the lexer state LString), a backslash followed by anything but a quote or a backslash *)
Theorem C06_bad_escape : forall (pre text : str) (acc : list ptoken) (c : N) (post : str),
  (forall s, lex LNormal [] (pre ++ s) = lex (LString text) acc s) -> c <> 34%N -> c <> 92%N ->
  tokenize (pre ++ 92%N :: c :: post) = Err (EIllegalEscapeSequence [92%N; c]).
Proof. exact bad_escape_k. Qed.

Theorem C06_bad_escape_at_end : forall (pre text : str) (acc : list ptoken),
  (forall s, lex LNormal [] (pre ++ s) = lex (LString text) acc s) ->
  tokenize (pre ++ [92%N]) = Err (EIllegalEscapeSequence [92%N]).
Proof. exact bad_escape_eof_k. Qed.

Theorem C06_missing_quote : forall (pre text : str) (acc : list ptoken),
  (forall s, lex LNormal [] (pre ++ s) = lex (LString text) acc s) ->
  tokenize pre = Err EUnmatchedDoubleQuote.
Proof. exact unmatched_quote_k. Qed.

(* which prefixes are "inside a string": anything between lexemes, an opening quote, any escaped text *)
Theorem C06_inside_string : forall (pre : str) (acc : list ptoken) (t : str),
  (forall s, lex LNormal [] (pre ++ s) = lex LNormal acc s) ->
  forall s, lex LNormal [] ((pre ++ 34%N :: escape t) ++ s) = lex (LString (rev t)) acc s.
Proof. exact inside_string_k. Qed.

(* the same three errors for a string literal at the start of the input *)
Theorem C06_bad_escape_direct : forall (t : str) (c : N) (post : str), c <> 34%N -> c <> 92%N ->
  tokenize (34%N :: escape t ++ 92%N :: c :: post) = Err (EIllegalEscapeSequence [92%N; c]).
Proof. exact bad_escape_direct. Qed.

Theorem C06_missing_quote_direct : forall t : str, tokenize (34%N :: escape t) = Err EUnmatchedDoubleQuote.
Proof. exact unmatched_quote_direct. Qed.

(* ---- integers ---- *)

Theorem C06_dec : forall n : Z, 0 <= n <= i64_max -> forall k : nat,
  tokenize (zeros k ++ decimal n) = Ok [TInt n].
Proof. intros n H k. exact (dec_alone n k H). Qed.

(* the printer is a printer: its text is a non-empty digit string whose value is n *)
Theorem C06_decimal_printer : forall n : Z, 0 <= n -> digits1 (decimal n) /\ digits_val (decimal n) = n.
Proof. exact decimal_spec. Qed.

(* beyond the range a digit string is NOT an Int token: it is read by the float parser *)
Theorem C06_dec_overflow : forall w : str, digits1 w -> i64_max < digits_val w ->
  tokenize w = Ok [TFloat (f_of_decimal (digits_val w) 0)].
Proof. exact dec_overflow. Qed.

Theorem C06_hex : forall n : Z, 0 <= n <= i64_max -> forall (casing : nat -> bool) (k : nat),
  tokenize (48%N :: 120%N :: zeros k ++ hex casing n) = Ok [TInt n].
Proof. intros n H casing k. exact (hex_alone casing n k H). Qed.

(* ---- floats ---- *)

(* every float form (with a dot or an exponent) is ONE Float token whose value is f_of_decimal of the
   digit string and the decimal exponent; the std parse function agrees *)
Theorem C06_float : forall fl : float_lit, float_wf fl -> has_dot_or_exp fl ->
  parse_float (float_text fl) =
    Some (f_of_decimal (digits_val (fl_int fl ++ frac_digits (fl_frac fl)))
                       (exp_val (fl_exp fl) - Z.of_nat (length (frac_digits (fl_frac fl))))) /\
  tokenize (float_text fl) =
    Ok [TFloat (f_of_decimal (digits_val (fl_int fl ++ frac_digits (fl_frac fl)))
                             (exp_val (fl_exp fl) - Z.of_nat (length (frac_digits (fl_frac fl)))))].
Proof. exact float_alone. Qed.

(* and nothing else is: what parse_float accepts is a special word, a float form or a digit string *)
Theorem C06_float_forms_exact : forall (w : str) (f : f64), parse_float w = Some f ->
  special_float_word w \/ float_form w \/ digits1 w.
Proof. exact parse_float_some_form. Qed.

(* ---- booleans and identifiers ---- *)

Theorem C06_bool :
  tokenize (s2l "true"%string) = Ok [TBoolean true] /\ tokenize (s2l "false"%string) = Ok [TBoolean false].
Proof. exact bool_alone. Qed.

Theorem C06_ident_outside_known : forall w : str, word w ->
  parse_dec_or_hex w = None -> parse_float w = None -> parse_bool w = None ->
  tokenize w = Ok [TIdentifier w].
Proof. exact ident_outside_known. Qed.

(* the same inside a token sequence: a literal that is no number and no boolean is an identifier
   unless a sign and a literal follow that complete it to a scientific literal *)
Theorem C06_ident_embedded : forall (w : str) (second third : option ptoken),
  parse_dec_or_hex w = None -> parse_float w = None -> parse_bool w = None ->
  (forall (neg : bool) (t : str),
     second = Some (if neg then PMinus else PPlus) -> third = Some (PLiteral t) ->
     parse_float (w ++ (if neg then 45%N else 43%N) :: t) = None) ->
  literal_to_token w second third = (TIdentifier w, 1%nat).
Proof. exact literal_ident. Qed.

(* with the syntactic classes of the property *)
Theorem C06_ident : forall w : str, word w ->
  ~ int_form w -> ~ float_form w -> ~ bool_word w -> ~ special_float_word w ->
  tokenize w = Ok [TIdentifier w].
Proof. exact ident_syntactic. Qed.

(* KNOWN FINDING: inf / infinity / nan in any letter case are Float tokens, not identifiers *)
Theorem C06_refuted_special_words :
  exists (w : str) (f : f64), word w /\ ~ int_form w /\ ~ float_form w /\ ~ bool_word w /\ special_float_word w /\
                              tokenize w = Ok [TFloat f].
Proof. exact refuted_special_words. Qed.

Theorem C06_special_words_are_floats : forall w : str, special_float_word w -> exists f, parse_float w = Some f.
Proof. exact special_words_are_floats. Qed.

(* ---- embedded: every lexeme of a validly separated text is read as the token it denotes ---- *)

Theorem C06_embedded : forall (ls : list lexeme) (seps : list gap), lexemes_wf ls -> valid_seps ls seps ->
  tokenize (join ls seps) =
  Ok (map (fun l => match l with
                    | LWord w => fst (literal_to_token w None None)    (* the token of the word alone *)
                    | LSci fl => TFloat (float_value fl)
                    | LOp o => op_token o
                    | LStr t => TString t
                    end) ls).
Proof. exact tokenize_join. Qed.

(* ---- examples ---- *)

Example C06_ex_string :
  tokenize (s2l """a\\b\""/*c*/ // d"""%string) = Ok [TString (s2l "a\b"%string ++ [34%N] ++ s2l "/*c*/ // d"%string)].
Proof. vm_compute. reflexivity. Qed.

(* the hypothesis of C06_string_in holds e.g. after "a+" *)
Example C06_ex_prefix : forall s, lex LNormal [] (s2l "a+"%string ++ s) = lex LNormal [PPlus; PLiteral [97%N]] s.
Proof. intros s. reflexivity. Qed.

Example C06_ex_between :
  tokenize (s2l "a+"%string) = Ok [TIdentifier [97%N]; TPlus] /\
  tokenize (s2l "a+"%string ++ quote (s2l "x""y"%string) ++ s2l "*2"%string) =
    Ok [TIdentifier [97%N]; TPlus; TString (s2l "x""y"%string); TStar; TInt 2].
Proof. split; vm_compute; reflexivity. Qed.

Example C06_ex_dec : decimal i64_max = s2l "9223372036854775807"%string /\ decimal 0 = s2l "0"%string /\
  hex (fun i => Nat.even i) 48879 = s2l "BeEf"%string.
Proof. repeat split; vm_compute; reflexivity. Qed.

Example C06_ex_float :
  let fl := FloatLit (s2l "12"%string) (Some (s2l "50"%string)) (Exp true SMinus (s2l "3"%string)) in
  float_text fl = s2l "12.50E-3"%string /\ float_wf fl /\ has_dot_or_exp fl /\
  float_value fl = f_of_decimal 1250 (-5).
Proof.
  cbv zeta. split; [reflexivity|]. split; [|split; [left; discriminate|reflexivity]].
  unfold float_wf; cbn. repeat split; try discriminate; repeat constructor; unfold dec_digit; cbn; lia.
Qed.

(* the embedded cases named in the property *)
Example C06_ex_embedded :
  tokenize (s2l "5e-3-2e-3"%string) = Ok [TFloat (f_of_decimal 5 (-3)); TMinus; TFloat (f_of_decimal 2 (-3))] /\
  tokenize (s2l "0x1e-3"%string) = Ok [TInt 30; TMinus; TInt 3] /\
  tokenize (s2l "a-1e+2"%string) = Ok [TIdentifier (s2l "a"%string); TMinus; TFloat (f_of_decimal 1 2)] /\
  tokenize (s2l "1e+"%string) = Ok [TIdentifier (s2l "1e"%string); TPlus] /\
  tokenize (s2l "1e-x"%string) = Ok [TIdentifier (s2l "1e"%string); TMinus; TIdentifier (s2l "x"%string)].
Proof. repeat split; vm_compute; reflexivity. Qed.

(* ... and as instances of C06_embedded: the three texts are validly separated lexeme lists *)
Example C06_ex_embedded_valid :
  (lexemes_wf [LSci fl_5em3; LOp XMinus; LSci fl_2em3] /\
   valid_seps [LSci fl_5em3; LOp XMinus; LSci fl_2em3] [[]; []; []; []] /\
   join [LSci fl_5em3; LOp XMinus; LSci fl_2em3] [[]; []; []; []] = s2l "5e-3-2e-3"%string) /\
  (lexemes_wf [LWord (s2l "0x1e"%string); LOp XMinus; LWord (s2l "3"%string)] /\
   valid_seps [LWord (s2l "0x1e"%string); LOp XMinus; LWord (s2l "3"%string)] [[]; []; []; []] /\
   join [LWord (s2l "0x1e"%string); LOp XMinus; LWord (s2l "3"%string)] [[]; []; []; []] = s2l "0x1e-3"%string) /\
  (lexemes_wf [LWord (s2l "a"%string); LOp XMinus; LSci fl_1ep2] /\
   valid_seps [LWord (s2l "a"%string); LOp XMinus; LSci fl_1ep2] [[]; []; []; []] /\
   join [LWord (s2l "a"%string); LOp XMinus; LSci fl_1ep2] [[]; []; []; []] = s2l "a-1e+2"%string).
Proof. exact (conj example_5e (conj example_hex example_a)). Qed.

(* the finding, in three spellings; an over-long hexadecimal word is an identifier *)
Example C06_ex_special :
  tokenize (s2l "inf"%string) = Ok [TFloat (f_inf false)] /\
  tokenize (s2l "NaN"%string) = Ok [TFloat f_nan] /\
  tokenize (s2l "Infinity"%string) = Ok [TFloat (f_inf false)] /\
  tokenize (s2l "0xffffffffffffffffffff"%string) = Ok [TIdentifier (s2l "0xffffffffffffffffffff"%string)] /\
  tokenize (s2l "9223372036854775808"%string) = Ok [TFloat (f_of_decimal 9223372036854775808 0)].
Proof. repeat split; vm_compute; reflexivity. Qed.

(* an ordinary identifier meets the hypotheses of C06_ident *)
Example C06_ex_ident :
  let w := s2l "foo_1"%string in
  word w /\ ~ int_form w /\ ~ float_form w /\ ~ bool_word w /\ ~ special_float_word w.
Proof.
  cbv zeta. destruct (letter_word_not_numeric 102 (s2l "oo_1"%string)) as [Hi Hf]; [lia|].
  split; [|split; [exact Hi|split; [exact Hf|split]]].
  - split; [discriminate|]. repeat constructor; apply word_char_alnum; cbn; lia.
  - intros [H|H]; discriminate H.
  - intros [H|[H|H]]; discriminate H.
Qed.
