(* C07 -- Whitespace and comments never change meaning.
   This file holds only the property theorems; every proof is `exact <lemma of Proofs/...>`.
   Vocabulary: Spec/LexSpec.v (white_space, lexeme, sep_item, gap_text, join, fuses, sci, valid_seps);
   tokenize / lex / partial_tokens_to_tokens are the model (Model/Lexer.v). *)
From Coq Require Import Strings.String Floats.SpecFloat.
Require Import Model.Base Model.Syntax Model.F64 Gen.Tables Model.Lexer.
Require Import Spec.LexSpec Proofs.LexFacts Proofs.C06 Proofs.C07.

(* the characters the implementation treats as white space (the generated table, dumped from the
   running crate over all scalar values) are exactly the 25 code points with the property White_Space *)
Theorem C07_whitespace_set : forall c : N, impl_char_class c = CWhitespace <-> In c white_space.
Proof. exact class_ws_iff. Qed.

(* the 16 operator characters; everything else (outside strings) is part of a word *)
Theorem C07_word_chars : forall c : N, word_char c <-> impl_char_class c = CLiteral /\ c <> 34%N.
Proof. exact word_char_iff. Qed.

(* ---- a comment is one white-space partial token ---- *)

(* an inline comment (the lexer in state Normal: the previous character was not a lone '/') *)
Theorem C07_comment_is_space_block : forall (acc : list ptoken) (body rest : str),
  ~ contains [42; 47]%N body ->
  lex LNormal acc (([47; 42]%N ++ body ++ [42; 47]%N) ++ rest) = lex LNormal (PWhitespace :: acc) rest.
Proof. exact comment_block_k. Qed.

(* a line comment up to and including the newline *)
Theorem C07_comment_is_space_line : forall (acc : list ptoken) (body rest : str),
  ~ In 10%N body ->
  lex LNormal acc (([47; 47]%N ++ body ++ [10%N]) ++ rest) = lex LNormal (PWhitespace :: acc) rest.
Proof. exact comment_line_k. Qed.

(* a line comment closed by the end of the input *)
Theorem C07_comment_is_space_eof : forall (acc : list ptoken) (body : str),
  ~ In 10%N body ->
  lex LNormal acc ([47; 47]%N ++ body) = Ok (rev (PWhitespace :: acc)).
Proof. exact comment_line_eof. Qed.

(* an unterminated inline comment is an error (pre: anything after which the lexer is between lexemes) *)
Theorem C07_unterminated : forall (pre : str) (acc : list ptoken) (body : str),
  (forall s, lex LNormal [] (pre ++ s) = lex LNormal acc s) -> ~ contains [42; 47]%N body ->
  tokenize (pre ++ [47; 42]%N ++ body) = Err (ECustomMessage (s2l "unmatched inline comment"%string)).
Proof. exact unterminated_k. Qed.

(* ---- any non-empty separator acts like one space ---- *)

(* lexer half: only white-space partial tokens are pushed (at least one) and the lexer is back in Normal *)
Theorem C07_sep_equiv_lex : forall (g : gap) (acc : list ptoken), Forall item_wf g -> g <> [] ->
  exists n, forall rest,
    lex LNormal acc (gap_text g ++ rest) = lex LNormal (repeat PWhitespace (S n) ++ acc) rest.
Proof. exact sep_equiv_lex_k. Qed.

(* token half: the multiplicity of white-space partial tokens is irrelevant, anywhere in the list *)
Theorem C07_sep_equiv_tokens : forall (ps1 ps2 : list ptoken),
  partial_tokens_to_tokens (ps1 ++ PWhitespace :: PWhitespace :: ps2) =
  partial_tokens_to_tokens (ps1 ++ PWhitespace :: ps2).
Proof. exact ptt_ws_once. Qed.

Theorem C07_sep_equiv_tokens_many : forall (n : nat) (ps1 ps2 : list ptoken),
  partial_tokens_to_tokens (ps1 ++ repeat PWhitespace (S n) ++ ps2) =
  partial_tokens_to_tokens (ps1 ++ PWhitespace :: ps2).
Proof. exact ptt_ws_many. Qed.

(* ---- the property ---- *)

(* two valid separator assignments of the same lexeme list give the same tokens (both are Ok: the
   lexemes are complete, see C06_embedded for the value) *)
Theorem C07_separators : forall (ls : list lexeme) (s1 s2 : list gap),
  lexemes_wf ls -> valid_seps ls s1 -> valid_seps ls s2 ->
  tokenize (join ls s1) = tokenize (join ls s2).
Proof. exact separators. Qed.

(* in a `sci` triple the first word is itself no number and no boolean (the remark in Spec/LexSpec.v) *)
Theorem C07_sci_first_word : forall l1 l2 l3 : lexeme, lexeme_wf l1 -> sci l1 l2 l3 ->
  exists w, l1 = LWord w /\ parse_dec_or_hex w = None /\ parse_float w = None /\ parse_bool w = None.
Proof. exact sci_first_not_number. Qed.

(* comment markers inside a string literal are plain text *)
Theorem C07_in_string : forall (a b marker : str),
  In marker [[47; 42]; [42; 47]; [47; 47]]%N ->
  tokenize (quote (a ++ marker ++ b)) = Ok [TString (a ++ marker ++ b)].
Proof. exact in_string_markers. Qed.

(* ---- examples ---- *)

(* a rich and an empty separator assignment for  a / b  *)
Example C07_ex_separators :
  lexemes_wf [LWord (s2l "a"%string); LOp XSlash; LWord (s2l "b"%string)] /\
  valid_seps [LWord (s2l "a"%string); LOp XSlash; LWord (s2l "b"%string)] seps_rich /\
  valid_seps [LWord (s2l "a"%string); LOp XSlash; LWord (s2l "b"%string)] [[]; []; []; []] /\
  join [LWord (s2l "a"%string); LOp XSlash; LWord (s2l "b"%string)] [[]; []; []; []] = s2l "a/b"%string /\
  join [LWord (s2l "a"%string); LOp XSlash; LWord (s2l "b"%string)] seps_rich =
    s2l "//note"%string ++ [10%N] ++ s2l "a/* c * / *//"%string ++ [12288%N] ++ s2l "///* x"%string ++ [10%N] ++
    s2l "b"%string ++ [10%N].
Proof. exact example_seps. Qed.

(* what the reading decision excludes: "/" directly followed by a comment is the opener of a line comment *)
Example C07_ex_slash_comment :
  tokenize (s2l "a/ /**/b"%string) = Ok [TIdentifier [97%N]; TSlash; TIdentifier [98%N]] /\
  tokenize (s2l "a//**/b"%string) = Ok [TIdentifier [97%N]].
Proof. split; vm_compute; reflexivity. Qed.

(* comments separate like a space does (on the repaired crate) *)
Example C07_ex_comment_separates :
  tokenize (s2l "a/**/b"%string) = tokenize (s2l "a b"%string) /\
  tokenize (s2l "1/**/2"%string) = Ok [TInt 1; TInt 2] /\
  tokenize (s2l "+/**/="%string) = Ok [TPlus; TAssign] /\
  tokenize (s2l "1e/**/-3"%string) = tokenize (s2l "1e -3"%string).
Proof. repeat split; vm_compute; reflexivity. Qed.

(* the hypothesis of C07_unterminated holds e.g. after "a + " *)
Example C07_ex_prefix : forall s,
  lex LNormal [] (s2l "a + "%string ++ s) = lex LNormal [PWhitespace; PPlus; PWhitespace; PLiteral [97%N]] s.
Proof. intros s. reflexivity. Qed.

Example C07_ex_unterminated :
  tokenize (s2l "a + /* b */ c /* d * /"%string) = Err (ECustomMessage (s2l "unmatched inline comment"%string)) /\
  tokenize (s2l """/*"""%string) = Ok [TString (s2l "/*"%string)].
Proof. split; vm_compute; reflexivity. Qed.
