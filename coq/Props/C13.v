(* C13 -- Malformed expressions are rejected, never given a meaning (tree-builder part).
   This file holds only the property theorems; every proof is `exact <lemma of Proofs/...>`.

   Vocabulary (Spec/Recognizer.v, independent of the builder and of the generated tables):
     tokens_of_top n   the in-order token rendering of a tree (a RootNode is a parenthesis pair, except
                       the root of the tree and the element roots directly below `,` / `;`)
     has_bad_arity n   some node has a number of children its operator does not accept
     balanced ts       parenthesis counter;   wellformed ts = balanced ts && the operand/operator automaton
     tree_ok n         shape facts of built trees that say nothing about operand counts *)
Require Import Model.Base Model.Syntax Model.Builder.
Require Import Spec.Recognizer Proofs.C01Build Proofs.C13.

(* ---- parentheses ---- *)

(* unbalanced input is rejected, for all token lists *)
Theorem C13_unbalanced : forall ts : list token,
  balanced ts = false -> exists e, tokens_to_operator_tree ts = Err e.
Proof. exact build_unbalanced. Qed.

(* balanced input is never reported as unbalanced *)
Theorem C13_balanced : forall ts : list token,
  balanced ts = true ->
  tokens_to_operator_tree ts <> Err EUnmatchedLBrace /\ tokens_to_operator_tree ts <> Err EUnmatchedRBrace.
Proof. exact build_balanced. Qed.

(* the exact error: input that builds, followed by one more `)` (and anything after it) ... *)
Theorem C13_unbalanced_close_exact : forall (pre post : list token) (n : node),
  tokens_to_operator_tree pre = Ok n ->
  tokens_to_operator_tree (pre ++ TRBrace :: post) = Err EUnmatchedRBrace.
Proof. exact build_excess_close. Qed.

(* ... and input that lacks exactly its final `)` *)
Theorem C13_unbalanced_open_exact : forall (ts : list token) (n : node),
  tokens_to_operator_tree (ts ++ [TRBrace]) = Ok n ->
  tokens_to_operator_tree ts = Err EUnmatchedLBrace.
Proof. exact build_excess_open. Qed.

(* ---- token preservation ---- *)

(* The statement of the design,
       C13_flatten : forall ts n, tokens_to_operator_tree ts = Ok n -> tokens_of_top n = ts,
   is FALSE of the model (and of the crate), for every possible rendering function: a prefix operator
   written directly behind a closing parenthesis is inserted INSIDE the parenthesis, so `( ) !` and
   `( ! )` build the same tree. *)
Theorem C13_flatten_refuted :
  exists (ts1 ts2 : list token) (n : node),
    ts1 <> ts2 /\ tokens_to_operator_tree ts1 = Ok n /\ tokens_to_operator_tree ts2 = Ok n.
Proof. exact flatten_refuted. Qed.

(* What holds instead, for ALL token lists: the builder never reorders, drops or invents a token,
   unless the tree it returns has an arity defect (which makes every evaluation fail). *)
Theorem C13_flatten_partial : forall (ts : list token) (n : node),
  tokens_to_operator_tree ts = Ok n -> has_bad_arity n = false -> tokens_of_top n = ts.
Proof. exact flatten_arity. Qed.

(* a built tree without arity defect has the shape the recogniser theorem needs *)
Theorem C13_built_tree_ok : forall (ts : list token) (n : node),
  tokens_to_operator_tree ts = Ok n -> has_bad_arity n = false -> tree_ok n.
Proof. exact built_tree_ok. Qed.

(* ---- the recogniser ---- *)

(* a lemma about trees only: correct operand counts everywhere => the rendering is well formed *)
Theorem C13_wellformed : forall n : node,
  tree_ok n -> has_bad_arity n = false -> wellformed (tokens_of_top n) = true.
Proof. exact tree_wellformed. Qed.

(* hence: what the recogniser rejects is never built into a tree with correct operand counts;
   for ALL token lists, no length bound *)
Theorem C13_rejected : forall ts : list token,
  wellformed ts = false ->
  (exists e, tokens_to_operator_tree ts = Err e) \/
  (exists n, tokens_to_operator_tree ts = Ok n /\ has_bad_arity n = true).
Proof. exact rejected. Qed.

(* ---- non-vacuity ---- *)

Definition id_f : str := [102%N].
Definition id_a : str := [97%N].

(* f ( 1 , - 2 ) + 3 ; a = ( ) ;   builds, has correct operand counts, renders to itself *)
Example C13_hypotheses_met :
  let ts := [TIdentifier id_f; TLBrace; TInt 1; TComma; TMinus; TInt 2; TRBrace; TPlus; TInt 3; TSemicolon;
             TIdentifier id_a; TAssign; TLBrace; TRBrace; TSemicolon] in
  exists n, tokens_to_operator_tree ts = Ok n /\ has_bad_arity n = false /\ tokens_of_top n = ts /\
            wellformed ts = true.
Proof. eexists. repeat split; vm_compute; reflexivity. Qed.

(* the hypotheses of C13_wellformed are met by a non-trivial tree *)
Example C13_wellformed_nonvacuous :
  exists n, tree_ok n /\ has_bad_arity n = false /\
            tokens_of_top n = [TIdentifier id_f; TLBrace; TInt 1; TComma; TMinus; TInt 2; TRBrace; TPlus; TInt 3;
                               TSemicolon; TIdentifier id_a; TAssign; TLBrace; TRBrace; TSemicolon].
Proof.
  destruct C13_hypotheses_met as (n & H1 & H2 & H3 & _). exists n.
  split; [exact (C13_built_tree_ok _ n H1 H2)|]. split; [exact H2|exact H3].
Qed.

(* the hypotheses of the two exact-error theorems are met *)
Example C13_exact_nonvacuous :
  is_ok (tokens_to_operator_tree [TLBrace; TInt 1; TRBrace]) = true /\
  is_ok (tokens_to_operator_tree ([TLBrace; TLBrace; TInt 1; TRBrace] ++ [TRBrace])) = true.
Proof. split; vm_compute; reflexivity. Qed.

(* the ill-formed inputs of the property text: `+ 1 2`, `1 + 2 ( )`, `- 1 ( )`, `1 2`, `1 +`, `( 1`, `1 )` *)
Example C13_rejected_examples :
  wellformed [TPlus; TInt 1; TInt 2] = false /\
  wellformed [TInt 1; TPlus; TInt 2; TLBrace; TRBrace] = false /\
  wellformed [TMinus; TInt 1; TLBrace; TRBrace] = false /\
  wellformed [TInt 1; TInt 2] = false /\
  wellformed [TInt 1; TPlus] = false /\
  balanced [TLBrace; TInt 1] = false /\
  balanced [TInt 1; TRBrace] = false /\
  is_err (tokens_to_operator_tree [TPlus; TInt 1; TInt 2]) = true /\
  is_err (tokens_to_operator_tree [TInt 1; TPlus; TInt 2; TLBrace; TRBrace]) = true /\
  is_err (tokens_to_operator_tree [TMinus; TInt 1; TLBrace; TRBrace]) = true /\
  tokens_to_operator_tree [TLBrace; TInt 1] = Err EUnmatchedLBrace /\
  tokens_to_operator_tree [TInt 1; TRBrace] = Err EUnmatchedRBrace.
Proof. repeat split; vm_compute; reflexivity. Qed.

(* an ill-formed input that is built, with an arity defect *)
Example C13_rejected_by_arity :
  wellformed [TInt 1; TPlus] = false /\
  exists n, tokens_to_operator_tree [TInt 1; TPlus] = Ok n /\ has_bad_arity n = true.
Proof. split; [vm_compute; reflexivity|]. eexists. split; vm_compute; reflexivity. Qed.
