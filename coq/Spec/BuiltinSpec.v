(* C10 reference: what every documented builtin yields, by the SHAPE of its argument (types and
   mathematical values), not by the as_* cascade of the code.  One row per documented name, in the
   order of the README table.  A call `f(a, b)` passes the tuple `VTuple [a; b]`, `f(a)` passes `a`.

   Reading decisions (all visible here):
   * Classes.  OpTable's `cls` puts OutOfBoundsAccess and WrongFunctionArgumentAmount into COther; the
     property distinguishes them, so this file uses the finer `bcls` (BBounds, BArity).
     `coarse (bclass r) = class_of r` (proved) links the two.
   * `o_math2 O m a b` is Rust's `a.m(b)`: `x.log(base)`, `x.powf(y)`, `y.atan2(x)`, `a.hypot(b)`.
   * `len` counts UTF-8 bytes (README says characters; the property claims only that `len` and
     `str::substring` use the same unit).
   * `min`/`max`: the result is an ELEMENT of the argument list that no element beats under the language's
     own `<` (two ints exactly, every other pair as doubles).  With a NaN in the list only membership
     is claimed.
   * shifts by an amount outside 0..63 yield some integer (which one is not claimed).
   * `str::substring(s, a, x)` with a < 0 and x not an int: either error class is accepted.
   * `contains` / `contains_any`: README's "any non-tuple" is read as string, number or boolean; the
     empty value `()` is rejected with the same TypeError as a tuple (the code lists four types). *)
From Coq Require Import Strings.String Floats.SpecFloat.
Require Import Model.Base Model.Syntax Model.F64 Model.Lexer Model.Value.
Require Import Spec.OpTable.

(* ---- the 49 documented names (README table without the regex_support / rand rows) ---- *)
Definition documented_names : list string :=
  [ "min"; "max"; "len"; "floor"; "round"; "ceil"; "if"; "contains"; "contains_any"; "typeof";
    "math::is_nan"; "math::is_finite"; "math::is_infinite"; "math::is_normal";
    "math::ln"; "math::log"; "math::log2"; "math::log10"; "math::exp"; "math::exp2"; "math::pow";
    "math::cos"; "math::acos"; "math::cosh"; "math::acosh";
    "math::sin"; "math::asin"; "math::sinh"; "math::asinh";
    "math::tan"; "math::atan"; "math::atan2"; "math::tanh"; "math::atanh";
    "math::sqrt"; "math::cbrt"; "math::hypot"; "math::abs";
    "str::to_lowercase"; "str::to_uppercase"; "str::trim"; "str::from"; "str::substring";
    "bitand"; "bitor"; "bitxor"; "bitnot"; "shl"; "shr" ]%string.

(* ---- outcome classes ---- *)
Inductive bcls := BVal (v : value) | BArith | BType | BArity | BBounds | BOther.

Definition bclass (r : outcome value) : bcls :=
  match r with
  | Ok v => BVal v
  | Err (EWrongFunctionArgumentAmount _ _ _) => BArity
  | Err EOutOfBoundsAccess => BBounds
  | Err e => if is_arith_error e then BArith else if is_type_error e then BType else BOther
  | Panic _ => BOther
  end.

Definition coarse (b : bcls) : cls :=
  match b with BVal v => CVal v | BArith => CArith | BType => CType | _ => COther end.

(* ---- documented argument shapes ---- *)
Definition is_num (v : value) : bool := match v with VInt _ | VFloat _ => true | _ => false end.
Definition is_int (v : value) : bool := match v with VInt _ => true | _ => false end.
(* "any non-tuple": a string, number or boolean *)
Definition prim (v : value) : bool :=
  match v with VString _ | VInt _ | VFloat _ | VBool _ => true | _ => false end.
Definition is_nan_value (v : value) : bool := match v with VFloat S754_nan => true | _ => false end.

Inductive shape :=
| ShAny                      (* typeof, str::from *)
| ShNum | ShNum2             (* a number; (number, number) *)
| ShNums                     (* a number or a non-empty tuple of numbers *)
| ShInt | ShInt2
| ShStr | ShStrOrTuple
| ShIf                       (* (boolean, any, any) *)
| ShContains                 (* (tuple, non-tuple) *)
| ShContainsAny              (* (tuple, tuple of non-tuples) *)
| ShSubstring.               (* (string, int) or (string, int, int) *)

Definition has_shape (sh : shape) (v : value) : bool :=
  match sh with
  | ShAny => true
  | ShNum => is_num v
  | ShNum2 => match v with VTuple [a; b] => is_num a && is_num b | _ => false end
  | ShNums => match v with VTuple [] => false | VTuple l => forallb is_num l | _ => is_num v end
  | ShInt => is_int v
  | ShInt2 => match v with VTuple [a; b] => is_int a && is_int b | _ => false end
  | ShStr => match v with VString _ => true | _ => false end
  | ShStrOrTuple => match v with VString _ | VTuple _ => true | _ => false end
  | ShIf => match v with VTuple [VBool _; _; _] => true | _ => false end
  | ShContains => match v with VTuple [VTuple _; x] => prim x | _ => false end
  | ShContainsAny => match v with VTuple [VTuple _; VTuple b] => forallb prim b | _ => false end
  | ShSubstring =>
      match v with
      | VTuple [VString _; VInt _] | VTuple [VString _; VInt _; VInt _] => true
      | _ => false
      end
  end.

(* ---- reference results ---- *)
Definition fn (g : value -> bcls) : value -> bcls -> Prop := fun v c => c = g v.

(* one number, converted to double *)
Definition on_num {A} (res : A -> value) (g : f64 -> A) (v : value) : bcls :=
  match num v with Some x => BVal (res (g x)) | None => BType end.
(* a pair of numbers, each converted to double, in the order written in the call *)
Definition on_num2 (g : f64 -> f64 -> f64) (v : value) : bcls :=
  match v with
  | VTuple [a; b] => match num a, num b with Some x, Some y => BVal (VFloat (g x y)) | _, _ => BType end
  | _ => BType
  end.
Definition on_int (g : Z -> Z) (v : value) : bcls :=
  match v with VInt a => BVal (VInt (g a)) | _ => BType end.
Definition on_int2 (g : Z -> Z -> bcls -> Prop) (v : value) (c : bcls) : Prop :=
  match v with VTuple [VInt a; VInt b] => g a b c | _ => c = BType end.
Definition exactly (g : Z -> Z -> Z) : Z -> Z -> bcls -> Prop := fun a b c => c = BVal (VInt (g a b)).

Definition spec_abs (v : value) : bcls :=
  match v with
  | VInt i => if i =? i64_min then BArith else BVal (VInt (Z.abs i))
  | VFloat f => BVal (VFloat (f_abs f))
  | _ => BType
  end.

Definition type_name (t : vtype) : string :=
  match t with
  | TyString => "string" | TyFloat => "float" | TyInt => "int"
  | TyBoolean => "boolean" | TyTuple => "tuple" | TyEmpty => "empty"
  end.
Definition spec_typeof (v : value) : bcls := BVal (VString (s2l (type_name (type_of v)))).

(* min / max *)
(* the language's own  a < b  on numbers (the C03 table row of `<`) *)
Definition num_lt (a b : value) : Prop :=
  match a, b with
  | VInt x, VInt y => x < y
  | _, _ => match num a, num b with Some x, Some y => f_ltb x y = true | _, _ => False end
  end.
Definition is_min (l : list value) (r : value) : Prop := In r l /\ forall y, In y l -> ~ num_lt y r.
Definition is_max (l : list value) (r : value) : Prop := In r l /\ forall y, In y l -> ~ num_lt r y.
(* a bare number is a list of one *)
Definition arg_list (v : value) : option (list value) :=
  match v with VTuple l => Some l | VInt _ | VFloat _ => Some [v] | _ => None end.

Definition spec_extremum (ext : list value -> value -> Prop) (v : value) (c : bcls) : Prop :=
  match arg_list v with
  | None => c = BType
  | Some [] => c = BArity
  | Some l =>
      if forallb is_num l
      then exists r, c = BVal r /\ In r l /\ (existsb is_nan_value l = false -> ext l r)
      else c = BType
  end.

Definition spec_if (v : value) : bcls :=
  match v with VTuple [VBool c; a; b] => BVal (if c then a else b) | _ => BType end.

(* membership by the structural equality of C03 (`veq`: 1 is not 1.0, nan is not nan) *)
Definition spec_contains (v : value) (c : bcls) : Prop :=
  match v with
  | VTuple [VTuple t; x] =>
      if prim x then exists b, c = BVal (VBool b) /\ (b = true <-> exists y, In y t /\ veq y x)
      else c = BType
  | _ => c = BType
  end.
Definition spec_contains_any (v : value) (c : bcls) : Prop :=
  match v with
  | VTuple [VTuple t; VTuple xs] =>
      if forallb prim xs
      then exists b, c = BVal (VBool b) /\ (b = true <-> exists x y, In x xs /\ In y t /\ veq y x)
      else c = BType
  | _ => c = BType
  end.

Definition spec_len (v : value) : bcls :=
  match v with
  | VString s => BVal (VInt (Z.of_N (byte_len s)))
  | VTuple t => BVal (VInt (Z.of_nat (length t)))
  | _ => BType
  end.

Definition on_str (g : str -> str) (v : value) : bcls :=
  match v with VString s => BVal (VString (g s)) | _ => BType end.

(* str::trim: the middle part left after removing a maximal white-space prefix and suffix *)
Definition ws (c : N) : Prop := is_ws c = true.
Definition trimmed (s r : str) : Prop :=
  exists pre post, s = pre ++ r ++ post /\ Forall ws pre /\ Forall ws post /\
    (forall c r', r = c :: r' -> ~ ws c) /\ (forall c r', r = r' ++ [c] -> ~ ws c).
Definition spec_trim (v : value) (c : bcls) : Prop :=
  match v with VString s => exists r, c = BVal (VString r) /\ trimmed s r | _ => c = BType end.

(* str::substring: r is the part of s between byte offsets a and b; this exists exactly when
   0 <= a <= b <= byte_len s and both offsets are character boundaries *)
Definition byte_range (s : str) (a b : Z) (r : str) : Prop :=
  exists pre post, s = pre ++ r ++ post /\ Z.of_N (byte_len pre) = a /\ Z.of_N (byte_len (pre ++ r)) = b.
Definition is_boundary (s : str) (k : Z) : Prop :=
  exists pre post, s = pre ++ post /\ Z.of_N (byte_len pre) = k.
Definition spec_sub (s : str) (a b : Z) (c : bcls) : Prop :=
  (exists r, byte_range s a b r /\ c = BVal (VString r)) \/
  ((forall r, ~ byte_range s a b r) /\ c = BBounds).
Definition spec_substring (v : value) (c : bcls) : Prop :=
  match v with
  | VTuple [VString s; VInt a] => spec_sub s a (Z.of_N (byte_len s)) c
  | VTuple [VString s; VInt a; VInt b] => spec_sub s a b c
  | VTuple [VString s; VInt a; _] => c = BType \/ (a < 0 /\ c = BBounds)
  | _ => c = BType
  end.

(* shifts: exact for 0 <= n <= 63 (shl modulo 2^64 into the signed range), some integer otherwise *)
Definition spec_shl (a n : Z) (c : bcls) : Prop :=
  if (0 <=? n) && (n <=? 63) then c = BVal (VInt (wrap64 (a * 2 ^ n))) else exists r, c = BVal (VInt r).
Definition spec_shr (a n : Z) (c : bcls) : Prop :=
  if (0 <=? n) && (n <=? 63) then c = BVal (VInt (a / 2 ^ n)) else exists r, c = BVal (VInt r).
(* what "wrap to 64 bits" means *)
Definition wraps_to (z r : Z) : Prop :=
  i64_min <= r <= i64_max /\ exists k, r = z + k * 2 ^ 64.

Section WithOracle.
Variable O : std_oracle.

(* Display of a value: strings quoted, tuples parenthesised and comma separated *)
Fixpoint join (sep : str) (l : list str) : str :=
  match l with [] => [] | [x] => x | x :: l' => x ++ sep ++ join sep l' end.
Fixpoint display (v : value) : str :=
  match v with
  | VString s => s2l """" ++ s ++ s2l """"
  | VFloat f => o_float_to_string O f
  | VInt i => int_to_string i
  | VBool b => s2l (if b then "true" else "false")
  | VTuple l => s2l "(" ++ join (s2l ", ") (map display l) ++ s2l ")"
  | VEmpty => s2l "()"
  end.
(* str::from: as Display, but a top-level string is not quoted *)
Definition spec_str_from (v : value) : bcls :=
  BVal (VString match v with VString s => s | _ => display v end).

Definition math1 := on_num VFloat.
Definition float_pred := on_num VBool.

(* the table: name, documented argument shape, result *)
Definition spec_table : list (string * shape * (value -> bcls -> Prop)) :=
  [ ("min", ShNums, spec_extremum is_min);
    ("max", ShNums, spec_extremum is_max);
    ("len", ShStrOrTuple, fn spec_len);
    ("floor", ShNum, fn (math1 f_floor));
    ("round", ShNum, fn (math1 f_round));
    ("ceil", ShNum, fn (math1 f_ceil));
    ("if", ShIf, fn spec_if);
    ("contains", ShContains, spec_contains);
    ("contains_any", ShContainsAny, spec_contains_any);
    ("typeof", ShAny, fn spec_typeof);
    ("math::is_nan", ShNum, fn (float_pred f_is_nan));
    ("math::is_finite", ShNum, fn (float_pred f_is_finite));
    ("math::is_infinite", ShNum, fn (float_pred f_is_infinite));
    ("math::is_normal", ShNum, fn (float_pred f_is_normal));
    ("math::ln", ShNum, fn (math1 (o_math1 O MLn)));
    ("math::log", ShNum2, fn (on_num2 (fun x base => o_math2 O MLog x base)));
    ("math::log2", ShNum, fn (math1 (o_math1 O MLog2)));
    ("math::log10", ShNum, fn (math1 (o_math1 O MLog10)));
    ("math::exp", ShNum, fn (math1 (o_math1 O MExp)));
    ("math::exp2", ShNum, fn (math1 (o_math1 O MExp2)));
    ("math::pow", ShNum2, fn (on_num2 (fun x y => o_math2 O MPow x y)));
    ("math::cos", ShNum, fn (math1 (o_math1 O MCos)));
    ("math::acos", ShNum, fn (math1 (o_math1 O MAcos)));
    ("math::cosh", ShNum, fn (math1 (o_math1 O MCosh)));
    ("math::acosh", ShNum, fn (math1 (o_math1 O MAcosh)));
    ("math::sin", ShNum, fn (math1 (o_math1 O MSin)));
    ("math::asin", ShNum, fn (math1 (o_math1 O MAsin)));
    ("math::sinh", ShNum, fn (math1 (o_math1 O MSinh)));
    ("math::asinh", ShNum, fn (math1 (o_math1 O MAsinh)));
    ("math::tan", ShNum, fn (math1 (o_math1 O MTan)));
    ("math::atan", ShNum, fn (math1 (o_math1 O MAtan)));
    ("math::atan2", ShNum2, fn (on_num2 (fun y x => o_math2 O MAtan2 y x)));
    ("math::tanh", ShNum, fn (math1 (o_math1 O MTanh)));
    ("math::atanh", ShNum, fn (math1 (o_math1 O MAtanh)));
    ("math::sqrt", ShNum, fn (math1 f_sqrt));
    ("math::cbrt", ShNum, fn (math1 (o_math1 O MCbrt)));
    ("math::hypot", ShNum2, fn (on_num2 (fun a b => o_math2 O MHypot a b)));
    ("math::abs", ShNum, fn spec_abs);
    ("str::to_lowercase", ShStr, fn (on_str (o_to_lowercase O)));
    ("str::to_uppercase", ShStr, fn (on_str (o_to_uppercase O)));
    ("str::trim", ShStr, spec_trim);
    ("str::from", ShAny, fn spec_str_from);
    ("str::substring", ShSubstring, spec_substring);
    ("bitand", ShInt2, on_int2 (exactly Z.land));
    ("bitor", ShInt2, on_int2 (exactly Z.lor));
    ("bitxor", ShInt2, on_int2 (exactly Z.lxor));
    ("bitnot", ShInt, fn (on_int Z.lnot));
    ("shl", ShInt2, on_int2 spec_shl);
    ("shr", ShInt2, on_int2 spec_shr) ]%string.

Fixpoint spec_lookup (name : str) (t : list (string * shape * (value -> bcls -> Prop)))
  : option (shape * (value -> bcls -> Prop)) :=
  match t with
  | [] => None
  | (n, sh, R) :: t' => if str_eqb name (s2l n) then Some (sh, R) else spec_lookup name t'
  end.
Definition spec_of (name : str) := spec_lookup name spec_table.

End WithOracle.
