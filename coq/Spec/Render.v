(* End-to-end reference: rendering an expression AST as SOURCE TEXT.

   Spec/Grammar.v renders an expression as tokens (flatten); Spec/LexSpec.v says what the text of a
   lexeme and of a separator is (text, gap_text, join) and which token a lexeme stands for.  This file
   connects the two: the canonical lexeme of a token, so that

       expr  --flatten-->  tokens  --lexemes_of-->  lexemes  --join (any valid separators)-->  source string.

   Nothing here runs the lexer or the builder.  (The word classification of identifiers reuses the
   model's mirrors of the Rust std parsers i64::from_str / f64::from_str / bool::from_str, as
   C06_embedded itself does; the purely syntactic criterion is `renderable_ident` below.)

   FLOAT LITERALS ARE EXCLUDED: Spec/LexSpec.v has printers for integers (decimal, hex) and strings
   (quote) but none for floats (a float printer would have to produce, for every double, a decimal
   text that rounds back to it).  lexeme_of_token (TFloat _) = None, and `renderable` rejects
   LFloat.  Negative integer literals are excluded as well: no single lexeme denotes TInt (-3)
   (the text -3 is the two lexemes `-` `3`). *)
From Coq Require Import Strings.String Floats.SpecFloat.
Require Import Model.Base Model.Syntax Model.F64 Model.Lexer.
Require Import Spec.OpTable Spec.Grammar Spec.LexSpec.

(* ------------------------------------------------------------------------------------------ *)
(** * The token a lexeme denotes (verbatim the map in C06_embedded) *)

Definition lexeme_token (l : lexeme) : token :=
  match l with
  | LWord w => fst (literal_to_token w None None)    (* the token of the word alone *)
  | LSci fl => TFloat (float_value fl)
  | LOp o => op_token o
  | LStr t => TString t
  end.

(* ------------------------------------------------------------------------------------------ *)
(** * The canonical lexeme of a token *)

(* decidable versions of word_char / word *)
Definition word_char_b (c : N) : bool :=
  negb (existsb (N.eqb c) white_space) && negb (existsb (N.eqb c) op_chars) && negb (c =? 34)%N.
Definition word_b (w : str) : bool :=
  match w with [] => false | _ => forallb word_char_b w end.

(* w is a word and, standing alone, it is read as the identifier w
   (not as an integer, a float -- this covers inf / infinity / nan --, or a boolean) *)
Definition ident_word_b (w : str) : bool :=
  word_b w && match literal_to_token w None None with (TIdentifier _, _) => true | _ => false end.

Definition oplex_of_token (t : token) : option oplex :=
  match t with
  | TPlus => Some XPlus | TMinus => Some XMinus | TStar => Some XStar | TSlash => Some XSlash
  | TPercent => Some XPercent | THat => Some XHat
  | TEq => Some XEq | TNeq => Some XNeq | TGt => Some XGt | TLt => Some XLt | TGeq => Some XGeq | TLeq => Some XLeq
  | TAnd => Some XAnd | TOr => Some XOr | TNot => Some XNot
  | TLBrace => Some XLBrace | TRBrace => Some XRBrace
  | TAssign => Some XAssign | TPlusAssign => Some XPlusAssign | TMinusAssign => Some XMinusAssign
  | TStarAssign => Some XStarAssign | TSlashAssign => Some XSlashAssign | TPercentAssign => Some XPercentAssign
  | THatAssign => Some XHatAssign | TAndAssign => Some XAndAssign | TOrAssign => Some XOrAssign
  | TComma => Some XComma | TSemicolon => Some XSemicolon
  | TIdentifier _ | TFloat _ | TInt _ | TBoolean _ | TString _ => None
  end.

Definition lexeme_of_token (t : token) : option lexeme :=
  match t with
  | TIdentifier w => if ident_word_b w then Some (LWord w) else None
  | TInt n => if (0 <=? n) && (n <=? i64_max) then Some (LWord (decimal n)) else None
  | TBoolean b => Some (LWord (s2l (if b then "true" else "false")%string))
  | TString t => Some (LStr t)
  | TFloat _ => None                                  (* excluded: no float printer *)
  | _ => option_map LOp (oplex_of_token t)            (* the 28 operator tokens *)
  end.

Fixpoint lexemes_of (ts : list token) : option (list lexeme) :=
  match ts with
  | [] => Some []
  | t :: ts' =>
      match lexeme_of_token t, lexemes_of ts' with
      | Some l, Some ls => Some (l :: ls)
      | _, _ => None
      end
  end.

(* ------------------------------------------------------------------------------------------ *)
(** * Renderable expressions (declarative, sufficient for lexemes_of to succeed) *)

(* an identifier that can be written: a word that has none of the four literal forms.
   A word such as `1e` (which a following sign and digits would complete to a scientific literal) IS
   allowed: that join is a matter of separators and is excluded by valid_seps (the `sci` clause). *)
Definition renderable_ident (w : str) : Prop :=
  word w /\ ~ int_form w /\ ~ float_form w /\ ~ bool_word w /\ ~ special_float_word w.

Definition renderable_token (t : token) : Prop :=
  match t with
  | TIdentifier w => renderable_ident w
  | TInt n => 0 <= n <= i64_max
  | TFloat _ => False                                 (* excluded *)
  | _ => True                                         (* operators, booleans, strings (any content) *)
  end.

(* the atoms of e are exactly the literal and identifier tokens of flatten e: every integer literal is
   in 0 .. i64_max, there is no float literal, every variable, assignment target and function name is a
   renderable identifier; booleans and strings are unrestricted *)
Definition renderable (e : expr) : Prop := Forall renderable_token (flatten e).

(* ------------------------------------------------------------------------------------------ *)
(** * The simplest valid separator assignment: one space everywhere *)

Definition spaces (n : nat) : list gap := repeat [SWs 32%N] n.
