(* C03 reference: what each operator yields, by the TYPES and mathematical values of its operands.
   Written as a table over type pairs, not as the as_string / as_int / as_number cascade of the code. *)
From Coq Require Import Floats.SpecFloat.
Require Import Model.Base Model.Syntax Model.F64 Model.Lexer Model.Value.

(* the class of an outcome that the property distinguishes *)
Inductive cls := CVal (v : value) | CArith | CType | COther.

Definition is_arith_error (e : error) : bool :=
  match e with
  | EAdditionError _ _ | ESubtractionError _ _ | ENegationError _ | EMultiplicationError _ _
  | EDivisionError _ _ | EModulationError _ _ => true
  | _ => false
  end.

Definition is_type_error (e : error) : bool :=
  match e with
  | EExpectedString _ | EExpectedInt _ | EExpectedFloat _ | EExpectedNumber _ | EExpectedNumberOrString _
  | EExpectedBoolean _ | EExpectedTuple _ | EExpectedFixedLengthTuple _ _ | EExpectedRangedLengthTuple _ _ _
  | EExpectedEmpty _ | ETypeError _ _ | EWrongTypeCombination _ _ => true
  | _ => false
  end.

Definition class_of (r : outcome value) : cls :=
  match r with
  | Ok v => CVal v
  | Err e => if is_arith_error e then CArith else if is_type_error e then CType else COther
  | Panic _ => COther
  end.

(* the 14 binary and 2 prefix operators *)
Inductive binop := BAdd | BSub | BMul | BDiv | BMod | BExp | BEq | BNeq | BGt | BLt | BGeq | BLeq | BAnd | BOr.
Inductive unop := UNeg | UNot.

Definition op_of_binop (b : binop) : operator :=
  match b with
  | BAdd => OAdd | BSub => OSub | BMul => OMul | BDiv => ODiv | BMod => OMod | BExp => OExp
  | BEq => OEq | BNeq => ONeq | BGt => OGt | BLt => OLt | BGeq => OGeq | BLeq => OLeq | BAnd => OAnd | BOr => OOr
  end.
Definition op_of_unop (u : unop) : operator := match u with UNeg => ONeg | UNot => ONot end.

(* a number, converted to double (round to nearest even) *)
Definition num (v : value) : option f64 :=
  match v with VInt i => Some (f_of_Z i) | VFloat f => Some f | _ => None end.

(* exact integer result, or the arithmetic error when it does not fit 64 bits *)
Definition exact (z : Z) : cls := if in_i64 z then CVal (VInt z) else CArith.

(* structural equality of values, as a relation: floats by IEEE equality (nan <> nan, 0.0 = -0.0),
   values of different types are never equal (1 == 1.0 is false) *)
Inductive veq : value -> value -> Prop :=
| veq_string s : veq (VString s) (VString s)
| veq_float x y : f_compare x y = Some Eq -> veq (VFloat x) (VFloat y)
| veq_int i : veq (VInt i) (VInt i)
| veq_bool b : veq (VBool b) (VBool b)
| veq_tuple xs ys : Forall2 veq xs ys -> veq (VTuple xs) (VTuple ys)
| veq_empty : veq VEmpty VEmpty.

(* strict lexicographic order on strings by code points *)
Inductive str_lt : str -> str -> Prop :=
| str_lt_nil c s : str_lt [] (c :: s)
| str_lt_head c d s t : (c < d)%N -> str_lt (c :: s) (d :: t)
| str_lt_tail c s t : str_lt s t -> str_lt (c :: s) (c :: t).

Section WithOracle.
Variable O : std_oracle.

(* arithmetic: two ints exactly in Z; otherwise both converted to double and the IEEE operation *)
Definition spec_arith (int_op : Z -> Z -> cls) (float_op : f64 -> f64 -> f64) (a b : value) : cls :=
  match a, b with
  | VInt x, VInt y => int_op x y
  | _, _ =>
      match num a, num b with
      | Some x, Some y => CVal (VFloat (float_op x y))
      | _, _ => CType
      end
  end.

(* ordering: two strings lexicographically, two ints exactly, other number pairs as doubles *)
Definition spec_order (str_r : str -> str -> bool) (int_r : Z -> Z -> bool) (float_r : f64 -> f64 -> bool)
           (a b : value) : cls :=
  match a, b with
  | VString x, VString y => CVal (VBool (str_r x y))
  | VInt x, VInt y => CVal (VBool (int_r x y))
  | _, _ =>
      match num a, num b with
      | Some x, Some y => CVal (VBool (float_r x y))
      | _, _ => CType
      end
  end.

Definition str_ltb (x y : str) : bool := match str_compare x y with Lt => true | _ => false end.

(* the reference function; MIN % -1 is the one point where two classes are acceptable (see spec_ok) *)
Definition spec_binop (o : binop) (a b : value) : cls :=
  match o with
  | BAdd =>
      match a, b with
      | VString x, VString y => CVal (VString (x ++ y))
      | _, _ => spec_arith (fun x y => exact (x + y)) f_add a b
      end
  | BSub => spec_arith (fun x y => exact (x - y)) f_sub a b
  | BMul => spec_arith (fun x y => exact (x * y)) f_mul a b
  | BDiv => spec_arith (fun x y => if y =? 0 then CArith else exact (Z.quot x y)) f_div a b
  | BMod => spec_arith (fun x y => if y =? 0 then CArith
                                   else if (x =? i64_min) && (y =? -1) then CArith
                                   else exact (Z.rem x y)) f_rem a b
  | BExp =>
      match num a, num b with
      | Some x, Some y => CVal (VFloat (o_math2 O MPow x y))
      | _, _ => CType
      end
  | BEq => CVal (VBool (value_eqb a b))
  | BNeq => CVal (VBool (negb (value_eqb a b)))
  | BGt => spec_order (fun x y => str_ltb y x) Z.gtb (fun x y => f_ltb y x) a b
  | BLt => spec_order str_ltb Z.ltb f_ltb a b
  | BGeq => spec_order (fun x y => negb (str_ltb x y)) Z.geb (fun x y => f_leb y x) a b
  | BLeq => spec_order (fun x y => negb (str_ltb y x)) Z.leb f_leb a b
  | BAnd => match a, b with VBool x, VBool y => CVal (VBool (x && y)) | _, _ => CType end
  | BOr => match a, b with VBool x, VBool y => CVal (VBool (x || y)) | _, _ => CType end
  end.

(* reading decision: the exact result of MIN % -1 is 0 and representable, Rust's checked_rem reports
   an overflow; either is accepted at this single point *)
Definition spec_ok (o : binop) (a b : value) (c : cls) : Prop :=
  c = spec_binop o a b \/
  (o = BMod /\ a = VInt i64_min /\ b = VInt (-1) /\ c = CVal (VInt 0)).

Definition spec_unop (u : unop) (a : value) : cls :=
  match u, a with
  | UNeg, VInt x => exact (- x)
  | UNeg, VFloat f => CVal (VFloat (f_neg f))
  | UNot, VBool b => CVal (VBool (negb b))
  | _, _ => CType
  end.

End WithOracle.
