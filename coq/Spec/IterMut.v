(* C14, mutable half: OperatorIterMut (src/tree/iter.rs) as an explicit-stack loop.

   Model/Iter.v models the immutable NodeIter as a loop (iter_next / iter_collect) but gives the
   effect of `for op in tree.iter_operators_mut() { *op = f(op) }` directly as a structural map
   (map_desc_ops / rename_with).  This file models the mutable iterator as the loop it is in Rust, so
   that "the mutable variants visit the same occurrences" becomes a theorem about a loop
   (Props/C14Mut.v) instead of a definition.

   Rust:                                             here:
     stack : Vec<slice::IterMut<Node>>                 list frame, top at the HEAD
     one IterMut over the children of a node           Frame parent next len: the position of the node whose
                                                       children it walks, the index of the next unvisited child,
                                                       the number of children (start pointer / end pointer)
     &mut Operator handed out                          the POSITION of its node: the path from the root
     *op = f(op) between two calls of next             update_op_at f tree position, on the CURRENT tree

   A position is the list of child indices from the root ([] = the root, [1;0] = first child of the
   second child). *)
Require Import Model.Base Model.Syntax Model.Iter.

Definition path := list nat.

(* the node at a position, None if the position does not exist *)
Fixpoint node_at (t : node) (p : path) : option node :=
  match p with
  | [] => Some t
  | i :: p' => match nth_error (nch t) i with Some c => node_at c p' | None => None end
  end.

Fixpoint set_nth {A} (i : nat) (y : A) (l : list A) : list A :=
  match l, i with
  | [], _ => []
  | _ :: l', O => y :: l'
  | x :: l', S i' => x :: set_nth i' y l'
  end.

(* `*op = f(op)` through the reference to the operator at position p: the operator FIELD of that one
   node is overwritten, its children and every other node are untouched *)
Fixpoint update_op_at (f : operator -> operator) (t : node) (p : path) : option node :=
  match t, p with
  | Node o ch, [] => Some (Node (f o) ch)
  | Node o ch, i :: p' =>
      match nth_error ch i with
      | Some c =>
          match update_op_at f c p' with
          | Some c' => Some (Node o (set_nth i c' ch))
          | None => None
          end
      | None => None
      end
  end.

(* slice::IterMut over the children of the node at position `parent` *)
Inductive frame := Frame (parent : path) (next : nat) (len : nat).

(* slice::IterMut::next: the next child, if any, and the advanced iterator *)
Definition frame_next (fr : frame) : option (path * frame) :=
  let 'Frame p i len := fr in
  if (i <? len)%nat then Some (p ++ [i], Frame p (S i) len) else None.

(* result.children.iter_mut() for the node at position q of the tree t *)
Definition children_iter_mut (t : node) (q : path) : frame :=
  Frame q O (match node_at t q with Some d => length (nch d) | None => O end).

(* OperatorIterMut::next -- textually NodeIter::next: look at the last iterator of the stack; if it
   is exhausted pop it and loop; otherwise take its next child, push that child's children iterator
   and hand the child('s operator) out.  Every loop iteration without a result pops one iterator, so
   the recursion is structural on the stack. *)
Fixpoint mut_next (t : node) (stack : list frame) : option (path * list frame) :=
  match stack with
  | [] => None
  | last :: stack' =>
      match frame_next last with
      | Some (q, last') => Some (q, children_iter_mut t q :: last' :: stack')
      | None => mut_next t stack'
      end
  end.

(* the consumer loop `for op in ITER { *op = f(op) }` from a given stack on: call next, overwrite
   the operator at the yielded position of the current tree, continue.  Returns the trace -- the
   yielded positions with the operators the consumer SAW there, in order -- and the final tree.
   Fuel as in iter_collect (Panic 90 when exhausted).  Panic 91: the yielded position does not exist
   in the current tree (a dangling reference; the borrow checker excludes it in Rust, the theorems
   exclude it here). *)
Fixpoint mut_loop (f : operator -> operator) (fuel : nat) (t : node) (stack : list frame)
  : outcome (list (path * operator) * node) :=
  match mut_next t stack with
  | None => Ok ([], t)
  | Some (q, stack') =>
      match fuel with
      | O => Panic 90
      | S k =>
          match node_at t q, update_op_at f t q with
          | Some d, Some t' => do r <- mut_loop f k t' stack'; Ok ((q, nop d) :: fst r, snd r)
          | _, _ => Panic 91
          end
      end
  end.

(* OperatorIterMut::new(self): the stack is [self.children.iter_mut()], the node itself is not yielded *)
Definition iter_mut_run (f : operator -> operator) (n : node) : outcome (list (path * operator) * node) :=
  mut_loop f (node_size n) n [children_iter_mut n []].

(* the tree after `for op in n.iter_operators_mut() { *op = f(op) }` *)
Definition iter_mut_apply (f : operator -> operator) (n : node) : outcome node :=
  do r <- iter_mut_run f n; Ok (snd r).

(* the positions handed out, in order (consumer that writes nothing) *)
Definition iter_mut_positions (n : node) : outcome (list path) :=
  do r <- iter_mut_run (fun o => o) n; Ok (map fst (fst r)).

(* `for id in n.iter_<sel>_mut() { *id = g(id) }`: iter_operators_mut().filter_map(sel) hands the
   identifier string of every selected operator to the consumer, which overwrites it with g of it
   (rewrite_ident sel g on the operator).  Result: the strings g was called with, in order, and the
   final tree. *)
Definition iter_mut_idents (sel : operator -> option str) (g : str -> str) (n : node)
  : outcome (list str * node) :=
  do r <- iter_mut_run (rewrite_ident sel g) n; Ok (filter_map sel (map snd (fst r)), snd r).

(* ---- reference: the tree with the subtree at a position replaced ---- *)

(* t with the subtree at position p replaced by y (t itself if the position does not exist) *)
Fixpoint replace_at (t : node) (p : path) (y : node) : node :=
  match p with
  | [] => y
  | i :: p' =>
      match nth_error (nch t) i with
      | Some c => Node (nop t) (set_nth i (replace_at c p' y) (nch t))
      | None => t
      end
  end.

(* ---- reference: the positions of the proper descendants, structurally ---- *)

(* pre-order: every child position [i], immediately followed by the positions below it, children
   from left to right (the shape of preorder_descendants in Spec/Preorder.v) *)
Fixpoint desc_paths (n : node) : list path :=
  match n with
  | Node _ ch =>
      (fix go (i : nat) (l : list node) : list path :=
         match l with
         | [] => []
         | c :: l' => ([i] :: map (cons i) (desc_paths c)) ++ go (S i) l'
         end) O ch
  end.

(* p comes strictly before q in pre-order: p is a proper prefix of q, or at the first index where
   they differ p has the smaller one (the lexicographic order on positions) *)
Inductive path_lt : path -> path -> Prop :=
| path_lt_prefix i q : path_lt [] (i :: q)
| path_lt_head i j p q : (i < j)%nat -> path_lt (i :: p) (j :: q)
| path_lt_tail i p q : path_lt p q -> path_lt (i :: p) (i :: q).

(* a list in strictly increasing pre-order *)
Inductive increasing : list path -> Prop :=
| increasing_nil : increasing []
| increasing_one p : increasing [p]
| increasing_cons p q l : path_lt p q -> increasing (q :: l) -> increasing (p :: q :: l).
