(* C14 reference: what the identifier iterators of a tree are supposed to list, written as plain
   structural recursion over the tree (no stack, no loop), the classes of identifier occurrences,
   the renaming of trees, contexts and results by a function on identifier strings, and the identifier
   occurrences of a token sequence (source order; this last part uses the grammar of Spec/Grammar.v). *)
Require Import Model.Base Model.Syntax Model.Value Model.Context Model.Eval.
Require Import Spec.OpTable Spec.Grammar.   (* only for the last section: source order *)

(* ---- pre-order ---- *)

(* all PROPER descendants of a node, in pre-order: every child, immediately followed by its own
   descendants, children from left to right *)
Fixpoint preorder_descendants (n : node) : list node :=
  match n with
  | Node _ ch => flat_map (fun c => c :: preorder_descendants c) ch
  end.

(* the node itself first *)
Definition preorder (n : node) : list node := n :: preorder_descendants n.

(* ---- identifier occurrences and their classes ---- *)

Inductive ident_class := CWrite | CFunction | CRead.

Definition occurrence : Type := ident_class * str.

(* the occurrence an operator stands for, if any (a list of length 0 or 1) *)
Definition occurrence_of (o : operator) : list occurrence :=
  match o with
  | OVariableIdentifierWrite s => [(CWrite, s)]
  | OFunctionIdentifier s => [(CFunction, s)]
  | OVariableIdentifierRead s => [(CRead, s)]
  | _ => []
  end.

(* the identifier occurrences below a node, in pre-order (the node's own operator is not listed:
   for parser output it is the RootNode) *)
Definition occurrences (n : node) : list occurrence :=
  flat_map (fun d => occurrence_of (nop d)) (preorder_descendants n).

(* including the node's own operator *)
Definition occurrences_incl (n : node) : list occurrence :=
  flat_map (fun d => occurrence_of (nop d)) (preorder n).

Definition is_write (k : ident_class) : bool := match k with CWrite => true | _ => false end.
Definition is_read (k : ident_class) : bool := match k with CRead => true | _ => false end.
Definition is_function (k : ident_class) : bool := match k with CFunction => true | _ => false end.
Definition is_variable (k : ident_class) : bool := match k with CFunction => false | _ => true end.

(* the names of the occurrences of the selected classes, order kept *)
Definition names (p : ident_class -> bool) (l : list occurrence) : list str :=
  map snd (filter (fun oc => p (fst oc)) l).

(* l1 is l2 with some elements deleted, order kept *)
Inductive subseq {A : Type} : list A -> list A -> Prop :=
| subseq_nil : subseq [] []
| subseq_take x l1 l2 : subseq l1 l2 -> subseq (x :: l1) (x :: l2)
| subseq_skip x l1 l2 : subseq l1 l2 -> subseq l1 (x :: l2).

(* l is a and b shuffled together, the order inside a and inside b kept *)
Inductive interleave {A : Type} : list A -> list A -> list A -> Prop :=
| interleave_nil : interleave [] [] []
| interleave_left x a b l : interleave a b l -> interleave (x :: a) b (x :: l)
| interleave_right x a b l : interleave a b l -> interleave a (x :: b) (x :: l).

(* ---- shapes ---- *)

(* two trees that differ at most in their operators *)
Inductive same_shape : node -> node -> Prop :=
| same_shape_node o1 o2 ch1 ch2 : Forall2 same_shape ch1 ch2 -> same_shape (Node o1 ch1) (Node o2 ch2).

(* replace the name of an identifier operator, keep its class *)
Definition set_name (o : operator) (s : str) : operator :=
  match o with
  | OVariableIdentifierWrite _ => OVariableIdentifierWrite s
  | OVariableIdentifierRead _ => OVariableIdentifierRead s
  | OFunctionIdentifier _ => OFunctionIdentifier s
  | _ => o
  end.

(* ---- assignment targets ---- *)

Definition is_assignment_op (o : operator) : bool :=
  match o with
  | OAssign | OAddAssign | OSubAssign | OMulAssign | ODivAssign | OModAssign | OExpAssign
  | OAndAssign | OOrAssign => true
  | _ => false
  end.

Definition is_write_leaf (n : node) : bool :=
  match n with Node (OVariableIdentifierWrite _) [] => true | _ => false end.

(* every assignment node (= and the eight op=) has an identifier leaf as its first child: what the
   parser builds for `x = e` / `x += e`.  (`"x" = 1`, `(a) = 1`, `a + b = 1` are excluded.) *)
Inductive targets_are_identifiers : node -> Prop :=
| tai_node o ch :
    (is_assignment_op o = true -> exists x rest, ch = Node (OVariableIdentifierWrite x) [] :: rest) ->
    Forall targets_are_identifiers ch ->
    targets_are_identifiers (Node o ch).

(* the same, and moreover an assignment-target identifier occurs ONLY as the first child of an
   assignment node (needed for renaming: elsewhere a VariableIdentifierWrite leaf evaluates to its
   own name as a string VALUE, which a renaming would change) *)
Inductive writes_are_targets : node -> Prop :=
| wat_assign o x rest :
    is_assignment_op o = true ->
    Forall writes_are_targets rest ->
    writes_are_targets (Node o (Node (OVariableIdentifierWrite x) [] :: rest))
| wat_other o ch :
    is_assignment_op o = false ->
    (forall x, o <> OVariableIdentifierWrite x) ->
    Forall writes_are_targets ch ->
    writes_are_targets (Node o ch).

(* executable checkers, for the examples *)
Fixpoint targets_are_identifiersb (n : node) : bool :=
  match n with
  | Node o ch =>
      (if is_assignment_op o then match ch with t :: _ => is_write_leaf t | [] => false end else true)
      && forallb targets_are_identifiersb ch
  end.

Fixpoint writes_are_targetsb (n : node) : bool :=
  match n with
  | Node o ch =>
      if is_assignment_op o then
        match ch with
        | t :: rest => is_write_leaf t && forallb writes_are_targetsb rest
        | [] => false
        end
      else
        match o with OVariableIdentifierWrite _ => false | _ => forallb writes_are_targetsb ch end
  end.

(* ---- renaming ---- *)

Definition injective (r : str -> str) : Prop := forall a b, r a = r b -> a = b.

(* variables are renamed (both classes), functions are not *)
Definition rename_op (r : str -> str) (o : operator) : operator :=
  match o with
  | OVariableIdentifierWrite s => OVariableIdentifierWrite (r s)
  | OVariableIdentifierRead s => OVariableIdentifierRead (r s)
  | _ => o
  end.

Fixpoint rename_tree (r : str -> str) (n : node) : node :=
  match n with Node o ch => Node (rename_op r o) (map (rename_tree r) ch) end.

(* the keys of the variable map; values, functions and flags are kept *)
Definition rename_ctx (r : str -> str) (c : ctx) : ctx :=
  mkctx (c_kind c) (map (fun kv => (r (fst kv), snd kv)) (c_vars c)) (c_funs c) (c_off c).

(* the only error that carries a variable name *)
Definition rename_error (r : str -> str) (e : error) : error :=
  match e with EVariableIdentifierNotFound x => EVariableIdentifierNotFound (r x) | _ => e end.

Definition rename_outcome {A} (r : str -> str) (o : outcome A) : outcome A :=
  match o with Err e => Err (rename_error r e) | _ => o end.

(* result, context afterwards, log of calls *)
Definition rename_result (r : str -> str) (res : outcome value * ctx * log) : outcome value * ctx * log :=
  let '(o, c, lg) := res in (rename_outcome r o, rename_ctx r c, lg).

Definition rename_result_ro (r : str -> str) (res : outcome value * log) : outcome value * log :=
  let '(o, lg) := res in (rename_outcome r o, lg).

(* ---- user functions ---- *)

Definition is_not_found (r : outcome value) : bool :=
  match r with
  | Err (EVariableIdentifierNotFound _) | Err (EFunctionIdentifierNotFound _) => true
  | _ => false
  end.

(* no user function of the context answers with one of the two "identifier not found" errors itself
   (they are arbitrary Coq functions value -> outcome value; they never see identifier names) *)
Definition functions_never_not_found (c : ctx) : Prop :=
  forall f g a, In (f, g) (c_funs c) -> is_not_found (g a) = false.

(* the weaker condition that renaming needs: no user function answers "variable not found" itself *)
Definition functions_never_variable_not_found (c : ctx) : Prop :=
  forall f g a x, In (f, g) (c_funs c) -> g a <> Err (EVariableIdentifierNotFound x).

(* ---- source order (the grammar, its tokens and its trees are those of Spec/Grammar.v) ---- *)

(* the class of an identifier in the source is decided by the token that follows it: an assignment
   operator makes it a target, the start of an operand makes it an applied function, anything else
   (an operator, a closing parenthesis, a separator, the end) a read variable *)
Definition class_by_next (next : option token) : ident_class :=
  match next with
  | Some t => if assignment_token t then CWrite else if starts_operand t then CFunction else CRead
  | None => CRead
  end.

(* the identifier occurrences of a token sequence, from left to right *)
Fixpoint token_occurrences (ts : list token) : list occurrence :=
  match ts with
  | [] => []
  | t :: ts' =>
      match t with
      | TIdentifier x => (class_by_next (hd_error ts'), x) :: token_occurrences ts'
      | _ => token_occurrences ts'
      end
  end.

(* the identifier operator of a class *)
Definition op_of_class (k : ident_class) (x : str) : operator :=
  match k with
  | CWrite => OVariableIdentifierWrite x
  | CFunction => OFunctionIdentifier x
  | CRead => OVariableIdentifierRead x
  end.
