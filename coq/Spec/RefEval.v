(* C08 / C11 reference semantics of tree evaluation, written as a big-step RELATION with an explicit
   effect log, plus the two auxiliary formulations the theorems are stated with:

     1. apply_op / big / bigs : the relation  (c, L) |- n  ==>  (r, c', L')          (C08_ref)
     2. eval_children         : the children loop as a plain LEFT FOLD               (C08_children)
        chain                 : children run one after the other, each from an empty log (C08_order)
     3. eval_traced, project_ro : the mutable run, additionally reporting where the first
        assignment operator was applied                                             (C11_project)

   Effects are (a) the context (variable assignments) and (b) the log: one entry (f, argument) per
   call that reaches a user function f of the context.  The value an effect-free operator computes
   is not this file's subject (that is C03's table); the ORDER of evaluation and the discipline of
   effects and errors over the tree is. *)
From Coq Require Import Floats.SpecFloat.
Require Import Model.Base Model.Syntax Model.F64 Model.Lexer Model.Value Model.Context Model.Builtins Model.Eval.

(* the nine assignment operators  =  +=  -=  *=  /=  %=  ^=  &&=  ||= *)
Definition is_assign (o : operator) : bool :=
  match o with
  | OAssign | OAddAssign | OSubAssign | OMulAssign | ODivAssign | OModAssign | OExpAssign
  | OAndAssign | OOrAssign => true
  | _ => false
  end.

Definition is_call (o : operator) : bool :=
  match o with OFunctionIdentifier _ => true | _ => false end.

(* no assignment operator anywhere in the tree *)
Fixpoint no_assign (n : node) : bool :=
  match n with Node o ch => negb (is_assign o) && forallb no_assign ch end.

(* how an evaluation ends without a value *)
Inductive stop := SErr (e : error) | SPanic (site : N).
Definition stopped {A} (s : stop) : outcome A :=
  match s with SErr e => Err e | SPanic p => Panic p end.

Section WithOracle.
Variable O : std_oracle.

(* ------------------------------------------------------------------------------------------------
   Applying an operator to the (already evaluated) argument values in context c with log lg:
       apply_op o args c lg  r c' lg'
   ------------------------------------------------------------------------------------------------ *)
Inductive apply_op : operator -> list value -> ctx -> log -> outcome value -> ctx -> log -> Prop :=
(* every operator that is neither an assignment nor a call: no effect at all *)
| ap_pure o vs c lg :
    is_assign o = false -> is_call o = false ->
    apply_op o vs c lg (fst (op_eval O o vs c lg)) c lg
(* f(a): the context is unchanged; the call is logged, once, iff the context has a user function f
   (which function finally answers is C09's subject) *)
| ap_call f a c lg :
    apply_op (OFunctionIdentifier f) [a] c lg
             (fst (call_function O c lg f a)) c
             (lg ++ match lookup_function c f with Some _ => [(f, a)] | None => [] end)
| ap_call_arity f vs c lg :
    length vs <> 1%nat ->
    apply_op (OFunctionIdentifier f) vs c lg (Err (EWrongOperatorArgumentAmount 1 (nargs vs))) c lg
(* x = v *)
| ap_assign_ok x v c lg c' :
    set_value c x v = Ok c' ->
    apply_op OAssign [VString x; v] c lg (Ok VEmpty) c' lg
| ap_assign_fail x v c lg s :
    set_value c x v = stopped s ->
    apply_op OAssign [VString x; v] c lg (stopped s) c lg
(* x op= v : x is read from c -- the context AFTER all children, in particular after the right-hand
   side, were evaluated --, the plain operator is applied, the result is stored *)
| ap_opassign_ok o b x v c lg old res c' :
    assign_base o = Some b ->
    get_value c x = Some old ->
    fst (op_eval O b [old; v] c lg) = Ok res ->
    set_value c x res = Ok c' ->
    apply_op o [VString x; v] c lg (Ok VEmpty) c' lg
| ap_opassign_store_fail o b x v c lg old res s :
    assign_base o = Some b ->
    get_value c x = Some old ->
    fst (op_eval O b [old; v] c lg) = Ok res ->
    set_value c x res = stopped s ->
    apply_op o [VString x; v] c lg (stopped s) c lg
| ap_opassign_op_fail o b x v c lg old s :
    assign_base o = Some b ->
    get_value c x = Some old ->
    fst (op_eval O b [old; v] c lg) = stopped s ->
    apply_op o [VString x; v] c lg (stopped s) c lg
| ap_opassign_unbound o b x v c lg :
    assign_base o = Some b ->
    get_value c x = None ->
    apply_op o [VString x; v] c lg (Err (EVariableIdentifierNotFound x)) c lg
(* malformed assignment nodes (never built by the parser) *)
| ap_assign_arity o vs c lg :
    is_assign o = true -> length vs <> 2%nat ->
    apply_op o vs c lg (Err (EWrongOperatorArgumentAmount 2 (nargs vs))) c lg
| ap_assign_target o t v c lg :
    is_assign o = true -> (forall x, t <> VString x) ->
    apply_op o [t; v] c lg (Err (EExpectedString t)) c lg.

(* ------------------------------------------------------------------------------------------------
   The big-step relation.   big c lg n  r c' lg'   reads   (c, lg) |- n ==> (r, c', lg').
   bigs is the same for a list of children: its result is the list of their values, or the first stop.
   ------------------------------------------------------------------------------------------------ *)
Inductive big : ctx -> log -> node -> outcome value -> ctx -> log -> Prop :=
(* all children gave a value: only now the operator is applied, in the state the children left *)
| big_apply o ch c lg vs c1 lg1 r c2 lg2 :
    bigs c lg ch (Ok vs) c1 lg1 ->
    apply_op o vs c1 lg1 r c2 lg2 ->
    big c lg (Node o ch) r c2 lg2
(* a child stopped: the operator is not applied; state and error are those of the children *)
| big_stop o ch c lg s c1 lg1 :
    bigs c lg ch (stopped s) c1 lg1 ->
    big c lg (Node o ch) (stopped s) c1 lg1

with bigs : ctx -> log -> list node -> outcome (list value) -> ctx -> log -> Prop :=
| bigs_nil c lg :
    bigs c lg [] (Ok []) c lg
(* the head first; the tail starts in the state the head left *)
| bigs_cons x l c lg v c1 lg1 vs c2 lg2 :
    big c lg x (Ok v) c1 lg1 ->
    bigs c1 lg1 l (Ok vs) c2 lg2 ->
    bigs c lg (x :: l) (Ok (v :: vs)) c2 lg2
(* the head stops: the tail is not evaluated at all; the effects of the head remain *)
| bigs_stop_here x l c lg s c1 lg1 :
    big c lg x (stopped s) c1 lg1 ->
    bigs c lg (x :: l) (stopped s) c1 lg1
(* a later child stops: the effects of everything evaluated so far remain *)
| bigs_stop_later x l c lg v c1 lg1 s c2 lg2 :
    big c lg x (Ok v) c1 lg1 ->
    bigs c1 lg1 l (stopped s) c2 lg2 ->
    bigs c lg (x :: l) (stopped s) c2 lg2.

End WithOracle.

(* ------------------------------------------------------------------------------------------------
   The children loop `for child in children { arguments.push(child.eval(context)?) }` as a left fold,
   for an arbitrary evaluator `ev` of a single child.
   ------------------------------------------------------------------------------------------------ *)
Definition step_mut (ev : node -> ctx -> log -> outcome value * ctx * log)
           (acc : outcome (list value) * ctx * log) (x : node) : outcome (list value) * ctx * log :=
  match acc with
  | (Ok vs, c, lg) =>
      match ev x c lg with
      | (Ok v, c1, lg1) => (Ok (vs ++ [v]), c1, lg1)
      | (Err e, c1, lg1) => (Err e, c1, lg1)
      | (Panic p, c1, lg1) => (Panic p, c1, lg1)
      end
  | _ => acc                        (* after the first stop nothing more is evaluated *)
  end.

Definition eval_children (ev : node -> ctx -> log -> outcome value * ctx * log)
           (ch : list node) (c : ctx) (lg : log) : outcome (list value) * ctx * log :=
  fold_left (step_mut ev) ch (Ok [], c, lg).

(* the same with a shared, immutable context *)
Definition step_ro (ev : node -> ctx -> log -> outcome value * log) (c : ctx)
           (acc : outcome (list value) * log) (x : node) : outcome (list value) * log :=
  match acc with
  | (Ok vs, lg) =>
      match ev x c lg with
      | (Ok v, lg1) => (Ok (vs ++ [v]), lg1)
      | (Err e, lg1) => (Err e, lg1)
      | (Panic p, lg1) => (Panic p, lg1)
      end
  | _ => acc
  end.

Definition eval_children_ro (ev : node -> ctx -> log -> outcome value * log)
           (ch : list node) (c : ctx) (lg : log) : outcome (list value) * log :=
  fold_left (step_ro ev c) ch (Ok [], lg).

(* Children evaluated one after the other, EACH FROM AN EMPTY LOG, all with a value:
     chain ev c [x1..xn] [v1..vn] [d1..dn] c'
   xi is evaluated in the context x(i-1) left, gives vi and its own log contribution di. *)
Inductive chain (ev : node -> ctx -> log -> outcome value * ctx * log)
  : ctx -> list node -> list value -> list log -> ctx -> Prop :=
| chain_nil c : chain ev c [] [] [] c
| chain_cons c x v d c1 l vs ds c2 :
    ev x c [] = (Ok v, c1, d) ->
    chain ev c1 l vs ds c2 ->
    chain ev c (x :: l) (v :: vs) (d :: ds) c2.

Inductive chain_ro (ev : node -> ctx -> log -> outcome value * log) (c : ctx)
  : list node -> list value -> list log -> Prop :=
| chain_ro_nil : chain_ro ev c [] [] []
| chain_ro_cons x v d l vs ds :
    ev x c [] = (Ok v, d) ->
    chain_ro ev c l vs ds ->
    chain_ro ev c (x :: l) (v :: vs) (d :: ds).

(* what applying operator o to vs in context c adds to the log *)
Definition own_log (o : operator) (vs : list value) (c : ctx) : log :=
  match o, vs with
  | OFunctionIdentifier f, [a] => match lookup_function c f with Some _ => [(f, a)] | None => [] end
  | _, _ => []
  end.

(* ------------------------------------------------------------------------------------------------
   C11: the mutable evaluator, additionally reporting the log position at which an assignment
   operator was APPLIED for the first time (all its children evaluated to values; whatever its
   arity or argument types).  `mk` is None until then.
   ------------------------------------------------------------------------------------------------ *)
Definition mark (o : operator) (lg : log) (mk : option log) : option log :=
  match mk with
  | Some _ => mk
  | None => if is_assign o then Some lg else None
  end.

Section WithOracle.
Variable O : std_oracle.

Fixpoint eval_traced (n : node) (c : ctx) (lg : log) (mk : option log) {struct n}
  : outcome value * ctx * log * option log :=
  match n with
  | Node o ch =>
      let fix args (l : list node) (c : ctx) (lg : log) (mk : option log)
        : outcome (list value) * ctx * log * option log :=
        match l with
        | [] => (Ok [], c, lg, mk)
        | x :: l' =>
            match eval_traced x c lg mk with
            | (Ok v, c1, lg1, mk1) =>
                match args l' c1 lg1 mk1 with
                | (Ok vs, c2, lg2, mk2) => (Ok (v :: vs), c2, lg2, mk2)
                | r => r
                end
            | (Err e, c1, lg1, mk1) => (Err e, c1, lg1, mk1)
            | (Panic p, c1, lg1, mk1) => (Panic p, c1, lg1, mk1)
            end
        end in
      match args ch c lg mk with
      | (Ok vs, c1, lg1, mk1) => (op_eval_mut O o vs c1 lg1, mark o lg1 mk1)
      | (Err e, c1, lg1, mk1) => (Err e, c1, lg1, mk1)
      | (Panic p, c1, lg1, mk1) => (Panic p, c1, lg1, mk1)
      end
  end.

End WithOracle.

(* what the read-only evaluator makes of a traced mutable run: if an assignment operator was applied,
   ContextNotMutable with the log as it was at that moment; otherwise result and log of the run *)
Definition project_ro (t : outcome value * ctx * log * option log) : outcome value * log :=
  match t with
  | (r, _, lg, None) => (r, lg)
  | (_, _, _, Some l) => (Err EContextNotMutable, l)
  end.
