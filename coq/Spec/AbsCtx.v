(* C04 reference: a HashMapContext as an abstract state of two TOTAL maps and a flag, the abstract
   operations on it, an evaluator of operator trees over the abstract state, and the abstract machine
   `astep`/`arun` that the operation histories of Model/Script.v are compared with.
   Nothing here mentions association lists, insertion order or the kind tag of Model/Context.v. *)
From Coq Require Import Strings.String Floats.SpecFloat.
Require Import Model.Base Model.Syntax Model.F64 Model.Lexer Model.Builder Model.Value Model.Context
               Model.Builtins Model.Eval Model.Interface Model.Script.

(* ---- the abstract state ---- *)
Record astate := mkA {
  vars : str -> option value;      (* name -> current value; the value's variant is the variable's type *)
  funs : str -> option ufun;       (* name -> user function: a separate namespace *)
  off  : bool;                     (* builtin functions disabled *)
}.

Definition a_empty : astate := mkA (fun _ => None) (fun _ => None) false.

(* abstract states are compared pointwise (no functional extensionality is assumed) *)
Definition aeq (a b : astate) : Prop :=
  (forall x, vars a x = vars b x) /\ (forall f, funs a f = funs b f) /\ off a = off b.

(* the abstraction function: what the three observers of the Context trait show *)
Definition abs (c : ctx) : astate :=
  mkA (get_value c) (lookup_function c) (are_builtin_functions_disabled c).

(* the total map m[k := v] *)
Definition upd {A} (m : str -> option A) (k : str) (v : A) : str -> option A :=
  fun y => if str_eqb y k then Some v else m y.

(* ---- the type rule ---- *)
Definition same_type (a b : value) : bool :=
  match a, b with
  | VString _, VString _ | VFloat _, VFloat _ | VInt _, VInt _
  | VBool _, VBool _ | VTuple _, VTuple _ | VEmpty, VEmpty => true
  | _, _ => false
  end.

(* the error for a value that does not have the type t *)
Definition type_error (t : vtype) (actual : value) : error :=
  match t with
  | TyString => EExpectedString actual
  | TyFloat => EExpectedFloat actual
  | TyInt => EExpectedInt actual
  | TyBoolean => EExpectedBoolean actual
  | TyTuple => EExpectedTuple actual
  | TyEmpty => EExpectedEmpty actual
  end.

(* ---- the abstract operations ---- *)
(* bind x to v: a bound name only accepts a value of the type of its current value *)
Definition a_bind (a : astate) (x : str) (v : value) : outcome astate :=
  match vars a x with
  | Some old =>
      if same_type old v then Ok (mkA (upd (vars a) x v) (funs a) (off a))
      else Err (type_error (type_of old) v)
  | None => Ok (mkA (upd (vars a) x v) (funs a) (off a))
  end.

Definition a_set_function (a : astate) (f : str) (g : ufun) : astate := mkA (vars a) (upd (funs a) f g) (off a).
Definition a_clear_vars (a : astate) : astate := mkA (fun _ => None) (funs a) (off a).
Definition a_clear_funs (a : astate) : astate := mkA (vars a) (fun _ => None) (off a).
Definition a_clear (a : astate) : astate := mkA (fun _ => None) (fun _ => None) (off a).
Definition a_toggle (a : astate) (b : bool) : astate := mkA (vars a) (funs a) b.

Definition a_lookup (a : astate) (x : str) : outcome value :=
  match vars a x with Some v => Ok v | None => Err (EVariableIdentifierNotFound x) end.

Definition a_or (a : astate) (r : outcome astate) : astate := match r with Ok a' => a' | _ => a end.

Section WithOracle.
Variable O : std_oracle.

(* ---- function application (the resolution order of C09) ---- *)
(* the builtin named f, unless builtins are off; `dflt` is what is reported when they are off *)
Definition a_builtin (a : astate) (f : str) (v : value) (dflt : outcome value) : outcome value :=
  if off a then dflt
  else match builtin_function O f with
       | Some b => b v
       | None => Err (EFunctionIdentifierNotFound f)
       end.

(* a user function first (the call is logged).  KNOWN FINDING (C09): when the user function itself
   answers Err (EFunctionIdentifierNotFound _), the builtin of the same name is consulted as well. *)
Definition a_call (a : astate) (lg : log) (f : str) (v : value) : outcome value * log :=
  match funs a f with
  | Some g =>
      match g v with
      | Err (EFunctionIdentifierNotFound _) => (a_builtin a f v (g v), lg ++ [(f, v)])
      | r => (r, lg ++ [(f, v)])
      end
  | None => (a_builtin a f v (Err (EFunctionIdentifierNotFound f)), lg)
  end.

(* ---- operators over the abstract state ---- *)
(* an operator that neither reads a variable nor calls a function does not look at the context *)
Definition context_free (o : operator) (args : list value) (lg : log) : outcome value * log :=
  op_eval O o args empty_context lg.

(* the operands of an assignment: the target name and the right-hand value *)
Definition a_target (args : list value) : outcome (str * value) :=
  match args with
  | [VString x; v] => Ok (x, v)
  | [t; _] => Err (EExpectedString t)
  | _ => Err (EWrongOperatorArgumentAmount 2 (N.of_nat (length args)))
  end.

(* mut = false is evaluation with an immutable context: assignments are EContextNotMutable *)
Definition a_op (mut : bool) (o : operator) (args : list value) (a : astate) (lg : log)
  : outcome value * astate * log :=
  let store (r : outcome astate) : outcome value * astate * log :=
    match r with Ok a' => (Ok VEmpty, a', lg) | Err e => (Err e, a, lg) | Panic s => (Panic s, a, lg) end in
  let other := let '(r, lg') := context_free o args lg in (r, a, lg') in
  match o with
  | OAssign =>
      if mut then store (do '(x, v) <- a_target args; a_bind a x v) else other
  | OAddAssign | OSubAssign | OMulAssign | ODivAssign | OModAssign | OExpAssign | OAndAssign | OOrAssign =>
      if mut then
        store (do '(x, v) <- a_target args;
               do cur <- a_lookup a x;                         (* x o= v is x = (x o v): read, apply, bind *)
               do b <- match assign_base o with Some b => Ok b | None => Panic 30 end;
               do r <- fst (context_free b [cur; v] lg);
               a_bind a x r)
      else other
  | OVariableIdentifierRead x =>
      (match args with [] => a_lookup a x | _ => Err (EWrongOperatorArgumentAmount 0 (N.of_nat (length args))) end,
       a, lg)
  | OFunctionIdentifier f =>
      match args with
      | [v] => let '(r, lg') := a_call a lg f v in (r, a, lg')
      | _ => (Err (EWrongOperatorArgumentAmount 1 (N.of_nat (length args))), a, lg)
      end
  | _ => other
  end.

(* ---- evaluation of a tree: children left to right, threading state and log; first failure wins ---- *)
Definition comp := astate -> log -> outcome value * astate * log.

Fixpoint a_seq (l : list comp) (a : astate) (lg : log) : outcome (list value) * astate * log :=
  match l with
  | [] => (Ok [], a, lg)
  | m :: l' =>
      match m a lg with
      | (Ok v, a1, lg1) =>
          match a_seq l' a1 lg1 with
          | (Ok vs, a2, lg2) => (Ok (v :: vs), a2, lg2)
          | r => r
          end
      | (Err e, a1, lg1) => (Err e, a1, lg1)
      | (Panic s, a1, lg1) => (Panic s, a1, lg1)
      end
  end.

Fixpoint a_eval (mut : bool) (n : node) : comp :=
  match n with
  | Node o ch =>
      fun a lg =>
        match a_seq (map (a_eval mut) ch) a lg with
        | (Ok vs, a1, lg1) => a_op mut o vs a1 lg1
        | (Err e, a1, lg1) => (Err e, a1, lg1)
        | (Panic s, a1, lg1) => (Panic s, a1, lg1)
        end
  end.

(* ---- the abstract machine: one step per public API call ---- *)
Inductive aout :=
| AUnit (r : outcome unit)
| AVal (r : outcome value)
| ATree (r : outcome node)
| AGet (r : option value)
| ADump (a : astate)
| ANa.

(* one evaluation entry point on a source text *)
Definition a_entry (m : emode) (t : etype) (src : str) (a : astate) (lg : log) : outcome value * astate * log :=
  match build_operator_tree src with
  | Ok n =>
      match m with
      | MMut => let '(r, a', lg') := a_eval true n a lg in (project t r, a', lg')
      | MRo => let '(r, _, lg') := a_eval false n a lg in (project t r, a, lg')
      | MFree => let '(r, _, _) := a_eval true n a_empty [] in (project t r, a, lg)
      end
  | Err e => (Err e, a, lg)
  | Panic p => (Panic p, a, lg)
  end.

Definition astep (st : astate * log) (op : cop) : (astate * log) * aout :=
  let '(a, lg) := st in
  match op with
  | CSet x v | CInit x v => let r := a_bind a x v in ((a_or a r, lg), AUnit (unit_of r))
  | CSetFn f l => ((a_set_function a f (apply_libfn f l), lg), AUnit (Ok tt))
  | COff b => ((a_toggle a b, lg), AUnit (Ok tt))
  | CClrV => ((a_clear_vars a, lg), AUnit (Ok tt))
  | CClrF => ((a_clear_funs a, lg), AUnit (Ok tt))
  | CClr => ((a_clear a, lg), AUnit (Ok tt))
  | CClone => (st, AUnit (Ok tt))               (* a clone of a value is that value *)
  | CEv EBuild src | CEvc EBuild src => (st, ATree (build_operator_tree src))
  | CEv (EEval _ m t) src => let '(r, a', lg') := a_entry m t src a lg in ((a', lg'), AVal r)
  | CEvc (EEval _ m t) src => let '(r, _, lg') := a_entry m t src a lg in ((a, lg'), AVal r)
  | CGet x => (st, AGet (vars a x))
  | CCall f v =>
      match funs a f with
      | Some g => ((a, lg ++ [(f, v)]), AVal (g v))
      | None => (st, AVal (Err (EFunctionIdentifierNotFound f)))
      end
  | CDump => (st, ADump a)
  end.

Fixpoint arun (st : astate * log) (ops : list cop) : (astate * log) * list aout :=
  match ops with
  | [] => (st, [])
  | op :: ops' =>
      let '(st1, o) := astep st op in
      let '(st2, os) := arun st1 ops' in
      (st2, o :: os)
  end.

End WithOracle.

(* when a concrete output and an abstract output say the same; a dump is compared through abs *)
Definition out_match (o : cout) (ao : aout) : Prop :=
  match o, ao with
  | OUnit r, AUnit r' => r = r'
  | OVal r, AVal r' => r = r'
  | OTree r, ATree r' => r = r'
  | OGet r, AGet r' => r = r'
  | ODump c, ADump a => aeq (abs c) a
  | ONa, ANa => True
  | _, _ => False
  end.
