(* C02 / C05 reference: the expression grammar, its rendering as tokens, the tree it denotes, and the
   parenthesisation rule of the DOCUMENTED precedence table (README.md, "Operators").
   Nothing here mentions the builder: no stack, no insertion, no rotation.

   A parenthesised group holds a SEQUENCE: a chain (`;`) of tuples (`,`) of elements, an element being
   an expression or absent.  `(e)` is the sequence [[Some e]], `()` is [[None]], `(a, b)` is
   [[Some a; Some b]], `(a, b; c)` is [[Some a; Some b]; [Some c]].  The whole input is such a
   sequence as well (without the parentheses). *)
From Coq Require Import Floats.SpecFloat.
Require Import Model.Base Model.Syntax Model.F64 Model.Lexer Model.Value Model.Context Model.Eval.
Require Import Spec.OpTable.   (* binop (14), unop (2), op_of_binop, op_of_unop *)

(* ---------------------------------------------------------------------------------------------- *)
(* 1. The documented tables (README.md): precedence, associativity, arity                          *)
(* ---------------------------------------------------------------------------------------------- *)

Definition doc_prec (k : op_kind) : Z :=
  match k with
  | QExp => 120
  | QNeg | QNot => 110
  | QMul | QDiv | QMod => 100
  | QAdd | QSub => 95
  | QLt | QGt | QLeq | QGeq | QEq | QNeq => 80
  | QAnd => 75
  | QOr => 70
  | QAssign | QAddAssign | QSubAssign | QMulAssign | QDivAssign | QModAssign | QExpAssign
  | QAndAssign | QOrAssign => 50
  | QTuple => 40
  | QChain => 0
  | QFunctionIdentifier => 190                                                   (* "function literals have 190" *)
  | QConst | QVariableIdentifierRead | QVariableIdentifierWrite | QRootNode => 200 (* "variables and values have 200" *)
  end.

(* `=` and function application group right-to-left, everything else left-to-right *)
Definition doc_rtl (k : op_kind) : bool :=
  match k with QAssign | QFunctionIdentifier => true | _ => false end.

(* prefix position: `-`, `!`, and a function name *)
Definition doc_prefix (k : op_kind) : bool :=
  match k with QNeg | QNot | QFunctionIdentifier => true | _ => false end.

Definition doc_atom (k : op_kind) : bool :=
  match k with QConst | QVariableIdentifierRead | QVariableIdentifierWrite => true | _ => false end.

Definition doc_sequence (k : op_kind) : bool :=
  match k with QTuple | QChain => true | _ => false end.

(* number of operands; the two sequence operators are n-ary *)
Definition doc_arity (k : op_kind) : option N :=
  if doc_sequence k then None
  else if doc_atom k then Some 0%N
  else if doc_prefix k then Some 1%N
  else match k with QRootNode => Some 1%N | _ => Some 2%N end.

(* token classes of the documentation: what can end an operand, what can start one, the 9 assignments *)
Definition ends_operand (t : token) : bool :=
  match t with TRBrace | TIdentifier _ | TFloat _ | TInt _ | TBoolean _ | TString _ => true | _ => false end.
Definition starts_operand (t : token) : bool :=
  match t with TLBrace | TIdentifier _ | TFloat _ | TInt _ | TBoolean _ | TString _ => true | _ => false end.
Definition assignment_token (t : token) : bool :=
  match t with
  | TAssign | TPlusAssign | TMinusAssign | TStarAssign | TSlashAssign | TPercentAssign | THatAssign
  | TAndAssign | TOrAssign => true
  | _ => false
  end.

(* "x binds weaker than y": strictly lower precedence, or equal precedence and both right-to-left *)
Definition below (x y : op_kind) : bool :=
  (doc_prec x <? doc_prec y) || ((doc_prec x =? doc_prec y) && doc_rtl x && doc_rtl y).

(* ---------------------------------------------------------------------------------------------- *)
(* 2. Expressions                                                                                  *)
(* ---------------------------------------------------------------------------------------------- *)

Inductive lit := LInt (i : Z) | LFloat (f : spec_float) | LBool (b : bool) | LString (s : str).
Inductive asgop := AAssign | AAdd | ASub | AMul | ADiv | AMod | AExp | AAnd | AOr.

Inductive expr :=
| Lit (l : lit)
| Var (x : str)
| Bin (o : binop) (l r : expr)
| Pre (u : unop) (e : expr)
| Asg (a : asgop) (x : str) (e : expr)              (* the target is a bare identifier *)
| Call (f : str) (arg : expr)                        (* arg ::= Lit | Var | Paren | Call, see is_arg *)
| Paren (s : list (list (option expr))).             (* one written pair of parentheses *)

Definition elem := option expr.          (* absent | expr *)
Definition tuple := list elem.           (* el , el , ...   (one element: no comma) *)
Definition seq := list tuple.            (* t ; t ; ...     (one tuple: no semicolon) *)

Definition PExpr (e : expr) : expr := Paren [[Some e]].    (* (e) *)
Definition PUnit : expr := Paren [[None]].                  (* ()  *)

Definition lit_token (l : lit) : token :=
  match l with LInt i => TInt i | LFloat f => TFloat f | LBool b => TBoolean b | LString s => TString s end.
Definition lit_value (l : lit) : value :=
  match l with LInt i => VInt i | LFloat f => VFloat f | LBool b => VBool b | LString s => VString s end.

Definition tok_of_binop (o : binop) : token :=
  match o with
  | BAdd => TPlus | BSub => TMinus | BMul => TStar | BDiv => TSlash | BMod => TPercent | BExp => THat
  | BEq => TEq | BNeq => TNeq | BGt => TGt | BLt => TLt | BGeq => TGeq | BLeq => TLeq | BAnd => TAnd | BOr => TOr
  end.
Definition tok_of_unop (u : unop) : token := match u with UNeg => TMinus | UNot => TNot end.
Definition tok_of_asgop (a : asgop) : token :=
  match a with
  | AAssign => TAssign | AAdd => TPlusAssign | ASub => TMinusAssign | AMul => TStarAssign | ADiv => TSlashAssign
  | AMod => TPercentAssign | AExp => THatAssign | AAnd => TAndAssign | AOr => TOrAssign
  end.
Definition op_of_asgop (a : asgop) : operator :=
  match a with
  | AAssign => OAssign | AAdd => OAddAssign | ASub => OSubAssign | AMul => OMulAssign | ADiv => ODivAssign
  | AMod => OModAssign | AExp => OExpAssign | AAnd => OAndAssign | AOr => OOrAssign
  end.

Definition bkind (o : binop) : op_kind := kind_of (op_of_binop o).
Definition ukind (u : unop) : op_kind := kind_of (op_of_unop u).
Definition akind (a : asgop) : op_kind := kind_of (op_of_asgop a).

(* ---- rendering: the tokens, in order.  Neg and Sub are both written TMinus. ---- *)

(* first part, then every further part preceded by the separator *)
Definition join (sep : token) (parts : list (list token)) : list token :=
  match parts with [] => [] | p :: rest => p ++ flat_map (fun q => sep :: q) rest end.

Definition flatten_seq_with {E} (fl : E -> list token) (s : list (list (option E))) : list token :=
  join TSemicolon (map (fun t => join TComma (map (fun el => match el with None => [] | Some e => fl e end) t)) s).

Fixpoint flatten (e : expr) : list token :=
  match e with
  | Lit l => [lit_token l]
  | Var x => [TIdentifier x]
  | Bin o l r => flatten l ++ tok_of_binop o :: flatten r
  | Pre u e1 => tok_of_unop u :: flatten e1
  | Asg a x e1 => TIdentifier x :: tok_of_asgop a :: flatten e1
  | Call f a => TIdentifier f :: flatten a
  | Paren s => TLBrace :: flatten_seq_with flatten s ++ [TRBrace]
  end.

Definition flatten_seq (s : seq) : list token := flatten_seq_with flatten s.

(* ---- the reference tree.  Every written pair of parentheses, and every element of a tuple or
        chain, is one RootNode; an absent element is the RootNode without children. ---- *)

Definition elem_root_with {E} (tr : E -> node) (el : option E) : node :=
  Node ORootNode (match el with None => [] | Some e => [tr e] end).

(* a chain item: a single element, or a Tuple of >= 2 elements *)
Definition item_tree_with {E} (tr : E -> node) (t : list (option E)) : node :=
  match t with
  | [el] => elem_root_with tr el
  | _ => Node OTuple (map (elem_root_with tr) t)
  end.

(* the children of the RootNode of a parenthesis level: nothing for `()`, the expression for `(e)`,
   one Tuple for `(a, b)`, one Chain (of elements and Tuples) as soon as there is a `;` *)
Definition seq_children_with {E} (tr : E -> node) (s : list (list (option E))) : list node :=
  match s with
  | [t] => match t with
           | [el] => match el with None => [] | Some e => [tr e] end
           | _ => [Node OTuple (map (elem_root_with tr) t)]
           end
  | _ => [Node OChain (map (item_tree_with tr) s)]
  end.

Fixpoint tree_of (e : expr) : node :=
  match e with
  | Lit l => Node (OConst (lit_value l)) []
  | Var x => Node (OVariableIdentifierRead x) []
  | Bin o l r => Node (op_of_binop o) [tree_of l; tree_of r]
  | Pre u e1 => Node (op_of_unop u) [tree_of e1]
  | Asg a x e1 => Node (op_of_asgop a) [Node (OVariableIdentifierWrite x) []; tree_of e1]
  | Call f a => Node (OFunctionIdentifier f) [tree_of a]
  | Paren s => Node ORootNode (seq_children_with tree_of s)
  end.

Definition elem_root : elem -> node := elem_root_with tree_of.
Definition item_tree : tuple -> node := item_tree_with tree_of.
(* what the parser returns for a whole input *)
Definition tree_of_seq_top (s : seq) : node := Node ORootNode (seq_children_with tree_of s).

(* ---------------------------------------------------------------------------------------------- *)
(* 3. The parenthesisation rule                                                                    *)
(* ---------------------------------------------------------------------------------------------- *)

(* the kind of the top construct of an expression; its documented precedence is the expression's *)
Definition top_kind (e : expr) : op_kind :=
  match e with
  | Lit _ => QConst
  | Var _ => QVariableIdentifierRead
  | Bin o _ _ => bkind o
  | Pre u _ => ukind u
  | Asg a _ _ => akind a
  | Call _ _ => QFunctionIdentifier
  | Paren _ => QRootNode
  end.

(* a function argument is written without parentheses of its own only if it is one of these *)
Definition is_arg (e : expr) : bool :=
  match e with Lit _ | Var _ | Paren _ | Call _ _ => true | _ => false end.

Definition nonempty {A} (l : list A) : bool := match l with [] => false | _ => true end.

Definition ok_seq_with {E} (okE : E -> bool) (s : list (list (option E))) : bool :=
  nonempty s &&
  forallb (fun t => nonempty t && forallb (fun el => match el with None => true | Some e => okE e end) t) s.

(* F: the operators the current position is (transitively) the LAST operand of, outermost first, back to
   the nearest enclosing parenthesis.
   - a binary operator needs: all of F bind weaker than it; its left operand does not bind weaker than it;
   - a prefix operator or a call is accepted under any parent, but passes F on to its operand;
   - an assignment needs all of F to bind weaker (only `=` under `=` qualifies at precedence 50);
   - parentheses reset F. *)
Fixpoint ok (F : list op_kind) (e : expr) {struct e} : bool :=
  match e with
  | Lit _ | Var _ => true
  | Paren s => ok_seq_with (ok []) s
  | Pre u e1 => ok (F ++ [ukind u]) e1
  | Call f a => is_arg a && ok (F ++ [QFunctionIdentifier]) a
  | Bin o l r =>
      ok F l && forallb (fun f => below f (bkind o)) F && negb (below (top_kind l) (bkind o))
      && ok (F ++ [bkind o]) r
  | Asg a x e1 => forallb (fun f => below f (akind a)) F && ok (F ++ [akind a]) e1
  end.

Definition ok_top (e : expr) : Prop := ok [] e = true.
Definition ok_seq (s : seq) : Prop := ok_seq_with (ok []) s = true.

(* ---------------------------------------------------------------------------------------------- *)
(* 4. ASTs without parentheses, the required parentheses, forgetting parentheses                    *)
(* ---------------------------------------------------------------------------------------------- *)

Inductive raw_expr :=
| RLit (l : lit)
| RVar (x : str)
| RBin (o : binop) (l r : raw_expr)
| RPre (u : unop) (e : raw_expr)
| RAsg (a : asgop) (x : str) (e : raw_expr)
| RCall (f : str) (arg : raw_expr)
| RSeq (s : list (list (option raw_expr))).   (* a tuple, a chain or `()` used as an operand; never a single expression *)

Definition raw_is_arg (r : raw_expr) : bool :=
  match r with RLit _ | RVar _ | RSeq _ | RCall _ _ => true | _ => false end.

(* inserts exactly the parentheses the table requires (tools/gen.py: parenthesize) *)
Fixpoint paren_min (F : list op_kind) (r : raw_expr) {struct r} : expr :=
  match r with
  | RLit l => Lit l
  | RVar x => Var x
  | RSeq s => Paren (map (map (option_map (paren_min []))) s)
  | RPre u e => Pre u (paren_min (F ++ [ukind u]) e)
  | RCall f a =>
      Call f (if raw_is_arg a then paren_min (F ++ [QFunctionIdentifier]) a else PExpr (paren_min [] a))
  | RBin o l r1 =>
      let build (G : list op_kind) :=
        let l' := paren_min G l in
        Bin o (if below (top_kind l') (bkind o) then PExpr (paren_min [] l) else l')
              (paren_min (G ++ [bkind o]) r1) in
      if forallb (fun f => below f (bkind o)) F then build F else PExpr (build [])
  | RAsg a x e =>
      if forallb (fun f => below f (akind a)) F
      then Asg a x (paren_min (F ++ [akind a]) e)
      else PExpr (Asg a x (paren_min [akind a] e))
  end.

(* forgets every pair of parentheses around a single expression *)
Fixpoint strip (e : expr) : raw_expr :=
  match e with
  | Lit l => RLit l
  | Var x => RVar x
  | Bin o l r => RBin o (strip l) (strip r)
  | Pre u e1 => RPre u (strip e1)
  | Asg a x e1 => RAsg a x (strip e1)
  | Call f a => RCall f (strip a)
  | Paren s =>
      match s with
      | [[Some e1]] => strip e1
      | _ => RSeq (map (map (option_map strip)) s)
      end
  end.

(* the raw ASTs that are images of strip: an RSeq is a genuine sequence *)
Definition raw_seq_shape {E} (s : list (list (option E))) : bool :=
  match s with [[Some _]] => false | _ => true end.
Fixpoint raw_wf (r : raw_expr) : bool :=
  match r with
  | RLit _ | RVar _ => true
  | RBin _ l r1 => raw_wf l && raw_wf r1
  | RPre _ e | RAsg _ _ e | RCall _ e => raw_wf e
  | RSeq s => raw_seq_shape s && ok_seq_with raw_wf s
  end.

(* the ASTs of the C02 quantifier proper: operators, calls, literals and variables only *)
Fixpoint no_seq (r : raw_expr) : bool :=
  match r with
  | RLit _ | RVar _ => true
  | RBin _ l r1 => no_seq l && no_seq r1
  | RPre _ e | RAsg _ _ e | RCall _ e => no_seq e
  | RSeq _ => false
  end.

(* forgets every RootNode that wraps exactly one child *)
Fixpoint strip_roots (n : node) : node :=
  match n with
  | Node ORootNode [c] => strip_roots c
  | Node o ch => Node o (map strip_roots ch)
  end.

(* ---------------------------------------------------------------------------------------------- *)
(* 5. Reference evaluation of a list of sub-trees, in order (for C05_value)                         *)
(* ---------------------------------------------------------------------------------------------- *)

(* evaluates the trees left to right, threading context and log; stops at the first failure *)
Section InOrder.
Variable O : std_oracle.
Fixpoint eval_in_order (l : list node) (c : ctx) (lg : log) : outcome (list value) * ctx * log :=
  match l with
  | [] => (Ok [], c, lg)
  | x :: l' =>
      match eval_mut O x c lg with
      | (Ok v, c1, lg1) =>
          match eval_in_order l' c1 lg1 with
          | (Ok vs, c2, lg2) => (Ok (v :: vs), c2, lg2)
          | r => r
          end
      | (Err e, c1, lg1) => (Err e, c1, lg1)
      | (Panic s, c1, lg1) => (Panic s, c1, lg1)
      end
  end.
End InOrder.
