(* C16: the part of the serde support that is evalexpr's own logic.
   Deserialize for Node = visit_str -> build_operator_tree, the error rendered by Display;
   the derived impls of HashMapContext serialize `variables` and `without_builtin_functions`, skip `functions`. *)
From Coq Require Import Floats.SpecFloat.
Require Import Model.Base Model.Syntax Model.Value Model.Context Model.Interface.

Section Serde.
(* Display of errors and the wire format are not modelled: `display` renders an error, (enc, dec) is any
   codec of the serialized fields that round-trips *)
Variable message : Type.
Variable display : error -> message.
Variable wire : Type.
Variable enc : list (str * value) * bool -> wire.
Variable dec : wire -> option (list (str * value) * bool).
Hypothesis dec_enc : forall x, dec (enc x) = Some x.

Inductive dresult (A : Type) := DOk (a : A) | DErr (m : message) | DPanic (site : N).

Definition deserialize_node (s : str) : dresult node :=
  match build_operator_tree s with
  | Ok n => DOk node n
  | Err e => DErr node (display e)
  | Panic p => DPanic node p
  end.

Definition serialize_ctx (c : ctx) : wire := enc (c_vars c, c_off c).
Definition deserialize_ctx (w : wire) : option ctx :=
  match dec w with
  | Some (vars, off) => Some (mkctx KHashMap vars [] off)   (* functions: serde(skip) -> Default *)
  | None => None
  end.

Lemma ctx_roundtrip (c : ctx) :
  deserialize_ctx (serialize_ctx c) = Some (mkctx KHashMap (c_vars c) [] (c_off c)).
Proof. unfold deserialize_ctx, serialize_ctx. rewrite dec_enc. reflexivity. Qed.

Lemma node_same_tree (s : str) (n : node) : build_operator_tree s = Ok n -> deserialize_node s = DOk node n.
Proof. unfold deserialize_node. intros ->. reflexivity. Qed.

Lemma node_same_error (s : str) (e : error) : build_operator_tree s = Err e -> deserialize_node s = DErr node (display e).
Proof. unfold deserialize_node. intros ->. reflexivity. Qed.

End Serde.
