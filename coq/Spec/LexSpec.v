(* C06 / C07 reference: what the text of a literal, a lexeme and a separator IS, written as
   printers and sets (text is produced from the value), not as the character loop of the code.
   Nothing here runs the lexer.  Strings are lists of Unicode scalar values. *)
From Coq Require Import Strings.String Floats.SpecFloat.
Require Import Model.Base Model.Syntax Model.F64 Model.Lexer.

(* ------------------------------------------------------------------------------------------ *)
(** * Characters *)

(* the 25 code points with the Unicode property White_Space *)
Definition white_space : list N :=
  [9; 10; 11; 12; 13; 32; 133; 160; 5760;
   8192; 8193; 8194; 8195; 8196; 8197; 8198; 8199; 8200; 8201; 8202;
   8232; 8233; 8239; 8287; 12288]%N.

(* the 16 operator characters   !  %  &  (  )  *  +  ,  -  /  ;  <  =  >  ^  |   *)
Definition op_chars : list N := [33; 37; 38; 40; 41; 42; 43; 44; 45; 47; 59; 60; 61; 62; 94; 124]%N.

(* everything else except the double quote can stand in a word *)
Definition word_char (c : N) : Prop := ~ In c white_space /\ ~ In c op_chars /\ c <> 34%N.
Definition word (w : str) : Prop := w <> [] /\ Forall word_char w.

Definition dec_digit (c : N) : Prop := (48 <= c <= 57)%N.
Definition hex_digit (c : N) : Prop := (48 <= c <= 57)%N \/ (65 <= c <= 70)%N \/ (97 <= c <= 102)%N.
Definition all_digits (s : str) : Prop := Forall dec_digit s.
Definition digits1 (s : str) : Prop := s <> [] /\ all_digits s.

(* ------------------------------------------------------------------------------------------ *)
(** * String literals *)

Fixpoint escape (t : str) : str :=
  match t with
  | [] => []
  | c :: t' => if ((c =? 34) || (c =? 92))%N then 92%N :: c :: escape t' else c :: escape t'
  end.
Definition quote (t : str) : str := 34%N :: escape t ++ [34%N].

(* ------------------------------------------------------------------------------------------ *)
(** * Integer literals *)

(* decimal n: the digits of n, most significant first, no leading zero ("0" for 0).
   The fuel is the number of binary digits of n, which is at least the number of decimal digits. *)
Definition digit_char (d : Z) : N := Z.to_N (48 + d).
Fixpoint dec_fuel (fuel : nat) (n : Z) : str :=
  match fuel with
  | O => []
  | S f => (if n <? 10 then [] else dec_fuel f (n / 10)) ++ [digit_char (n mod 10)]
  end.
Definition decimal (n : Z) : str := dec_fuel (S (Z.to_nat (Z.log2 n))) n.

(* hex casing n: the hexadecimal digits of n; `casing i` chooses upper case for the digit at position i *)
Definition hex_char (upper : bool) (d : Z) : N :=
  if d <? 10 then Z.to_N (48 + d) else if upper then Z.to_N (55 + d) else Z.to_N (87 + d).
Fixpoint hex_fuel (fuel : nat) (casing : nat -> bool) (n : Z) : str :=
  match fuel with
  | O => []
  | S f => (if n <? 16 then [] else hex_fuel f casing (n / 16)) ++ [hex_char (casing f) (n mod 16)]
  end.
Definition hex (casing : nat -> bool) (n : Z) : str := hex_fuel (S (Z.to_nat (Z.log2 n))) casing n.

Definition zeros (k : nat) : str := repeat 48%N k.

(* the words the code reads as integers (when the value fits) *)
Definition int_form (w : str) : Prop :=
  digits1 w \/ exists h, w = 48%N :: 120%N :: h /\ h <> [] /\ Forall hex_digit h.

(* ------------------------------------------------------------------------------------------ *)
(** * Float literals:  digits '.' digits? | '.' digits | digits ('.' digits?)? [eE] [+-]? digits *)

Inductive sign := SNone | SPlus | SMinus.
Inductive exponent := NoExp | Exp (upper : bool) (sg : sign) (ds : str).

Record float_lit := FloatLit {
  fl_int : str;             (* digits before the dot *)
  fl_frac : option str;     (* None: no dot;  Some fp: a dot followed by the digits fp *)
  fl_exp : exponent }.

Definition frac_digits (frac : option str) : str := match frac with Some fp => fp | None => [] end.
Definition frac_text (frac : option str) : str := match frac with Some fp => 46%N :: fp | None => [] end.
Definition sign_text (sg : sign) : str := match sg with SNone => [] | SPlus => [43%N] | SMinus => [45%N] end.
Definition exp_text (e : exponent) : str :=
  match e with NoExp => [] | Exp upper sg ds => (if upper then 69%N else 101%N) :: sign_text sg ++ ds end.
Definition exp_val (e : exponent) : Z :=
  match e with
  | NoExp => 0
  | Exp _ SMinus ds => - digits_val ds
  | Exp _ _ ds => digits_val ds
  end.

Definition float_text (fl : float_lit) : str := fl_int fl ++ frac_text (fl_frac fl) ++ exp_text (fl_exp fl).

Definition float_wf (fl : float_lit) : Prop :=
  all_digits (fl_int fl) /\ all_digits (frac_digits (fl_frac fl)) /\ fl_int fl ++ frac_digits (fl_frac fl) <> [] /\
  match fl_exp fl with NoExp => True | Exp _ _ ds => digits1 ds end.

(* the value: the double nearest to  (digits of int and frac part) * 10^(exponent - |frac|)  *)
Definition float_value (fl : float_lit) : f64 :=
  f_of_decimal (digits_val (fl_int fl ++ frac_digits (fl_frac fl)))
               (exp_val (fl_exp fl) - Z.of_nat (length (frac_digits (fl_frac fl)))).

(* a float form that is not an int form: it has a dot or an exponent *)
Definition has_dot_or_exp (fl : float_lit) : Prop := fl_frac fl <> None \/ fl_exp fl <> NoExp.
Definition float_form (w : str) : Prop := exists fl, float_wf fl /\ has_dot_or_exp fl /\ w = float_text fl.

Definition signed_exp (fl : float_lit) : Prop :=
  match fl_exp fl with Exp _ SPlus _ | Exp _ SMinus _ => True | _ => False end.

Definition bool_word (w : str) : Prop := w = s2l "true"%string \/ w = s2l "false"%string.

(* KNOWN FINDING: these words (in any letter case) are Float tokens in the code, not identifiers *)
Definition special_float_word (w : str) : Prop :=
  let l := map lower_ascii w in
  l = s2l "inf"%string \/ l = s2l "infinity"%string \/ l = s2l "nan"%string.

(* ------------------------------------------------------------------------------------------ *)
(** * Lexemes *)

Inductive oplex :=
| XPlus | XMinus | XStar | XSlash | XPercent | XHat
| XEq | XNeq | XGt | XLt | XGeq | XLeq | XAnd | XOr | XNot
| XLBrace | XRBrace
| XAssign | XPlusAssign | XMinusAssign | XStarAssign | XSlashAssign | XPercentAssign | XHatAssign
| XAndAssign | XOrAssign
| XComma | XSemicolon.

Definition op_text (o : oplex) : str :=
  s2l match o with
      | XPlus => "+" | XMinus => "-" | XStar => "*" | XSlash => "/" | XPercent => "%" | XHat => "^"
      | XEq => "==" | XNeq => "!=" | XGt => ">" | XLt => "<" | XGeq => ">=" | XLeq => "<="
      | XAnd => "&&" | XOr => "||" | XNot => "!"
      | XLBrace => "(" | XRBrace => ")"
      | XAssign => "=" | XPlusAssign => "+=" | XMinusAssign => "-=" | XStarAssign => "*="
      | XSlashAssign => "/=" | XPercentAssign => "%=" | XHatAssign => "^="
      | XAndAssign => "&&=" | XOrAssign => "||="
      | XComma => "," | XSemicolon => ";"
      end%string.

Definition op_token (o : oplex) : token :=
  match o with
  | XPlus => TPlus | XMinus => TMinus | XStar => TStar | XSlash => TSlash | XPercent => TPercent | XHat => THat
  | XEq => TEq | XNeq => TNeq | XGt => TGt | XLt => TLt | XGeq => TGeq | XLeq => TLeq
  | XAnd => TAnd | XOr => TOr | XNot => TNot
  | XLBrace => TLBrace | XRBrace => TRBrace
  | XAssign => TAssign | XPlusAssign => TPlusAssign | XMinusAssign => TMinusAssign | XStarAssign => TStarAssign
  | XSlashAssign => TSlashAssign | XPercentAssign => TPercentAssign | XHatAssign => THatAssign
  | XAndAssign => TAndAssign | XOrAssign => TOrAssign
  | XComma => TComma | XSemicolon => TSemicolon
  end.

(* A lexeme: a word (identifier, boolean, integer, float without a signed exponent, ...), a float
   literal with a signed exponent (1e-3: the one lexeme that contains an operator character),
   one of the 28 operator lexemes, or a quoted string. *)
Inductive lexeme :=
| LWord (w : str)
| LSci (fl : float_lit)
| LOp (o : oplex)
| LStr (t : str).

Definition lexeme_wf (l : lexeme) : Prop :=
  match l with
  | LWord w => word w
  | LSci fl => float_wf fl /\ signed_exp fl
  | LOp _ | LStr _ => True
  end.

Definition text (l : lexeme) : str :=
  match l with
  | LWord w => w
  | LSci fl => float_text fl
  | LOp o => op_text o
  | LStr t => quote t
  end.

(* ------------------------------------------------------------------------------------------ *)
(** * Separators *)

Definition contains (pat s : str) : Prop := exists a b, s = a ++ pat ++ b.

Inductive sep_item :=
| SWs (c : N)              (* one white-space scalar value *)
| SBlock (body : str)      (* /* body */ *)
| SLine (body : str).      (* // body newline *)

Definition item_wf (it : sep_item) : Prop :=
  match it with
  | SWs c => In c white_space
  | SBlock body => ~ contains [42; 47]%N body
  | SLine body => ~ In 10%N body
  end.

Definition item_text (it : sep_item) : str :=
  match it with
  | SWs c => [c]
  | SBlock body => [47; 42]%N ++ body ++ [42; 47]%N
  | SLine body => [47; 47]%N ++ body ++ [10%N]
  end.

Definition gap := list sep_item.
Definition gap_text (g : gap) : str := concat (map item_text g).

Definition begins_with_comment (g : gap) : Prop :=
  match g with SBlock _ :: _ | SLine _ :: _ => True | _ => False end.

(* ------------------------------------------------------------------------------------------ *)
(** * Which neighbours need a separator *)

Definition wordlike (l : lexeme) : bool := match l with LWord _ | LSci _ => true | _ => false end.
Definition first_char (l : lexeme) : N := hd 0%N (text l).

(* an operator lexeme that followed by '=' is (the beginning of) another operator lexeme *)
Definition takes_eq (l : lexeme) : bool :=
  match l with
  | LOp (XPlus | XMinus | XStar | XSlash | XPercent | XHat | XAssign | XNot | XGt | XLt | XAnd | XOr) => true
  | _ => false
  end.
Definition is_slash (l : lexeme) : bool := match l with LOp XSlash => true | _ => false end.

Definition fuses (l1 l2 : lexeme) : bool :=
  (wordlike l1 && wordlike l2)
  || (takes_eq l1 && (first_char l2 =? 61)%N)
  || (is_slash l1 && ((first_char l2 =? 47) || (first_char l2 =? 42))%N).

(* the leading word of a lexeme (what could complete  <l1> <sign>  to a scientific literal) *)
Definition sci_coeff (fl : float_lit) : str :=
  fl_int fl ++ frac_text (fl_frac fl) ++ match fl_exp fl with Exp upper _ _ => [if upper then 69%N else 101%N] | NoExp => [] end.
Definition first_word (l : lexeme) : option str :=
  match l with LWord w => Some w | LSci fl => Some (sci_coeff fl) | _ => None end.

(* l1 l2 l3 written without separators would be read as ONE scientific literal (1e - 3).
   (Then l1 ends in e/E and is itself neither a number nor a boolean: Proofs/C07.v sci_first_not_number.) *)
Definition sci (l1 l2 l3 : lexeme) : Prop :=
  exists w sg t, l1 = LWord w /\ l2 = LOp sg /\ (sg = XPlus \/ sg = XMinus) /\ first_word l3 = Some t /\
                 float_form (w ++ op_text sg ++ t).

(* ------------------------------------------------------------------------------------------ *)
(** * Joining lexemes with separators *)

(* seps[i] stands before lexeme i; seps[length ls] is the trailing separator; missing ones are empty *)
Definition gap_at (seps : list gap) (i : nat) : gap := nth i seps [].

Fixpoint join (ls : list lexeme) (seps : list gap) : str :=
  gap_text (hd [] seps) ++
  match ls with
  | [] => []
  | l :: ls' => text l ++ join ls' (tl seps)
  end.

Definition valid_seps (ls : list lexeme) (seps : list gap) : Prop :=
  (* every separator item is white space or a terminated comment *)
  (forall i, Forall item_wf (gap_at seps i)) /\
  (* every gap with `fuses` is non-empty *)
  (forall i l1 l2, nth_error ls i = Some l1 -> nth_error ls (S i) = Some l2 ->
                   fuses l1 l2 = true -> gap_at seps (S i) <> []) /\
  (* for every `sci` triple at least one of its two gaps is non-empty *)
  (forall i l1 l2 l3, nth_error ls i = Some l1 -> nth_error ls (S i) = Some l2 -> nth_error ls (S (S i)) = Some l3 ->
                      sci l1 l2 l3 -> gap_at seps (S i) <> [] \/ gap_at seps (S (S i)) <> []) /\
  (* READING DECISION: a gap directly after the lexeme "/" does not begin with a comment
     ("/" followed by "/*...*/" IS the comment opener "//") *)
  (forall i, nth_error ls i = Some (LOp XSlash) -> ~ begins_with_comment (gap_at seps (S i))).

Definition lexemes_wf (ls : list lexeme) : Prop := Forall lexeme_wf ls.
