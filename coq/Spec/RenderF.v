(* End-to-end reference, FLOAT LITERALS INCLUDED.

   Spec/Render.v goes from tokens to lexemes with a FUNCTION (lexemes_of), which has no case for
   TFloat: there is no float printer.  Here the connection is the RELATION

       lexemes_wf ls  /\  map lexeme_token ls = flatten e

   ("ls is a well-formed lexeme list that denotes the tokens of e"), which needs no printer: every
   spelling of a float literal (1.5, 1.50, 15e-1, .5, 10., 2E+3 ...) is a lexeme that denotes the token
   TFloat (float_value fl).  Nothing here runs the lexer or the builder. *)
From Coq Require Import Strings.String Floats.SpecFloat.
Require Import Model.Base Model.Syntax Model.F64 Model.Lexer.
Require Import Spec.OpTable Spec.Grammar Spec.LexSpec Spec.Render.

(* decidable version of LexSpec.signed_exp: the exponent is written with + or - *)
Definition signed_exp_b (fl : float_lit) : bool :=
  match fl_exp fl with Exp _ SPlus _ | Exp _ SMinus _ => true | _ => false end.

(* THE lexeme of a float literal: with a signed exponent it is the one lexeme that contains an
   operator character (LSci); otherwise its text is a word *)
Definition float_lexeme (fl : float_lit) : lexeme :=
  if signed_exp_b fl then LSci fl else LWord (float_text fl).

(* like Render.renderable_token, but a float token is allowed when it is the value of some decimal
   float literal (a literal with a dot or an exponent).  [float_value] is defined by
   F64.f_of_decimal; that this is the double nearest to the decimal number is a separate theorem
   (Props/FloatIEEE*.v). *)
Definition renderableF_token (t : token) : Prop :=
  match t with
  | TIdentifier w => renderable_ident w
  | TInt n => 0 <= n <= i64_max
  | TFloat x => exists fl : float_lit, float_wf fl /\ has_dot_or_exp fl /\ float_value fl = x
  | _ => True                                         (* operators, booleans, strings (any content) *)
  end.

Definition renderableF (e : expr) : Prop := Forall renderableF_token (flatten e).
