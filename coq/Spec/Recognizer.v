(* C13 reference: which token sequences are well formed, which trees have a wrong operand count,
   and the in-order token rendering of a tree.

   Nothing here looks at the builder (src/tree/mod.rs) or at the generated tables: the recogniser is
   a parenthesis counter plus a small automaton over tokens; the arity of an operator is given by its
   SHAPE (leaf / prefix / infix / root / sequence), listed here by hand. *)
Require Import Model.Base Model.Syntax.

(* ------------------------------------------------------------------------------------------ *)
(* 1. Operators by shape                                                                        *)

Inductive op_shape := SRoot | STuple | SChain | SLeaf | SPrefix | SInfix.

Definition shape_of (o : operator) : op_shape :=
  match o with
  | ORootNode => SRoot
  | OTuple => STuple
  | OChain => SChain
  | OConst _ | OVariableIdentifierWrite _ | OVariableIdentifierRead _ => SLeaf
  | ONeg | ONot | OFunctionIdentifier _ => SPrefix
  | OAdd | OSub | OMul | ODiv | OMod | OExp
  | OEq | ONeq | OGt | OLt | OGeq | OLeq | OAnd | OOr
  | OAssign | OAddAssign | OSubAssign | OMulAssign | ODivAssign | OModAssign | OExpAssign
  | OAndAssign | OOrAssign => SInfix
  end.

Definition is_seq_op (o : operator) : bool :=
  match o with OTuple | OChain => true | _ => false end.
Definition is_root_op (o : operator) : bool :=
  match o with ORootNode => true | _ => false end.
Definition is_fn_op (o : operator) : bool :=
  match o with OFunctionIdentifier _ => true | _ => false end.

(* the number of operands an operator requires: leaves 0, prefix operators and function calls 1,
   infix and assignment operators 2, a RootNode (parenthesis / expression root) at most 1,
   `,` and `;` any number *)
Definition arity_fits (o : operator) (k : nat) : bool :=
  match shape_of o with
  | SLeaf => Nat.eqb k 0
  | SPrefix => Nat.eqb k 1
  | SInfix => Nat.eqb k 2
  | SRoot => Nat.leb k 1
  | STuple | SChain => true
  end.

(* some node of the tree has a number of children its operator does not accept *)
Fixpoint has_bad_arity (n : node) : bool :=
  match n with
  | Node o ch => negb (arity_fits o (length ch)) || existsb has_bad_arity ch
  end.

(* ------------------------------------------------------------------------------------------ *)
(* 2. The in-order token rendering of a tree                                                    *)

(* the token an operator was made from (TMinus for both Sub and Neg; an identifier for the three
   identifier classes; nothing for the structural operators and for constants no token denotes) *)
Definition op_token (o : operator) : list token :=
  match o with
  | ORootNode | OTuple | OChain => []
  | OAdd => [TPlus] | OSub => [TMinus] | ONeg => [TMinus]
  | OMul => [TStar] | ODiv => [TSlash] | OMod => [TPercent] | OExp => [THat]
  | OEq => [TEq] | ONeq => [TNeq] | OGt => [TGt] | OLt => [TLt] | OGeq => [TGeq] | OLeq => [TLeq]
  | OAnd => [TAnd] | OOr => [TOr] | ONot => [TNot]
  | OAssign => [TAssign] | OAddAssign => [TPlusAssign] | OSubAssign => [TMinusAssign]
  | OMulAssign => [TStarAssign] | ODivAssign => [TSlashAssign] | OModAssign => [TPercentAssign]
  | OExpAssign => [THatAssign] | OAndAssign => [TAndAssign] | OOrAssign => [TOrAssign]
  | OConst (VFloat f) => [TFloat f]
  | OConst (VInt i) => [TInt i]
  | OConst (VBool b) => [TBoolean b]
  | OConst (VString s) => [TString s]
  | OConst (VTuple _) | OConst VEmpty => []
  | OVariableIdentifierWrite s | OVariableIdentifierRead s | OFunctionIdentifier s => [TIdentifier s]
  end.

(* x1 sep x2 sep ... xn *)
Fixpoint join (sep : token) (ls : list (list token)) : list token :=
  match ls with
  | [] => []
  | x :: r => match r with [] => x | _ :: _ => x ++ sep :: join sep r end
  end.

(* toks bare n.  A RootNode stands for a parenthesised group and renders as "(" children ")",
   except in a BARE position, where the parentheses were never written: the root of the whole
   tree and the per-element roots directly below a Tuple or Chain. *)
Fixpoint toks (bare : bool) (n : node) : list token :=
  match n with
  | Node o ch =>
      match shape_of o with
      | SRoot =>
          if bare then concat (map (toks false) ch)
          else TLBrace :: concat (map (toks false) ch) ++ [TRBrace]
      | STuple => join TComma (map (toks true) ch)
      | SChain => join TSemicolon (map (toks true) ch)
      | SLeaf | SPrefix => op_token o ++ concat (map (toks false) ch)
      | SInfix =>
          match ch with
          | [] => op_token o
          | c :: r => toks false c ++ op_token o ++ concat (map (toks false) r)
          end
      end
  end.

Definition tokens_of_top (n : node) : list token := toks true n.

(* ------------------------------------------------------------------------------------------ *)
(* 3. The recogniser                                                                            *)

(* parentheses: never more closed than opened, all closed at the end *)
Fixpoint balanced_from (d : nat) (ts : list token) : bool :=
  match ts with
  | [] => Nat.eqb d 0
  | TLBrace :: r => balanced_from (S d) r
  | TRBrace :: r => match d with O => false | S d' => balanced_from d' r end
  | _ :: r => balanced_from d r
  end.
Definition balanced (ts : list token) : bool := balanced_from 0 ts.

(* a token that can begin an operand without being an operator: a literal, an identifier, "(" *)
Definition starts_value (t : token) : bool :=
  match t with
  | TLBrace | TIdentifier _ | TFloat _ | TInt _ | TBoolean _ | TString _ => true
  | _ => false
  end.

(* the automaton.  NeedOpt: an operand is expected but may be absent (start of input, after "(",
   "," or ";": the empty sequence element).  Need: an operand is required (after an infix or prefix
   operator or a function name).  Have: an operand is complete, an operator is expected. *)
Inductive rstate := NeedOpt | Need | Have.

Definition expects_operand (s : rstate) : bool := match s with Have => false | _ => true end.
Definition may_close (s : rstate) : bool := match s with Need => false | _ => true end.

Fixpoint run (s : rstate) (ts : list token) : bool :=
  match ts with
  | [] => may_close s
  | t :: r =>
      match t with
      | TFloat _ | TInt _ | TBoolean _ | TString _ => expects_operand s && run Have r
      | TIdentifier _ =>
          (* function application: an identifier directly followed by a value token is a function
             name and still needs its argument *)
          expects_operand s &&
          match r with
          | nx :: _ => if starts_value nx then run Need r else run Have r
          | [] => run Have r
          end
      | TLBrace => expects_operand s && run NeedOpt r
      | TRBrace => may_close s && run Have r
      | TComma | TSemicolon => may_close s && run NeedOpt r
      | TNot => expects_operand s && run Need r
      | TMinus => run Need r            (* prefix when an operand is expected, infix otherwise *)
      | _ => negb (expects_operand s) && run Need r       (* the infix and assignment operators *)
      end
  end.

Definition wellformed (ts : list token) : bool := balanced ts && run NeedOpt ts.

(* ------------------------------------------------------------------------------------------ *)
(* 4. Trees the recogniser can be asked about                                                   *)

Definition lsided_start (l : list token) : bool :=
  match l with t :: _ => starts_value t | [] => false end.

(* Shape conditions that every tree built from tokens satisfies (Props/C13.v, C13_built_tree_ok):
   - `,` and `;` nodes occur only directly below a RootNode or another `,`/`;` node;
   - every constant is one a token can denote;
   - the argument of a function identifier begins with a value token (that is what made the
     identifier a function identifier).
   They say nothing about operand counts. *)
Inductive tree_ok : node -> Prop :=
| tree_ok_node o ch :
    Forall tree_ok ch ->
    (is_seq_op o = false -> is_root_op o = false -> Forall (fun c => is_seq_op (nop c) = false) ch) ->
    (is_seq_op o = false -> is_root_op o = false -> exists t, op_token o = [t]) ->
    (is_fn_op o = true -> ch <> [] -> lsided_start (concat (map (toks false) ch)) = true) ->
    tree_ok (Node o ch).
