(* C15: threads that share only immutable data and keep their working state private.
   A generic interleaving semantics: `step d s` is one atomic step of a thread with private state s over
   the shared immutable datum d; a schedule is the list of thread indices in the order the hardware runs them. *)
From Coq Require Import List Arith Lia.
Import ListNotations.

Section Interleave.
Variable shared : Type.      (* Arc<Node>, Arc<HashMapContext>: never written *)
Variable state : Type.       (* the private stack / registers of one thread *)
Variable step : shared -> state -> state.

(* apply f to the i-th element *)
Fixpoint update (l : list state) (i : nat) (f : state -> state) : list state :=
  match l, i with
  | [], _ => []
  | x :: l', O => f x :: l'
  | x :: l', S i' => x :: update l' i' f
  end.

(* run a schedule: each entry lets one thread take one step *)
Fixpoint run_schedule (d : shared) (threads : list state) (schedule : list nat) : list state :=
  match schedule with
  | [] => threads
  | i :: rest => run_schedule d (update threads i (step d)) rest
  end.

(* a thread running alone for n steps *)
Fixpoint run_alone (d : shared) (s : state) (n : nat) : state :=
  match n with O => s | S n' => run_alone d (step d s) n' end.

Definition steps_of (i : nat) (schedule : list nat) : nat := count_occ Nat.eq_dec schedule i.

End Interleave.
