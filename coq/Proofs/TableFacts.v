(* The GENERATED tables (Gen/Tables.v, dumped from the crate on every run) against the DOCUMENTED ones
   (Spec/Grammar.v, transcribed from README.md), by finite case analysis.

   Every proof about the builder (Proofs/C02.v, Proofs/C05.v) uses the generated tables ONLY through the
   lemmas of this file: a harmless renumbering of the precedences keeps all of them (the precedence
   lemma is an ORDER isomorphism, not an equality of numbers); a swapped precedence, a flipped
   associativity or a changed arity breaks exactly this file. *)
From Coq Require Import Floats.SpecFloat.
Require Import Model.Base Model.Syntax Gen.Tables Model.Builder.
Require Import Spec.OpTable Spec.Grammar.

(* ---- the five operator tables ---- *)

Lemma prec_order_iso : forall a b : op_kind, (impl_prec a ?= impl_prec b) = (doc_prec a ?= doc_prec b).
Proof. intros a b; destruct a, b; reflexivity. Qed.

Lemma ltr_agree : forall k : op_kind, impl_ltr k = negb (doc_rtl k).
Proof. intros k; destruct k; reflexivity. Qed.

Lemma max_args_agree : forall k : op_kind, impl_max_args k = doc_arity k.
Proof. intros k; destruct k; reflexivity. Qed.

Lemma is_unary_agree : forall k : op_kind, impl_is_unary k = doc_prefix k.
Proof. intros k; destruct k; reflexivity. Qed.

Lemma is_leaf_agree : forall k : op_kind, impl_is_leaf k = doc_atom k.
Proof. intros k; destruct k; reflexivity. Qed.

Lemma is_sequence_agree : forall k : op_kind, impl_is_sequence k = doc_sequence k.
Proof. intros k; destruct k; reflexivity. Qed.

(* ---- the three token tables ---- *)

Lemma tok_rightsided_agree : forall t : token, is_rightsided_value t = ends_operand t.
Proof. intros t; destruct t; reflexivity. Qed.

Lemma tok_leftsided_agree : forall t : token, is_leftsided_value t = starts_operand t.
Proof. intros t; destruct t; reflexivity. Qed.

Lemma tok_assignment_agree : forall t : token, is_assignment t = assignment_token t.
Proof. intros t; destruct t; reflexivity. Qed.

(* ---- consequences, in the vocabulary of Model/Builder.v ---- *)

Lemma prec_ltb (a b : operator) :
  (precedence a <? precedence b) = (doc_prec (kind_of a) <? doc_prec (kind_of b)).
Proof. unfold precedence, Z.ltb. rewrite prec_order_iso. reflexivity. Qed.

Lemma prec_eqb (a b : operator) :
  (precedence a =? precedence b) = (doc_prec (kind_of a) =? doc_prec (kind_of b)).
Proof. unfold precedence. rewrite !Z.eqb_compare, prec_order_iso. reflexivity. Qed.

(* the descend test of insert_back_prioritized, in documented terms *)
Lemma descends_doc (a n : operator) :
  descends a n = below (kind_of a) (kind_of n) || doc_prefix (kind_of n).
Proof.
  unfold descends, below. rewrite prec_ltb, prec_eqb.
  unfold is_left_to_right, is_unary. rewrite !ltr_agree, is_unary_agree, !negb_involutive.
  destruct (doc_prec (kind_of a) <? doc_prec (kind_of n)), (doc_prefix (kind_of n)),
    (doc_prec (kind_of a) =? doc_prec (kind_of n)), (doc_rtl (kind_of a)), (doc_rtl (kind_of n)); reflexivity.
Qed.

Lemma is_leaf_doc (o : operator) : is_leaf o = doc_atom (kind_of o).
Proof. apply is_leaf_agree. Qed.
Lemma is_unary_doc (o : operator) : is_unary o = doc_prefix (kind_of o).
Proof. apply is_unary_agree. Qed.
Lemma is_sequence_doc (o : operator) : is_sequence o = doc_sequence (kind_of o).
Proof. apply is_sequence_agree. Qed.
Lemma max_args_doc (o : operator) : max_argument_amount o = doc_arity (kind_of o).
Proof. apply max_args_agree. Qed.

(* the five operator tables at once (Props/C02.v: C02_tables) *)
Lemma tables_agree :
  (forall a b : op_kind, (impl_prec a ?= impl_prec b) = (doc_prec a ?= doc_prec b)) /\
  (forall k : op_kind, impl_ltr k = negb (doc_rtl k)) /\
  (forall k : op_kind, impl_max_args k = doc_arity k) /\
  (forall k : op_kind, impl_is_unary k = doc_prefix k) /\
  (forall k : op_kind, impl_is_leaf k = doc_atom k).
Proof. exact (conj prec_order_iso (conj ltr_agree (conj max_args_agree (conj is_unary_agree is_leaf_agree)))). Qed.
