(* Facts about the generated tables (Gen/Tables.v), each proved by finite case analysis, and basic
   lemmas about on_last / split_last / insert_back_prioritized.

   Proofs/C13.v and Proofs/C01Build.v use the tables ONLY through the lemmas of this file (they
   declare the tables opaque).  A renumbering of the precedences that keeps their order leaves all
   proofs intact; a real change of a table breaks a lemma of Section 1. *)
Require Import Model.Base Model.Syntax Gen.Tables Model.Builder.
Require Import Spec.Recognizer Proofs.Common.

(* ------------------------------------------------------------------------------------------ *)
(* 1. Table facts, on kinds                                                                     *)

Definition kind_shape (k : op_kind) : op_shape :=
  match k with
  | QRootNode => SRoot | QTuple => STuple | QChain => SChain
  | QConst | QVariableIdentifierWrite | QVariableIdentifierRead => SLeaf
  | QNeg | QNot | QFunctionIdentifier => SPrefix
  | _ => SInfix
  end.

Lemma kind_shape_of o : kind_shape (kind_of o) = shape_of o.
Proof. destruct o; reflexivity. Qed.

(* leaves are exactly Const / VariableIdentifierWrite / VariableIdentifierRead *)
Lemma tf_is_leaf k : impl_is_leaf k = match kind_shape k with SLeaf => true | _ => false end.
Proof. destruct k; reflexivity. Qed.

(* unary = Neg / Not / FunctionIdentifier *)
Lemma tf_is_unary k : impl_is_unary k = match kind_shape k with SPrefix => true | _ => false end.
Proof. destruct k; reflexivity. Qed.

(* sequences = Tuple / Chain *)
Lemma tf_is_sequence k :
  impl_is_sequence k = match kind_shape k with STuple | SChain => true | _ => false end.
Proof. destruct k; reflexivity. Qed.

(* max_argument_amount: leaves 0, unary and RootNode 1, binary and assignment 2, sequences None *)
Lemma tf_max_args k :
  impl_max_args k =
  match kind_shape k with
  | SLeaf => Some 0%N | SPrefix | SRoot => Some 1%N | SInfix => Some 2%N | STuple | SChain => None
  end.
Proof. destruct k; reflexivity. Qed.

(* RootNode has the top precedence ... *)
Lemma tf_prec_root_max k : impl_prec k <= impl_prec QRootNode.
Proof. destruct k; vm_compute; discriminate. Qed.

(* ... shared by the leaves ... *)
Lemma tf_prec_leaf k : kind_shape k = SLeaf -> impl_prec k = impl_prec QRootNode.
Proof. destruct k; cbn [kind_shape]; intros H; try discriminate H; reflexivity. Qed.

(* ... and by nothing else *)
Lemma tf_prec_lt k : kind_shape k <> SLeaf -> kind_shape k <> SRoot -> impl_prec k < impl_prec QRootNode.
Proof. destruct k; cbn [kind_shape]; intros H1 H2; try congruence; reflexivity. Qed.

Lemma tf_ltr_root : impl_ltr QRootNode = true. Proof. reflexivity. Qed.
Lemma tf_ltr_leaf k : kind_shape k = SLeaf -> impl_ltr k = true.
Proof. destruct k; cbn [kind_shape]; intros H; try discriminate H; reflexivity. Qed.

(* `;` binds weaker than `,` *)
Lemma tf_prec_chain_tuple : impl_prec QChain < impl_prec QTuple. Proof. reflexivity. Qed.

(* token classes *)
Lemma tf_tok_leftsided t : impl_tok_leftsided (kind_of_token t) = starts_value t.
Proof. destruct t; reflexivity. Qed.

Definition ends_value (t : token) : bool :=
  match t with
  | TRBrace | TIdentifier _ | TFloat _ | TInt _ | TBoolean _ | TString _ => true
  | _ => false
  end.
Lemma tf_tok_rightsided t : impl_tok_rightsided (kind_of_token t) = ends_value t.
Proof. destruct t; reflexivity. Qed.

Definition assigns (t : token) : bool :=
  match t with
  | TAssign | TPlusAssign | TMinusAssign | TStarAssign | TSlashAssign | TPercentAssign | THatAssign
  | TAndAssign | TOrAssign => true
  | _ => false
  end.
Lemma tf_tok_assignment t : impl_tok_assignment (kind_of_token t) = assigns t.
Proof. destruct t; reflexivity. Qed.

Lemma tf_tok_assignment_not_leftsided t :
  impl_tok_assignment (kind_of_token t) = true -> starts_value t = false.
Proof. destruct t; cbn; intros H; try discriminate H; reflexivity. Qed.

(* ------------------------------------------------------------------------------------------ *)
(* 2. The same facts on operators, in the vocabulary of Model/Builder.v                          *)

Lemma is_leaf_shape o : is_leaf o = match shape_of o with SLeaf => true | _ => false end.
Proof. unfold is_leaf. rewrite tf_is_leaf, kind_shape_of. reflexivity. Qed.
Lemma is_unary_shape o : is_unary o = match shape_of o with SPrefix => true | _ => false end.
Proof. unfold is_unary. rewrite tf_is_unary, kind_shape_of. reflexivity. Qed.
Lemma is_sequence_shape o : is_sequence o = match shape_of o with STuple | SChain => true | _ => false end.
Proof. unfold is_sequence. rewrite tf_is_sequence, kind_shape_of. reflexivity. Qed.
Lemma max_args_shape o :
  max_argument_amount o =
  match shape_of o with
  | SLeaf => Some 0%N | SPrefix | SRoot => Some 1%N | SInfix => Some 2%N | STuple | SChain => None
  end.
Proof. unfold max_argument_amount. rewrite tf_max_args, kind_shape_of. reflexivity. Qed.

Lemma is_sequence_seq_op o : is_sequence o = is_seq_op o.
Proof. rewrite is_sequence_shape. destruct o; reflexivity. Qed.
Lemma is_root_shape o : is_root o = match shape_of o with SRoot => true | _ => false end.
Proof. destruct o; reflexivity. Qed.
Lemma is_root_root_op o : is_root o = is_root_op o.
Proof. destruct o; reflexivity. Qed.
Lemma is_root_eq o : is_root o = true -> o = ORootNode.
Proof. destruct o; cbn; intros H; try discriminate H; reflexivity. Qed.

Lemma prec_root_max o : precedence o <= precedence ORootNode.
Proof. apply tf_prec_root_max. Qed.
Lemma prec_leaf o : shape_of o = SLeaf -> precedence o = precedence ORootNode.
Proof. intros H. apply tf_prec_leaf. rewrite kind_shape_of. exact H. Qed.
Lemma prec_lt_root o : shape_of o <> SLeaf -> shape_of o <> SRoot -> precedence o < precedence ORootNode.
Proof. intros H1 H2. apply tf_prec_lt; rewrite kind_shape_of; assumption. Qed.
Lemma ltr_root : is_left_to_right ORootNode = true. Proof. exact tf_ltr_root. Qed.
Lemma ltr_leaf o : shape_of o = SLeaf -> is_left_to_right o = true.
Proof. intros H. apply tf_ltr_leaf. rewrite kind_shape_of. exact H. Qed.
Lemma prec_chain_tuple : (precedence OChain <? precedence OTuple) = true.
Proof. apply Z.ltb_lt. exact tf_prec_chain_tuple. Qed.
Lemma prec_tuple_chain : (precedence OTuple <? precedence OChain) = false.
Proof. apply Z.ltb_ge. pose proof tf_prec_chain_tuple. unfold precedence. cbn [kind_of]. lia. Qed.

Lemma is_leftsided_starts t : is_leftsided_value t = starts_value t.
Proof. apply tf_tok_leftsided. Qed.
Lemma is_rightsided_ends t : is_rightsided_value t = ends_value t.
Proof. apply tf_tok_rightsided. Qed.
Lemma is_assignment_assigns t : is_assignment t = assigns t.
Proof. apply tf_tok_assignment. Qed.
Lemma is_assignment_not_starts t : is_assignment t = true -> starts_value t = false.
Proof. apply tf_tok_assignment_not_leftsided. Qed.

(* consequences for the descend test *)
Lemma descends_unary a n : is_unary n = true -> descends a n = true.
Proof. intros H. unfold descends. rewrite H, orb_true_r. reflexivity. Qed.

(* only a unary operator descends below a RootNode or a leaf *)
Lemma descends_top a n :
  precedence a = precedence ORootNode -> is_left_to_right a = true ->
  descends a n = true -> is_unary n = true.
Proof.
  intros Hp Hl H. unfold descends in H. rewrite Hl in H. cbn [negb] in H.
  rewrite andb_false_r, andb_false_l, orb_false_r in H.
  apply orb_prop in H. destruct H as [H|H]; [|exact H].
  apply Z.ltb_lt in H. pose proof (prec_root_max n). lia.
Qed.
Lemma descends_root n : descends ORootNode n = true -> is_unary n = true.
Proof. apply descends_top; [reflexivity|exact ltr_root]. Qed.
Lemma descends_leaf a n : shape_of a = SLeaf -> descends a n = true -> is_unary n = true.
Proof. intros H. apply descends_top; [apply prec_leaf; exact H|apply ltr_leaf; exact H]. Qed.

(* has_enough_children / has_too_many_children by shape *)
Definition shape_max (s : op_shape) : option nat :=
  match s with SLeaf => Some 0 | SPrefix | SRoot => Some 1 | SInfix => Some 2 | STuple | SChain => None end%nat.

Lemma has_enough_shape o (ch : list node) :
  has_enough_children o ch = match shape_max (shape_of o) with Some m => Nat.eqb (length ch) m | None => false end.
Proof.
  unfold has_enough_children, len. rewrite max_args_shape.
  destruct (shape_of o); cbn [shape_max]; try reflexivity.
  all: match goal with |- N.eqb _ ?m = Nat.eqb _ ?k =>
         destruct (Nat.eqb_spec (length ch) k) as [E|E]; [rewrite E; reflexivity|apply N.eqb_neq; lia] end.
Qed.

Lemma has_too_many_shape o (ch : list node) :
  has_too_many_children o ch = match shape_max (shape_of o) with Some m => Nat.ltb m (length ch) | None => false end.
Proof.
  unfold has_too_many_children, len. rewrite max_args_shape.
  destruct (shape_of o); cbn [shape_max]; try reflexivity.
  all: match goal with |- N.ltb ?m _ = Nat.ltb ?k _ =>
         destruct (Nat.ltb_spec k (length ch)) as [E|E]; [apply N.ltb_lt; lia|apply N.ltb_ge; lia] end.
Qed.

(* the justification of the four unwrap()s: enough children on a non-leaf means a child exists *)
Lemma has_enough_nonempty o (ch : list node) :
  has_enough_children o ch = true -> is_leaf o = false -> ch <> [].
Proof.
  rewrite has_enough_shape, is_leaf_shape. destruct (shape_of o); cbn [shape_max]; intros H1 H2; try discriminate.
  all: intros ->; discriminate.
Qed.

(* ------------------------------------------------------------------------------------------ *)
(* 3. Nodes: induction, size                                                                    *)

Lemma node_ind' (P : node -> Prop) :
  (forall o ch, Forall P ch -> P (Node o ch)) -> forall n, P n.
Proof.
  intros H. fix IH 1. intros [o ch]. apply H.
  induction ch as [|c ch IHch]; constructor; [apply IH|exact IHch].
Qed.

Fixpoint node_size (n : node) : nat :=
  match n with Node _ ch => S (list_sum (map node_size ch)) end.

Lemma node_size_last o init lc : (node_size lc < node_size (Node o (init ++ [lc])))%nat.
Proof. cbn [node_size]. rewrite map_app, list_sum_app. cbn. lia. Qed.

(* ------------------------------------------------------------------------------------------ *)
(* 4. on_last, split_last                                                                       *)

Lemma on_last_cons {A} site (g : A -> outcome A) a rest : rest <> [] ->
  on_last site g (a :: rest) = do r <- on_last site g rest; Ok (a :: r).
Proof. destruct rest; [congruence|reflexivity]. Qed.

Lemma on_last_app {A} site (g : A -> outcome A) l x :
  on_last site g (l ++ [x]) = do y <- g x; Ok (l ++ [y]).
Proof.
  induction l as [|a l IH].
  - reflexivity.
  - cbn [app]. rewrite on_last_cons by (destruct l; discriminate). rewrite IH. destruct (g x); reflexivity.
Qed.

Lemma snoc_cases {A} (l : list A) : l = [] \/ exists init z, l = init ++ [z].
Proof.
  induction l as [|a l IH]; [left; reflexivity|right].
  destruct IH as [->|(i & z & ->)]; [exists [], a|exists (a :: i), z]; reflexivity.
Qed.

Lemma on_last_inv {A} site (g : A -> outcome A) l r : on_last site g l = Ok r ->
  exists init lc lc', l = init ++ [lc] /\ g lc = Ok lc' /\ r = init ++ [lc'].
Proof.
  intros H. destruct (snoc_cases l) as [->|(i & z & ->)]; [discriminate H|].
  rewrite on_last_app in H. destruct (g z) as [y| |] eqn:E; try discriminate H.
  cbn [bind] in H. inversion H. exists i, z, y. auto.
Qed.

Lemma on_last_not_panic {A} site (g : A -> outcome A) l :
  l <> [] -> (forall x, is_panic (g x) = false) -> is_panic (on_last site g l) = false.
Proof.
  intros Hl Hg. destruct (snoc_cases l) as [->|(i & z & ->)]; [congruence|].
  rewrite on_last_app. specialize (Hg z). destruct (g z); cbn in *; congruence.
Qed.

Lemma split_last_app {A} (l : list A) z : split_last (l ++ [z]) = Some (l, z).
Proof.
  induction l as [|a l IH]; [reflexivity|].
  cbn [app split_last]. rewrite IH. destruct (l ++ [z]) eqn:E; [destruct l; discriminate E|reflexivity].
Qed.
Lemma split_last_nil {A} : @split_last A [] = None. Proof. reflexivity. Qed.

(* ------------------------------------------------------------------------------------------ *)
(* 5. insert_back_prioritized: unfolding, case analysis, induction principle                     *)

Lemma insert_unfold so sch n b :
  insert_back_prioritized (Node so sch) n b =
  if descends so (nop n) || b then
    if is_leaf so then Err EAppendedToLeafNode
    else if has_enough_children so sch then
      do ch' <- on_last 10
                  (fun lc => if descends (nop lc) (nop n) then insert_back_prioritized lc n false
                             else rotate so (Nat.ltb 1 (length sch)) n lc) sch;
      Ok (Node so ch')
    else match max_argument_amount (nop n) with
         | Some 2%N => Err (EWrongOperatorArgumentAmount 2 0)
         | _ => Ok (Node so (sch ++ [n]))
         end
  else Err EPrecedenceViolation.
Proof. reflexivity. Qed.

Lemma rotate_ok so ne n lc r : rotate so ne n lc = Ok r ->
  is_leaf (nop n) = false /\ is_root (nop n) = false /\ (is_root so = true -> ne = false) /\
  r = Node (nop n) (nch n ++ [lc]).
Proof.
  unfold rotate. destruct (is_leaf (nop n)); [discriminate|].
  destruct (is_root so && ne) eqn:E1; [discriminate|].
  destruct (is_root so && is_root (nop n)); [discriminate|].
  destruct (is_root (nop n)) eqn:E3; [discriminate|]. cbn [andb].
  intros H. inversion H. repeat split.
  intros Hr. rewrite Hr in E1. exact E1.
Qed.

Lemma rotate_not_panic so ne n lc : is_panic (rotate so ne n lc) = false.
Proof. unfold rotate. repeat match goal with |- context [if ?c then _ else _] => destruct c end; reflexivity. Qed.

(* The three ways an insertion succeeds. *)
Lemma insert_ind (P : node -> node -> bool -> node -> Prop) :
  (* "inserting as specified": a free slot *)
  (forall so sch n b,
      descends so (nop n) || b = true -> is_leaf so = false -> has_enough_children so sch = false ->
      max_argument_amount (nop n) <> Some 2%N ->
      P (Node so sch) n b (Node so (sch ++ [n]))) ->
  (* descend into the last child *)
  (forall so init lc lc' n b,
      descends so (nop n) || b = true -> is_leaf so = false -> has_enough_children so (init ++ [lc]) = true ->
      descends (nop lc) (nop n) = true -> insert_back_prioritized lc n false = Ok lc' ->
      P lc n false lc' ->
      P (Node so (init ++ [lc])) n b (Node so (init ++ [lc']))) ->
  (* rotate: the new node adopts the last child *)
  (forall so init lc n b,
      descends so (nop n) || b = true -> is_leaf so = false -> has_enough_children so (init ++ [lc]) = true ->
      descends (nop lc) (nop n) = false -> is_leaf (nop n) = false -> is_root (nop n) = false ->
      (is_root so = true -> init = []) ->
      P (Node so (init ++ [lc])) n b (Node so (init ++ [Node (nop n) (nch n ++ [lc])]))) ->
  forall self n b r, insert_back_prioritized self n b = Ok r -> P self n b r.
Proof.
  intros Hpush Hdesc Hrot self.
  remember (S (node_size self)) as m eqn:Em.
  assert (Hm : (node_size self < m)%nat) by lia. clear Em. revert self Hm.
  induction m as [|m IH]; [intros; lia|]. intros [so sch] Hm n b r H.
  rewrite insert_unfold in H.
  destruct (descends so (nop n) || b) eqn:Eg; [|discriminate H].
  destruct (is_leaf so) eqn:El; [discriminate H|].
  destruct (has_enough_children so sch) eqn:Een.
  - destruct (on_last 10 _ sch) as [c| |] eqn:Eo; try discriminate H. cbn [bind] in H.
    injection H as <-.
    apply on_last_inv in Eo. destruct Eo as (init & lc & lc' & E1 & E2 & E3). subst sch c.
    destruct (descends (nop lc) (nop n)) eqn:Ed.
    + apply Hdesc; auto. apply IH; [|exact E2]. pose proof (node_size_last so init lc). lia.
    + apply rotate_ok in E2. destruct E2 as (Hl & Hr & Hne & ->).
      apply Hrot; auto. intros Hso. specialize (Hne Hso).
      rewrite app_length in Hne. cbn [length] in Hne.
      destruct init; [reflexivity|]. cbn [length] in Hne. apply Nat.ltb_ge in Hne. lia.
  - destruct (max_argument_amount (nop n)) as [[|[p|[p|p|]|]]|] eqn:Emx; try discriminate H.
    all: injection H as <-; apply Hpush; auto; rewrite Emx; discriminate.
Qed.

(* insertion keeps the operator of the node inserted into *)
Lemma insert_nop self n b r : insert_back_prioritized self n b = Ok r -> nop r = nop self.
Proof. revert self n b r. apply insert_ind; intros; reflexivity. Qed.

(* the errors insertion can raise *)
Definition insert_error (e : error) : Prop :=
  e = EAppendedToLeafNode \/ e = EPrecedenceViolation \/ e = EMissingOperatorOutsideOfBrace \/
  e = EWrongOperatorArgumentAmount 2 0.

Lemma rotate_err so ne n lc e : rotate so ne n lc = Err e -> insert_error e.
Proof.
  unfold rotate, insert_error.
  repeat match goal with |- context [if ?c then _ else _] => destruct c end; intros H; inversion H; auto.
Qed.

(* insertion never panics and raises only its own four errors; for ALL nodes, by the table facts alone *)
Lemma insert_outcome self n b :
  match insert_back_prioritized self n b with
  | Ok _ => True
  | Err e => insert_error e
  | Panic _ => False
  end.
Proof.
  remember (S (node_size self)) as m eqn:Em.
  assert (Hm : (node_size self < m)%nat) by lia. clear Em. revert self Hm b.
  induction m as [|m IH]; [intros; lia|]. intros [so sch] Hm b.
  rewrite insert_unfold. unfold insert_error.
  destruct (descends so (nop n) || b); [|auto].
  destruct (is_leaf so) eqn:El; [auto|].
  destruct (has_enough_children so sch) eqn:Een.
  - pose proof (has_enough_nonempty _ _ Een El) as Hne.
    destruct (snoc_cases sch) as [->|(init & lc & ->)]; [congruence|].
    rewrite on_last_app.
    destruct (descends (nop lc) (nop n)).
    + specialize (IH lc). pose proof (node_size_last so init lc) as Hs.
      assert (Hlt : (node_size lc < m)%nat) by lia. specialize (IH Hlt false).
      destruct (insert_back_prioritized lc n false); cbn [bind]; auto.
    + pose proof (rotate_not_panic so (Nat.ltb 1 (length (init ++ [lc]))) n lc) as Hp.
      destruct (rotate so (Nat.ltb 1 (length (init ++ [lc]))) n lc) as [x|e|s] eqn:Er; cbn [bind];
        [exact I|exact (rotate_err _ _ _ _ _ Er)|discriminate Hp].
  - destruct (max_argument_amount (nop n)) as [[|[p|[p|p|]|]]|]; auto.
Qed.

Lemma insert_no_panic self n b : is_panic (insert_back_prioritized self n b) = false.
Proof. pose proof (insert_outcome self n b) as H. destruct (insert_back_prioritized self n b); [reflexivity|reflexivity|contradiction]. Qed.

Lemma insert_err self n b e : insert_back_prioritized self n b = Err e -> insert_error e.
Proof. intros H. pose proof (insert_outcome self n b) as H'. rewrite H in H'. exact H'. Qed.
