(* C01, evaluation part: no builtin, no operator and no evaluator of the model ever returns Panic,
   for every tree (also hand-built ones with wrong arities), every context whose user functions do
   not panic, every argument value.  Props/C01.v is assembled from these lemmas. *)
From Coq Require Import Strings.String Floats.SpecFloat.
Require Import Model.Base Model.Syntax Model.F64 Model.Lexer Model.Builder Model.Value Model.Context
               Model.Builtins Model.Eval Model.Interface Model.Script.
Require Import Proofs.Common.

(* ---- the outcome monad ---- *)
Lemma np_bind {A B} (r : outcome A) (f : A -> outcome B) :
  is_panic r = false -> (forall a, is_panic (f a) = false) -> is_panic (bind r f) = false.
Proof. intros H1 H2. apply bind_not_panic; [exact H1|]. intros a _. apply H2. Qed.

Lemma np_as_number v : is_panic (as_number v) = false. Proof. destruct v; reflexivity. Qed.
Lemma np_as_int v : is_panic (as_int v) = false. Proof. destruct v; reflexivity. Qed.
Lemma np_as_string v : is_panic (as_string v) = false. Proof. destruct v; reflexivity. Qed.
Lemma np_as_boolean v : is_panic (as_boolean v) = false. Proof. destruct v; reflexivity. Qed.
Lemma np_as_tuple v : is_panic (as_tuple v) = false. Proof. destruct v; reflexivity. Qed.
Lemma np_expect_nos v : is_panic (expect_number_or_string v) = false. Proof. destruct v; reflexivity. Qed.
Lemma np_checked z e : is_panic (checked z e) = false.
Proof. unfold checked. destruct (in_i64 z); reflexivity. Qed.

(* ---- length checks dominate every indexing ---- *)
Lemma fixed_len_length v n t : as_fixed_len_tuple v n = Ok t -> N.of_nat (length t) = n.
Proof.
  destruct v; cbn; try discriminate. destruct (N.eqb (N.of_nat (length l)) n) eqn:E; [|discriminate].
  intros H. inversion H; subst t. apply N.eqb_eq. exact E.
Qed.
Lemma np_fixed_len v n : is_panic (as_fixed_len_tuple v n) = false.
Proof. destruct v; cbn; try reflexivity. destruct (N.eqb _ n); reflexivity. Qed.
Lemma ranged_len_length v lo hi t : as_ranged_len_tuple v lo hi = Ok t ->
  (lo <= N.of_nat (length t) <= hi)%N.
Proof.
  destruct v; cbn; try discriminate.
  destruct (N.leb lo (N.of_nat (length l)) && N.leb (N.of_nat (length l)) hi)%bool eqn:E; [|discriminate].
  intros H. inversion H; subst t. apply andb_prop in E. destruct E as [E1 E2]. apply N.leb_le in E1, E2. lia.
Qed.
Lemma np_ranged_len v lo hi : is_panic (as_ranged_len_tuple v lo hi) = false.
Proof. destruct v; cbn; try reflexivity. destruct (_ && _)%bool; reflexivity. Qed.

Lemma np_idx l i site : (i < length l)%nat -> exists v, idx l i site = Ok v.
Proof. intros H. unfold idx. destruct (nth_opt_some l i H) as [x ->]. eexists; reflexivity. Qed.

(* induction on trees with the nested list of children (as value_ind' in Proofs/Common.v) *)
Lemma node_ind' (P : node -> Prop) :
  (forall o ch, Forall P ch -> P (Node o ch)) -> forall n, P n.
Proof.
  intros H. fix IH 1. intros [o ch]. apply H.
  induction ch as [|x ch IHch]; constructor; [apply IH|exact IHch].
Qed.

Section WithOracle.
Variable O : std_oracle.

(* ================= builtins ================= *)
Lemma np_simple_math1 g a : is_panic (simple_math1 g a) = false.
Proof. unfold simple_math1. apply np_bind; [apply np_as_number|reflexivity]. Qed.
Lemma np_float_is p a : is_panic (float_is p a) = false.
Proof. unfold float_is. apply np_bind; [apply np_as_number|reflexivity]. Qed.
Lemma np_int_function1 g a : is_panic (int_function1 g a) = false.
Proof. unfold int_function1. apply np_bind; [apply np_as_int|reflexivity]. Qed.

Lemma np_simple_math2 g a : is_panic (simple_math2 g a) = false.
Proof.
  unfold simple_math2. apply bind_not_panic; [apply np_fixed_len|]. intros t Ht.
  apply fixed_len_length in Ht.
  destruct (np_idx t 0 40 ltac:(lia)) as [x ->]. destruct (np_idx t 1 41 ltac:(lia)) as [y ->]. cbn [bind].
  apply np_bind; [apply np_as_number|]. intros x'. apply np_bind; [apply np_as_number|reflexivity].
Qed.
Lemma np_int_function2 g a : is_panic (int_function2 g a) = false.
Proof.
  unfold int_function2. apply bind_not_panic; [apply np_fixed_len|]. intros t Ht.
  apply fixed_len_length in Ht.
  destruct (np_idx t 0 42 ltac:(lia)) as [x ->]. destruct (np_idx t 1 43 ltac:(lia)) as [y ->]. cbn [bind].
  apply np_bind; [apply np_as_int|]. intros x'. apply np_bind; [apply np_as_int|reflexivity].
Qed.

Lemma np_abs a : is_panic (b_abs a) = false.
Proof. destruct a; try reflexivity. cbn [b_abs]. apply np_bind; [apply np_checked|reflexivity]. Qed.
Lemma np_typeof a : is_panic (b_typeof a) = false. Proof. reflexivity. Qed.

Lemma np_beats sm a b : is_panic (beats sm a b) = false.
Proof.
  unfold beats. destruct a, b; try reflexivity;
    (apply np_bind; [apply np_as_number|]; intros x; apply np_bind; [apply np_as_number|reflexivity]).
Qed.
Lemma np_extremum_loop sm : forall l best, is_panic (extremum_loop sm best l) = false.
Proof.
  induction l as [|a l IH]; intros best; [reflexivity|]. cbn [extremum_loop].
  apply np_bind; [|intros b; apply IH].
  destruct best; [apply np_beats|]. apply np_bind; [apply np_as_number|reflexivity].
Qed.
Lemma np_extremum sm a : is_panic (extremum sm a) = false.
Proof.
  unfold extremum. apply np_bind; [destruct a; reflexivity|]. intros args.
  apply np_bind; [apply np_extremum_loop|]. intros [v|]; reflexivity.
Qed.

Lemma np_if a : is_panic (b_if a) = false.
Proof.
  unfold b_if. apply bind_not_panic; [apply np_fixed_len|]. intros t Ht. apply fixed_len_length in Ht.
  destruct (np_idx t 0 44 ltac:(lia)) as [x ->]. cbn [bind].
  apply np_bind; [apply np_as_boolean|]. intros c.
  destruct (np_idx t (if c then 1 else 2)%nat 45 ltac:(destruct c; lia)) as [y ->]. reflexivity.
Qed.

Lemma np_contains a : is_panic (b_contains a) = false.
Proof.
  unfold b_contains. apply bind_not_panic; [apply np_fixed_len|]. intros t Ht. apply fixed_len_length in Ht.
  destruct (np_idx t 0 46 ltac:(lia)) as [x ->]. destruct (np_idx t 1 47 ltac:(lia)) as [y ->]. cbn [bind].
  destruct x; try reflexivity. destruct (is_primitive y); reflexivity.
Qed.
Lemma np_contains_any_loop a : forall b found, is_panic (contains_any_loop a found b) = false.
Proof.
  induction b as [|v b IH]; intros found; [reflexivity|]. cbn [contains_any_loop].
  destruct (is_primitive v); [apply IH|reflexivity].
Qed.
Lemma np_contains_any a : is_panic (b_contains_any a) = false.
Proof.
  unfold b_contains_any. apply bind_not_panic; [apply np_fixed_len|]. intros t Ht. apply fixed_len_length in Ht.
  destruct (np_idx t 0 48 ltac:(lia)) as [x ->]. destruct (np_idx t 1 49 ltac:(lia)) as [y ->]. cbn [bind].
  destruct x; try reflexivity. destruct y; try reflexivity.
  apply np_bind; [apply np_contains_any_loop|reflexivity].
Qed.
Lemma np_len a : is_panic (b_len a) = false. Proof. destruct a; reflexivity. Qed.

Lemma np_substring a : is_panic (b_substring a) = false.
Proof.
  unfold b_substring. apply bind_not_panic; [apply np_ranged_len|]. intros t Ht. apply ranged_len_length in Ht.
  destruct (np_idx t 0 50 ltac:(lia)) as [x ->]. cbn [bind]. apply np_bind; [apply np_as_string|]. intros subject.
  destruct (np_idx t 1 51 ltac:(lia)) as [y ->]. cbn [bind]. apply np_bind; [apply np_as_int|]. intros start.
  apply np_bind; [destruct (start <? 0); reflexivity|]. intros start'.
  apply np_bind.
  - destruct (nth_opt t 2); [|reflexivity]. apply np_bind; [apply np_as_int|]. intros e. destruct (e <? 0); reflexivity.
  - intros end_. destruct (_ || _)%bool; [reflexivity|].
    destruct (split_at_byte subject start') as [[p rest]|]; [|reflexivity].
    destruct (split_at_byte rest (end_ - start')) as [[mid q]|]; reflexivity.
Qed.

Lemma np_str_fn (g : str -> str) a : is_panic (do s <- as_string a; Ok (VString (g s))) = false.
Proof. apply np_bind; [apply np_as_string|reflexivity]. Qed.

Lemma lookup_builtin_in' name : forall t f, lookup_builtin name t = Some f -> exists n, In (n, f) t.
Proof.
  induction t as [|[n g] t IH]; intros f H; cbn [lookup_builtin] in H; [discriminate|].
  destruct (str_eqb name (s2l n)).
  - inversion H; subst g. exists n. left; reflexivity.
  - destruct (IH f H) as [n' H2]. exists n'. right; exact H2.
Qed.

(* every `idx` is dominated by a length check; shl / shr / abs are total *)
Lemma builtins_no_panic (name : str) (f : value -> outcome value) (a : value) :
  builtin_function O name = Some f -> is_panic (f a) = false.
Proof.
  intros H. destruct (lookup_builtin_in' name _ f H) as [n Hin]. clear H.
  unfold builtin_table in Hin. cbn [In] in Hin.
  repeat (destruct Hin as [Hin|Hin]; [inversion Hin; subst n f; clear Hin;
    first [ apply np_simple_math1 | apply np_simple_math2 | apply np_float_is | apply np_abs | apply np_typeof
          | apply np_extremum | apply np_if | apply np_contains | apply np_contains_any | apply np_len
          | apply np_str_fn | apply np_substring | apply np_int_function2 | apply np_int_function1
          | reflexivity ] |]).
  contradiction.
Qed.


(* ================= operators ================= *)
Definition nonpanicking (c : ctx) : Prop :=
  forall f g a, lookup_function c f = Some g -> is_panic (g a) = false.

Lemma amount_ok args n : expect_operator_argument_amount (nargs args) n = Ok tt -> N.of_nat (length args) = n.
Proof.
  unfold expect_operator_argument_amount, nargs. destruct (N.eqb _ n) eqn:E; [|discriminate].
  intros _. apply N.eqb_eq. exact E.
Qed.
Lemma np_amount args n : is_panic (expect_operator_argument_amount (nargs args) n) = false.
Proof. unfold expect_operator_argument_amount. destruct (N.eqb _ n); reflexivity. Qed.
Lemma np_arg l i site : (i < length l)%nat -> exists v, arg l i site = Ok v.
Proof. intros H. unfold arg. destruct (nth_opt_some l i H) as [x ->]. eexists; reflexivity. Qed.

(* after the amount check: the two (one) operands exist *)
Lemma with_two_args {A} args (k : unit -> outcome A) :
  (forall a b, args = [a; b] -> is_panic (k tt) = false) ->
  is_panic (do u <- expect_operator_argument_amount (nargs args) 2; k u) = false.
Proof.
  intros H. apply bind_not_panic; [apply np_amount|]. intros [] Hu. apply amount_ok in Hu.
  destruct args as [|a [|b [|c l]]]; cbn [length] in Hu; try lia. apply (H a b eq_refl).
Qed.
Lemma with_one_arg {A} args (k : unit -> outcome A) :
  (forall a, args = [a] -> is_panic (k tt) = false) ->
  is_panic (do u <- expect_operator_argument_amount (nargs args) 1; k u) = false.
Proof.
  intros H. apply bind_not_panic; [apply np_amount|]. intros [] Hu. apply amount_ok in Hu.
  destruct args as [|a [|b l]]; cbn [length] in Hu; try lia. apply (H a eq_refl).
Qed.
Lemma with_no_arg {A} args (k : unit -> outcome A) :
  is_panic (k tt) = false ->
  is_panic (do u <- expect_operator_argument_amount (nargs args) 0; k u) = false.
Proof. intros H. apply np_bind; [apply np_amount|]. intros []. exact H. Qed.

Lemma np_checked_div a b : is_panic (checked_div a b) = false.
Proof. unfold checked_div. destruct (_ || _); reflexivity. Qed.
Lemma np_checked_rem a b : is_panic (checked_rem a b) = false.
Proof. unfold checked_rem. destruct (_ || _); reflexivity. Qed.

Lemma np_arith int_op float_op args : (forall x y, is_panic (int_op x y) = false) ->
  is_panic (arith int_op float_op args) = false.
Proof.
  intros Hop. unfold arith. apply with_two_args. intros a b ->. cbn [arg nth_opt bind].
  apply np_bind; [apply np_as_number|]. intros _. apply np_bind; [apply np_as_number|]. intros _.
  destruct a, b; try (apply np_bind; [apply np_as_number|]; intros x; apply np_bind; [apply np_as_number|reflexivity]).
  apply np_bind; [apply Hop|reflexivity].
Qed.

Lemma np_compare_op so io fo args : is_panic (compare_op so io fo args) = false.
Proof.
  unfold compare_op. apply with_two_args. intros a b ->. cbn [arg nth_opt bind].
  apply np_bind; [apply np_expect_nos|]. intros _. apply np_bind; [apply np_expect_nos|]. intros _.
  destruct a, b; try reflexivity;
    (apply np_bind; [apply np_as_number|]; intros x; apply np_bind; [apply np_as_number|reflexivity]).
Qed.

Lemma np_bool_op g args : is_panic (bool_op g args) = false.
Proof.
  unfold bool_op. apply with_two_args. intros a b ->. cbn [arg nth_opt bind].
  apply np_bind; [apply np_as_boolean|]. intros x. apply np_bind; [apply np_as_boolean|reflexivity].
Qed.

Lemma np_call_function c lg f a : nonpanicking c -> is_panic (fst (call_function O c lg f a)) = false.
Proof.
  intros Hc. unfold call_function.
  destruct (lookup_function c f) as [g|] eqn:E.
  - pose proof (Hc f g a E) as Hg. destruct (g a) as [v|e|s]; [reflexivity| |discriminate].
    destruct e; try reflexivity.
    destruct (are_builtin_functions_disabled c); [reflexivity|].
    destruct (builtin_function O f) as [b|] eqn:Eb; [|reflexivity]. cbn [fst]. exact (builtins_no_panic f b a Eb).
  - destruct (are_builtin_functions_disabled c); [reflexivity|].
    destruct (builtin_function O f) as [b|] eqn:Eb; [|reflexivity]. cbn [fst]. exact (builtins_no_panic f b a Eb).
Qed.

Lemma op_eval_no_panic (o : operator) (args : list value) (c : ctx) (lg : log) :
  nonpanicking c -> is_panic (fst (op_eval O o args c lg)) = false.
Proof.
  intros Hc. destruct o; cbn [op_eval fst].
  - (* RootNode *) destruct args; reflexivity.
  - (* Add *) apply with_two_args. intros a b ->. cbn [arg nth_opt bind].
    apply np_bind; [apply np_expect_nos|]. intros _. apply np_bind; [apply np_expect_nos|]. intros _.
    destruct a, b; try reflexivity. apply np_bind; [apply np_checked|reflexivity].
  - apply np_arith. intros x y. apply np_checked.
  - (* Neg *) apply with_one_arg. intros a ->. cbn [arg nth_opt bind].
    apply np_bind; [apply np_as_number|]. intros _. destruct a; try reflexivity.
    apply np_bind; [apply np_checked|reflexivity].
  - apply np_arith. intros x y. apply np_checked.
  - apply np_arith. apply np_checked_div.
  - apply np_arith. apply np_checked_rem.
  - (* Exp *) apply with_two_args. intros a b ->. cbn [arg nth_opt bind].
    apply np_bind; [apply np_as_number|]. intros _. apply np_bind; [apply np_as_number|]. intros _.
    apply np_bind; [apply np_as_number|]. intros x. apply np_bind; [apply np_as_number|reflexivity].
  - apply with_two_args. intros a b ->. reflexivity.
  - apply with_two_args. intros a b ->. reflexivity.
  - apply np_compare_op. - apply np_compare_op. - apply np_compare_op. - apply np_compare_op.
  - apply np_bool_op. - apply np_bool_op.
  - (* Not *) apply with_one_arg. intros a ->. cbn [arg nth_opt bind].
    apply np_bind; [apply np_as_boolean|reflexivity].
  - reflexivity. - reflexivity. - reflexivity. - reflexivity. - reflexivity.
  - reflexivity. - reflexivity. - reflexivity. - reflexivity.
  - reflexivity.
  - (* Chain *) destruct (last_opt args); reflexivity.
  - apply with_no_arg. reflexivity.
  - apply with_no_arg. reflexivity.
  - apply with_no_arg. destruct (get_value c s); reflexivity.
  - (* FunctionIdentifier *)
    destruct (expect_operator_argument_amount (nargs args) 1) as [[]|e|p] eqn:E; [|reflexivity|].
    + apply amount_ok in E. destruct args as [|a [|b l]]; cbn [length] in E; try lia.
      cbn [arg nth_opt]. apply np_call_function. exact Hc.
    + pose proof (np_amount args 1) as H. rewrite E in H. discriminate.
Qed.

(* ---- eval_mut: the function table is never changed by evaluation ---- *)
Definition same_funs (c c' : ctx) : Prop := c_kind c' = c_kind c /\ c_funs c' = c_funs c.

Lemma same_funs_refl c : same_funs c c. Proof. split; reflexivity. Qed.
Lemma same_funs_trans a b c : same_funs a b -> same_funs b c -> same_funs a c.
Proof. intros [H1 H2] [H3 H4]. split; congruence. Qed.

Lemma same_funs_lookup c c' f : same_funs c c' -> lookup_function c' f = lookup_function c f.
Proof. intros [H1 H2]. unfold lookup_function, has_store. rewrite H1, H2. reflexivity. Qed.

Lemma same_funs_nonpanicking c c' : same_funs c c' -> nonpanicking c -> nonpanicking c'.
Proof. intros S H f g a E. rewrite (same_funs_lookup c c' f S) in E. exact (H f g a E). Qed.

Lemma set_value_funs c x v c' : set_value c x v = Ok c' -> same_funs c c'.
Proof.
  unfold set_value. destruct (c_kind c) eqn:K; try discriminate.
  destruct (assoc x (c_vars c)) as [ex|].
  - destruct (vtype_eqb (type_of ex) (type_of v)); [|discriminate].
    intros H. inversion H; subst c'. split; [cbn; symmetry; exact K|reflexivity].
  - intros H. inversion H; subst c'. split; [cbn; symmetry; exact K|reflexivity].
Qed.
Lemma np_set_value c x v : is_panic (set_value c x v) = false.
Proof.
  unfold set_value. destruct (c_kind c); try reflexivity. destruct (assoc x (c_vars c)); [|reflexivity].
  destruct (vtype_eqb _ _); reflexivity.
Qed.

Definition mut_ok {A} (c : ctx) (r : outcome A * ctx * log) : Prop :=
  is_panic (fst (fst r)) = false /\ same_funs c (snd (fst r)).

Lemma finish_ok c lg (r : outcome ctx) :
  is_panic r = false -> (forall c', r = Ok c' -> same_funs c c') ->
  mut_ok c (match r with Ok c' => (Ok VEmpty, c', lg) | Err e => (Err e, c, lg) | Panic s => (Panic s, c, lg) end).
Proof.
  intros H1 H2. destruct r as [c'|e|s]; [|split; [reflexivity|apply same_funs_refl]|discriminate].
  split; [reflexivity|]. apply H2. reflexivity.
Qed.

(* the result of a bind chain ending in set_value: either set_value's context or no context at all *)
Lemma bind_set_value_funs {A} c (r : outcome A) (k : A -> outcome ctx) c' :
  (forall a c'', k a = Ok c'' -> same_funs c c'') -> bind r k = Ok c' -> same_funs c c'.
Proof. intros H E. destruct r as [a|e|s]; cbn [bind] in E; try discriminate. exact (H a c' E). Qed.

Lemma op_eval_mut_ok (o : operator) (args : list value) (c : ctx) (lg : log) :
  nonpanicking c -> mut_ok c (op_eval_mut O o args c lg).
Proof.
  intros Hc.
  assert (Hplain : forall o', (let '(r, lg') := op_eval O o' args c lg in (r, c, lg')) = (fst (op_eval O o' args c lg), c, snd (op_eval O o' args c lg))).
  { intros o'. destruct (op_eval O o' args c lg); reflexivity. }
  assert (Hother : mut_ok c (fst (op_eval O o args c lg), c, snd (op_eval O o args c lg))).
  { split; [apply op_eval_no_panic; exact Hc|apply same_funs_refl]. }
  assert (Hassign : forall base, assign_base o = Some base ->
     mut_ok c (let r := (do _ <- expect_operator_argument_amount (nargs args) 2;
               do a0 <- arg args 0 79; do target <- as_string a0;
               do left <- fst (op_eval O (OVariableIdentifierRead target) [] c lg);
               do right <- arg args 1 80;
               do base <- match assign_base o with Some b => Ok b | None => Panic 30 end;
               do result <- fst (op_eval O base [left; right] c lg);
               set_value c target result) in
               match r with Ok c' => (Ok VEmpty, c', lg) | Err e => (Err e, c, lg) | Panic s => (Panic s, c, lg) end)).
  { intros base Hb. cbv zeta. apply finish_ok.
    - apply with_two_args. intros a b ->. cbn [arg nth_opt bind].
      apply np_bind; [apply np_as_string|]. intros target.
      apply np_bind; [apply op_eval_no_panic; exact Hc|]. intros left.
      rewrite Hb. cbn [bind]. apply np_bind; [apply op_eval_no_panic; exact Hc|]. intros result.
      apply np_set_value.
    - intros c' E.
      repeat (eapply bind_set_value_funs; [|exact E]; clear E; intros ? ? E).
      exact (set_value_funs _ _ _ _ E). }
  destruct o; cbn [op_eval_mut]; try (rewrite Hplain; exact Hother); try (apply (Hassign _ eq_refl)).
  (* Assign *)
  apply finish_ok.
  - apply with_two_args. intros a b ->. cbn [arg nth_opt bind].
    apply np_bind; [apply np_as_string|]. intros target. apply np_set_value.
  - intros c' E.
    repeat (eapply bind_set_value_funs; [|exact E]; clear E; intros ? ? E).
    exact (set_value_funs _ _ _ _ E).
Qed.

Lemma op_eval_mut_no_panic (o : operator) (args : list value) (c : ctx) (lg : log) :
  nonpanicking c -> is_panic (fst (fst (op_eval_mut O o args c lg))) = false.
Proof. intros Hc. exact (proj1 (op_eval_mut_ok o args c lg Hc)). Qed.

Lemma op_eval_mut_funs (o : operator) (args : list value) (c : ctx) (lg : log) :
  nonpanicking c -> same_funs c (snd (fst (op_eval_mut O o args c lg))).
Proof. intros Hc. exact (proj2 (op_eval_mut_ok o args c lg Hc)). Qed.

(* ================= the evaluators ================= *)
Lemma eval_ro_no_panic : forall (n : node) (c : ctx) (lg : log),
  nonpanicking c -> is_panic (fst (eval_ro O n c lg)) = false.
Proof.
  induction n as [o ch IH] using node_ind'. intros c lg Hc. cbn [eval_ro].
  match goal with |- context [match ?g ch lg with _ => _ end] => set (args := g) end.
  assert (Hargs : forall l, Forall (fun n => forall c lg, nonpanicking c -> is_panic (fst (eval_ro O n c lg)) = false) l ->
            forall lg0, is_panic (fst (args l lg0)) = false).
  { induction 1 as [|x l Hx Hl IHl]; intros lg0; [reflexivity|].
    change (args (x :: l) lg0) with
      (match eval_ro O x c lg0 with
       | (Ok v, lg1) => match args l lg1 with (Ok vs, lg2) => (Ok (v :: vs), lg2) | r => r end
       | (Err e, lg1) => (Err e, lg1)
       | (Panic s, lg1) => (Panic s, lg1)
       end).
    pose proof (Hx c lg0 Hc) as H1. destruct (eval_ro O x c lg0) as [[v|e|s] lg1]; [|reflexivity|discriminate].
    pose proof (IHl lg1) as H2. destruct (args l lg1) as [[vs|e|s] lg2]; [reflexivity|reflexivity|discriminate]. }
  pose proof (Hargs ch IH lg) as H. destruct (args ch lg) as [[vs|e|s] lg1]; [|reflexivity|discriminate].
  apply op_eval_no_panic. exact Hc.
Qed.

Lemma eval_mut_ok : forall (n : node) (c : ctx) (lg : log),
  nonpanicking c -> mut_ok c (eval_mut O n c lg).
Proof.
  induction n as [o ch IH] using node_ind'. intros c lg Hc. cbn [eval_mut].
  match goal with |- context [match ?g ch c lg with _ => _ end] => set (args := g) end.
  assert (Hargs : forall l, Forall (fun n => forall c lg, nonpanicking c -> mut_ok c (eval_mut O n c lg)) l ->
            forall c0 lg0, nonpanicking c0 -> mut_ok c0 (args l c0 lg0)).
  { induction 1 as [|x l Hx Hl IHl]; intros c0 lg0 Hc0; [split; [reflexivity|apply same_funs_refl]|].
    change (args (x :: l) c0 lg0) with
      (match eval_mut O x c0 lg0 with
       | (Ok v, c1, lg1) => match args l c1 lg1 with (Ok vs, c2, lg2) => (Ok (v :: vs), c2, lg2) | r => r end
       | (Err e, c1, lg1) => (Err e, c1, lg1)
       | (Panic s, c1, lg1) => (Panic s, c1, lg1)
       end).
    pose proof (Hx c0 lg0 Hc0) as [H1 S1]. destruct (eval_mut O x c0 lg0) as [[[v|e|s] c1] lg1]; cbn [fst snd] in *;
      [|split; [reflexivity|exact S1]|discriminate].
    pose proof (IHl c1 lg1 (same_funs_nonpanicking c0 c1 S1 Hc0)) as [H2 S2].
    destruct (args l c1 lg1) as [[[vs|e|s] c2] lg2]; cbn [fst snd] in *;
      [split; [reflexivity|exact (same_funs_trans _ _ _ S1 S2)]
      |split; [reflexivity|exact (same_funs_trans _ _ _ S1 S2)]|discriminate]. }
  pose proof (Hargs ch IH c lg Hc) as [H S]. destruct (args ch c lg) as [[[vs|e|s] c1] lg1]; cbn [fst snd] in *;
    [|split; [reflexivity|exact S]|discriminate].
  pose proof (op_eval_mut_ok o vs c1 lg1 (same_funs_nonpanicking c c1 S Hc)) as [H3 S3].
  split; [exact H3|exact (same_funs_trans _ _ _ S S3)].
Qed.

Lemma eval_mut_no_panic (n : node) (c : ctx) (lg : log) :
  nonpanicking c -> is_panic (fst (fst (eval_mut O n c lg))) = false.
Proof. intros Hc. exact (proj1 (eval_mut_ok n c lg Hc)). Qed.

(* evaluation never changes the function table, so the premise survives a mutable evaluation *)
Lemma eval_mut_keeps_nonpanicking (n : node) (c : ctx) (lg : log) :
  nonpanicking c -> nonpanicking (snd (fst (eval_mut O n c lg))).
Proof. intros Hc. exact (same_funs_nonpanicking _ _ (proj2 (eval_mut_ok n c lg Hc)) Hc). Qed.

Lemma eval_no_panic (n : node) (c : ctx) (lg : log) : nonpanicking c ->
  is_panic (fst (eval_ro O n c lg)) = false /\ is_panic (fst (fst (eval_mut O n c lg))) = false.
Proof. intros Hc. split; [apply eval_ro_no_panic|apply eval_mut_no_panic]; exact Hc. Qed.

End WithOracle.

(* ================= bonus: entry points and scripts, given a non-panicking parser ================= *)
(* the harness library functions never panic: the `Panic 95` of LSwap sits behind as_fixed_len_tuple 2 *)
Lemma apply_libfn_no_panic (name : str) (l : libfn) (a : value) : is_panic (apply_libfn name l a) = false.
Proof.
  destruct l; cbn [apply_libfn]; try reflexivity.
  - apply np_bind; [apply np_as_tuple|]. intros [|x t]; reflexivity.
  - apply bind_not_panic; [apply np_fixed_len|]. intros t Ht. apply fixed_len_length in Ht.
    destruct t as [|x [|y [|z t]]]; cbn [length] in Ht; try lia. reflexivity.
  - destruct a; try reflexivity. destruct (i + 1 <=? i64_max); reflexivity.
Qed.

(* the invariant of a script: no stored function panics (whatever the context kind) *)
Definition np_funs (c : ctx) : Prop := Forall (fun kv : str * ufun => forall a, is_panic (snd kv a) = false) (c_funs c).

Lemma assoc_in {A} f : forall (l : list (str * A)) g, assoc f l = Some g -> exists k, In (k, g) l.
Proof.
  induction l as [|[k v] l IH]; intros g H; cbn [assoc] in H; [discriminate|].
  destruct (str_eqb f k); [inversion H; subst; exists k; left; reflexivity|].
  destruct (IH g H) as [k' Hk]. exists k'. right. exact Hk.
Qed.

Lemma np_funs_nonpanicking c : np_funs c -> nonpanicking c.
Proof.
  intros H f g a E. unfold lookup_function in E. destruct (has_store c); [|discriminate].
  destruct (assoc_in f _ g E) as [k Hk]. unfold np_funs in H. rewrite Forall_forall in H. exact (H _ Hk a).
Qed.

Lemma np_funs_same c c' : c_funs c' = c_funs c -> np_funs c -> np_funs c'.
Proof. unfold np_funs. intros E H. rewrite E. exact H. Qed.

Lemma assoc_set_forall {A} (P : str * A -> Prop) k v : forall l, P (k, v) -> Forall P l -> Forall P (assoc_set k v l).
Proof.
  induction l as [|[k' v'] l IH]; intros Hv Hl; cbn [assoc_set]; [constructor; [exact Hv|constructor]|].
  inversion Hl as [|x l' Hx Hl']; subst. destruct (str_eqb k k'); constructor; try assumption. apply IH; assumption.
Qed.

Lemma np_project t r : is_panic r = false -> is_panic (project t r) = false.
Proof. intros H. destruct r as [v|e|s]; [|reflexivity|discriminate]. destruct t, v; reflexivity. Qed.

Lemma np_unit_of {A} (r : outcome A) : is_panic r = false -> is_panic (unit_of r) = false.
Proof. destruct r; cbn; auto. Qed.

(* what a script step may print *)
Definition cout_no_panic (o : cout) : Prop :=
  match o with
  | OUnit r => is_panic r = false
  | OVal r => is_panic r = false
  | OTree r => is_panic r = false
  | _ => True
  end.

Section WithParser.
Variable O : std_oracle.
(* supplied by the tokenizer / tree-builder part of C01 *)
Hypothesis build_no_panic : forall s, is_panic (build_operator_tree s) = false.

Lemma run_entry_no_panic m t s c lg : np_funs c ->
  is_panic (fst (fst (run_entry O m t s c lg))) = false /\ np_funs (snd (fst (run_entry O m t s c lg))).
Proof.
  intros Hc. unfold run_entry. pose proof (build_no_panic s) as Hb.
  destruct (build_operator_tree s) as [n|e|p]; [|split; [reflexivity|exact Hc]|discriminate].
  destruct m.
  - (* free: a fresh HashMapContext *)
    assert (He : nonpanicking empty_hashmap) by (intros f g a E; discriminate).
    pose proof (eval_mut_no_panic O n empty_hashmap [] He) as H.
    destruct (eval_mut O n empty_hashmap []) as [[r c'] lg']. cbn [fst snd] in *.
    split; [apply np_project; exact H|exact Hc].
  - pose proof (eval_ro_no_panic O n c lg (np_funs_nonpanicking c Hc)) as H.
    destruct (eval_ro O n c lg) as [r lg']. cbn [fst snd] in *. split; [apply np_project; exact H|exact Hc].
  - pose proof (eval_mut_ok O n c lg (np_funs_nonpanicking c Hc)) as [H [_ S]].
    destruct (eval_mut O n c lg) as [[r c'] lg']. cbn [fst snd] in *.
    split; [apply np_project; exact H|exact (np_funs_same c c' S Hc)].
Qed.

Lemma np_funs_set_value c x v : np_funs c -> np_funs (ctx_or c (set_value c x v)).
Proof.
  intros H. destruct (set_value c x v) as [c'|e|s] eqn:E; cbn [ctx_or]; try exact H.
  destruct (set_value_funs c x v c' E) as [_ S]. exact (np_funs_same c c' S H).
Qed.

Lemma step_no_panic (c : ctx) (lg : log) (op : cop) : np_funs c ->
  cout_no_panic (snd (step O (c, lg) op)) /\ np_funs (fst (fst (step O (c, lg) op))).
Proof.
  intros Hc. destruct op; cbn [step].
  - (* CSet *) destruct (mutable_kind c); cbn [fst snd cout_no_panic]; [|split; [exact I|exact Hc]].
    split; [apply np_unit_of; apply np_set_value|apply np_funs_set_value; exact Hc].
  - (* CInit *) destruct (has_store c); cbn [fst snd cout_no_panic]; [|split; [exact I|exact Hc]].
    split; [apply np_unit_of; apply np_set_value|].
    assert (Hh : np_funs (as_hashmap c)) by exact Hc.
    pose proof (np_funs_set_value (as_hashmap c) x v Hh) as H. exact H.
  - (* CSetFn *) destruct (has_store c); cbn [fst snd cout_no_panic]; [|split; [exact I|exact Hc]].
    split; [reflexivity|]. cbn [set_function as_hashmap c_kind ctx_or with_kind c_funs np_funs].
    unfold np_funs. cbn [c_funs]. apply assoc_set_forall; [|exact Hc].
    intros a. apply apply_libfn_no_panic.
  - (* COff *) cbn [fst snd cout_no_panic]. unfold set_builtin_functions_disabled.
    destruct (c_kind c), b; cbn [unit_of is_panic ctx_or]; split; try reflexivity; exact Hc.
  - destruct (has_store c); cbn [fst snd cout_no_panic]; split; try reflexivity; try exact I; exact Hc.
  - destruct (has_store c); cbn [fst snd cout_no_panic]; split; try reflexivity; try exact I; try exact Hc.
    constructor.
  - destruct (has_store c); cbn [fst snd cout_no_panic]; split; try reflexivity; try exact I; try exact Hc.
    constructor.
  - destruct (has_store c); cbn [fst snd cout_no_panic]; split; try reflexivity; try exact I; exact Hc.
  - (* CEv *) destruct e as [|l m t]; [cbn [fst snd cout_no_panic]; split; [apply build_no_panic|exact Hc]|].
    pose proof (run_entry_no_panic m t src c lg Hc) as [H1 H2].
    destruct m; try (destruct (mutable_kind c); [|split; [exact I|exact Hc]]);
      destruct (run_entry O _ t src c lg) as [[r c'] lg']; cbn [fst snd cout_no_panic] in *; split; assumption.
  - (* CEvc *) destruct e as [|l m t]; [cbn [fst snd cout_no_panic]; split; [apply build_no_panic|exact Hc]|].
    pose proof (run_entry_no_panic m t src c lg Hc) as [H1 H2].
    destruct m; try (destruct (mutable_kind c); [|split; [exact I|exact Hc]]);
      destruct (run_entry O _ t src c lg) as [[r c'] lg']; cbn [fst snd cout_no_panic] in *; split; assumption.
  - split; [exact I|exact Hc].
  - (* CCall *) destruct (lookup_function c f) as [g|] eqn:E; cbn [fst snd cout_no_panic]; split; try exact Hc; try reflexivity.
    exact (np_funs_nonpanicking c Hc f g v E).
  - split; [exact I|exact Hc].
Qed.

Lemma script_no_panic : forall (ops : list cop) (c : ctx) (lg : log), np_funs c ->
  Forall cout_no_panic (snd (run_script O (c, lg) ops)).
Proof.
  induction ops as [|op ops IH]; intros c lg Hc; cbn [run_script]; [constructor|].
  pose proof (step_no_panic c lg op Hc) as [H1 H2].
  destruct (step O (c, lg) op) as [[c1 lg1] o]. cbn [fst snd] in *.
  pose proof (IH c1 lg1 H2) as H3. destruct (run_script O (c1, lg1) ops) as [st2 os]. cbn [snd] in *.
  constructor; assumption.
Qed.

End WithParser.

(* ---- the premises are met by non-trivial inputs; hand-built ill-formed trees give errors ---- *)
Example nonpanicking_inhabited :
  let c := mkctx KHashMap [(s2l "x", VInt 1)]
                 [(s2l "swap", apply_libfn (s2l "swap") LSwap); (s2l "fst", apply_libfn (s2l "fst") LFst)] false in
  nonpanicking c /\ np_funs c.
Proof.
  cbv zeta. assert (H : np_funs (mkctx KHashMap [(s2l "x", VInt 1)]
                 [(s2l "swap", apply_libfn (s2l "swap") LSwap); (s2l "fst", apply_libfn (s2l "fst") LFst)] false)).
  { unfold np_funs. cbn [c_funs]. repeat constructor; intros a; apply apply_libfn_no_panic. }
  split; [apply np_funs_nonpanicking; exact H|exact H].
Qed.

Example ill_formed_trees_are_errors : forall O : std_oracle,
  fst (eval_ro O (Node OAdd []) empty_hashmap []) = Err (EWrongOperatorArgumentAmount 2 0) /\
  fst (eval_ro O (Node ONot [Node (OConst (VBool true)) []; Node (OConst VEmpty) []]) empty_hashmap [])
    = Err (EWrongOperatorArgumentAmount 1 2) /\
  fst (fst (eval_mut O (Node OAddAssign [Node (OConst (VInt 1)) []]) empty_hashmap []))
    = Err (EWrongOperatorArgumentAmount 2 1) /\
  fst (eval_ro O (Node (OFunctionIdentifier (s2l "shl")) [Node (OConst (VTuple [VInt 1; VInt 64])) []])
         empty_context_builtin []) = Ok (VInt 1) /\
  fst (eval_ro O (Node (OConst (VInt 1)) [Node (OConst (VInt 2)) []]) empty_hashmap [])
    = Err (EWrongOperatorArgumentAmount 0 1).
Proof. intros. repeat split; vm_compute; reflexivity. Qed.
