(* C04: variables keep the last assigned value; HashMapContext is type safe; the operation histories
   of Model/Script.v refine the abstract machine of Spec/AbsCtx.v. *)
From Coq Require Import Strings.String Floats.SpecFloat.
Require Import Model.Base Model.Syntax Model.F64 Model.Lexer Model.Builder Model.Value Model.Context
               Model.Builtins Model.Eval Model.Interface Model.Script.
Require Import Spec.AbsCtx Proofs.Common.

(* ------------------------------------------------------------------------------------------ *)
(* strings, types, association lists                                                           *)
(* ------------------------------------------------------------------------------------------ *)

Lemma seqb_eq x y : str_eqb x y = true <-> x = y.
Proof.
  revert y; induction x as [|c x IH]; intros [|d y]; cbn; try (split; discriminate); [tauto|].
  rewrite andb_true_iff, N.eqb_eq, IH. split; [intros [-> ->]; reflexivity|inversion 1; auto].
Qed.

Lemma seqb_refl x : str_eqb x x = true.
Proof. apply seqb_eq. reflexivity. Qed.

Lemma seqb_neq x y : x <> y -> str_eqb x y = false.
Proof. intros H. destruct (str_eqb x y) eqn:E; [|reflexivity]. apply seqb_eq in E. contradiction. Qed.

Lemma str_eq_dec (x y : str) : {x = y} + {x <> y}.
Proof. destruct (str_eqb x y) eqn:E; [left; apply seqb_eq; exact E|right; intros ->; rewrite seqb_refl in E; discriminate]. Qed.

Lemma vtype_eqb_eq a b : vtype_eqb a b = true <-> a = b.
Proof. destruct a, b; cbn; split; intros H; try reflexivity; discriminate. Qed.

Lemma same_type_spec a b : same_type a b = vtype_eqb (type_of a) (type_of b).
Proof. destruct a, b; reflexivity. Qed.

Lemma type_error_spec old v : type_error (type_of old) v = expected_type old v.
Proof. destruct old; reflexivity. Qed.

Lemma assoc_set_same {A} k (v : A) l : assoc k (assoc_set k v l) = Some v.
Proof.
  induction l as [|[k' v'] l IH]; cbn; [rewrite seqb_refl; reflexivity|].
  destruct (str_eqb k k') eqn:E; cbn; [rewrite seqb_refl; reflexivity|rewrite E; exact IH].
Qed.

Lemma assoc_set_other {A} k y (v : A) l : y <> k -> assoc y (assoc_set k v l) = assoc y l.
Proof.
  intros Hn. induction l as [|[k' v'] l IH]; cbn; [rewrite (seqb_neq y k Hn); reflexivity|].
  destruct (str_eqb k k') eqn:E; cbn.
  - apply seqb_eq in E. subst k'. rewrite (seqb_neq y k Hn). reflexivity.
  - rewrite IH. reflexivity.
Qed.

Lemma assoc_set_upd {A} k y (v : A) l : assoc y (assoc_set k v l) = upd (fun z => assoc z l) k v y.
Proof.
  unfold upd. destruct (str_eqb y k) eqn:E.
  - apply seqb_eq in E. subst y. apply assoc_set_same.
  - apply assoc_set_other. intros ->. rewrite seqb_refl in E. discriminate.
Qed.

Lemma assoc_set_keys {A} k y (v : A) l : In y (map fst (assoc_set k v l)) <-> y = k \/ In y (map fst l).
Proof.
  induction l as [|[k' v'] l IH]; cbn; [intuition|].
  destruct (str_eqb k k') eqn:E; cbn.
  - apply seqb_eq in E. subst k'. intuition.
  - rewrite IH. intuition.
Qed.

Lemma assoc_set_nodup {A} k (v : A) l : NoDup (map fst l) -> NoDup (map fst (assoc_set k v l)).
Proof.
  induction l as [|[k' v'] l IH]; cbn; intros H.
  - constructor; [intros []|constructor].
  - inversion H as [|? ? Hnin Hnd]; subst. destruct (str_eqb k k') eqn:E; cbn.
    + apply seqb_eq in E. subst k'. constructor; assumption.
    + constructor; [|apply IH; assumption].
      rewrite assoc_set_keys. intros [->|Hin]; [rewrite seqb_refl in E; discriminate|contradiction].
Qed.

Lemma assoc_none_notin {A} k (l : list (str * A)) : assoc k l = None <-> ~ In k (map fst l).
Proof.
  induction l as [|[k' v'] l IH]; cbn; [intuition|].
  destruct (str_eqb k k') eqn:E.
  - apply seqb_eq in E. subst k'. split; [discriminate|intros H; exfalso; apply H; left; reflexivity].
  - rewrite IH. split; [intros H [->|Hin]; [rewrite seqb_refl in E; discriminate|contradiction]|intuition].
Qed.

Lemma assoc_in_iff {A} k (v : A) l : NoDup (map fst l) -> (In (k, v) l <-> assoc k l = Some v).
Proof.
  induction l as [|[k' v'] l IH]; cbn; intros H; [split; [intros []|discriminate]|].
  inversion H as [|? ? Hnin Hnd]; subst. destruct (str_eqb k k') eqn:E.
  - apply seqb_eq in E. subst k'. split.
    + intros [Heq|Hin]; [inversion Heq; reflexivity|].
      exfalso. apply Hnin. change k with (fst (k, v)). apply in_map. exact Hin.
    + intros Heq. inversion Heq. left. reflexivity.
  - rewrite <- (IH Hnd). split; [|intros Hin; right; exact Hin].
    intros [Heq|Hin]; [inversion Heq; subst; rewrite seqb_refl in E; discriminate|exact Hin].
Qed.

(* ------------------------------------------------------------------------------------------ *)
(* set_value                                                                                   *)
(* ------------------------------------------------------------------------------------------ *)

Lemma set_value_ok_inv c x v c' : set_value c x v = Ok c' ->
  c_kind c = KHashMap /\ c' = mkctx KHashMap (assoc_set x v (c_vars c)) (c_funs c) (c_off c).
Proof.
  unfold set_value. destruct (c_kind c) eqn:K; try discriminate.
  destruct (assoc x (c_vars c)) as [old|]; [destruct (vtype_eqb _ _); [|discriminate]|];
    intros H; inversion H; auto.
Qed.

Lemma last_write c x v c' : set_value c x v = Ok c' ->
  get_value c' x = Some v /\
  (forall y, y <> x -> get_value c' y = get_value c y) /\
  (forall f, lookup_function c' f = lookup_function c f) /\
  are_builtin_functions_disabled c' = are_builtin_functions_disabled c /\
  c_kind c' = c_kind c.
Proof.
  intros H. apply set_value_ok_inv in H. destruct H as [K ->].
  unfold get_value, lookup_function, are_builtin_functions_disabled, has_store. rewrite K. cbn.
  repeat split.
  - apply assoc_set_same.
  - intros y Hy. apply assoc_set_other. exact Hy.
Qed.

Lemma type_safe c x v old : c_kind c = KHashMap -> get_value c x = Some old -> type_of old <> type_of v ->
  set_value c x v =
    Err (match old with
         | VString _ => EExpectedString v | VFloat _ => EExpectedFloat v | VInt _ => EExpectedInt v
         | VBool _ => EExpectedBoolean v | VTuple _ => EExpectedTuple v | VEmpty => EExpectedEmpty v
         end) /\
  set_value c x v = Err (expected_type old v).
Proof.
  intros K G T. unfold get_value, has_store in G. unfold set_value. rewrite K in *. rewrite G.
  destruct (vtype_eqb (type_of old) (type_of v)) eqn:E; [apply vtype_eqb_eq in E; contradiction|].
  split; [destruct old; reflexivity|reflexivity].
Qed.

Lemma same_type_ok c x v old : c_kind c = KHashMap -> get_value c x = Some old -> type_of old = type_of v ->
  exists c', set_value c x v = Ok c'.
Proof.
  intros K G T. unfold get_value, has_store in G. unfold set_value. rewrite K in *. rewrite G.
  apply vtype_eqb_eq in T. rewrite T. eexists. reflexivity.
Qed.

Lemma fresh_ok c x v : c_kind c = KHashMap -> get_value c x = None -> exists c', set_value c x v = Ok c'.
Proof.
  intros K G. unfold get_value, has_store in G. unfold set_value. rewrite K in *. rewrite G.
  eexists. reflexivity.
Qed.

(* a failed CSet step of the history machine leaves the state as it was *)
Lemma failed_set_step O c lg x v e : set_value c x v = Err e ->
  fst (step O (c, lg) (CSet x v)) = (c, lg).
Proof. intros H. cbn [step]. destruct (mutable_kind c); [rewrite H|]; reflexivity. Qed.

(* ------------------------------------------------------------------------------------------ *)
(* the representation invariant                                                                *)
(* ------------------------------------------------------------------------------------------ *)

Definition inv (c : ctx) : Prop := NoDup (map fst (c_vars c)) /\ NoDup (map fst (c_funs c)).

Lemma inv_set_value c x v c' : inv c -> set_value c x v = Ok c' -> inv c'.
Proof.
  intros [Hv Hf] H. apply set_value_ok_inv in H. destruct H as [_ ->]. split; cbn; [|exact Hf].
  apply assoc_set_nodup. exact Hv.
Qed.

Lemma inv_set_function c f g c' : inv c -> set_function c f g = Ok c' -> inv c'.
Proof.
  intros [Hv Hf]. unfold set_function. destruct (c_kind c); try discriminate. intros H. inversion H.
  split; cbn; [exact Hv|]. apply assoc_set_nodup. exact Hf.
Qed.

Lemma inv_set_builtin c b c' : inv c -> set_builtin_functions_disabled c b = Ok c' -> inv c'.
Proof.
  intros Hi. unfold set_builtin_functions_disabled.
  destruct (c_kind c), b; intros H; inversion H; subst; exact Hi.
Qed.

Lemma inv_clear_variables c : inv c -> inv (clear_variables c).
Proof. intros [Hv Hf]. split; cbn; [constructor|exact Hf]. Qed.
Lemma inv_clear_functions c : inv c -> inv (clear_functions c).
Proof. intros [Hv Hf]. split; cbn; [exact Hv|constructor]. Qed.
Lemma inv_clear c : inv c -> inv (clear c).
Proof. intros _. split; cbn; constructor. Qed.

Lemma inv_initial k : inv (initial_ctx k).
Proof. destruct k; split; cbn; constructor. Qed.

(* ------------------------------------------------------------------------------------------ *)
(* the evaluator: induction principle, standalone argument evaluators                          *)
(* ------------------------------------------------------------------------------------------ *)

Lemma node_ind' (P : node -> Prop) :
  (forall o ch, Forall P ch -> P (Node o ch)) -> forall n, P n.
Proof.
  intros H. fix IH 1. intros [o ch]. apply H.
  induction ch as [|x ch IHch]; constructor; [apply IH|exact IHch].
Qed.

Lemma N_of_nat_S2_neq n k : (k < 2)%N -> N.eqb (N.of_nat (S (S n))) k = false.
Proof. intros H. apply N.eqb_neq. lia. Qed.
Lemma N_of_nat_S3_neq n : N.eqb (N.of_nat (S (S (S n)))) 2 = false.
Proof. apply N.eqb_neq. lia. Qed.

Section WithOracle.
Variable O : std_oracle.

(* the nested `fix args` of eval_mut / eval_ro as standalone functions *)
Fixpoint eval_args_mut (l : list node) (c : ctx) (lg : log) : outcome (list value) * ctx * log :=
  match l with
  | [] => (Ok [], c, lg)
  | x :: l' =>
      match eval_mut O x c lg with
      | (Ok v, c1, lg1) =>
          match eval_args_mut l' c1 lg1 with
          | (Ok vs, c2, lg2) => (Ok (v :: vs), c2, lg2)
          | r => r
          end
      | (Err e, c1, lg1) => (Err e, c1, lg1)
      | (Panic s, c1, lg1) => (Panic s, c1, lg1)
      end
  end.

Definition eval_args_ro (c : ctx) : list node -> log -> outcome (list value) * log :=
  fix args (l : list node) (lg : log) : outcome (list value) * log :=
    match l with
    | [] => (Ok [], lg)
    | x :: l' =>
        match eval_ro O x c lg with
        | (Ok v, lg1) =>
            match args l' lg1 with
            | (Ok vs, lg2) => (Ok (v :: vs), lg2)
            | r => r
            end
        | (Err e, lg1) => (Err e, lg1)
        | (Panic s, lg1) => (Panic s, lg1)
        end
    end.

Lemma eval_mut_unfold o ch c lg :
  eval_mut O (Node o ch) c lg =
  match eval_args_mut ch c lg with
  | (Ok vs, c1, lg1) => op_eval_mut O o vs c1 lg1
  | (Err e, c1, lg1) => (Err e, c1, lg1)
  | (Panic s, c1, lg1) => (Panic s, c1, lg1)
  end.
Proof. reflexivity. Qed.

Lemma eval_ro_unfold o ch c lg :
  eval_ro O (Node o ch) c lg =
  match eval_args_ro c ch lg with
  | (Ok vs, lg1) => op_eval O o vs c lg1
  | (Err e, lg1) => (Err e, lg1)
  | (Panic s, lg1) => (Panic s, lg1)
  end.
Proof. reflexivity. Qed.

(* ------------------------------------------------------------------------------------------ *)
(* the assignment operators, in closed form                                                    *)
(* ------------------------------------------------------------------------------------------ *)

Definition finish (c : ctx) (lg : log) (r : outcome ctx) : outcome value * ctx * log :=
  match r with Ok c' => (Ok VEmpty, c', lg) | Err e => (Err e, c, lg) | Panic s => (Panic s, c, lg) end.

Definition c_lookup (c : ctx) (x : str) : outcome value :=
  match get_value c x with Some v => Ok v | None => Err (EVariableIdentifierNotFound x) end.

Lemma op_eval_mut_assign args c lg :
  op_eval_mut O OAssign args c lg = finish c lg (do '(x, v) <- a_target args; set_value c x v).
Proof.
  destruct args as [|a0 [|a1 [|a2 rest]]].
  - reflexivity.
  - destruct a0; reflexivity.
  - destruct a0; reflexivity.
  - cbn [op_eval_mut]. unfold expect_operator_argument_amount, nargs. cbn [length].
    rewrite N_of_nat_S3_neq. destruct a0; reflexivity.
Qed.

Lemma op_eval_mut_opassign o b args c lg : assign_base o = Some b ->
  op_eval_mut O o args c lg =
  finish c lg (do '(x, v) <- a_target args;
               do cur <- c_lookup c x;
               do r <- fst (op_eval O b [cur; v] c lg);
               set_value c x r).
Proof.
  intros Hb.
  destruct args as [|a0 [|a1 [|a2 rest]]].
  - destruct o; try discriminate Hb; reflexivity.
  - destruct o; try discriminate Hb; destruct a0; reflexivity.
  - destruct o; try discriminate Hb; inversion Hb; subst b; destruct a0; try reflexivity;
      cbn [op_eval_mut]; unfold c_lookup; cbn; destruct (get_value c s); reflexivity.
  - destruct o; try discriminate Hb; cbn [op_eval_mut]; unfold expect_operator_argument_amount, nargs;
      cbn [length]; rewrite N_of_nat_S3_neq; destruct a0; reflexivity.
Qed.

(* op_eval_mut for the other operators is op_eval with the context passed through *)
Definition is_assign_op (o : operator) : bool :=
  match o with
  | OAssign | OAddAssign | OSubAssign | OMulAssign | ODivAssign | OModAssign | OExpAssign
  | OAndAssign | OOrAssign => true
  | _ => false
  end.

Lemma op_eval_mut_other o args c lg : is_assign_op o = false ->
  op_eval_mut O o args c lg = (fst (op_eval O o args c lg), c, snd (op_eval O o args c lg)).
Proof.
  intros H. destruct o; try discriminate H; cbn [op_eval_mut];
    destruct (op_eval O _ args c lg); reflexivity.
Qed.

Lemma assign_base_is_assign o b : assign_base o = Some b -> is_assign_op o = true /\ is_assign_op b = false.
Proof. destruct o; try discriminate; intros H; inversion H; split; reflexivity. Qed.

(* the eight base operators never look at the context or touch the log *)
Lemma base_op_pure o b args c lg : assign_base o = Some b ->
  op_eval O b args c lg = (fst (context_free O b args lg), lg).
Proof. destruct o; try discriminate; intros H; inversion H; reflexivity. Qed.

(* value-level statement of `x o= v` *)
Lemma opassign_value o b x v c lg : assign_base o = Some b ->
  op_eval_mut O o [VString x; v] c lg =
  finish c lg (do cur <- c_lookup c x; do r <- fst (op_eval O b [cur; v] c lg); set_value c x r).
Proof. intros Hb. rewrite (op_eval_mut_opassign o b _ c lg Hb). reflexivity. Qed.

(* every operator: the context comes back unchanged or is the result of ONE successful set_value *)
Lemma op_eval_mut_ctx o args c lg :
  let '(r, c', lg') := op_eval_mut O o args c lg in
  c' = c \/ (r = Ok VEmpty /\ is_assign_op o = true /\ exists x v, set_value c x v = Ok c').
Proof.
  destruct (is_assign_op o) eqn:A.
  - assert (G: forall R : outcome ctx,
              (forall c', R = Ok c' -> exists x v, set_value c x v = Ok c') ->
              let '(r, c', lg') := finish c lg R in
              c' = c \/ (r = Ok VEmpty /\ true = true /\ exists x v, set_value c x v = Ok c')).
    { intros R HR. destruct R as [c'|e|s]; cbn; [right|left; reflexivity|left; reflexivity].
      repeat split. apply HR. reflexivity. }
    destruct (assign_base o) as [b|] eqn:B.
    + rewrite (op_eval_mut_opassign o b args c lg B). apply G. intros c' H.
      destruct (a_target args) as [[x v]|e|s]; try discriminate H. cbn [bind] in H.
      destruct (c_lookup c x) as [cur|e|s]; try discriminate H. cbn [bind] in H.
      destruct (fst (op_eval O b [cur; v] c lg)) as [r|e|s]; try discriminate H. cbn [bind] in H.
      eauto.
    + destruct o; try discriminate A; try discriminate B.
      rewrite op_eval_mut_assign. apply G. intros c' H.
      destruct (a_target args) as [[x v]|e|s]; try discriminate H. cbn [bind] in H. eauto.
  - rewrite (op_eval_mut_other o args c lg A). left. reflexivity.
Qed.

(* a failed operator application returns the context it was given *)
Lemma failed_assign_unchanged o args c lg r c' lg' :
  op_eval_mut O o args c lg = (r, c', lg') -> r <> Ok VEmpty -> c' = c.
Proof.
  intros H Hr. pose proof (op_eval_mut_ctx o args c lg) as P. rewrite H in P.
  destruct P as [P|[P _]]; [exact P|contradiction].
Qed.

(* ------------------------------------------------------------------------------------------ *)
(* every change of the context by the evaluator is a sequence of successful set_value calls    *)
(* ------------------------------------------------------------------------------------------ *)

Inductive sv_star : ctx -> ctx -> Prop :=
| sv_refl c : sv_star c c
| sv_step c x v c1 c2 : set_value c x v = Ok c1 -> sv_star c1 c2 -> sv_star c c2.

Lemma sv_trans a b c : sv_star a b -> sv_star b c -> sv_star a c.
Proof. induction 1 as [|? ? ? ? ? H1 H2 IH]; intros H; [exact H|]. eapply sv_step; [exact H1|apply IH; exact H]. Qed.

Definition ctx_of {A} (r : A * ctx * log) : ctx := snd (fst r).

Lemma op_eval_mut_sv o args c lg : sv_star c (ctx_of (op_eval_mut O o args c lg)).
Proof.
  pose proof (op_eval_mut_ctx o args c lg) as P.
  destruct (op_eval_mut O o args c lg) as [[r c'] lg']. cbn.
  destruct P as [->|[_ [_ [x [v H]]]]]; [constructor|]. eapply sv_step; [exact H|constructor].
Qed.

Lemma eval_args_mut_sv ch : Forall (fun n => forall c lg, sv_star c (ctx_of (eval_mut O n c lg))) ch ->
  forall c lg, sv_star c (ctx_of (eval_args_mut ch c lg)).
Proof.
  induction 1 as [|x ch Hx Hch IH]; intros c lg; cbn [eval_args_mut]; [constructor|].
  specialize (Hx c lg). destruct (eval_mut O x c lg) as [[r c1] lg1]. cbn in Hx.
  destruct r as [v|e|s]; [|exact Hx|exact Hx].
  specialize (IH c1 lg1). destruct (eval_args_mut ch c1 lg1) as [[r2 c2] lg2]. cbn in IH.
  assert (T: sv_star c c2) by (eapply sv_trans; eassumption).
  destruct r2; exact T.
Qed.

Lemma eval_mut_sv n : forall c lg, sv_star c (ctx_of (eval_mut O n c lg)).
Proof.
  induction n as [o ch IH] using node_ind'. intros c lg. rewrite eval_mut_unfold.
  pose proof (eval_args_mut_sv ch IH c lg) as H.
  destruct (eval_args_mut ch c lg) as [[r c1] lg1]. cbn in H.
  destruct r as [vs|e|s]; [|exact H|exact H].
  eapply sv_trans; [exact H|apply op_eval_mut_sv].
Qed.

Lemma sv_star_frame c c' : sv_star c c' ->
  c_kind c' = c_kind c /\ c_funs c' = c_funs c /\ c_off c' = c_off c /\ (inv c -> inv c').
Proof.
  induction 1 as [c|c x v c1 c2 H1 H2 IH]; [tauto|].
  destruct IH as [K [F [B I]]]. pose proof (inv_set_value c x v c1) as I1.
  pose proof (set_value_ok_inv _ _ _ _ H1) as [K1 E1].
  assert (c_kind c1 = c_kind c /\ c_funs c1 = c_funs c /\ c_off c1 = c_off c) as [Ka [Fa Ba]].
  { rewrite E1, K1. cbn. auto. }
  rewrite K, F, B, Ka, Fa, Ba. split; [reflexivity|split; [reflexivity|split; [reflexivity|]]]. intros Hi. apply I. apply I1; assumption.
Qed.

(* C04_eval_preserves_wf / C04_invariant for the evaluator *)
Lemma eval_mut_frame n c lg :
  let c' := ctx_of (eval_mut O n c lg) in
  sv_star c c' /\ c_kind c' = c_kind c /\ c_funs c' = c_funs c /\ c_off c' = c_off c /\ (inv c -> inv c').
Proof. cbn zeta. split; [apply eval_mut_sv|]. apply sv_star_frame. apply eval_mut_sv. Qed.

(* on a context that is not a HashMapContext nothing ever changes *)
Lemma sv_star_not_hashmap c c' : c_kind c <> KHashMap -> sv_star c c' -> c' = c.
Proof.
  intros K H. destruct H as [|c x v c1 c2 H1 _]; [reflexivity|].
  apply set_value_ok_inv in H1. destruct H1 as [K1 _]. contradiction.
Qed.

(* ------------------------------------------------------------------------------------------ *)
(* assignment-free expressions leave the context alone                                         *)
(* ------------------------------------------------------------------------------------------ *)

Fixpoint no_assign (n : node) : bool :=
  match n with Node o ch => negb (is_assign_op o) && forallb no_assign ch end.

Lemma eval_args_mut_no_assign ch :
  Forall (fun n => no_assign n = true -> forall c lg, ctx_of (eval_mut O n c lg) = c) ch ->
  forallb no_assign ch = true -> forall c lg, ctx_of (eval_args_mut ch c lg) = c.
Proof.
  induction 1 as [|x ch Hx Hch IH]; intros Hf c lg; cbn [eval_args_mut]; [reflexivity|].
  cbn [forallb] in Hf. apply andb_prop in Hf. destruct Hf as [Hf1 Hf2].
  specialize (Hx Hf1 c lg). destruct (eval_mut O x c lg) as [[r c1] lg1]. cbn in Hx. subst c1.
  destruct r as [v|e|s]; [|reflexivity|reflexivity].
  specialize (IH Hf2 c lg1). destruct (eval_args_mut ch c lg1) as [[r2 c2] lg2]. cbn in IH. subst c2.
  destruct r2; reflexivity.
Qed.

Lemma eval_mut_no_assign n : no_assign n = true -> forall c lg, ctx_of (eval_mut O n c lg) = c.
Proof.
  induction n as [o ch IH] using node_ind'. intros Hn c lg. cbn [no_assign] in Hn.
  apply andb_prop in Hn. destruct Hn as [Ho Hch]. apply negb_true_iff in Ho.
  rewrite eval_mut_unfold.
  pose proof (eval_args_mut_no_assign ch IH Hch c lg) as H.
  destruct (eval_args_mut ch c lg) as [[r c1] lg1]. cbn in H. subst c1.
  destruct r as [vs|e|s]; [|reflexivity|reflexivity].
  rewrite (op_eval_mut_other o vs c lg1 Ho). reflexivity.
Qed.

(* ------------------------------------------------------------------------------------------ *)
(* `x o= e` against `x = x o e`                                                                *)
(* ------------------------------------------------------------------------------------------ *)

Definition wr (x : str) : node := Node (OVariableIdentifierWrite x) [].
Definition rd (x : str) : node := Node (OVariableIdentifierRead x) [].

Lemma eval_wr x c lg : eval_mut O (wr x) c lg = (Ok (VString x), c, lg).
Proof. reflexivity. Qed.

Lemma eval_rd x c lg : eval_mut O (rd x) c lg = (c_lookup c x, c, lg).
Proof.
  unfold rd, c_lookup. rewrite eval_mut_unfold. cbn. destruct (get_value c x); reflexivity.
Qed.

Lemma opassign_prog_bound o b x e c lg cur re c1 lg1 :
  assign_base o = Some b ->
  get_value c x = Some cur ->
  eval_mut O e c lg = (re, c1, lg1) ->
  get_value c1 x = Some cur ->
  eval_mut O (Node o [wr x; e]) c lg =
  eval_mut O (Node OAssign [wr x; Node b [rd x; e]]) c lg.
Proof.
  intros Hb G He G1.
  pose proof (assign_base_is_assign o b Hb) as [_ Ab].
  rewrite (eval_mut_unfold o), (eval_mut_unfold OAssign).
  cbn [eval_args_mut]. rewrite !eval_wr. rewrite (eval_mut_unfold b). cbn [eval_args_mut].
  rewrite eval_rd. unfold c_lookup at 1. rewrite G. rewrite He.
  destruct re as [v|err|s]; try reflexivity.
  rewrite (opassign_value o b x v c1 lg1 Hb).
  rewrite (op_eval_mut_other b [cur; v] c1 lg1 Ab).
  unfold c_lookup. rewrite G1. cbn [bind].
  rewrite (base_op_pure o b [cur; v] c1 lg1 Hb). cbn [fst snd].
  destruct (fst (context_free O b [cur; v] lg1)) as [r|err|s]; reflexivity.
Qed.

Lemma opassign_prog_unbound o b x e c lg v :
  assign_base o = Some b ->
  get_value c x = None ->
  eval_mut O e c lg = (Ok v, c, lg) ->
  eval_mut O (Node o [wr x; e]) c lg = (Err (EVariableIdentifierNotFound x), c, lg) /\
  eval_mut O (Node OAssign [wr x; Node b [rd x; e]]) c lg = (Err (EVariableIdentifierNotFound x), c, lg).
Proof.
  intros Hb G He.
  rewrite (eval_mut_unfold o), (eval_mut_unfold OAssign).
  cbn [eval_args_mut]. rewrite !eval_wr. rewrite (eval_mut_unfold b). cbn [eval_args_mut].
  rewrite eval_rd. unfold c_lookup. rewrite G. rewrite He. split; [|reflexivity].
  rewrite (opassign_value o b x v c lg Hb). unfold c_lookup. rewrite G. reflexivity.
Qed.

Lemma opassign_prog_no_assign o b x e c lg cur :
  assign_base o = Some b -> no_assign e = true -> get_value c x = Some cur ->
  eval_mut O (Node o [wr x; e]) c lg =
  eval_mut O (Node OAssign [wr x; Node b [rd x; e]]) c lg.
Proof.
  intros Hb Hn G. pose proof (eval_mut_no_assign e Hn c lg) as H.
  destruct (eval_mut O e c lg) as [[re c1] lg1] eqn:He. cbn in H. subst c1.
  eapply opassign_prog_bound; eauto.
Qed.

End WithOracle.

(* ------------------------------------------------------------------------------------------ *)
(* refinement: the simulation relation and one lemma per operation                             *)
(* ------------------------------------------------------------------------------------------ *)

Definition R (c : ctx) (a : astate) : Prop := c_kind c = KHashMap /\ aeq (abs c) a.

Lemma aeq_refl a : aeq a a.
Proof. repeat split. Qed.

Lemma R_initial : R empty_hashmap a_empty.
Proof. split; [reflexivity|]. repeat split. Qed.

Lemma R_abs c : c_kind c = KHashMap -> R c (abs c).
Proof. intros K. split; [exact K|apply aeq_refl]. Qed.

Lemma with_kind_id c : c_kind c = KHashMap -> with_kind KHashMap c = c.
Proof. destruct c as [k vs fs o]. cbn. intros ->. reflexivity. Qed.

Lemma as_hashmap_id c : c_kind c = KHashMap -> as_hashmap c = c.
Proof. destruct c as [k vs fs o]. cbn. intros ->. reflexivity. Qed.

Lemma R_bound c a x v : R c a ->
  R (mkctx KHashMap (assoc_set x v (c_vars c)) (c_funs c) (c_off c)) (mkA (upd (vars a) x v) (funs a) (off a)).
Proof.
  intros [K [Hv [Hf Ho]]]. split; [reflexivity|].
  unfold abs, get_value, lookup_function, are_builtin_functions_disabled, has_store in *. rewrite K in *. cbn in *.
  repeat split; cbn; auto.
  intros y. rewrite assoc_set_upd. unfold upd. destruct (str_eqb y x); [reflexivity|apply Hv].
Qed.

Lemma sim_bind c a x v : R c a ->
  match set_value c x v with
  | Ok c' => exists a', a_bind a x v = Ok a' /\ R c' a'
  | Err e => a_bind a x v = Err e
  | Panic s => False
  end.
Proof.
  intros HR. pose proof (R_bound c a x v HR) as HN. destruct HR as [K [Hv [Hf Ho]]].
  unfold a_bind. rewrite <- Hv. cbn [abs vars].
  unfold set_value, get_value, has_store. rewrite K.
  destruct (assoc x (c_vars c)) as [old|].
  - rewrite same_type_spec. destruct (vtype_eqb (type_of old) (type_of v)).
    + eexists. split; [reflexivity|exact HN].
    + rewrite type_error_spec. reflexivity.
  - eexists. split; [reflexivity|exact HN].
Qed.

Section Refinement.
Variable O : std_oracle.

Lemma sim_call c a lg f v : R c a -> call_function O c lg f v = a_call O a lg f v.
Proof.
  intros [K [Hv [Hf Ho]]]. cbn [abs vars funs off] in Hv, Hf, Ho.
  unfold call_function, a_call, a_builtin. rewrite <- Hf, <- Ho.
  destruct (lookup_function c f) as [g|].
  - destruct (g v) as [r|e|s]; try reflexivity. destruct e; try reflexivity.
    destruct (are_builtin_functions_disabled c); [reflexivity|].
    destruct (builtin_function O f); reflexivity.
  - destruct (are_builtin_functions_disabled c); [reflexivity|].
    destruct (builtin_function O f); reflexivity.
Qed.

Lemma op_eval_ctx_free o args c lg :
  match o with
  | OVariableIdentifierRead _ | OFunctionIdentifier _ => True
  | _ => op_eval O o args c lg = context_free O o args lg
  end.
Proof. destruct o; try exact I; reflexivity. Qed.

Lemma a_op_mut_irrelevant o args a lg : is_assign_op o = false -> a_op O true o args a lg = a_op O false o args a lg.
Proof. destruct o; try discriminate; reflexivity. Qed.

(* operators on an immutable context *)
Lemma sim_op_ro o args c a lg : R c a ->
  a_op O false o args a lg = (fst (op_eval O o args c lg), a, snd (op_eval O o args c lg)).
Proof.
  intros HR. pose proof (op_eval_ctx_free o args c lg) as F.
  destruct o as [| | | | | | | | | | | | | | | | | | | | | | | | | | | | cv|ws|s|s]; cbn [a_op]; try (rewrite F; destruct (context_free O _ args lg); reflexivity).
  - (* variable read *)
    destruct HR as [K [Hv _]]. cbn [abs vars] in Hv. unfold a_lookup. rewrite <- Hv.
    destruct args as [|v0 rest]; cbn; [destruct (get_value c s); reflexivity|reflexivity].
  - (* function call *)
    destruct args as [|v0 [|v1 rest]].
    + reflexivity.
    + cbn. rewrite (sim_call c a lg s v0 HR). destruct (a_call O a lg s v0). reflexivity.
    + cbn [op_eval]. unfold expect_operator_argument_amount, nargs. cbn [length].
      rewrite (N_of_nat_S2_neq (length rest) 1) by lia. reflexivity.
Qed.

(* operators on a mutable context *)
Lemma sim_op o args c a lg r c' lg' : R c a ->
  op_eval_mut O o args c lg = (r, c', lg') ->
  exists a', a_op O true o args a lg = (r, a', lg') /\ R c' a'.
Proof.
  intros HR H. destruct (is_assign_op o) eqn:A.
  - assert (G: forall (RC : outcome ctx) (RA : outcome astate),
              match RC with
              | Ok c1 => exists a1, RA = Ok a1 /\ R c1 a1
              | Err e => RA = Err e
              | Panic s => RA = Panic s
              end ->
              finish c lg RC = (r, c', lg') ->
              exists a', match RA with Ok a' => (Ok VEmpty, a', lg) | Err e => (Err e, a, lg) | Panic s => (Panic s, a, lg) end
                         = (r, a', lg') /\ R c' a').
    { intros RC RA HM HF. destruct RC as [c1|e|s]; cbn [finish] in HF; inversion HF; subst r c' lg'.
      - destruct HM as [a1 [-> R1]]. eauto.
      - rewrite HM. eauto.
      - rewrite HM. eauto. }
    destruct (assign_base o) as [b|] eqn:B.
    + rewrite (op_eval_mut_opassign O o b args c lg B) in H.
      assert (E: a_op O true o args a lg =
                 match (do '(x, v) <- a_target args; do cur <- a_lookup a x;
                        do r <- fst (context_free O b [cur; v] lg); a_bind a x r) with
                 | Ok a' => (Ok VEmpty, a', lg) | Err e => (Err e, a, lg) | Panic s => (Panic s, a, lg) end).
      { destruct o; try discriminate B; inversion B; subst b; reflexivity. }
      rewrite E. eapply G; [|exact H].
      destruct (a_target args) as [[x v]|e|s]; cbn [bind]; try reflexivity.
      unfold c_lookup, a_lookup. destruct HR as [K [Hv HR']]. cbn [abs vars] in Hv. rewrite <- Hv.
      destruct (get_value c x) as [cur|]; cbn [bind]; [|reflexivity].
      rewrite (base_op_pure O o b [cur; v] c lg B). cbn [fst].
      destruct (fst (context_free O b [cur; v] lg)) as [r0|e|s]; cbn [bind]; try reflexivity.
      pose proof (sim_bind c a x r0 (conj K (conj Hv HR'))) as S.
      destruct (set_value c x r0); [exact S|exact S|contradiction].
    + destruct o; try discriminate A; try discriminate B.
      rewrite op_eval_mut_assign in H. cbn [a_op]. eapply G; [|exact H].
      destruct (a_target args) as [[x v]|e|s]; cbn [bind]; try reflexivity.
      pose proof (sim_bind c a x v HR) as S.
      destruct (set_value c x v); [exact S|exact S|contradiction].
  - rewrite (op_eval_mut_other O o args c lg A) in H. inversion H; subst.
    exists a. split; [|exact HR]. rewrite (a_op_mut_irrelevant o args a lg A). apply sim_op_ro. exact HR.
Qed.

Lemma a_eval_unfold mut o ch a lg :
  a_eval O mut (Node o ch) a lg =
  match a_seq (map (a_eval O mut) ch) a lg with
  | (Ok vs, a1, lg1) => a_op O mut o vs a1 lg1
  | (Err e, a1, lg1) => (Err e, a1, lg1)
  | (Panic s, a1, lg1) => (Panic s, a1, lg1)
  end.
Proof. reflexivity. Qed.

Definition sim_mut_at (n : node) : Prop :=
  forall c a lg r c' lg', R c a -> eval_mut O n c lg = (r, c', lg') ->
  exists a', a_eval O true n a lg = (r, a', lg') /\ R c' a'.

Lemma sim_args_mut ch : Forall sim_mut_at ch ->
  forall c a lg r c' lg', R c a -> eval_args_mut O ch c lg = (r, c', lg') ->
  exists a', a_seq (map (a_eval O true) ch) a lg = (r, a', lg') /\ R c' a'.
Proof.
  induction 1 as [|x ch Hx Hch IH]; intros c a lg r c' lg' HR H; cbn [eval_args_mut map a_seq] in *.
  - inversion H; subst. eauto.
  - destruct (eval_mut O x c lg) as [[r1 c1] lg1] eqn:E1.
    destruct (Hx c a lg r1 c1 lg1 HR E1) as [a1 [Ea1 R1]]. rewrite Ea1.
    destruct r1 as [v|e|s]; [|inversion H; subst; eauto|inversion H; subst; eauto].
    destruct (eval_args_mut O ch c1 lg1) as [[r2 c2] lg2] eqn:E2.
    destruct (IH c1 a1 lg1 r2 c2 lg2 R1 E2) as [a2 [Ea2 R2]]. rewrite Ea2.
    destruct r2; inversion H; subst; eauto.
Qed.

Lemma sim_eval_mut n : sim_mut_at n.
Proof.
  induction n as [o ch IH] using node_ind'. intros c a lg r c' lg' HR H.
  rewrite eval_mut_unfold in H. rewrite a_eval_unfold.
  destruct (eval_args_mut O ch c lg) as [[r1 c1] lg1] eqn:E1.
  destruct (sim_args_mut ch IH c a lg r1 c1 lg1 HR E1) as [a1 [Ea1 R1]]. rewrite Ea1.
  destruct r1 as [vs|e|s]; [|inversion H; subst; eauto|inversion H; subst; eauto].
  eapply sim_op; eassumption.
Qed.

Definition sim_ro_at (n : node) : Prop :=
  forall c a lg, R c a -> a_eval O false n a lg = (fst (eval_ro O n c lg), a, snd (eval_ro O n c lg)).

Lemma sim_args_ro ch : Forall sim_ro_at ch ->
  forall c a lg, R c a ->
  a_seq (map (a_eval O false) ch) a lg = (fst (eval_args_ro O c ch lg), a, snd (eval_args_ro O c ch lg)).
Proof.
  induction 1 as [|x ch Hx Hch IH]; intros c a lg HR; [reflexivity|].
  change (eval_args_ro O c (x :: ch) lg) with
    (match eval_ro O x c lg with
     | (Ok v, lg1) => match eval_args_ro O c ch lg1 with (Ok vs, lg2) => (Ok (v :: vs), lg2) | r => r end
     | (Err e, lg1) => (Err e, lg1)
     | (Panic s, lg1) => (Panic s, lg1)
     end).
  cbn [map a_seq]. rewrite (Hx c a lg HR).
  destruct (eval_ro O x c lg) as [r1 lg1]. cbn [fst snd].
  destruct r1 as [v|e|s]; try reflexivity.
  rewrite (IH c a lg1 HR). destruct (eval_args_ro O c ch lg1) as [r2 lg2]. cbn [fst snd].
  destruct r2; reflexivity.
Qed.

Lemma sim_eval_ro n : sim_ro_at n.
Proof.
  induction n as [o ch IH] using node_ind'. intros c a lg HR.
  rewrite eval_ro_unfold, a_eval_unfold. rewrite (sim_args_ro ch IH c a lg HR).
  destruct (eval_args_ro O c ch lg) as [r1 lg1]. cbn [fst snd].
  destruct r1 as [vs|e|s]; try reflexivity.
  apply sim_op_ro. exact HR.
Qed.

(* one entry point *)
Lemma sim_entry m t src c a lg r c' lg' : R c a ->
  run_entry O m t src c lg = (r, c', lg') ->
  exists a', a_entry O m t src a lg = (r, a', lg') /\ R c' a' /\ (m <> MMut -> c' = c /\ a' = a).
Proof.
  intros HR H. unfold run_entry in H. unfold a_entry.
  destruct (build_operator_tree src) as [n|e|p].
  - destruct m.
    + (* free: a fresh context on both sides *)
      destruct (eval_mut O n empty_hashmap []) as [[r0 c0] lg0] eqn:E.
      destruct (sim_eval_mut n _ _ _ _ _ _ R_initial E) as [a0 [Ea0 _]]. rewrite Ea0.
      inversion H; subst. eauto.
    + rewrite (sim_eval_ro n c a lg HR). destruct (eval_ro O n c lg) as [r0 lg0]. cbn [fst snd].
      inversion H; subst. eauto.
    + destruct (eval_mut O n c lg) as [[r0 c0] lg0] eqn:E.
      destruct (sim_eval_mut n _ _ _ _ _ _ HR E) as [a0 [Ea0 R0]]. rewrite Ea0.
      inversion H; subst. exists a0. split; [reflexivity|]. split; [exact R0|].
      intros Hm. exfalso. apply Hm. reflexivity.
  - inversion H; subst. eauto.
  - inversion H; subst. eauto.
Qed.

(* one step of the history machine *)
Lemma sim_step op c a lg c' lg' o : R c a ->
  step O (c, lg) op = ((c', lg'), o) ->
  exists a' ao, astep O (a, lg) op = ((a', lg'), ao) /\ R c' a' /\ out_match o ao.
Proof.
  intros HR H. pose proof HR as [K [Hv [Hf Ho]]]. cbn [abs vars funs off] in Hv, Hf, Ho.
  assert (MK: mutable_kind c = true) by (unfold mutable_kind; rewrite K; reflexivity).
  assert (HS: has_store c = true) by (unfold has_store; rewrite K; reflexivity).
  destruct op as [x v|x v|f l|b| | | | |e src|e src|x|f v|]; cbn [step astep] in *.
  - (* CSet *)
    rewrite MK in H. pose proof (sim_bind c a x v HR) as S.
    destruct (set_value c x v) as [c1|e|s]; cbn [ctx_or unit_of] in H; inversion H; subst.
    + destruct S as [a1 [-> R1]]. cbn. eauto 6.
    + rewrite S. cbn. eauto 6.
    + contradiction.
  - (* CInit *)
    rewrite HS, (as_hashmap_id c K), K in H. pose proof (sim_bind c a x v HR) as S.
    destruct (set_value c x v) as [c1|e|s] eqn:E; cbn [ctx_or unit_of] in H; inversion H; subst.
    + destruct S as [a1 [-> R1]]. rewrite (with_kind_id c1 (proj1 R1)). cbn. eauto 6.
    + rewrite S, (with_kind_id c K). cbn. eauto 6.
    + contradiction.
  - (* CSetFn *)
    rewrite HS, (as_hashmap_id c K), K in H. unfold set_function in H. rewrite K in H.
    cbn [ctx_or unit_of with_kind c_kind c_vars c_funs c_off] in H. inversion H; subst.
    do 2 eexists. split; [reflexivity|]. split; [|reflexivity]. split; [reflexivity|].
    unfold abs, get_value, lookup_function, are_builtin_functions_disabled, has_store in *. rewrite K in *. cbn in *.
    repeat split; cbn; auto.
    intros y. rewrite assoc_set_upd. unfold upd. destruct (str_eqb y f); [reflexivity|apply Hf].
  - (* COff *)
    unfold set_builtin_functions_disabled in H. rewrite K in H. cbn [ctx_or unit_of] in H. inversion H; subst.
    do 2 eexists. split; [reflexivity|]. split; [|reflexivity]. split; [reflexivity|].
    unfold abs, get_value, lookup_function, are_builtin_functions_disabled, has_store in *. rewrite K in *. cbn in *.
    repeat split; cbn; auto.
  - (* CClrV *)
    rewrite HS in H. inversion H; subst.
    do 2 eexists. split; [reflexivity|]. split; [|reflexivity]. split; [exact K|].
    unfold abs, get_value, lookup_function, are_builtin_functions_disabled, has_store, clear_variables in *.
    cbn [c_kind c_vars c_funs c_off]. rewrite K in *. cbn in *. repeat split; cbn; auto.
  - (* CClrF *)
    rewrite HS in H. inversion H; subst.
    do 2 eexists. split; [reflexivity|]. split; [|reflexivity]. split; [exact K|].
    unfold abs, get_value, lookup_function, are_builtin_functions_disabled, has_store, clear_functions in *.
    cbn [c_kind c_vars c_funs c_off]. rewrite K in *. cbn in *. repeat split; cbn; auto.
  - (* CClr *)
    rewrite HS in H. inversion H; subst.
    do 2 eexists. split; [reflexivity|]. split; [|reflexivity]. split; [exact K|].
    unfold abs, get_value, lookup_function, are_builtin_functions_disabled, has_store, clear, clear_functions, clear_variables in *.
    cbn [c_kind c_vars c_funs c_off]. rewrite K in *. cbn in *. repeat split; cbn; auto.
  - (* CClone *)
    rewrite HS in H. inversion H; subst. do 2 eexists. split; [reflexivity|]. split; [exact HR|reflexivity].
  - (* CEv *)
    destruct e as [|l m t].
    + inversion H; subst. do 2 eexists. split; [reflexivity|]. split; [exact HR|reflexivity].
    + destruct (run_entry O m t src c lg) as [[r0 c0] lg0] eqn:E.
      destruct (sim_entry m t src c a lg r0 c0 lg0 HR E) as [a0 [Ea0 [R0 _]]]. rewrite Ea0.
      destruct m; [| |rewrite MK in H]; inversion H; subst;
        (do 2 eexists; split; [reflexivity|]; split; [exact R0|reflexivity]).
  - (* CEvc *)
    destruct e as [|l m t].
    + inversion H; subst. do 2 eexists. split; [reflexivity|]. split; [exact HR|reflexivity].
    + destruct (run_entry O m t src c lg) as [[r0 c0] lg0] eqn:E.
      destruct (sim_entry m t src c a lg r0 c0 lg0 HR E) as [a0 [Ea0 [R0 Same]]]. rewrite Ea0.
      destruct m; [| |rewrite MK in H]; inversion H; subst.
      * destruct Same as [-> ->]; [discriminate|]. do 2 eexists; split; [reflexivity|]; split; [exact HR|reflexivity].
      * destruct Same as [-> ->]; [discriminate|]. do 2 eexists; split; [reflexivity|]; split; [exact HR|reflexivity].
      * do 2 eexists; split; [reflexivity|]; split; [exact HR|reflexivity].
  - (* CGet *)
    inversion H; subst. do 2 eexists. split; [reflexivity|]. split; [exact HR|]. cbn. apply Hv.
  - (* CCall *)
    rewrite <- Hf. destruct (lookup_function c f) as [g|]; inversion H; subst;
      (do 2 eexists; split; [reflexivity|]; split; [exact HR|reflexivity]).
  - (* CDump *)
    inversion H; subst. do 2 eexists. split; [reflexivity|]. split; [exact HR|]. cbn. split; [exact Hv|split; [exact Hf|exact Ho]].
Qed.

(* the fold over a history *)
Lemma sim_run ops : forall c a lg, R c a ->
  let cr := run_script O (c, lg) ops in
  let ar := arun O (a, lg) ops in
  R (fst (fst cr)) (fst (fst ar)) /\ snd (fst cr) = snd (fst ar) /\ Forall2 out_match (snd cr) (snd ar).
Proof.
  induction ops as [|op ops IH]; intros c a lg HR; cbn zeta.
  - cbn. repeat split; [apply HR..|constructor].
  - cbn [run_script arun].
    destruct (step O (c, lg) op) as [[c1 lg1] o1] eqn:E1.
    destruct (sim_step op c a lg c1 lg1 o1 HR E1) as [a1 [ao1 [Ea1 [R1 M1]]]]. rewrite Ea1.
    specialize (IH c1 a1 lg1 R1). cbn zeta in IH.
    destruct (run_script O (c1, lg1) ops) as [[c2 lg2] os2].
    destruct (arun O (a1, lg1) ops) as [[a2 alg2] aos2]. cbn [fst snd] in *.
    destruct IH as [R2 [L2 F2]]. repeat split; [apply R2..|exact L2|constructor; assumption].
Qed.

Lemma refines ops c a lg : c_kind c = KHashMap -> aeq (abs c) a ->
  c_kind (fst (fst (run_script O (c, lg) ops))) = KHashMap /\
  aeq (abs (fst (fst (run_script O (c, lg) ops)))) (fst (fst (arun O (a, lg) ops))) /\
  snd (fst (run_script O (c, lg) ops)) = snd (fst (arun O (a, lg) ops)) /\
  Forall2 out_match (snd (run_script O (c, lg) ops)) (snd (arun O (a, lg) ops)).
Proof.
  intros K HA. pose proof (sim_run ops c a lg (conj K HA)) as H. cbn zeta in H.
  destruct H as [[K' A'] [L F]]. auto.
Qed.

Lemma refines_initial ops :
  aeq (abs (fst (fst (run_script O (empty_hashmap, []) ops)))) (fst (fst (arun O (a_empty, []) ops))) /\
  snd (fst (run_script O (empty_hashmap, []) ops)) = snd (fst (arun O (a_empty, []) ops)) /\
  Forall2 out_match (snd (run_script O (empty_hashmap, []) ops)) (snd (arun O (a_empty, []) ops)).
Proof. destruct R_initial as [K HA]. apply (refines ops empty_hashmap a_empty [] K HA). Qed.

End Refinement.

(* ------------------------------------------------------------------------------------------ *)
(* the invariant along histories, clearing, listing, cloning, expression assignment            *)
(* ------------------------------------------------------------------------------------------ *)

Lemma inv_with_kind k c : inv (with_kind k c) <-> inv c.
Proof. reflexivity. Qed.
Lemma inv_as_hashmap c : inv (as_hashmap c) <-> inv c.
Proof. reflexivity. Qed.

Section Histories.
Variable O : std_oracle.

Lemma run_entry_inv m t src c lg : inv c -> inv (ctx_of (run_entry O m t src c lg)).
Proof.
  intros Hi. unfold run_entry. destruct (build_operator_tree src) as [n|e|p]; [|exact Hi|exact Hi].
  destruct m.
  - destruct (eval_mut O n empty_hashmap []) as [[r0 c0] lg0]. exact Hi.
  - destruct (eval_ro O n c lg) as [r0 lg0]. exact Hi.
  - pose proof (eval_mut_frame O n c lg) as F. cbn zeta in F.
    destruct (eval_mut O n c lg) as [[r0 c0] lg0]. cbn in *. apply F. exact Hi.
Qed.

Lemma step_inv op c lg : inv c -> inv (fst (fst (step O (c, lg) op))).
Proof.
  intros Hi. destruct op as [x v|x v|f l|b| | | | |e src|e src|x|f v|]; cbn [step].
  - destruct (mutable_kind c); [|exact Hi]. cbn [fst].
    destruct (set_value c x v) as [c1|e|s] eqn:E; cbn [ctx_or]; [|exact Hi|exact Hi].
    eapply inv_set_value; eassumption.
  - destruct (has_store c); [|exact Hi]. cbn [fst]. apply inv_with_kind.
    destruct (set_value (as_hashmap c) x v) as [c1|e|s] eqn:E; cbn [ctx_or]; [|exact Hi|exact Hi].
    eapply inv_set_value; [|exact E]. exact Hi.
  - destruct (has_store c); [|exact Hi]. cbn [fst]. apply inv_with_kind.
    destruct (set_function (as_hashmap c) f (apply_libfn f l)) as [c1|e|s] eqn:E; cbn [ctx_or]; [|exact Hi|exact Hi].
    eapply inv_set_function; [|exact E]. exact Hi.
  - cbn [fst]. destruct (set_builtin_functions_disabled c b) as [c1|e|s] eqn:E; cbn [ctx_or]; [|exact Hi|exact Hi].
    eapply inv_set_builtin; eassumption.
  - destruct (has_store c); [|exact Hi]. apply inv_clear_variables. exact Hi.
  - destruct (has_store c); [|exact Hi]. apply inv_clear_functions. exact Hi.
  - destruct (has_store c); [|exact Hi]. apply inv_clear. exact Hi.
  - destruct (has_store c); exact Hi.
  - destruct e as [|l m t]; [exact Hi|].
    pose proof (run_entry_inv m t src c lg Hi) as RI.
    destruct m; try (destruct (mutable_kind c); [|exact Hi]);
      destruct (run_entry O _ t src c lg) as [[r0 c0] lg0]; exact RI.
  - destruct e as [|l m t]; [exact Hi|].
    pose proof (run_entry_inv m t src c lg Hi) as RI.
    destruct m; try (destruct (mutable_kind c); [|exact Hi]);
      destruct (run_entry O _ t src c lg) as [[r0 c0] lg0]; first [exact RI|exact Hi].
  - exact Hi.
  - destruct (lookup_function c f); exact Hi.
  - exact Hi.
Qed.

Lemma run_script_inv ops : forall c lg, inv c -> inv (fst (fst (run_script O (c, lg) ops))).
Proof.
  induction ops as [|op ops IH]; intros c lg Hi; [exact Hi|]. cbn [run_script].
  pose proof (step_inv op c lg Hi) as S. destruct (step O (c, lg) op) as [[c1 lg1] o1]. cbn [fst] in S.
  specialize (IH c1 lg1 S). destruct (run_script O (c1, lg1) ops) as [[c2 lg2] os]. exact IH.
Qed.

(* an expression assignment `x = e` is set_value on the context that evaluating e leaves *)
Lemma expr_assign x e c lg v c1 lg1 :
  eval_mut O e c lg = (Ok v, c1, lg1) ->
  eval_mut O (Node OAssign [wr x; e]) c lg =
  match set_value c1 x v with
  | Ok c2 => (Ok VEmpty, c2, lg1)
  | Err err => (Err err, c1, lg1)
  | Panic s => (Panic s, c1, lg1)
  end.
Proof.
  intros He. rewrite eval_mut_unfold. cbn [eval_args_mut]. rewrite eval_wr, He.
  rewrite op_eval_mut_assign. reflexivity.
Qed.

Lemma clone_identity c lg : fst (step O (c, lg) CClone) = (c, lg).
Proof. cbn [step]. destruct (has_store c); reflexivity. Qed.

End Histories.

Lemma clear_spec c :
  ((forall x, get_value (clear_variables c) x = None) /\
   (c_kind c = KHashMap -> forall x v, exists c', set_value (clear_variables c) x v = Ok c') /\
   iter_variables (clear_variables c) = [] /\
   (forall f, lookup_function (clear_variables c) f = lookup_function c f) /\
   are_builtin_functions_disabled (clear_variables c) = are_builtin_functions_disabled c) /\
  ((forall f, lookup_function (clear_functions c) f = None) /\
   (forall x, get_value (clear_functions c) x = get_value c x) /\
   iter_variables (clear_functions c) = iter_variables c /\
   are_builtin_functions_disabled (clear_functions c) = are_builtin_functions_disabled c) /\
  ((forall x, get_value (clear c) x = None) /\
   (forall f, lookup_function (clear c) f = None) /\
   iter_variables (clear c) = [] /\
   are_builtin_functions_disabled (clear c) = are_builtin_functions_disabled c).
Proof.
  unfold get_value, lookup_function, iter_variables, are_builtin_functions_disabled, has_store, set_value,
    clear, clear_functions, clear_variables. cbn [c_kind c_vars c_funs c_off assoc].
  repeat split; try (destruct (c_kind c); reflexivity).
  intros K x v. rewrite K. eexists. reflexivity.
Qed.

Lemma listing c : inv c ->
  (forall x v, In (x, v) (iter_variables c) <-> get_value c x = Some v) /\
  NoDup (iter_variable_names c).
Proof.
  intros [Hv Hf]. unfold iter_variable_names, iter_variables, get_value, has_store.
  destruct (c_kind c); split; try exact Hv; try (cbn; apply NoDup_nil);
    intros x v; try (apply assoc_in_iff; exact Hv); (split; [intros []|discriminate]).
Qed.

(* ------------------------------------------------------------------------------------------ *)
(* examples                                                                                    *)
(* ------------------------------------------------------------------------------------------ *)

Definition ex_x : str := s2l "x"%string.
Definition ex_ctx : ctx := mkctx KHashMap [(ex_x, VInt 1)] [] false.
(* (x = 5; 1) *)
Definition ex_e : node :=
  Node ORootNode [Node OChain [Node ORootNode [Node OAssign [wr ex_x; Node (OConst (VInt 5)) []]];
                               Node ORootNode [Node (OConst (VInt 1)) []]]].

Lemma ex_parse :
  build_operator_tree (s2l "x += (x = 5; 1)"%string) = Ok (Node ORootNode [Node OAddAssign [wr ex_x; ex_e]]).
Proof. vm_compute. reflexivity. Qed.

(* `x += e` reads x AFTER e, `x = x + e` reads x BEFORE e *)
Lemma opassign_prog_differs O :
  get_value (ctx_of (eval_mut O (Node OAddAssign [wr ex_x; ex_e]) ex_ctx [])) ex_x = Some (VInt 6) /\
  get_value (ctx_of (eval_mut O (Node OAssign [wr ex_x; Node OAdd [rd ex_x; ex_e]]) ex_ctx [])) ex_x = Some (VInt 2).
Proof. split; vm_compute; reflexivity. Qed.

(* with x unbound: `x += e` evaluates e (and keeps its effects) before it reports x, `x = x + e` does not *)
Lemma opassign_prog_differs_unbound O :
  let e := Node OAssign [wr (s2l "y"%string); Node (OConst (VInt 1)) []] in
  eval_mut O (Node OAddAssign [wr ex_x; e]) empty_hashmap [] =
    (Err (EVariableIdentifierNotFound ex_x), mkctx KHashMap [(s2l "y"%string, VInt 1)] [] false, []) /\
  eval_mut O (Node OAssign [wr ex_x; Node OAdd [rd ex_x; e]]) empty_hashmap [] =
    (Err (EVariableIdentifierNotFound ex_x), empty_hashmap, []).
Proof. split; vm_compute; reflexivity. Qed.

Lemma opassign_prog_refuted O :
  exists (o b : operator) (x : str) (e : node) (c : ctx) (lg : log),
    assign_base o = Some b /\ get_value c x <> None /\
    eval_mut O (Node o [wr x; e]) c lg <> eval_mut O (Node OAssign [wr x; Node b [rd x; e]]) c lg.
Proof.
  exists OAddAssign, OAdd, ex_x, ex_e, ex_ctx, []. split; [reflexivity|]. split; [discriminate|].
  intros H. pose proof (opassign_prog_differs O) as [H1 H2]. rewrite H in H1. rewrite H1 in H2. discriminate H2.
Qed.
