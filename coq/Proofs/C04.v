(* C04: variables keep the last assigned value; HashMapContext is type safe; the operation histories
   of Model/Script.v refine the abstract machine of Spec/AbsCtx.v. *)
From Coq Require Import Strings.String Floats.SpecFloat.
Require Import Model.Base Model.Syntax Model.F64 Model.Lexer Model.Builder Model.Value Model.Context
               Model.Builtins Model.Eval Model.Interface Model.Script.
Require Import Spec.AbsCtx Proofs.Common.

(* ------------------------------------------------------------------------------------------ *)
(* strings, types, association lists                                                           *)
(* ------------------------------------------------------------------------------------------ *)

Lemma seqb_eq x y : str_eqb x y = true <-> x = y.
Proof.
  revert y; induction x as [|c x IH]; intros [|d y]; cbn; try (split; discriminate); [tauto|].
  rewrite andb_true_iff, N.eqb_eq, IH. split; [intros [-> ->]; reflexivity|inversion 1; auto].
Qed.

Lemma seqb_refl x : str_eqb x x = true.
Proof. apply seqb_eq. reflexivity. Qed.

Lemma seqb_neq x y : x <> y -> str_eqb x y = false.
Proof. intros H. destruct (str_eqb x y) eqn:E; [|reflexivity]. apply seqb_eq in E. contradiction. Qed.

Lemma str_eq_dec (x y : str) : {x = y} + {x <> y}.
Proof. destruct (str_eqb x y) eqn:E; [left; apply seqb_eq; exact E|right; intros ->; rewrite seqb_refl in E; discriminate]. Qed.

Lemma vtype_eqb_eq a b : vtype_eqb a b = true <-> a = b.
Proof. destruct a, b; cbn; split; intros H; try reflexivity; discriminate. Qed.

Lemma same_type_spec a b : same_type a b = vtype_eqb (type_of a) (type_of b).
Proof. destruct a, b; reflexivity. Qed.

Lemma type_error_spec old v : type_error (type_of old) v = expected_type old v.
Proof. destruct old; reflexivity. Qed.

Lemma assoc_set_same {A} k (v : A) l : assoc k (assoc_set k v l) = Some v.
Proof.
  induction l as [|[k' v'] l IH]; cbn; [rewrite seqb_refl; reflexivity|].
  destruct (str_eqb k k') eqn:E; cbn; [rewrite seqb_refl; reflexivity|rewrite E; exact IH].
Qed.

Lemma assoc_set_other {A} k y (v : A) l : y <> k -> assoc y (assoc_set k v l) = assoc y l.
Proof.
  intros Hn. induction l as [|[k' v'] l IH]; cbn; [rewrite (seqb_neq y k Hn); reflexivity|].
  destruct (str_eqb k k') eqn:E; cbn.
  - apply seqb_eq in E. subst k'. rewrite (seqb_neq y k Hn). reflexivity.
  - rewrite IH. reflexivity.
Qed.

Lemma assoc_set_upd {A} k y (v : A) l : assoc y (assoc_set k v l) = upd (fun z => assoc z l) k v y.
Proof.
  unfold upd. destruct (str_eqb y k) eqn:E.
  - apply seqb_eq in E. subst y. apply assoc_set_same.
  - apply assoc_set_other. intros ->. rewrite seqb_refl in E. discriminate.
Qed.

Lemma assoc_set_keys {A} k y (v : A) l : In y (map fst (assoc_set k v l)) <-> y = k \/ In y (map fst l).
Proof.
  induction l as [|[k' v'] l IH]; cbn; [intuition|].
  destruct (str_eqb k k') eqn:E; cbn.
  - apply seqb_eq in E. subst k'. intuition.
  - rewrite IH. intuition.
Qed.

Lemma assoc_set_nodup {A} k (v : A) l : NoDup (map fst l) -> NoDup (map fst (assoc_set k v l)).
Proof.
  induction l as [|[k' v'] l IH]; cbn; intros H.
  - constructor; [intros []|constructor].
  - inversion H as [|? ? Hnin Hnd]; subst. destruct (str_eqb k k') eqn:E; cbn.
    + apply seqb_eq in E. subst k'. constructor; assumption.
    + constructor; [|apply IH; assumption].
      rewrite assoc_set_keys. intros [->|Hin]; [rewrite seqb_refl in E; discriminate|contradiction].
Qed.

Lemma assoc_none_notin {A} k (l : list (str * A)) : assoc k l = None <-> ~ In k (map fst l).
Proof.
  induction l as [|[k' v'] l IH]; cbn; [intuition|].
  destruct (str_eqb k k') eqn:E.
  - apply seqb_eq in E. subst k'. split; [discriminate|intros H; exfalso; apply H; left; reflexivity].
  - rewrite IH. split; [intros H [->|Hin]; [rewrite seqb_refl in E; discriminate|contradiction]|intuition].
Qed.

Lemma assoc_in_iff {A} k (v : A) l : NoDup (map fst l) -> (In (k, v) l <-> assoc k l = Some v).
Proof.
  induction l as [|[k' v'] l IH]; cbn; intros H; [split; [intros []|discriminate]|].
  inversion H as [|? ? Hnin Hnd]; subst. destruct (str_eqb k k') eqn:E.
  - apply seqb_eq in E. subst k'. split.
    + intros [Heq|Hin]; [inversion Heq; reflexivity|].
      exfalso. apply Hnin. change k with (fst (k, v)). apply in_map. exact Hin.
    + intros Heq. inversion Heq. left. reflexivity.
  - rewrite <- (IH Hnd). split; [|intros Hin; right; exact Hin].
    intros [Heq|Hin]; [inversion Heq; subst; rewrite seqb_refl in E; discriminate|exact Hin].
Qed.

(* ------------------------------------------------------------------------------------------ *)
(* set_value                                                                                   *)
(* ------------------------------------------------------------------------------------------ *)

Lemma set_value_ok_inv c x v c' : set_value c x v = Ok c' ->
  c_kind c = KHashMap /\ c' = mkctx KHashMap (assoc_set x v (c_vars c)) (c_funs c) (c_off c).
Proof.
  unfold set_value. destruct (c_kind c) eqn:K; try discriminate.
  destruct (assoc x (c_vars c)) as [old|]; [destruct (vtype_eqb _ _); [|discriminate]|];
    intros H; inversion H; auto.
Qed.

Lemma last_write c x v c' : set_value c x v = Ok c' ->
  get_value c' x = Some v /\
  (forall y, y <> x -> get_value c' y = get_value c y) /\
  (forall f, lookup_function c' f = lookup_function c f) /\
  are_builtin_functions_disabled c' = are_builtin_functions_disabled c /\
  c_kind c' = c_kind c.
Proof.
  intros H. apply set_value_ok_inv in H. destruct H as [K ->].
  unfold get_value, lookup_function, are_builtin_functions_disabled, has_store. rewrite K. cbn.
  repeat split.
  - apply assoc_set_same.
  - intros y Hy. apply assoc_set_other. exact Hy.
Qed.

Lemma type_safe c x v old : c_kind c = KHashMap -> get_value c x = Some old -> type_of old <> type_of v ->
  set_value c x v =
    Err (match old with
         | VString _ => EExpectedString v | VFloat _ => EExpectedFloat v | VInt _ => EExpectedInt v
         | VBool _ => EExpectedBoolean v | VTuple _ => EExpectedTuple v | VEmpty => EExpectedEmpty v
         end) /\
  set_value c x v = Err (expected_type old v).
Proof.
  intros K G T. unfold get_value, has_store in G. unfold set_value. rewrite K in *. rewrite G.
  destruct (vtype_eqb (type_of old) (type_of v)) eqn:E; [apply vtype_eqb_eq in E; contradiction|].
  split; [destruct old; reflexivity|reflexivity].
Qed.

Lemma same_type_ok c x v old : c_kind c = KHashMap -> get_value c x = Some old -> type_of old = type_of v ->
  exists c', set_value c x v = Ok c'.
Proof.
  intros K G T. unfold get_value, has_store in G. unfold set_value. rewrite K in *. rewrite G.
  apply vtype_eqb_eq in T. rewrite T. eexists. reflexivity.
Qed.

Lemma fresh_ok c x v : c_kind c = KHashMap -> get_value c x = None -> exists c', set_value c x v = Ok c'.
Proof.
  intros K G. unfold get_value, has_store in G. unfold set_value. rewrite K in *. rewrite G.
  eexists. reflexivity.
Qed.

(* a failed CSet step of the history machine leaves the state as it was *)
Lemma failed_set_step O c lg x v e : set_value c x v = Err e ->
  fst (step O (c, lg) (CSet x v)) = (c, lg).
Proof. intros H. cbn [step]. destruct (mutable_kind c); [rewrite H|]; reflexivity. Qed.

(* ------------------------------------------------------------------------------------------ *)
(* the representation invariant                                                                *)
(* ------------------------------------------------------------------------------------------ *)

Definition inv (c : ctx) : Prop := NoDup (map fst (c_vars c)) /\ NoDup (map fst (c_funs c)).

Lemma inv_set_value c x v c' : inv c -> set_value c x v = Ok c' -> inv c'.
Proof.
  intros [Hv Hf] H. apply set_value_ok_inv in H. destruct H as [_ ->]. split; cbn; [|exact Hf].
  apply assoc_set_nodup. exact Hv.
Qed.

Lemma inv_set_function c f g c' : inv c -> set_function c f g = Ok c' -> inv c'.
Proof.
  intros [Hv Hf]. unfold set_function. destruct (c_kind c); try discriminate. intros H. inversion H.
  split; cbn; [exact Hv|]. apply assoc_set_nodup. exact Hf.
Qed.

Lemma inv_set_builtin c b c' : inv c -> set_builtin_functions_disabled c b = Ok c' -> inv c'.
Proof.
  intros Hi. unfold set_builtin_functions_disabled.
  destruct (c_kind c), b; intros H; inversion H; subst; exact Hi.
Qed.

Lemma inv_clear_variables c : inv c -> inv (clear_variables c).
Proof. intros [Hv Hf]. split; cbn; [constructor|exact Hf]. Qed.
Lemma inv_clear_functions c : inv c -> inv (clear_functions c).
Proof. intros [Hv Hf]. split; cbn; [exact Hv|constructor]. Qed.
Lemma inv_clear c : inv c -> inv (clear c).
Proof. intros _. split; cbn; constructor. Qed.

Lemma inv_initial k : inv (initial_ctx k).
Proof. destruct k; split; cbn; constructor. Qed.

(* ------------------------------------------------------------------------------------------ *)
(* the evaluator: induction principle, standalone argument evaluators                          *)
(* ------------------------------------------------------------------------------------------ *)

Lemma node_ind' (P : node -> Prop) :
  (forall o ch, Forall P ch -> P (Node o ch)) -> forall n, P n.
Proof.
  intros H. fix IH 1. intros [o ch]. apply H.
  induction ch as [|x ch IHch]; constructor; [apply IH|exact IHch].
Qed.

Lemma N_of_nat_S2_neq n k : (k < 2)%N -> N.eqb (N.of_nat (S (S n))) k = false.
Proof. intros H. apply N.eqb_neq. lia. Qed.
Lemma N_of_nat_S3_neq n : N.eqb (N.of_nat (S (S (S n)))) 2 = false.
Proof. apply N.eqb_neq. lia. Qed.

Section WithOracle.
Variable O : std_oracle.

(* the nested `fix args` of eval_mut / eval_ro as standalone functions *)
Fixpoint eval_args_mut (l : list node) (c : ctx) (lg : log) : outcome (list value) * ctx * log :=
  match l with
  | [] => (Ok [], c, lg)
  | x :: l' =>
      match eval_mut O x c lg with
      | (Ok v, c1, lg1) =>
          match eval_args_mut l' c1 lg1 with
          | (Ok vs, c2, lg2) => (Ok (v :: vs), c2, lg2)
          | r => r
          end
      | (Err e, c1, lg1) => (Err e, c1, lg1)
      | (Panic s, c1, lg1) => (Panic s, c1, lg1)
      end
  end.

Definition eval_args_ro (c : ctx) : list node -> log -> outcome (list value) * log :=
  fix args (l : list node) (lg : log) : outcome (list value) * log :=
    match l with
    | [] => (Ok [], lg)
    | x :: l' =>
        match eval_ro O x c lg with
        | (Ok v, lg1) =>
            match args l' lg1 with
            | (Ok vs, lg2) => (Ok (v :: vs), lg2)
            | r => r
            end
        | (Err e, lg1) => (Err e, lg1)
        | (Panic s, lg1) => (Panic s, lg1)
        end
    end.

Lemma eval_mut_unfold o ch c lg :
  eval_mut O (Node o ch) c lg =
  match eval_args_mut ch c lg with
  | (Ok vs, c1, lg1) => op_eval_mut O o vs c1 lg1
  | (Err e, c1, lg1) => (Err e, c1, lg1)
  | (Panic s, c1, lg1) => (Panic s, c1, lg1)
  end.
Proof. reflexivity. Qed.

Lemma eval_ro_unfold o ch c lg :
  eval_ro O (Node o ch) c lg =
  match eval_args_ro c ch lg with
  | (Ok vs, lg1) => op_eval O o vs c lg1
  | (Err e, lg1) => (Err e, lg1)
  | (Panic s, lg1) => (Panic s, lg1)
  end.
Proof. reflexivity. Qed.

(* ------------------------------------------------------------------------------------------ *)
(* the assignment operators, in closed form                                                    *)
(* ------------------------------------------------------------------------------------------ *)

Definition finish (c : ctx) (lg : log) (r : outcome ctx) : outcome value * ctx * log :=
  match r with Ok c' => (Ok VEmpty, c', lg) | Err e => (Err e, c, lg) | Panic s => (Panic s, c, lg) end.

Definition c_lookup (c : ctx) (x : str) : outcome value :=
  match get_value c x with Some v => Ok v | None => Err (EVariableIdentifierNotFound x) end.

Lemma op_eval_mut_assign args c lg :
  op_eval_mut O OAssign args c lg = finish c lg (do '(x, v) <- a_target args; set_value c x v).
Proof.
  destruct args as [|a0 [|a1 [|a2 rest]]].
  - reflexivity.
  - destruct a0; reflexivity.
  - destruct a0; reflexivity.
  - cbn [op_eval_mut]. unfold expect_operator_argument_amount, nargs. cbn [length].
    rewrite N_of_nat_S3_neq. destruct a0; reflexivity.
Qed.

Lemma op_eval_mut_opassign o b args c lg : assign_base o = Some b ->
  op_eval_mut O o args c lg =
  finish c lg (do '(x, v) <- a_target args;
               do cur <- c_lookup c x;
               do r <- fst (op_eval O b [cur; v] c lg);
               set_value c x r).
Proof.
  intros Hb.
  destruct args as [|a0 [|a1 [|a2 rest]]].
  - destruct o; try discriminate Hb; reflexivity.
  - destruct o; try discriminate Hb; destruct a0; reflexivity.
  - destruct o; try discriminate Hb; inversion Hb; subst b; destruct a0; try reflexivity;
      cbn [op_eval_mut]; unfold c_lookup; cbn; destruct (get_value c s); reflexivity.
  - destruct o; try discriminate Hb; cbn [op_eval_mut]; unfold expect_operator_argument_amount, nargs;
      cbn [length]; rewrite N_of_nat_S3_neq; destruct a0; reflexivity.
Qed.

(* op_eval_mut for the other operators is op_eval with the context passed through *)
Definition is_assign_op (o : operator) : bool :=
  match o with
  | OAssign | OAddAssign | OSubAssign | OMulAssign | ODivAssign | OModAssign | OExpAssign
  | OAndAssign | OOrAssign => true
  | _ => false
  end.

Lemma op_eval_mut_other o args c lg : is_assign_op o = false ->
  op_eval_mut O o args c lg = (fst (op_eval O o args c lg), c, snd (op_eval O o args c lg)).
Proof.
  intros H. destruct o; try discriminate H; cbn [op_eval_mut];
    destruct (op_eval O _ args c lg); reflexivity.
Qed.

Lemma assign_base_is_assign o b : assign_base o = Some b -> is_assign_op o = true /\ is_assign_op b = false.
Proof. destruct o; try discriminate; intros H; inversion H; split; reflexivity. Qed.

(* the eight base operators never look at the context or touch the log *)
Lemma base_op_pure o b args c lg : assign_base o = Some b ->
  op_eval O b args c lg = (fst (context_free O b args lg), lg).
Proof. destruct o; try discriminate; intros H; inversion H; reflexivity. Qed.

(* value-level statement of `x o= v` *)
Lemma opassign_value o b x v c lg : assign_base o = Some b ->
  op_eval_mut O o [VString x; v] c lg =
  finish c lg (do cur <- c_lookup c x; do r <- fst (op_eval O b [cur; v] c lg); set_value c x r).
Proof. intros Hb. rewrite (op_eval_mut_opassign o b _ c lg Hb). reflexivity. Qed.

(* every operator: the context comes back unchanged or is the result of ONE successful set_value *)
Lemma op_eval_mut_ctx o args c lg :
  let '(r, c', lg') := op_eval_mut O o args c lg in
  c' = c \/ (r = Ok VEmpty /\ is_assign_op o = true /\ exists x v, set_value c x v = Ok c').
Proof.
  destruct (is_assign_op o) eqn:A.
  - assert (G: forall R : outcome ctx,
              (forall c', R = Ok c' -> exists x v, set_value c x v = Ok c') ->
              let '(r, c', lg') := finish c lg R in
              c' = c \/ (r = Ok VEmpty /\ true = true /\ exists x v, set_value c x v = Ok c')).
    { intros R HR. destruct R as [c'|e|s]; cbn; [right|left; reflexivity|left; reflexivity].
      repeat split. apply HR. reflexivity. }
    destruct (assign_base o) as [b|] eqn:B.
    + rewrite (op_eval_mut_opassign o b args c lg B). apply G. intros c' H.
      destruct (a_target args) as [[x v]|e|s]; try discriminate H. cbn [bind] in H.
      destruct (c_lookup c x) as [cur|e|s]; try discriminate H. cbn [bind] in H.
      destruct (fst (op_eval O b [cur; v] c lg)) as [r|e|s]; try discriminate H. cbn [bind] in H.
      eauto.
    + destruct o; try discriminate A; try discriminate B.
      rewrite op_eval_mut_assign. apply G. intros c' H.
      destruct (a_target args) as [[x v]|e|s]; try discriminate H. cbn [bind] in H. eauto.
  - rewrite (op_eval_mut_other o args c lg A). left. reflexivity.
Qed.

(* a failed operator application returns the context it was given *)
Lemma failed_assign_unchanged o args c lg r c' lg' :
  op_eval_mut O o args c lg = (r, c', lg') -> r <> Ok VEmpty -> c' = c.
Proof.
  intros H Hr. pose proof (op_eval_mut_ctx o args c lg) as P. rewrite H in P.
  destruct P as [P|[P _]]; [exact P|contradiction].
Qed.

(* ------------------------------------------------------------------------------------------ *)
(* every change of the context by the evaluator is a sequence of successful set_value calls    *)
(* ------------------------------------------------------------------------------------------ *)

Inductive sv_star : ctx -> ctx -> Prop :=
| sv_refl c : sv_star c c
| sv_step c x v c1 c2 : set_value c x v = Ok c1 -> sv_star c1 c2 -> sv_star c c2.

Lemma sv_trans a b c : sv_star a b -> sv_star b c -> sv_star a c.
Proof. induction 1 as [|? ? ? ? ? H1 H2 IH]; intros H; [exact H|]. eapply sv_step; [exact H1|apply IH; exact H]. Qed.

Definition ctx_of {A} (r : A * ctx * log) : ctx := snd (fst r).

Lemma op_eval_mut_sv o args c lg : sv_star c (ctx_of (op_eval_mut O o args c lg)).
Proof.
  pose proof (op_eval_mut_ctx o args c lg) as P.
  destruct (op_eval_mut O o args c lg) as [[r c'] lg']. cbn.
  destruct P as [->|[_ [_ [x [v H]]]]]; [constructor|]. eapply sv_step; [exact H|constructor].
Qed.

Lemma eval_args_mut_sv ch : Forall (fun n => forall c lg, sv_star c (ctx_of (eval_mut O n c lg))) ch ->
  forall c lg, sv_star c (ctx_of (eval_args_mut ch c lg)).
Proof.
  induction 1 as [|x ch Hx Hch IH]; intros c lg; cbn [eval_args_mut]; [constructor|].
  specialize (Hx c lg). destruct (eval_mut O x c lg) as [[r c1] lg1]. cbn in Hx.
  destruct r as [v|e|s]; [|exact Hx|exact Hx].
  specialize (IH c1 lg1). destruct (eval_args_mut ch c1 lg1) as [[r2 c2] lg2]. cbn in IH.
  assert (T: sv_star c c2) by (eapply sv_trans; eassumption).
  destruct r2; exact T.
Qed.

Lemma eval_mut_sv n : forall c lg, sv_star c (ctx_of (eval_mut O n c lg)).
Proof.
  induction n as [o ch IH] using node_ind'. intros c lg. rewrite eval_mut_unfold.
  pose proof (eval_args_mut_sv ch IH c lg) as H.
  destruct (eval_args_mut ch c lg) as [[r c1] lg1]. cbn in H.
  destruct r as [vs|e|s]; [|exact H|exact H].
  eapply sv_trans; [exact H|apply op_eval_mut_sv].
Qed.

Lemma sv_star_frame c c' : sv_star c c' ->
  c_kind c' = c_kind c /\ c_funs c' = c_funs c /\ c_off c' = c_off c /\ (inv c -> inv c').
Proof.
  induction 1 as [c|c x v c1 c2 H1 H2 IH]; [tauto|].
  destruct IH as [K [F [B I]]]. pose proof (inv_set_value c x v c1) as I1.
  pose proof (set_value_ok_inv _ _ _ _ H1) as [K1 E1].
  assert (c_kind c1 = c_kind c /\ c_funs c1 = c_funs c /\ c_off c1 = c_off c) as [Ka [Fa Ba]].
  { rewrite E1, K1. cbn. auto. }
  rewrite K, F, B, Ka, Fa, Ba. split; [reflexivity|split; [reflexivity|split; [reflexivity|]]]. intros Hi. apply I. apply I1; assumption.
Qed.

(* C04_eval_preserves_wf / C04_invariant for the evaluator *)
Lemma eval_mut_frame n c lg :
  let c' := ctx_of (eval_mut O n c lg) in
  sv_star c c' /\ c_kind c' = c_kind c /\ c_funs c' = c_funs c /\ c_off c' = c_off c /\ (inv c -> inv c').
Proof. cbn zeta. split; [apply eval_mut_sv|]. apply sv_star_frame. apply eval_mut_sv. Qed.

(* on a context that is not a HashMapContext nothing ever changes *)
Lemma sv_star_not_hashmap c c' : c_kind c <> KHashMap -> sv_star c c' -> c' = c.
Proof.
  intros K H. destruct H as [|c x v c1 c2 H1 _]; [reflexivity|].
  apply set_value_ok_inv in H1. destruct H1 as [K1 _]. contradiction.
Qed.

(* ------------------------------------------------------------------------------------------ *)
(* assignment-free expressions leave the context alone                                         *)
(* ------------------------------------------------------------------------------------------ *)

Fixpoint no_assign (n : node) : bool :=
  match n with Node o ch => negb (is_assign_op o) && forallb no_assign ch end.

Lemma eval_args_mut_no_assign ch :
  Forall (fun n => no_assign n = true -> forall c lg, ctx_of (eval_mut O n c lg) = c) ch ->
  forallb no_assign ch = true -> forall c lg, ctx_of (eval_args_mut ch c lg) = c.
Proof.
  induction 1 as [|x ch Hx Hch IH]; intros Hf c lg; cbn [eval_args_mut]; [reflexivity|].
  cbn [forallb] in Hf. apply andb_prop in Hf. destruct Hf as [Hf1 Hf2].
  specialize (Hx Hf1 c lg). destruct (eval_mut O x c lg) as [[r c1] lg1]. cbn in Hx. subst c1.
  destruct r as [v|e|s]; [|reflexivity|reflexivity].
  specialize (IH Hf2 c lg1). destruct (eval_args_mut ch c lg1) as [[r2 c2] lg2]. cbn in IH. subst c2.
  destruct r2; reflexivity.
Qed.

Lemma eval_mut_no_assign n : no_assign n = true -> forall c lg, ctx_of (eval_mut O n c lg) = c.
Proof.
  induction n as [o ch IH] using node_ind'. intros Hn c lg. cbn [no_assign] in Hn.
  apply andb_prop in Hn. destruct Hn as [Ho Hch]. apply negb_true_iff in Ho.
  rewrite eval_mut_unfold.
  pose proof (eval_args_mut_no_assign ch IH Hch c lg) as H.
  destruct (eval_args_mut ch c lg) as [[r c1] lg1]. cbn in H. subst c1.
  destruct r as [vs|e|s]; [|reflexivity|reflexivity].
  rewrite (op_eval_mut_other o vs c lg1 Ho). reflexivity.
Qed.

(* ------------------------------------------------------------------------------------------ *)
(* `x o= e` against `x = x o e`                                                                *)
(* ------------------------------------------------------------------------------------------ *)

Definition wr (x : str) : node := Node (OVariableIdentifierWrite x) [].
Definition rd (x : str) : node := Node (OVariableIdentifierRead x) [].

Lemma eval_wr x c lg : eval_mut O (wr x) c lg = (Ok (VString x), c, lg).
Proof. reflexivity. Qed.

Lemma eval_rd x c lg : eval_mut O (rd x) c lg = (c_lookup c x, c, lg).
Proof.
  unfold rd, c_lookup. rewrite eval_mut_unfold. cbn. destruct (get_value c x); reflexivity.
Qed.

Lemma opassign_prog_bound o b x e c lg cur re c1 lg1 :
  assign_base o = Some b ->
  get_value c x = Some cur ->
  eval_mut O e c lg = (re, c1, lg1) ->
  get_value c1 x = Some cur ->
  eval_mut O (Node o [wr x; e]) c lg =
  eval_mut O (Node OAssign [wr x; Node b [rd x; e]]) c lg.
Proof.
  intros Hb G He G1.
  pose proof (assign_base_is_assign o b Hb) as [_ Ab].
  rewrite (eval_mut_unfold o), (eval_mut_unfold OAssign).
  cbn [eval_args_mut]. rewrite !eval_wr. rewrite (eval_mut_unfold b). cbn [eval_args_mut].
  rewrite eval_rd. unfold c_lookup at 1. rewrite G. rewrite He.
  destruct re as [v|err|s]; try reflexivity.
  rewrite (opassign_value o b x v c1 lg1 Hb).
  rewrite (op_eval_mut_other b [cur; v] c1 lg1 Ab).
  unfold c_lookup. rewrite G1. cbn [bind].
  rewrite (base_op_pure o b [cur; v] c1 lg1 Hb). cbn [fst snd].
  destruct (fst (context_free O b [cur; v] lg1)) as [r|err|s]; reflexivity.
Qed.

Lemma opassign_prog_unbound o b x e c lg v :
  assign_base o = Some b ->
  get_value c x = None ->
  eval_mut O e c lg = (Ok v, c, lg) ->
  eval_mut O (Node o [wr x; e]) c lg = (Err (EVariableIdentifierNotFound x), c, lg) /\
  eval_mut O (Node OAssign [wr x; Node b [rd x; e]]) c lg = (Err (EVariableIdentifierNotFound x), c, lg).
Proof.
  intros Hb G He.
  rewrite (eval_mut_unfold o), (eval_mut_unfold OAssign).
  cbn [eval_args_mut]. rewrite !eval_wr. rewrite (eval_mut_unfold b). cbn [eval_args_mut].
  rewrite eval_rd. unfold c_lookup. rewrite G. rewrite He. split; [|reflexivity].
  rewrite (opassign_value o b x v c lg Hb). unfold c_lookup. rewrite G. reflexivity.
Qed.

Lemma opassign_prog_no_assign o b x e c lg cur :
  assign_base o = Some b -> no_assign e = true -> get_value c x = Some cur ->
  eval_mut O (Node o [wr x; e]) c lg =
  eval_mut O (Node OAssign [wr x; Node b [rd x; e]]) c lg.
Proof.
  intros Hb Hn G. pose proof (eval_mut_no_assign e Hn c lg) as H.
  destruct (eval_mut O e c lg) as [[re c1] lg1] eqn:He. cbn in H. subst c1.
  eapply opassign_prog_bound; eauto.
Qed.

End WithOracle.
