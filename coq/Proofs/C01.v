(* C01: assembling the no-panic lemmas of the tokenizer (C01Lex), the tree builder (C01Build),
   the evaluators and builtins (C01Eval), the iterators (C14) and the translated entry points (C12). *)
From Coq Require Import Strings.String Floats.SpecFloat.
Require Import Model.Base Model.Syntax Model.F64 Model.Lexer Model.Builder Model.Value Model.Context Model.Builtins
               Model.Eval Model.Iter Model.Interface Model.Script Model.InterfaceDefs Gen.Interface Model.InterfaceGen.
Require Import Proofs.Common Proofs.C01Lex Proofs.C01Build Proofs.C01Eval Proofs.C12 Proofs.C14 Spec.Preorder Proofs.LexLength.

Lemma parse_no_panic (s : str) : is_panic (build_operator_tree s) = false.
Proof.
  unfold build_operator_tree. apply bind_not_panic; [apply tokenize_no_panic|].
  intros ts _. apply build_no_panic.
Qed.

Lemma entry_no_panic (O : std_oracle) (m : emode) (t : etype) (s : str) (c : ctx) (lg : log) :
  np_funs c -> is_panic (fst (fst (run_entry O m t s c lg))) = false.
Proof. intros H. exact (proj1 (run_entry_no_panic O parse_no_panic m t s c lg H)). Qed.

Lemma entry_gen_no_panic (O : std_oracle) (l : elevel) (m : emode) (t : etype) (s : str) (c : ctx) (lg : log) :
  translation_complete = true -> np_funs c -> is_panic (fst (fst (run_entry_gen O l m t s c lg))) = false.
Proof. intros T H. rewrite entry_gen_eq by exact T. apply entry_no_panic. exact H. Qed.

Lemma history_no_panic (O : std_oracle) (ops : list cop) (c : ctx) (lg : log) :
  np_funs c -> Forall cout_no_panic (snd (run_script O (c, lg) ops)).
Proof. apply script_no_panic. exact parse_no_panic. Qed.

Lemma iter_no_panic (n : node) : is_panic (iter_all n) = false.
Proof. rewrite iter_all_preorder. reflexivity. Qed.

Lemma parse_depth (s : str) (n : node) : build_operator_tree s = Ok n ->
  exists ts, tokenize s = Ok ts /\ (depth n <= length ts + 1)%nat.
Proof.
  unfold build_operator_tree. intros H. apply bind_ok in H. destruct H as (ts & Ht & Hb).
  exists ts. split; [exact Ht|exact (build_depth ts n Hb)].
Qed.

(* a source string of k characters gives a tree at most k + 1 deep: every recursive function of the library
   recurses at most that deep on an input of the documented size bound *)
Lemma parse_depth_chars (s : str) (n : node) : build_operator_tree s = Ok n -> (depth n <= length s + 1)%nat.
Proof.
  intros H. destruct (parse_depth s n H) as (ts & Ht & Hd). pose proof (tokenize_length s ts Ht). lia.
Qed.
