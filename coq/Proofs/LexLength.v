(* The tokenizer emits at most one token per input character (used by C01_depth_chars). *)
From Coq Require Import Floats.SpecFloat.
Require Import Model.Base Model.Syntax Model.F64 Model.Lexer Gen.Tables Proofs.Common.

Definition pending (st : lstate) : nat := match st with LSlash => 1 | _ => 0 end.

Lemma push_partial_length acc p : (length (push_partial acc p) <= S (length acc))%nat.
Proof. unfold push_partial. destruct acc as [|[] acc]; destruct p; cbn; lia. Qed.

Lemma lex_normal_length acc c st' acc' : lex_normal acc c = (st', acc') ->
  (length acc' + pending st' <= S (length acc))%nat.
Proof.
  unfold lex_normal. destruct (c =? QUOTE)%N.
  - intros H; inversion H; subst; cbn; lia.
  - destruct (char_to_partial_token c) eqn:E; intros H; inversion H; subst; cbn [pending];
      try (pose proof (push_partial_length acc (char_to_partial_token c)) as L; rewrite E in L; lia).
    lia.
Qed.

Lemma lex_length : forall (s : str) (st : lstate) (acc ps : list ptoken),
  lex st acc s = Ok ps -> (length ps <= length acc + pending st + length s)%nat.
Proof.
  induction s as [|c s IH]; intros st acc ps H.
  - cbn [lex] in H. destruct st; cbn [pending length]; try discriminate; inversion H; subst;
      rewrite ?rev_length; try lia.
    pose proof (push_partial_length acc PSlash). lia.
  - cbn [lex] in H. destruct st.
    + destruct (lex_normal acc c) as [st' acc'] eqn:E. apply lex_normal_length in E.
      apply IH in H. cbn [pending length]. lia.
    + destruct (c =? SLASH)%N.
      * apply IH in H. cbn [pending length] in *. lia.
      * destruct (c =? STAR)%N.
        -- apply IH in H. cbn [pending length] in *. lia.
        -- destruct (lex_normal (push_partial acc PSlash) c) as [st' acc'] eqn:E. apply lex_normal_length in E.
           apply IH in H. pose proof (push_partial_length acc PSlash). cbn [pending length]. lia.
    + destruct (c =? QUOTE)%N; [|destruct (c =? BACKSLASH)%N]; apply IH in H; cbn [pending length] in *; lia.
    + destruct (c =? QUOTE)%N; [|destruct (c =? BACKSLASH)%N]; try discriminate; apply IH in H; cbn [pending length] in *; lia.
    + destruct (c =? NEWLINE)%N; apply IH in H; cbn [pending length] in *; lia.
    + destruct (star && (c =? SLASH)%N); apply IH in H; cbn [pending length] in *; lia.
Qed.

Lemma ptt_length : forall (n : nat) (ps : list ptoken) (ts : list token),
  (length ps <= n)%nat -> partial_tokens_to_tokens ps = Ok ts -> (length ts <= length ps)%nat.
Proof.
  induction n as [|n IH]; intros ps ts Hn H.
  - destruct ps; [cbn in H; inversion H; subst; cbn; lia|cbn in Hn; lia].
  - destruct ps as [|first rest1]; [cbn in H; inversion H; subst; cbn; lia|].
    cbn [partial_tokens_to_tokens] in H.
    assert (REC: forall r t0, (length r <= n)%nat -> partial_tokens_to_tokens r = Ok t0 -> (length t0 <= length r)%nat)
      by (intros; eapply IH; eauto).
    cbn [length] in Hn.
    assert (SIMPLE: forall plain assign,
      (if is_PEq match rest1 with x :: _ => Some x | [] => None end
       then match rest1 with
            | _ :: r => do ts0 <- partial_tokens_to_tokens r; Ok (assign :: ts0)
            | [] => Panic 1
            end
       else do ts0 <- partial_tokens_to_tokens rest1; Ok (plain :: ts0)) = Ok ts ->
      (length ts <= S (length rest1))%nat).
    { intros plain assign HS. destruct rest1 as [|x r].
      - cbn in HS. inversion HS; subst. cbn. lia.
      - destruct (is_PEq (Some x)).
        + apply bind_ok in HS. destruct HS as (t0 & H0 & H1). inversion H1; subst.
          apply REC in H0; cbn [length] in *; lia.
        + apply bind_ok in HS. destruct HS as (t0 & H0 & H1). inversion H1; subst.
          apply REC in H0; cbn [length] in *; lia. }
    destruct first; try (apply SIMPLE in H; cbn [length]; lia).
    + apply bind_ok in H. destruct H as (t0 & H0 & H1). inversion H1; subst. apply REC in H0; cbn [length] in *; lia.
    + destruct (literal_to_token s _ _) as [t k].
      destruct k as [|[|[|[|k]]]];
        try (apply bind_ok in H; destruct H as (t0 & H0 & H1); inversion H1; subst; apply REC in H0; cbn [length] in *; lia).
      destruct rest1 as [|a [|b r]]; try discriminate.
      apply bind_ok in H. destruct H as (t0 & H0 & H1). inversion H1; subst. apply REC in H0; cbn [length] in *; lia.
    + apply REC in H; cbn [length] in *; lia.
    + destruct rest1 as [|[] r2]; try discriminate.
      destruct r2 as [|[] r3];
        try (apply bind_ok in H; destruct H as (t0 & H0 & H1); inversion H1; subst; apply REC in H0; cbn [length] in *; lia).
    + destruct rest1 as [|[] r2]; try discriminate.
      destruct r2 as [|[] r3];
        try (apply bind_ok in H; destruct H as (t0 & H0 & H1); inversion H1; subst; apply REC in H0; cbn [length] in *; lia).
Qed.

Theorem tokenize_length (s : str) (ts : list token) : tokenize s = Ok ts -> (length ts <= length s)%nat.
Proof.
  unfold tokenize, str_to_partial_tokens. intros H. apply bind_ok in H. destruct H as (ps & H1 & H2).
  apply lex_length in H1. cbn [pending length] in H1.
  apply (ptt_length (length ps)) in H2; lia.
Qed.
