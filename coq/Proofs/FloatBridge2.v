(* FloatBridge2 -- second part of the bridge between the model's float arithmetic (Model/F64.v) and
   IEEE-754 binary64: what Proofs/FloatBridge.v does not cover.
     1. the special-value tables (NaN, infinities, signed zeros) of + - * / sqrt neg abs
     2. the SIGN of results (in particular of zero results) for finite operands
     3. the derived comparisons f_eqb / f_ltb / f_leb / f_gtb / f_geb
     4. `%` (f_rem, hand-written in the model): the exact C fmod
     5. floor / ceil / round (f_round_int, hand-written in the model)
     6. the classification predicates
   By special dispensation this file (and Props/FloatIEEE2.v) imports Flocq and the Reals library.  The
   lemmas that mention real numbers depend on at most the four standard-library axioms behind Coq's
   classical reals:
     ClassicalDedekindReals.sig_not_dec, ClassicalDedekindReals.sig_forall_dec,
     FunctionalExtensionality.functional_extensionality_dep, Classical_Prop.classic.
   Sections 0, 1, 2a, 3a and the lemmas of 4, 5, 6 that do not mention real numbers (tables, signs) are
   proved without them (plain case analysis and integer arithmetic).
   No axiom is declared here. *)
From Coq Require Import ZArith Reals Lia Lra Bool Floats.SpecFloat.
From Flocq Require Import Core.Core Calc.Round IEEE754.BinarySingleNaN Plus_error.
Require Import Model.Base Model.F64.
Require Import Proofs.FloatBridge.

Local Open Scope Z_scope.

(* ------------------------------------------------------------------------------------------ *)
(** * 0. Axiom-free facts about SpecFloat's rounding: the sign is never lost                     *)
(* ------------------------------------------------------------------------------------------ *)

(* [signed s z]: z is not NaN and carries the sign s *)
Definition signed (s : bool) (z : spec_float) : Prop :=
  is_nan_SF z = false /\ sign_SF z = s.

Lemma shr_1_nonneg : forall mrs, 0 <= shr_m mrs -> 0 <= shr_m (shr_1 mrs).
Proof.
  intros [m r s] Hm. cbn [shr_m] in Hm.
  destruct m as [|[p|p|]|[p|p|]]; cbn [shr_1 shr_m orb]; lia.
Qed.

Lemma iter_shr_1_nonneg : forall p mrs, 0 <= shr_m mrs -> 0 <= shr_m (SpecFloat.iter_pos shr_1 p mrs).
Proof.
  induction p as [p IH|p IH|]; intros mrs Hm; cbn [SpecFloat.iter_pos].
  - apply IH, IH, shr_1_nonneg, Hm.
  - apply IH, IH, Hm.
  - apply shr_1_nonneg, Hm.
Qed.

Lemma shr_nonneg : forall mrs e n, 0 <= shr_m mrs -> 0 <= shr_m (fst (shr mrs e n)).
Proof.
  intros mrs e n Hm. destruct n as [|p|p]; cbn [shr fst]; [exact Hm| |exact Hm].
  apply iter_shr_1_nonneg, Hm.
Qed.

Lemma shr_m_record_of_loc : forall m l, shr_m (shr_record_of_loc m l) = m.
Proof. intros m [|[| |]]; reflexivity. Qed.

Lemma shr_fexp_nonneg : forall prec emax m e l, 0 <= m -> 0 <= shr_m (fst (shr_fexp prec emax m e l)).
Proof.
  intros prec emax m e l Hm. unfold shr_fexp. apply shr_nonneg.
  rewrite shr_m_record_of_loc. exact Hm.
Qed.

Lemma round_nearest_even_nonneg : forall m l, 0 <= m -> 0 <= round_nearest_even m l.
Proof.
  intros m [|[| |]] Hm; cbn [round_nearest_even]; try lia.
  destruct (Z.even m); lia.
Qed.

Lemma binary_round_aux_signed : forall prec emax s m e l, 0 <= m ->
  signed s (SpecFloat.binary_round_aux prec emax s m e l).
Proof.
  intros prec emax s m e l Hm. unfold SpecFloat.binary_round_aux.
  pose proof (shr_fexp_nonneg prec emax m e l Hm) as H1.
  destruct (shr_fexp prec emax m e l) as [mrs' e']. cbn [fst] in H1.
  pose proof (shr_fexp_nonneg prec emax _ e' loc_Exact
                (round_nearest_even_nonneg _ (loc_of_shr_record mrs') H1)) as H2.
  destruct (shr_fexp prec emax (round_nearest_even (shr_m mrs') (loc_of_shr_record mrs')) e' loc_Exact)
    as [mrs'' e'']. cbn [fst] in H2.
  destruct (shr_m mrs'') as [|p|p]; [split; reflexivity| |lia].
  destruct (Zle_bool e'' (emax - prec)); split; reflexivity.
Qed.

Lemma binary_round_signed : forall prec emax s m e, signed s (SpecFloat.binary_round prec emax s m e).
Proof.
  intros prec emax s m e. unfold SpecFloat.binary_round.
  destruct (shl_align m e (fexp prec emax (Z.pos (digits2_pos m) + e))) as [mz ez].
  apply binary_round_aux_signed. lia.
Qed.

(* the sign of a normalised integer*2^e: the sign of the integer, [szero] when it is zero *)
Lemma binary_normalize_signed : forall prec emax m e szero,
  signed (match m with Z0 => szero | Z.pos _ => false | Z.neg _ => true end)
         (SpecFloat.binary_normalize prec emax m e szero).
Proof.
  intros prec emax [|p|p] e szero; cbn [SpecFloat.binary_normalize].
  - split; reflexivity.
  - apply binary_round_signed.
  - apply binary_round_signed.
Qed.

(* the shape used by f_rem and f_round_int: magnitude n >= 0 with the sign s applied, szero = s *)
Lemma normalize_cond_Zopp_signed : forall prec emax (s : bool) n e, 0 <= n ->
  signed s (SpecFloat.binary_normalize prec emax (if s then Z.opp n else n) e s).
Proof.
  intros prec emax s n e Hn.
  pose proof (binary_normalize_signed prec emax (if s then Z.opp n else n) e s) as H.
  destruct s; destruct n as [|p|p]; try lia; exact H.
Qed.

Lemma SFdiv_core_binary_nonneg : forall prec emax mx ex my ey,
  0 <= fst (fst (SFdiv_core_binary prec emax (Z.pos mx) ex (Z.pos my) ey)).
Proof.
  intros prec emax mx ex my ey. unfold SFdiv_core_binary.
  set (s := ex - ey - _).
  set (m' := match s with Z.pos _ => Z.shiftl (Z.pos mx) s | Z0 => Z.pos mx | Z.neg _ => 0 end).
  assert (Hm' : 0 <= m').
  { unfold m'. destruct s as [|p|p]; try lia. apply Z.shiftl_nonneg. lia. }
  pose proof (Z.div_pos m' (Z.pos my) Hm' eq_refl) as Hq. unfold Z.div in Hq.
  destruct (Z.div_eucl m' (Z.pos my)) as [q r]. cbn [fst]. exact Hq.
Qed.

(* ------------------------------------------------------------------------------------------ *)
(** * 1. Special values: the IEEE-754 tables, by case analysis (no axioms)                       *)
(* ------------------------------------------------------------------------------------------ *)

(* s = true is the negative sign; Fin s m e is the non-zero number (-1)^s * m * 2^e *)
Local Notation NaN := S754_nan (only parsing).
Local Notation Inf := S754_infinity (only parsing).
Local Notation Zero := S754_zero (only parsing).
Local Notation Fin := S754_finite (only parsing).

Lemma add_nan : forall x, f_add NaN x = NaN /\ f_add x NaN = NaN.
Proof. intros [s|s| |s m e]; split; reflexivity. Qed.

Lemma add_special : forall (sx sy : bool) (m : positive) (e : Z),
  (* infinities *)
  f_add (Inf sx) (Inf sx) = Inf sx /\
  f_add (Inf sx) (Inf (negb sx)) = NaN /\
  f_add (Inf sx) (Zero sy) = Inf sx /\ f_add (Zero sy) (Inf sx) = Inf sx /\
  f_add (Inf sx) (Fin sy m e) = Inf sx /\ f_add (Fin sy m e) (Inf sx) = Inf sx /\
  (* zeros: -0 only from (-0) + (-0) *)
  f_add (Zero sx) (Zero sy) = Zero (sx && sy) /\
  f_add (Zero sx) (Fin sy m e) = Fin sy m e /\ f_add (Fin sy m e) (Zero sx) = Fin sy m e /\
  (* exact cancellation gives +0 *)
  f_add (Fin sx m e) (Fin (negb sx) m e) = Zero false.
Proof.
  intros sx sy m e.
  repeat split; try (destruct sx; destruct sy; reflexivity).
  unfold f_add. cbn [SFadd]. rewrite Z.min_id.
  replace (SpecFloat.cond_Zopp sx (Z.pos (fst (shl_align m e e))) +
           SpecFloat.cond_Zopp (negb sx) (Z.pos (fst (shl_align m e e)))) with 0
    by (destruct sx; cbn [SpecFloat.cond_Zopp negb]; lia).
  reflexivity.
Qed.

Lemma sub_nan : forall x, f_sub NaN x = NaN /\ f_sub x NaN = NaN.
Proof. intros [s|s| |s m e]; split; reflexivity. Qed.

Lemma sub_special : forall (sx sy : bool) (m : positive) (e : Z),
  f_sub (Inf sx) (Inf sx) = NaN /\
  f_sub (Inf sx) (Inf (negb sx)) = Inf sx /\
  f_sub (Inf sx) (Zero sy) = Inf sx /\ f_sub (Zero sy) (Inf sx) = Inf (negb sx) /\
  f_sub (Inf sx) (Fin sy m e) = Inf sx /\ f_sub (Fin sy m e) (Inf sx) = Inf (negb sx) /\
  (* zeros: -0 only from (-0) - (+0) *)
  f_sub (Zero sx) (Zero sy) = Zero (sx && negb sy) /\
  f_sub (Zero sx) (Fin sy m e) = Fin (negb sy) m e /\ f_sub (Fin sy m e) (Zero sx) = Fin sy m e /\
  (* x - x = +0 *)
  f_sub (Fin sx m e) (Fin sx m e) = Zero false.
Proof.
  intros sx sy m e.
  repeat split; try (destruct sx; destruct sy; reflexivity).
  unfold f_sub. cbn [SFsub]. rewrite Z.min_id, Z.sub_diag. reflexivity.
Qed.

Lemma mul_nan : forall x, f_mul NaN x = NaN /\ f_mul x NaN = NaN.
Proof. intros [s|s| |s m e]; split; reflexivity. Qed.

Lemma mul_special : forall (sx sy : bool) (m : positive) (e : Z),
  f_mul (Inf sx) (Inf sy) = Inf (xorb sx sy) /\
  f_mul (Inf sx) (Fin sy m e) = Inf (xorb sx sy) /\ f_mul (Fin sx m e) (Inf sy) = Inf (xorb sx sy) /\
  f_mul (Inf sx) (Zero sy) = NaN /\ f_mul (Zero sx) (Inf sy) = NaN /\
  f_mul (Zero sx) (Zero sy) = Zero (xorb sx sy) /\
  f_mul (Zero sx) (Fin sy m e) = Zero (xorb sx sy) /\ f_mul (Fin sx m e) (Zero sy) = Zero (xorb sx sy).
Proof. intros sx sy m e. repeat split. Qed.

Lemma div_nan : forall x, f_div NaN x = NaN /\ f_div x NaN = NaN.
Proof. intros [s|s| |s m e]; split; reflexivity. Qed.

Lemma div_special : forall (sx sy : bool) (m : positive) (e : Z),
  f_div (Inf sx) (Inf sy) = NaN /\
  f_div (Zero sx) (Zero sy) = NaN /\
  f_div (Inf sx) (Zero sy) = Inf (xorb sx sy) /\
  f_div (Inf sx) (Fin sy m e) = Inf (xorb sx sy) /\
  f_div (Fin sx m e) (Zero sy) = Inf (xorb sx sy) /\       (* x / 0, x finite non-zero *)
  f_div (Zero sx) (Inf sy) = Zero (xorb sx sy) /\
  f_div (Fin sx m e) (Inf sy) = Zero (xorb sx sy) /\
  f_div (Zero sx) (Fin sy m e) = Zero (xorb sx sy).
Proof. intros sx sy m e. repeat split. Qed.

Lemma sqrt_special2 : forall (s : bool) (m : positive) (e : Z),
  f_sqrt NaN = NaN /\
  f_sqrt (Inf false) = Inf false /\ f_sqrt (Inf true) = NaN /\
  f_sqrt (Zero s) = Zero s /\
  f_sqrt (Fin true m e) = NaN /\
  signed false (f_sqrt (Fin false m e)).
Proof.
  intros s m e. repeat split.
  - unfold f_sqrt. cbn [SFsqrt].
    destruct (SFsqrt_core_binary F64.prec F64.emax (Z.pos m) e) as [[mz ez] lz] eqn:E.
    destruct (SpecFloat.binary_round_aux F64.prec F64.emax false mz ez lz) as [s'|s'| |s' m' e'] eqn:E';
      try reflexivity.
    (* NaN impossible: the integer square root is non-negative *)
    exfalso.
    assert (Hmz : 0 <= mz).
    { unfold SFsqrt_core_binary in E.
      set (m' := match _ with Z.pos _ => Z.shiftl (Z.pos m) _ | Z0 => Z.pos m | Z.neg _ => 0 end) in E.
      pose proof (Z.sqrtrem_spec m') as HS.
      assert (Hm' : 0 <= m').
      { unfold m'. destruct (e - 2 * _) as [|p|p]; try lia. apply Z.shiftl_nonneg. lia. }
      specialize (HS Hm'). destruct (Z.sqrtrem m') as [q r].
      injection E as E1 _ _. subst mz. nia. }
    pose proof (binary_round_aux_signed F64.prec F64.emax false mz ez lz Hmz) as [Hn _].
    rewrite E' in Hn. discriminate Hn.
  - unfold f_sqrt. cbn [SFsqrt].
    destruct (SFsqrt_core_binary F64.prec F64.emax (Z.pos m) e) as [[mz ez] lz] eqn:E.
    assert (Hmz : 0 <= mz).
    { unfold SFsqrt_core_binary in E.
      set (m' := match _ with Z.pos _ => Z.shiftl (Z.pos m) _ | Z0 => Z.pos m | Z.neg _ => 0 end) in E.
      pose proof (Z.sqrtrem_spec m') as HS.
      assert (Hm' : 0 <= m').
      { unfold m'. destruct (e - 2 * _) as [|p|p]; try lia. apply Z.shiftl_nonneg. lia. }
      specialize (HS Hm'). destruct (Z.sqrtrem m') as [q r].
      injection E as E1 _ _. subst mz. nia. }
    apply (binary_round_aux_signed F64.prec F64.emax false mz ez lz Hmz).
Qed.

Lemma neg_table : forall (s : bool) (m : positive) (e : Z),
  f_neg NaN = NaN /\ f_neg (Inf s) = Inf (negb s) /\ f_neg (Zero s) = Zero (negb s) /\
  f_neg (Fin s m e) = Fin (negb s) m e.
Proof. intros s m e. repeat split. Qed.

Lemma abs_table : forall (s : bool) (m : positive) (e : Z),
  f_abs NaN = NaN /\ f_abs (Inf s) = Inf false /\ f_abs (Zero s) = Zero false /\
  f_abs (Fin s m e) = Fin false m e.
Proof. intros s m e. repeat split. Qed.

Lemma neg_sign : forall x, is_nan_SF x = false ->
  sign_SF (f_neg x) = negb (sign_SF x) /\ is_nan_SF (f_neg x) = false.
Proof. intros [s|s| |s m e] Hx; try discriminate Hx; split; reflexivity. Qed.

Lemma abs_sign : forall x, sign_SF (f_abs x) = false.
Proof. intros [s|s| |s m e]; reflexivity. Qed.

Lemma neg_involutive : forall x, f_neg (f_neg x) = x.
Proof. intros [s|s| |s m e]; cbn [f_neg SFopp]; rewrite ?negb_involutive; reflexivity. Qed.

(* ------------------------------------------------------------------------------------------ *)
(** * 2a. The sign of products and quotients (no axioms): always the xor, also on underflow     *)
(* ------------------------------------------------------------------------------------------ *)

Lemma mul_signed_finite : forall sx mx ex sy my ey,
  signed (xorb sx sy) (f_mul (Fin sx mx ex) (Fin sy my ey)).
Proof.
  intros sx mx ex sy my ey. unfold f_mul. cbn [SFmul].
  apply binary_round_aux_signed. lia.
Qed.

Lemma div_signed_finite : forall sx mx ex sy my ey,
  signed (xorb sx sy) (f_div (Fin sx mx ex) (Fin sy my ey)).
Proof.
  intros sx mx ex sy my ey. unfold f_div. cbn [SFdiv].
  pose proof (SFdiv_core_binary_nonneg F64.prec F64.emax mx ex my ey) as Hq.
  destruct (SFdiv_core_binary F64.prec F64.emax (Z.pos mx) ex (Z.pos my) ey) as [[mz ez] lz].
  cbn [fst] in Hq. apply binary_round_aux_signed. exact Hq.
Qed.

(* whenever a product is not NaN its sign is the xor of the signs -- every class of operand *)
Lemma mul_sign : forall x y, is_nan_SF (f_mul x y) = false ->
  sign_SF (f_mul x y) = xorb (sign_SF x) (sign_SF y).
Proof.
  intros [sx|sx| |sx mx ex] [sy|sy| |sy my ey] Hn; try reflexivity; try discriminate Hn.
  apply mul_signed_finite.
Qed.

Lemma div_sign : forall x y, is_nan_SF (f_div x y) = false ->
  sign_SF (f_div x y) = xorb (sign_SF x) (sign_SF y).
Proof.
  intros [sx|sx| |sx mx ex] [sy|sy| |sy my ey] Hn; try reflexivity; try discriminate Hn.
  apply div_signed_finite.
Qed.

(* finite operands: the product is never NaN *)
Lemma mul_sign_finite : forall x y, is_finite_SF x = true -> is_finite_SF y = true ->
  is_nan_SF (f_mul x y) = false /\ sign_SF (f_mul x y) = xorb (sign_SF x) (sign_SF y).
Proof.
  intros [sx|sx| |sx mx ex] [sy|sy| |sy my ey] Fx Fy; try discriminate Fx; try discriminate Fy;
    try (split; reflexivity).
  apply mul_signed_finite.
Qed.

(* finite dividend, finite non-zero divisor *)
Lemma div_sign_finite : forall x y, is_finite_SF x = true -> is_finite_nonzero_SF y = true ->
  is_nan_SF (f_div x y) = false /\ sign_SF (f_div x y) = xorb (sign_SF x) (sign_SF y).
Proof.
  intros [sx|sx| |sx mx ex] [sy|sy| |sy my ey] Fx Fy; try discriminate Fx; try discriminate Fy;
    try (split; reflexivity).
  apply div_signed_finite.
Qed.

(* a product / quotient that is a zero (exactly or by underflow) is the zero of the xor sign *)
Lemma mul_zero_sign : forall x y s, f_mul x y = Zero s -> s = xorb (sign_SF x) (sign_SF y).
Proof.
  intros x y s E. pose proof (mul_sign x y) as H. rewrite E in H. exact (H eq_refl).
Qed.

Lemma div_zero_sign : forall x y s, f_div x y = Zero s -> s = xorb (sign_SF x) (sign_SF y).
Proof.
  intros x y s E. pose proof (div_sign x y) as H. rewrite E in H. exact (H eq_refl).
Qed.

(* ------------------------------------------------------------------------------------------ *)
(** * 2b. The sign of sums and differences of finite operands (through Flocq's Bplus_correct)   *)
(* ------------------------------------------------------------------------------------------ *)

Local Open Scope R_scope.

Lemma R64_sign_true : forall x, sign_SF x = true -> R64 x <= 0.
Proof.
  intros [s|s| |s m e] Hs; cbn [SF2R]; try lra.
  cbn [sign_SF] in Hs. subst s. apply Rlt_le, F2R_lt_0. reflexivity.
Qed.

Lemma R64_sign_false : forall x, sign_SF x = false -> 0 <= R64 x.
Proof.
  intros [s|s| |s m e] Hs; cbn [SF2R]; try lra.
  cbn [sign_SF] in Hs. subst s. apply Rlt_le, F2R_gt_0. reflexivity.
Qed.

Lemma rnd64_0 : rnd64 0 = 0.
Proof. apply round_0. typeclasses eauto. Qed.

Lemma overflow_nonzero : forall r,
  Rlt_bool (Rabs (rnd64 r)) (bpow radix2 1024) = false -> r <> 0.
Proof.
  intros r H E. subst r. rewrite rnd64_0, Rabs_R0, Rlt_bool_true in H by apply bpow_gt_0.
  discriminate H.
Qed.

Lemma sign_SF_B2SF64 : forall b : b64, sign_SF (B2SF b) = Bsign b.
Proof. intros [s|s| |s m e H]; reflexivity. Qed.

Lemma IEEE_add_sign : forall x y : f64,
  valid64 x = true -> valid64 y = true -> is_finite_SF x = true -> is_finite_SF y = true ->
  is_nan_SF (f_add x y) = false /\
  sign_SF (f_add x y) =
    match Rcompare (R64 x + R64 y) 0 with
    | Eq => sign_SF x && sign_SF y
    | Lt => true
    | Gt => false
    end.
Proof.
  intros x y Hx Hy Fx Fy.
  rewrite (f_add_lift x y Hx Hy).
  pose proof (Bplus_correct 53 1024 prec_gt_0_53 prec_lt_emax_53_1024 mode_NE (lift x Hx) (lift y Hy)) as HC.
  rewrite !is_finite_lift, !B2R_lift, !Bsign_lift in HC.
  specialize (HC Fx Fy).
  change (round_mode mode_NE) with ZnearestE in HC.
  rewrite fexp64_eq in HC.
  destruct (Rlt_bool (Rabs (rnd64 (R64 x + R64 y))) (bpow radix2 1024)) eqn:Hov.
  - destruct HC as [_ [HF HS]].
    rewrite sign_SF_B2SF64. split; [|exact HS].
    destruct (Bplus mode_NE (lift x Hx) (lift y Hy)); try reflexivity; discriminate HF.
  - destruct HC as [HZ HSS]. rewrite HZ.
    cbn [binary_overflow overflow_to_inf is_nan_SF sign_SF]. split; [reflexivity|].
    pose proof (overflow_nonzero _ Hov) as Hnz.
    destruct (sign_SF x) eqn:Sx.
    + pose proof (R64_sign_true x Sx) as H1. pose proof (R64_sign_true y (eq_sym HSS)) as H2.
      rewrite Rcompare_Lt by lra. reflexivity.
    + pose proof (R64_sign_false x Sx) as H1. pose proof (R64_sign_false y (eq_sym HSS)) as H2.
      rewrite Rcompare_Gt by lra. reflexivity.
Qed.

Lemma f_sub_add_neg : forall x y, f_sub x y = f_add x (f_neg y).
Proof.
  intros [sx|sx| |sx mx ex] [sy|sy| |sy my ey]; try reflexivity.
  unfold f_sub, f_add, f_neg. cbn [SFsub SFadd SFopp].
  rewrite cond_Zopp_negb_minus. reflexivity.
Qed.

Lemma R64_neg : forall x, R64 (f_neg x) = - R64 x.
Proof.
  intros [s|s| |s m e]; cbn [f_neg SFopp SF2R]; try lra.
  rewrite <- F2R_Zopp. destruct s; reflexivity.
Qed.

Lemma sign_neg_finite : forall x, is_finite_SF x = true -> sign_SF (f_neg x) = negb (sign_SF x).
Proof. intros [s|s| |s m e] Fx; try discriminate Fx; reflexivity. Qed.

Lemma finite_neg : forall x, is_finite_SF (f_neg x) = is_finite_SF x.
Proof. intros [s|s| |s m e]; reflexivity. Qed.

Lemma IEEE_sub_sign : forall x y : f64,
  valid64 x = true -> valid64 y = true -> is_finite_SF x = true -> is_finite_SF y = true ->
  is_nan_SF (f_sub x y) = false /\
  sign_SF (f_sub x y) =
    match Rcompare (R64 x - R64 y) 0 with
    | Eq => sign_SF x && negb (sign_SF y)
    | Lt => true
    | Gt => false
    end.
Proof.
  intros x y Hx Hy Fx Fy. rewrite f_sub_add_neg.
  pose proof (IEEE_add_sign x (f_neg y) Hx (f_neg_valid y Hy) Fx) as H.
  rewrite finite_neg, R64_neg, (sign_neg_finite y Fy) in H. exact (H Fy).
Qed.

(* a finite spec_float of real value 0 is a zero *)
Lemma R64_zero_inv : forall z, is_finite_SF z = true -> R64 z = 0 -> z = Zero (sign_SF z).
Proof.
  intros [s|s| |s m e] Fz Hz; try discriminate Fz; [reflexivity|].
  exfalso. cbn [SF2R] in Hz. apply eq_0_F2R in Hz. destruct s; discriminate Hz.
Qed.

(* THE zero-sum rule of round-to-nearest: an exact sum 0 gives +0 unless both operands are negative
   (which, the sum being 0, means both are -0) *)
Lemma add_exact_zero : forall x y : f64,
  valid64 x = true -> valid64 y = true -> is_finite_SF x = true -> is_finite_SF y = true ->
  R64 x + R64 y = 0 -> f_add x y = Zero (sign_SF x && sign_SF y).
Proof.
  intros x y Hx Hy Fx Fy H0.
  pose proof (FloatBridge.IEEE_add x y Hx Hy Fx Fy) as [_ HC].
  pose proof (IEEE_add_sign x y Hx Hy Fx Fy) as [_ HS].
  rewrite H0 in HC, HS. rewrite rnd64_0, Rabs_R0, Rlt_bool_true in HC by apply bpow_gt_0.
  destruct HC as [HR HF]. rewrite Rcompare_Eq in HS by reflexivity.
  rewrite (R64_zero_inv _ HF HR), HS. reflexivity.
Qed.

Lemma sub_exact_zero : forall x y : f64,
  valid64 x = true -> valid64 y = true -> is_finite_SF x = true -> is_finite_SF y = true ->
  R64 x - R64 y = 0 -> f_sub x y = Zero (sign_SF x && negb (sign_SF y)).
Proof.
  intros x y Hx Hy Fx Fy H0. rewrite f_sub_add_neg, <- (sign_neg_finite y Fy).
  apply add_exact_zero; try assumption.
  - apply f_neg_valid, Hy.
  - rewrite finite_neg. exact Fy.
  - rewrite R64_neg. lra.
Qed.

Lemma generic_format_R64 : forall x, valid64 x = true -> generic_format radix2 fexp64 (R64 x).
Proof.
  intros x Hx. rewrite <- (B2R_lift x Hx).
  apply (generic_format_B2R 53 1024).
Qed.

(* ... and a sum is a zero ONLY when it is exactly zero: no underflow in addition *)
Lemma add_zero_only_exact : forall (x y : f64) (s : bool),
  valid64 x = true -> valid64 y = true -> is_finite_SF x = true -> is_finite_SF y = true ->
  f_add x y = Zero s -> R64 x + R64 y = 0.
Proof.
  intros x y s Hx Hy Fx Fy E.
  pose proof (FloatBridge.IEEE_add x y Hx Hy Fx Fy) as [_ HC].
  rewrite E in HC.
  destruct (Rlt_bool (Rabs (rnd64 (R64 x + R64 y))) (bpow radix2 1024)).
  - destruct HC as [HR _]. cbn [SF2R] in HR.
    apply (round_plus_eq_0 radix2 fexp64 ZnearestE);
      [apply generic_format_R64, Hx|apply generic_format_R64, Hy|symmetry; exact HR].
  - destruct HC as [HC _]. discriminate HC.
Qed.

(* ------------------------------------------------------------------------------------------ *)
(** * 3a. Comparisons on special values (no axioms)                                             *)
(* ------------------------------------------------------------------------------------------ *)

Lemma cmp_nan : forall x,
  f_eqb NaN x = false /\ f_eqb x NaN = false /\
  f_ltb NaN x = false /\ f_ltb x NaN = false /\
  f_leb NaN x = false /\ f_leb x NaN = false /\
  f_gtb NaN x = false /\ f_gtb x NaN = false /\
  f_geb NaN x = false /\ f_geb x NaN = false.
Proof. intros [s|s| |s m e]; repeat split. Qed.

Lemma cmp_zeros : forall s1 s2,
  f_eqb (Zero s1) (Zero s2) = true /\ f_ltb (Zero s1) (Zero s2) = false /\
  f_leb (Zero s1) (Zero s2) = true /\ f_gtb (Zero s1) (Zero s2) = false /\
  f_geb (Zero s1) (Zero s2) = true.
Proof. intros s1 s2. repeat split. Qed.

(* +inf is above, -inf below, every finite value (zeros included) *)
Lemma cmp_inf_finite : forall x, is_finite_SF x = true ->
  f_ltb x (Inf false) = true /\ f_leb x (Inf false) = true /\ f_eqb x (Inf false) = false /\
  f_gtb x (Inf false) = false /\ f_geb x (Inf false) = false /\
  f_ltb (Inf false) x = false /\ f_leb (Inf false) x = false /\ f_eqb (Inf false) x = false /\
  f_gtb (Inf false) x = true /\ f_geb (Inf false) x = true /\
  f_ltb (Inf true) x = true /\ f_leb (Inf true) x = true /\ f_eqb (Inf true) x = false /\
  f_gtb (Inf true) x = false /\ f_geb (Inf true) x = false /\
  f_ltb x (Inf true) = false /\ f_leb x (Inf true) = false /\ f_eqb x (Inf true) = false /\
  f_gtb x (Inf true) = true /\ f_geb x (Inf true) = true.
Proof.
  intros [s|s| |s m e] Fx; try discriminate Fx; repeat split; destruct s; reflexivity.
Qed.

Lemma cmp_inf_inf : forall s,
  f_eqb (Inf s) (Inf s) = true /\ f_leb (Inf s) (Inf s) = true /\ f_geb (Inf s) (Inf s) = true /\
  f_ltb (Inf s) (Inf s) = false /\ f_gtb (Inf s) (Inf s) = false /\
  f_ltb (Inf true) (Inf false) = true /\ f_leb (Inf true) (Inf false) = true /\
  f_eqb (Inf true) (Inf false) = false /\ f_eqb (Inf false) (Inf true) = false /\
  f_gtb (Inf false) (Inf true) = true /\ f_geb (Inf false) (Inf true) = true /\
  f_ltb (Inf false) (Inf true) = false /\ f_leb (Inf false) (Inf true) = false /\
  f_gtb (Inf true) (Inf false) = false /\ f_geb (Inf true) (Inf false) = false.
Proof. intros [|]; repeat split. Qed.

(* ------------------------------------------------------------------------------------------ *)
(** * 3b. Comparisons of finite values are the comparisons of the real values                   *)
(* ------------------------------------------------------------------------------------------ *)

Lemma cmp_finite : forall x y : f64,
  valid64 x = true -> valid64 y = true -> is_finite_SF x = true -> is_finite_SF y = true ->
  f_eqb x y = Req_bool (R64 x) (R64 y) /\
  f_ltb x y = Rlt_bool (R64 x) (R64 y) /\
  f_leb x y = Rle_bool (R64 x) (R64 y) /\
  f_gtb x y = Rlt_bool (R64 y) (R64 x) /\
  f_geb x y = Rle_bool (R64 y) (R64 x).
Proof.
  intros x y Hx Hy Fx Fy.
  unfold f_gtb, f_geb, f_eqb, f_ltb, f_leb, Req_bool, Rlt_bool, Rle_bool.
  rewrite (IEEE_compare x y Hx Hy Fx Fy), (IEEE_compare y x Hy Hx Fy Fx).
  repeat split; destruct (Rcompare _ _); reflexivity.
Qed.

(* ------------------------------------------------------------------------------------------ *)
(** * 6. Classification                                                                         *)
(* ------------------------------------------------------------------------------------------ *)

Lemma classify_table : forall (s : bool) (m : positive) (e : Z),
  f_is_nan NaN = true /\ f_is_nan (Inf s) = false /\ f_is_nan (Zero s) = false /\ f_is_nan (Fin s m e) = false /\
  f_is_infinite NaN = false /\ f_is_infinite (Inf s) = true /\ f_is_infinite (Zero s) = false /\
  f_is_infinite (Fin s m e) = false /\
  f_is_finite NaN = false /\ f_is_finite (Inf s) = false /\ f_is_finite (Zero s) = true /\
  f_is_finite (Fin s m e) = true /\
  f_is_normal NaN = false /\ f_is_normal (Inf s) = false /\ f_is_normal (Zero s) = false.
Proof. intros s m e. repeat split. Qed.

Lemma classify_flocq : forall x,
  f_is_nan x = is_nan_SF x /\ f_is_finite x = is_finite_SF x /\
  (f_is_nan x = true <-> x = NaN) /\
  (f_is_infinite x = true <-> exists s, x = Inf s) /\
  (* exactly one of the three classes *)
  (f_is_finite x = negb (f_is_nan x || f_is_infinite x)) /\
  (f_is_nan x && f_is_infinite x = false) /\
  (f_is_normal x = true -> f_is_finite x = true /\ forall s, x <> Zero s).
Proof.
  intros [s|s| |s m e]; repeat split; try reflexivity; try discriminate;
    try (intros [s' Hs']; discriminate Hs'); try (intros _; exists s; reflexivity).
Qed.

(* what validity of a finite non-zero value says, with d the bit length of the mantissa *)
Lemma valid_finite_inv : forall s m e, valid64 (Fin s m e) = true ->
  let d := Z.pos (digits2_pos m) in
  (Z.max (d + e - 53) (-1074) = e /\ e <= 971 /\ 2 ^ (d - 1) <= Z.pos m < 2 ^ d)%Z.
Proof.
  intros s m e Hv d. cbn [valid_binary] in Hv. unfold bounded, canonical_mantissa in Hv.
  apply andb_prop in Hv. destruct Hv as [H1 H2].
  apply Zeq_bool_eq in H1. apply Zle_bool_imp_le in H2.
  unfold SpecFloat.fexp, SpecFloat.emin in H1. fold d in H1.
  split; [exact H1|]. split; [exact H2|].
  unfold d. rewrite Zpos_digits2_pos.
  exact (Zdigits_correct radix2 (Z.pos m)).
Qed.

Lemma Rabs_R64_finite : forall s m e, Rabs (R64 (Fin s m e)) = IZR (Z.pos m) * bpow radix2 e.
Proof.
  intros s m e. cbn [SF2R]. rewrite <- F2R_Zabs, abs_cond_Zopp. reflexivity.
Qed.

Lemma normal_char : forall x, valid64 x = true ->
  (f_is_normal x = true <-> is_finite_SF x = true /\ bpow radix2 (-1022) <= Rabs (R64 x)).
Proof.
  intros [s|s| |s m e] Hv.
  - cbn [f_is_normal SF2R]. rewrite Rabs_R0. split; [discriminate|].
    intros [_ H]. pose proof (bpow_gt_0 radix2 (-1022)). lra.
  - split; [discriminate|]. intros [H _]. discriminate H.
  - split; [discriminate|]. intros [H _]. discriminate H.
  - pose proof (valid_finite_inv s m e Hv) as HI. cbv zeta in HI.
    destruct HI as [Hc [He [Hlo Hhi]]].
    cbn [f_is_normal is_finite_SF]. rewrite Rabs_R64_finite.
    set (d := Z.pos (digits2_pos m)) in *.
    assert (Hd : (0 < d)%Z) by (unfold d; lia).
    assert (Hlo' : bpow radix2 (d - 1) <= IZR (Z.pos m)).
    { rewrite <- (IZR_Zpower radix2) by lia. apply IZR_le. exact Hlo. }
    assert (Hhi' : IZR (Z.pos m) < bpow radix2 d).
    { rewrite <- (IZR_Zpower radix2) by lia. apply IZR_lt. exact Hhi. }
    pose proof (bpow_gt_0 radix2 e) as Hbe.
    unfold F64.prec. split.
    + intros Hn. apply Z.eqb_eq in Hn. split; [reflexivity|].
      apply Rle_trans with (bpow radix2 (d - 1) * bpow radix2 e).
      * rewrite <- bpow_plus. apply bpow_le. lia.
      * apply Rmult_le_compat_r; lra.
    + intros [_ Hge]. apply Z.eqb_eq.
      destruct (Z.eq_dec d 53) as [E|NE]; [exact E|exfalso].
      assert (He' : e = (-1074)%Z) by lia.
      assert (Hd' : (d <= 52)%Z) by lia.
      assert (Hlt : IZR (Z.pos m) * bpow radix2 e < bpow radix2 (-1022)).
      { apply Rlt_le_trans with (bpow radix2 d * bpow radix2 e).
        - apply Rmult_lt_compat_r; lra.
        - rewrite <- bpow_plus. apply bpow_le. lia. }
      lra.
Qed.

(* ------------------------------------------------------------------------------------------ *)
(** * 4. `%` on floats: f_rem is the exact C fmod                                               *)
(* ------------------------------------------------------------------------------------------ *)

(* the special cases, by case analysis (no axioms) *)
Lemma rem_special : forall (x : f64) (s sy : bool) (m : positive) (e : Z),
  f_rem NaN x = NaN /\ f_rem x NaN = NaN /\
  f_rem (Inf s) x = NaN /\                          (* infinite dividend *)
  f_rem x (Zero s) = NaN /\                         (* zero divisor *)
  (is_finite_SF x = true -> f_rem x (Inf s) = x) /\ (* infinite divisor: x unchanged, zeros included *)
  f_rem (Zero s) (Fin sy m e) = Zero s.             (* zero dividend: unchanged, sign kept *)
Proof.
  intros [sx|sx| |sx mx ex] s sy m e; repeat split; try reflexivity; intros Fx; discriminate Fx.
Qed.

(* the sign of the result is the sign of the dividend (also when the result is zero); no axioms *)
Lemma rem_signed : forall sx mx ex sy my ey,
  signed sx (f_rem (Fin sx mx ex) (Fin sy my ey)).
Proof.
  intros sx mx ex sy my ey. cbn [f_rem].
  apply normalize_cond_Zopp_signed.
  apply Z.rem_nonneg.
  - apply Z.neq_sym, Z.lt_neq. rewrite Z.shiftl_mul_pow2 by lia.
    apply Z.mul_pos_pos; [lia|apply Z.pow_pos_nonneg; lia].
  - apply Z.shiftl_nonneg. lia.
Qed.

Lemma canonical_cexp : forall s m e, valid64 (Fin s m e) = true ->
  cexp radix2 fexp64 (R64 (Fin s m e)) = e.
Proof.
  intros s m e Hv. cbn [valid_binary] in Hv. unfold bounded in Hv.
  apply andb_prop in Hv. destruct Hv as [H1 _].
  pose proof (canonical_canonical_mantissa 53 1024 s m e H1) as HC.
  unfold canonical in HC. cbn [Fexp] in HC. symmetry. exact HC.
Qed.

Lemma fexp64_mono : forall a b : Z, (a <= b)%Z -> (fexp64 a <= fexp64 b)%Z.
Proof. intros a b Hab. unfold FLT_exp. lia. Qed.

Lemma R64_finite_lt_emax : forall s m e, valid64 (Fin s m e) = true ->
  Rabs (R64 (Fin s m e)) < bpow radix2 1024.
Proof.
  intros s m e Hv. rewrite Rabs_R64_finite. apply (bounded_lt_emax 53 1024 m e). exact Hv.
Qed.

(* a dyadic number v = n * 2^e whose magnitude is at most that of a valid float with exponent >= e
   is representable *)
Lemma generic_format_below : forall (n e : Z) s m e',
  valid64 (Fin s m e') = true -> (e <= e')%Z ->
  Rabs (F2R (Float radix2 n e)) <= Rabs (R64 (Fin s m e')) ->
  (n <> 0%Z -> (cexp radix2 fexp64 (F2R (Float radix2 n e)) <= e')%Z).
Proof.
  intros n e s m e' Hv Hee Hle Hn.
  rewrite <- (canonical_cexp s m e' Hv). unfold cexp. apply fexp64_mono.
  apply mag_le_abs; [|exact Hle].
  apply F2R_neq_0. exact Hn.
Qed.

Section Rem.

Variables (sx sy : bool) (mx my : positive) (ex ey : Z).
Hypothesis Vx : valid64 (Fin sx mx ex) = true.
Hypothesis Vy : valid64 (Fin sy my ey) = true.

Let e := Z.min ex ey.
Let X := Z.shiftl (Z.pos mx) (ex - e).
Let Y := Z.shiftl (Z.pos my) (ey - e).
Let Rm := Z.rem X Y.
Let Q := Z.quot X Y.
Let B := bpow radix2 e.

Local Lemma X_eq : X = (Z.pos mx * 2 ^ (ex - e))%Z.
Proof. unfold X, e. apply Z.shiftl_mul_pow2. lia. Qed.

Local Lemma Y_eq : Y = (Z.pos my * 2 ^ (ey - e))%Z.
Proof. unfold Y, e. apply Z.shiftl_mul_pow2. lia. Qed.

Local Lemma X_pos : (0 < X)%Z.
Proof. rewrite X_eq. apply Z.mul_pos_pos; [lia|apply Z.pow_pos_nonneg; unfold e; lia]. Qed.

Local Lemma Y_pos : (0 < Y)%Z.
Proof. rewrite Y_eq. apply Z.mul_pos_pos; [lia|apply Z.pow_pos_nonneg; unfold e; lia]. Qed.

Local Lemma Rm_bounds : (0 <= Rm < Y /\ Rm <= X /\ 0 <= Q /\ X = Y * Q + Rm)%Z.
Proof.
  pose proof X_pos as HX. pose proof Y_pos as HY.
  pose proof (Z.rem_bound_pos X Y (Z.lt_le_incl _ _ HX) HY) as HR.
  pose proof (Z.quot_rem' X Y) as HE.
  pose proof (Z.quot_pos X Y (Z.lt_le_incl _ _ HX) HY) as HQ.
  fold Rm in HR, HE. fold Q in HE, HQ.
  repeat split; try lia; nia.
Qed.

Local Lemma R64_x_eq : R64 (Fin sx mx ex) = F2R (Float radix2 (cond_Zopp sx X) e).
Proof.
  cbn [SF2R]. rewrite (F2R_change_exp radix2 e _ ex) by (unfold e; lia).
  f_equal. f_equal. rewrite X_eq. change (Zpower radix2 (ex - e)) with (2 ^ (ex - e))%Z.
  destruct sx; cbn [cond_Zopp]; lia.
Qed.

Local Lemma R64_y_eq : R64 (Fin sy my ey) = F2R (Float radix2 (cond_Zopp sy Y) e).
Proof.
  cbn [SF2R]. rewrite (F2R_change_exp radix2 e _ ey) by (unfold e; lia).
  f_equal. f_equal. rewrite Y_eq. change (Zpower radix2 (ey - e)) with (2 ^ (ey - e))%Z.
  destruct sy; cbn [cond_Zopp]; lia.
Qed.

Let v := F2R (Float radix2 (cond_Zopp sx Rm) e).

Local Lemma Rabs_v : Rabs v = F2R (Float radix2 Rm e).
Proof.
  unfold v. rewrite <- F2R_Zabs, abs_cond_Zopp. f_equal. f_equal.
  apply Z.abs_eq. apply Rm_bounds.
Qed.

Local Lemma Rabs_x : Rabs (R64 (Fin sx mx ex)) = F2R (Float radix2 X e).
Proof.
  rewrite R64_x_eq, <- F2R_Zabs, abs_cond_Zopp. f_equal. f_equal.
  apply Z.abs_eq. pose proof X_pos. lia.
Qed.

Local Lemma Rabs_y : Rabs (R64 (Fin sy my ey)) = F2R (Float radix2 Y e).
Proof.
  rewrite R64_y_eq, <- F2R_Zabs, abs_cond_Zopp. f_equal. f_equal.
  apply Z.abs_eq. pose proof Y_pos. lia.
Qed.

Local Lemma v_lt_y : Rabs v < Rabs (R64 (Fin sy my ey)).
Proof. rewrite Rabs_v, Rabs_y. apply F2R_lt. apply Rm_bounds. Qed.

Local Lemma v_le_x : Rabs v <= Rabs (R64 (Fin sx mx ex)).
Proof. rewrite Rabs_v, Rabs_x. apply F2R_le. apply Rm_bounds. Qed.

Local Lemma v_format : generic_format radix2 fexp64 v.
Proof.
  unfold v. apply generic_format_F2R. intros Hn.
  unfold e at 2. apply Z.min_glb.
  - apply (generic_format_below _ _ sx mx ex Vx); [unfold e; lia|exact v_le_x|exact Hn].
  - apply (generic_format_below _ _ sy my ey Vy); [unfold e; lia|apply Rlt_le; exact v_lt_y|exact Hn].
Qed.

Local Lemma rem_is_v :
  R64 (f_rem (Fin sx mx ex) (Fin sy my ey)) = v /\
  is_finite_SF (f_rem (Fin sx mx ex) (Fin sy my ey)) = true.
Proof.
  cbn [f_rem]. fold e X Y Rm.
  pose proof (normalize_correct (cond_Zopp sx Rm) e sx) as [_ HC].
  fold v in HC.
  rewrite (round_generic radix2 fexp64 ZnearestE v v_format) in HC.
  rewrite Rlt_bool_true in HC.
  - exact HC.
  - apply Rlt_trans with (1 := v_lt_y). apply R64_finite_lt_emax. exact Vy.
Qed.

Local Lemma IZR_X_eq : IZR X = IZR Y * IZR Q + IZR Rm.
Proof.
  destruct Rm_bounds as [_ [_ [_ HE]]]. rewrite HE at 1.
  rewrite plus_IZR, mult_IZR. reflexivity.
Qed.

Local Lemma quotient_eq :
  Ztrunc (R64 (Fin sx mx ex) / R64 (Fin sy my ey)) = cond_Zopp (xorb sx sy) Q.
Proof.
  pose proof Y_pos as HY. pose proof X_pos as HX.
  assert (HYr : 0 < IZR Y) by (apply (IZR_lt 0); exact HY).
  assert (HXr : 0 < IZR X) by (apply (IZR_lt 0); exact HX).
  assert (HB : 0 < B) by apply bpow_gt_0.
  assert (HT : Ztrunc (IZR X / IZR Y) = Q).
  { rewrite Ztrunc_floor.
    - rewrite Zfloor_div by lia. unfold Q. symmetry. apply Z.quot_div_nonneg; lia.
    - apply Rlt_le, Rdiv_lt_0_compat; assumption. }
  rewrite R64_x_eq, R64_y_eq. unfold F2R. cbn [Fnum Fexp]. fold B.
  destruct sx, sy; cbn [cond_Zopp xorb]; rewrite ?opp_IZR.
  - replace (- IZR X * B / (- IZR Y * B)) with (IZR X / IZR Y) by (field; lra). exact HT.
  - replace (- IZR X * B / (IZR Y * B)) with (- (IZR X / IZR Y)) by (field; lra).
    rewrite Ztrunc_opp, HT. reflexivity.
  - replace (IZR X * B / (- IZR Y * B)) with (- (IZR X / IZR Y)) by (field; lra).
    rewrite Ztrunc_opp, HT. reflexivity.
  - replace (IZR X * B / (IZR Y * B)) with (IZR X / IZR Y) by (field; lra). exact HT.
Qed.

Local Lemma rem_equation :
  R64 (Fin sx mx ex) =
  IZR (cond_Zopp (xorb sx sy) Q) * R64 (Fin sy my ey) + v.
Proof.
  rewrite R64_x_eq, R64_y_eq. unfold v, F2R. cbn [Fnum Fexp]. fold B.
  pose proof IZR_X_eq as HE.
  destruct sx, sy; cbn [cond_Zopp xorb]; rewrite ?opp_IZR, HE; ring.
Qed.

Lemma rem_finite_core :
  let x := Fin sx mx ex in let y := Fin sy my ey in let r := f_rem x y in
  valid64 r = true /\ is_finite_SF r = true /\ sign_SF r = sx /\
  Rabs (R64 r) < Rabs (R64 y) /\
  R64 x = IZR (Ztrunc (R64 x / R64 y)) * R64 y + R64 r.
Proof.
  intros x y r. unfold r, x, y. clear r x y.
  destruct rem_is_v as [HR HF]. rewrite HR.
  split; [apply f_rem_valid; assumption|].
  split; [exact HF|].
  split; [apply rem_signed|].
  split; [exact v_lt_y|].
  rewrite quotient_eq. exact rem_equation.
Qed.

End Rem.

(* finite x (zeros included), finite non-zero y *)
Lemma IEEE_rem : forall x y : f64,
  valid64 x = true -> valid64 y = true -> is_finite_SF x = true -> is_finite_nonzero_SF y = true ->
  let r := f_rem x y in
  valid64 r = true /\ is_finite_SF r = true /\
  sign_SF r = sign_SF x /\
  Rabs (R64 r) < Rabs (R64 y) /\
  R64 x = IZR (Ztrunc (R64 x / R64 y)) * R64 y + R64 r.
Proof.
  intros [sx|sx| |sx mx ex] [sy|sy| |sy my ey] Hx Hy Fx Fy;
    try discriminate Fx; try discriminate Fy.
  - (* zero dividend *)
    cbv zeta. cbn [f_rem is_finite_SF sign_SF]. repeat split.
    + cbn [SF2R]. rewrite Rabs_R0. apply Rabs_pos_lt.
      apply (R64_finite_nonzero (Fin sy my ey)). reflexivity.
    + cbn [SF2R]. unfold Rdiv. rewrite Rmult_0_l, Ztrunc_IZR. lra.
  - exact (rem_finite_core sx sy mx my ex ey Hx Hy).
Qed.

(* the same equation read the other way: the result is x - trunc(x/y) * y, computed without rounding *)
Lemma IEEE_rem_value : forall x y : f64,
  valid64 x = true -> valid64 y = true -> is_finite_SF x = true -> is_finite_nonzero_SF y = true ->
  R64 (f_rem x y) = R64 x - IZR (Ztrunc (R64 x / R64 y)) * R64 y.
Proof.
  intros x y Hx Hy Fx Fy.
  pose proof (IEEE_rem x y Hx Hy Fx Fy) as H. cbv zeta in H.
  destruct H as [_ [_ [_ [_ H]]]]. lra.
Qed.

(* ------------------------------------------------------------------------------------------ *)
(** * 5. floor / ceil / round (half away from zero)                                             *)
(* ------------------------------------------------------------------------------------------ *)

(* non-finite arguments and zeros are returned unchanged (no axioms) *)
Lemma round_int_special : forall (md : rmode) (s : bool),
  f_round_int md NaN = NaN /\ f_round_int md (Inf s) = Inf s /\ f_round_int md (Zero s) = Zero s.
Proof. intros md s. repeat split. Qed.

(* the result always has the sign of the argument, whatever its class: in particular a zero result
   (floor 0.5, ceil (-0.5), round (-0.3) ...) carries the sign of x.  No axioms. *)
Lemma round_int_sign : forall md x,
  sign_SF (f_round_int md x) = sign_SF x /\ is_nan_SF (f_round_int md x) = is_nan_SF x.
Proof.
  intros md [s|s| |s m e]; try (split; reflexivity).
  cbn [f_round_int]. destruct (0 <=? e)%Z; [split; reflexivity|].
  match goal with |- context [SpecFloat.binary_normalize _ _ (if s then Z.opp ?n else ?n) 0 s] =>
    assert (Hn : (0 <= n)%Z) end.
  { assert (Hq : (0 <= Z.shiftr (Z.pos m) (- e))%Z) by (apply Z.shiftr_nonneg; lia).
    match goal with |- (0 <= if ?b then _ else _)%Z => destruct b end; lia. }
  pose proof (normalize_cond_Zopp_signed F64.prec F64.emax s _ 0%Z Hn) as [H1 H2].
  split; [exact H2|exact H1].
Qed.

(* ZnearestA: rounding to the nearest integer, ties away from zero *)
Lemma ZnearestA_opp : forall a : R, ZnearestA (- a) = (- ZnearestA a)%Z.
Proof.
  intros a. rewrite Znearest_opp. f_equal.
  unfold Znearest. destruct (Rcompare (a - IZR (Zfloor a)) (/ 2)); try reflexivity.
  replace (negb (0 <=? - (Zfloor a + 1))%Z) with (0 <=? Zfloor a)%Z; [reflexivity|].
  destruct (Z.leb_spec 0 (Zfloor a)); destruct (Z.leb_spec 0 (- (Zfloor a + 1))); cbn [negb]; lia.
Qed.

Lemma Zfloor_opp : forall a : R, Zfloor (- a) = (- Zceil a)%Z.
Proof. intros a. unfold Zceil. lia. Qed.

Lemma Zceil_opp : forall a : R, Zceil (- a) = (- Zfloor a)%Z.
Proof. intros a. unfold Zceil. rewrite Ropp_involutive. reflexivity. Qed.

(* an integer below 2^53 in magnitude is a double, exactly *)
Lemma generic_format_int53 : forall n : Z, (Z.abs n < 2 ^ 53)%Z ->
  generic_format radix2 fexp64 (IZR n).
Proof.
  intros n Hn. rewrite <- (F2R_exp0 radix2 n). apply generic_format_F2R. intros Hn0.
  rewrite F2R_exp0. unfold cexp, FLT_exp.
  assert (Hm : (mag radix2 (IZR n) <= 53)%Z).
  { apply mag_le_bpow; [apply not_0_IZR; exact Hn0|].
    rewrite <- abs_IZR, <- (IZR_Zpower radix2) by lia. apply IZR_lt. exact Hn. }
  lia.
Qed.

Lemma normalize_int_exact : forall (n : Z) (s : bool), (Z.abs n < 2 ^ 53)%Z ->
  R64 (SpecFloat.binary_normalize 53 1024 n 0 s) = IZR n /\
  is_finite_SF (SpecFloat.binary_normalize 53 1024 n 0 s) = true.
Proof.
  intros n s Hn.
  pose proof (normalize_correct n 0 s) as [_ HC]. rewrite F2R_exp0 in HC.
  rewrite (round_generic radix2 fexp64 ZnearestE _ (generic_format_int53 n Hn)) in HC.
  rewrite Rlt_bool_true in HC; [exact HC|].
  rewrite <- abs_IZR, <- (IZR_Zpower radix2) by lia. apply IZR_lt.
  apply Z.lt_trans with (1 := Hn). reflexivity.
Qed.

(* the integer rounding each mode stands for *)
Definition Zround_of (md : rmode) : R -> Z :=
  match md with RFloor => Zfloor | RCeil => Zceil | RRound => ZnearestA end.

Lemma Zround_of_IZR : forall md n, Zround_of md (IZR n) = n.
Proof.
  intros [| |] n; cbn [Zround_of].
  - apply Zfloor_IZR.
  - apply Zceil_IZR.
  - apply (@Zrnd_IZR ZnearestA _).
Qed.

Section RoundFrac.

(* a finite x = (-1)^s * m * 2^e with a negative exponent: d = -e fractional bits *)
Variables (s : bool) (m : positive) (e : Z).
Hypothesis He : (e < 0)%Z.
Hypothesis Hm : (Z.pos m < 2 ^ 53)%Z.

Let d := (- e)%Z.
Let P := (2 ^ d)%Z.
Let q := Z.shiftr (Z.pos m) d.
Let r := (Z.pos m - Z.shiftl q d)%Z.
Let half := Z.shiftl 1 (d - 1).
Let a := IZR (Z.pos m) / IZR P.

Local Lemma frac_Z_facts :
  (0 < d /\ 0 < half /\ P = 2 * half /\ q = Z.pos m / P /\ Z.pos m = q * P + r /\ 0 <= r < P /\
   0 <= q < 2 ^ 52)%Z.
Proof.
  assert (Hd : (0 < d)%Z) by (unfold d; lia).
  assert (Hhalf : half = (2 ^ (d - 1))%Z).
  { unfold half. rewrite Z.shiftl_mul_pow2 by lia. lia. }
  assert (HP : P = (2 * half)%Z).
  { rewrite Hhalf. unfold P. rewrite <- Z.pow_succ_r by lia. f_equal. lia. }
  assert (Hhp : (0 < half)%Z) by (rewrite Hhalf; apply Z.pow_pos_nonneg; lia).
  assert (Hq : q = (Z.pos m / P)%Z) by (unfold q, P; apply Z.shiftr_div_pow2; lia).
  assert (Hsl : Z.shiftl q d = (q * P)%Z) by (unfold P; apply Z.shiftl_mul_pow2; lia).
  assert (HPp : (0 < P)%Z) by lia.
  pose proof (Z.div_mod (Z.pos m) P ltac:(lia)) as HDM.
  pose proof (Z.mod_pos_bound (Z.pos m) P HPp) as HMB.
  rewrite <- Hq in HDM.
  assert (Hr : r = (Z.pos m mod P)%Z) by (unfold r; rewrite Hsl; lia).
  assert (Hq0 : (0 <= q)%Z) by (rewrite Hq; apply Z.div_pos; lia).
  assert (Hq1 : (q * 2 <= Z.pos m)%Z) by nia.
  repeat split; lia.
Qed.

Local Lemma P_pos_R : 0 < IZR P.
Proof. apply (IZR_lt 0). pose proof frac_Z_facts. lia. Qed.

Local Lemma R64_frac : R64 (Fin s m e) = cond_Ropp s a.
Proof.
  cbn [SF2R]. rewrite F2R_cond_Zopp. f_equal. unfold F2R, a, Rdiv. cbn [Fnum Fexp]. f_equal.
  replace e with (- d)%Z by (unfold d; lia).
  rewrite bpow_opp. f_equal. unfold P. rewrite (IZR_Zpower radix2); [reflexivity|unfold d; lia].
Qed.

Local Lemma a_decomp : a = IZR q + IZR r / IZR P.
Proof.
  destruct frac_Z_facts as [_ [_ [_ [_ [HE _]]]]].
  pose proof P_pos_R as HP.
  unfold a. rewrite HE at 1. rewrite plus_IZR, mult_IZR. field. lra.
Qed.

Local Lemma frac_bounds : 0 <= IZR r / IZR P < 1.
Proof.
  destruct frac_Z_facts as [_ [_ [_ [_ [_ [[Hr0 HrP] _]]]]]].
  pose proof P_pos_R as HP.
  apply IZR_le in Hr0. apply IZR_lt in HrP.
  split.
  - apply Rmult_le_pos; [exact Hr0|apply Rlt_le, Rinv_0_lt_compat, HP].
  - apply Rmult_lt_reg_r with (IZR P); [exact HP|].
    unfold Rdiv. rewrite Rmult_assoc, Rinv_l, Rmult_1_r, Rmult_1_l by lra. exact HrP.
Qed.

Local Lemma floor_a : Zfloor a = q.
Proof.
  apply Zfloor_imp. rewrite plus_IZR, a_decomp. pose proof frac_bounds. lra.
Qed.

Local Lemma frac_zero_iff : (r =? 0)%Z = true -> a = IZR q.
Proof.
  intros Hr. apply Z.eqb_eq in Hr. rewrite a_decomp, Hr. unfold Rdiv. rewrite Rmult_0_l. lra.
Qed.

Local Lemma frac_pos : (r =? 0)%Z = false -> 0 < IZR r / IZR P.
Proof.
  intros Hr. apply Z.eqb_neq in Hr.
  destruct frac_Z_facts as [_ [_ [_ [_ [_ [[Hr0 _] _]]]]]].
  apply Rdiv_lt_0_compat; [apply (IZR_lt 0); lia|exact P_pos_R].
Qed.

Local Lemma ceil_a : Zceil a = if (r =? 0)%Z then q else (q + 1)%Z.
Proof.
  destruct (r =? 0)%Z eqn:Hr.
  - rewrite (frac_zero_iff Hr). apply Zceil_IZR.
  - apply Zceil_imp. replace (q + 1 - 1)%Z with q by lia.
    rewrite plus_IZR, a_decomp. pose proof frac_bounds. pose proof (frac_pos Hr). lra.
Qed.

Local Lemma nearest_a : ZnearestA a = if (half <=? r)%Z then (q + 1)%Z else q.
Proof.
  destruct frac_Z_facts as [_ [Hh [HP [_ [_ [[Hr0 HrP] [Hq0 _]]]]]]].
  pose proof P_pos_R as HPr.
  assert (HPh : IZR P = 2 * IZR half) by (rewrite HP, mult_IZR; reflexivity).
  assert (Hhr : 0 < IZR half) by (apply (IZR_lt 0); exact Hh).
  unfold Znearest. rewrite floor_a.
  replace (a - IZR q) with (IZR r / IZR P) by (rewrite a_decomp; ring).
  (* r/P compared with 1/2 is r compared with half *)
  assert (Hcmp : Rcompare (IZR r / IZR P) (/ 2) = Z.compare r half).
  { rewrite <- (Rcompare_IZR r half).
    rewrite <- (Rcompare_mult_r (IZR P) _ _ HPr).
    replace (IZR r / IZR P * IZR P) with (IZR r) by (field; lra).
    replace (/ 2 * IZR P) with (IZR half) by (rewrite HPh; field).
    reflexivity. }
  rewrite Hcmp.
  destruct (Z.compare_spec r half) as [E|L|G].
  - (* tie: away from zero, i.e. up, since q >= 0 *)
    replace (0 <=? q)%Z with true by (symmetry; apply Z.leb_le; lia).
    replace (half <=? r)%Z with true by (symmetry; apply Z.leb_le; lia).
    rewrite ceil_a. replace (r =? 0)%Z with false by (symmetry; apply Z.eqb_neq; lia). reflexivity.
  - replace (half <=? r)%Z with false by (symmetry; apply Z.leb_gt; lia). reflexivity.
  - replace (half <=? r)%Z with true by (symmetry; apply Z.leb_le; lia).
    rewrite ceil_a. replace (r =? 0)%Z with false by (symmetry; apply Z.eqb_neq; lia). reflexivity.
Qed.

(* the magnitude the model computes, per mode *)
Let n (md : rmode) : Z :=
  let up := match md with
            | RFloor => s && negb (r =? 0)%Z
            | RCeil => negb s && negb (r =? 0)%Z
            | RRound => (half <=? r)%Z
            end in
  if up then (q + 1)%Z else q.

Local Lemma n_correct : forall md, cond_Zopp s (n md) = Zround_of md (R64 (Fin s m e)).
Proof.
  intros md. rewrite R64_frac. unfold n.
  destruct md; destruct s; cbn [Zround_of cond_Ropp cond_Zopp andb negb];
    rewrite ?Zfloor_opp, ?Zceil_opp, ?ZnearestA_opp, ?floor_a, ?ceil_a, ?nearest_a;
    try reflexivity;
    try (destruct (r =? 0)%Z; reflexivity).
Qed.

Local Lemma n_small : forall md, (Z.abs (cond_Zopp s (n md)) < 2 ^ 53)%Z.
Proof.
  intros md. rewrite abs_cond_Zopp.
  destruct frac_Z_facts as [_ [_ [_ [_ [_ [_ [Hq0 Hq1]]]]]]].
  unfold n. match goal with |- context [if ?b then _ else _] => destruct b end; lia.
Qed.

Lemma round_frac_core : forall md,
  R64 (f_round_int md (Fin s m e)) = IZR (Zround_of md (R64 (Fin s m e))) /\
  is_finite_SF (f_round_int md (Fin s m e)) = true.
Proof.
  intros md. rewrite <- n_correct.
  cbn [f_round_int]. replace (0 <=? e)%Z with false by (symmetry; apply Z.leb_gt; exact He).
  fold d q. fold r half.
  change (if s then (- ?k)%Z else ?k) with (cond_Zopp s k).
  pose proof (normalize_int_exact (cond_Zopp s (n md)) s (n_small md)) as H.
  destruct md; exact H.
Qed.

End RoundFrac.

Lemma R64_int_exp : forall s m e, (0 <= e)%Z ->
  R64 (Fin s m e) = IZR (cond_Zopp s (Z.pos m) * 2 ^ e).
Proof.
  intros s m e He. cbn [SF2R]. rewrite (F2R_change_exp radix2 0 _ e He), F2R_exp0.
  rewrite Z.sub_0_r. reflexivity.
Qed.

Lemma round_int_correct : forall md x,
  valid64 x = true -> is_finite_SF x = true ->
  valid64 (f_round_int md x) = true /\
  is_finite_SF (f_round_int md x) = true /\
  R64 (f_round_int md x) = IZR (Zround_of md (R64 x)) /\
  sign_SF (f_round_int md x) = sign_SF x.
Proof.
  intros md x Hv Fx.
  split; [apply f_round_int_valid, Hv|].
  pose proof (round_int_sign md x) as [HS _].
  cut (is_finite_SF (f_round_int md x) = true /\ R64 (f_round_int md x) = IZR (Zround_of md (R64 x))).
  { intros [H1 H2]. repeat split; assumption. }
  clear HS.
  destruct x as [s|s| |s m e]; try discriminate Fx.
  - cbn [f_round_int SF2R]. rewrite (Zround_of_IZR md 0). split; reflexivity.
  - destruct (Z.leb_spec 0 e) as [He|He].
    + cbn [f_round_int]. replace (0 <=? e)%Z with true by (symmetry; apply Z.leb_le; exact He).
      split; [reflexivity|].
      rewrite (R64_int_exp s m e He), Zround_of_IZR. reflexivity.
    + pose proof (valid_finite_inv s m e Hv) as HI. cbv zeta in HI.
      destruct HI as [Hc [_ [_ Hhi]]].
      assert (Hm : (Z.pos m < 2 ^ 53)%Z).
      { apply Z.lt_le_trans with (1 := Hhi). apply Z.pow_le_mono_r; lia. }
      pose proof (round_frac_core s m e He Hm md) as [H1 H2]. split; assumption.
Qed.

Lemma IEEE_floor : forall x, valid64 x = true -> is_finite_SF x = true ->
  valid64 (f_floor x) = true /\ is_finite_SF (f_floor x) = true /\
  R64 (f_floor x) = IZR (Zfloor (R64 x)) /\ sign_SF (f_floor x) = sign_SF x.
Proof. exact (round_int_correct RFloor). Qed.

Lemma IEEE_ceil : forall x, valid64 x = true -> is_finite_SF x = true ->
  valid64 (f_ceil x) = true /\ is_finite_SF (f_ceil x) = true /\
  R64 (f_ceil x) = IZR (Zceil (R64 x)) /\ sign_SF (f_ceil x) = sign_SF x.
Proof. exact (round_int_correct RCeil). Qed.

Lemma IEEE_round : forall x, valid64 x = true -> is_finite_SF x = true ->
  valid64 (f_round x) = true /\ is_finite_SF (f_round x) = true /\
  R64 (f_round x) = IZR (ZnearestA (R64 x)) /\ sign_SF (f_round x) = sign_SF x.
Proof. exact (round_int_correct RRound). Qed.

(* ZnearestA spelled out without Flocq: the nearest integer, and at a tie the one away from zero *)
Lemma ZnearestA_spec : forall a : R,
  Rabs (a - IZR (ZnearestA a)) <= / 2 /\
  (Rabs (a - IZR (ZnearestA a)) = / 2 -> Rabs a <= Rabs (IZR (ZnearestA a))).
Proof.
  intros a. split; [apply Znearest_half|].
  unfold Znearest.
  pose proof (Zfloor_lb a) as Hlb. pose proof (Zfloor_ub a) as Hub.
  destruct (Rcompare_spec (a - IZR (Zfloor a)) (/ 2)) as [L|E|G].
  - intros Htie. rewrite Rabs_pos_eq in Htie by lra. lra.
  - assert (Hne : IZR (Zfloor a) <> a) by lra.
    rewrite (Zceil_floor_neq a Hne).
    destruct (Z.leb_spec 0 (Zfloor a)) as [Hp|Hn]; intros _.
    + rewrite plus_IZR. apply IZR_le in Hp. rewrite !Rabs_pos_eq by lra. lra.
    + assert (Hle : IZR (Zfloor a) <= -1) by (apply (IZR_le _ (-1)); lia).
      rewrite !Rabs_left1 by lra. lra.
  - assert (Hne : IZR (Zfloor a) <> a) by lra.
    rewrite (Zceil_floor_neq a Hne), plus_IZR.
    intros Htie. rewrite Rabs_left1 in Htie by lra. lra.
Qed.

(* ------------------------------------------------------------------------------------------ *)
(** * 7. A finite valid value is determined by its real value and its sign                      *)
(*      (so the characterisations above pin the results down uniquely)                          *)
(* ------------------------------------------------------------------------------------------ *)

Lemma finite_determined : forall a b : f64,
  valid64 a = true -> valid64 b = true -> is_finite_SF a = true -> is_finite_SF b = true ->
  R64 a = R64 b -> sign_SF a = sign_SF b -> a = b.
Proof.
  intros a b Ha Hb Fa Fb HR HS.
  rewrite <- (B2SF_lift a Ha), <- (B2SF_lift b Hb). f_equal.
  apply (B2R_Bsign_inj 53 1024).
  - rewrite is_finite_lift. exact Fa.
  - rewrite is_finite_lift. exact Fb.
  - rewrite !B2R_lift. exact HR.
  - rewrite !Bsign_lift. exact HS.
Qed.
