(* C01, tree-builder part: tokens_to_operator_tree never panics, and the depth of the tree it builds
   is bounded by the number of tokens.  Both come from one invariant on root_stack ("levels"), which
   also yields the parenthesis-balance theorems of C13 (Proofs/C13.v). *)
Require Import Model.Base Model.Syntax Gen.Tables Model.Builder.
Require Import Spec.Recognizer Proofs.Common Proofs.BuilderFacts.

(* the generated tables are used only through Proofs/BuilderFacts.v *)
#[local] Opaque impl_prec impl_ltr impl_max_args impl_is_unary impl_is_leaf impl_is_sequence
  impl_tok_leftsided impl_tok_rightsided impl_tok_assignment.

(* ------------------------------------------------------------------------------------------ *)
(* 1. One iteration of the token loop                                                           *)

Definition step (t : token) (next : option token) (last_rightsided : bool) (stack : list node)
  : outcome (list node) :=
  match t with
  | TLBrace => Ok (root_node :: stack)
  | TRBrace =>
      if (length stack <=? 1)%nat then Err EUnmatchedRBrace
      else
        do st <- collapse_all_sequences stack;
        match st with
        | n :: st' => insert_node n st'
        | [] => Ok []
        end
  | _ =>
      match token_to_operator t next last_rightsided with
      | Some o => insert_node (Node o []) stack
      | None => Ok stack
      end
  end.

Definition next_of (ts : list token) : option token := match ts with x :: _ => Some x | [] => None end.

Lemma build_loop_cons t ts st lr :
  build_loop (t :: ts) st lr = do st1 <- step t (next_of ts) lr st; build_loop ts st1 (is_rightsided_value t).
Proof. destruct t; reflexivity. Qed.

(* ------------------------------------------------------------------------------------------ *)
(* 2. Depth                                                                                     *)

(* number of edges on the longest path from the root to a leaf *)
Fixpoint depth (n : node) : nat :=
  match n with Node _ ch => list_max (map (fun c => S (depth c)) ch) end.

Definition dl (ch : list node) : nat := list_max (map (fun c => S (depth c)) ch).
Lemma depth_node o ch : depth (Node o ch) = dl ch. Proof. reflexivity. Qed.
Lemma dl_app a b : dl (a ++ b) = Nat.max (dl a) (dl b).
Proof. unfold dl. rewrite map_app, list_max_app. reflexivity. Qed.
Lemma dl_cons c r : dl (c :: r) = Nat.max (S (depth c)) (dl r). Proof. reflexivity. Qed.
Lemma dl_nil : dl [] = 0%nat. Proof. reflexivity. Qed.
Lemma dl_one c : dl [c] = S (depth c). Proof. unfold dl. cbn. lia. Qed.
Ltac dsimp := unfold root_node; repeat (rewrite ?depth_node, ?dl_app, ?dl_cons, ?dl_nil).

Lemma insert_depth self n b r :
  insert_back_prioritized self n b = Ok r -> (depth r <= depth self + S (depth n))%nat.
Proof.
  revert self n b r. apply insert_ind.
  - intros so sch n b _ _ _ _. rewrite !depth_node, dl_app, dl_one. lia.
  - intros so init lc lc' n b _ _ _ _ _ IH. rewrite !depth_node, !dl_app, !dl_one. lia.
  - intros so init lc n b _ _ _ _ _ _ _. rewrite !depth_node, !dl_app, !dl_one, depth_node, dl_app, dl_one.
    destruct n as [no nc]. cbn [nch]. rewrite depth_node. lia.
Qed.

(* ------------------------------------------------------------------------------------------ *)
(* 3. insert_node and collapse_all_sequences on the stack shapes that occur                      *)

Lemma seq_op_cases o : is_seq_op o = true -> o = OTuple \/ o = OChain.
Proof. destruct o; cbn; intros H; try discriminate H; auto. Qed.

(* a `,` or `;` meets a plain root: start a sequence on a fresh placeholder root *)
Lemma ins_seq_R o ch st : is_seq_op o = true ->
  insert_node (Node o []) (Node ORootNode ch :: st) =
  Ok (Node o [Node ORootNode ch; root_node] :: root_node :: st).
Proof.
  intros Ho. unfold insert_node. cbn [nop nch app]. rewrite is_sequence_seq_op, Ho.
  destruct (seq_op_cases o Ho) as [-> | ->]; reflexivity.
Qed.

(* the same separator again: open a new element *)
Lemma ins_seq_same o ch st : is_seq_op o = true ->
  insert_node (Node o []) (Node o ch :: st) = Ok (Node o (ch ++ [root_node]) :: st).
Proof.
  intros Ho. unfold insert_node. cbn [nop nch app]. rewrite is_sequence_seq_op, Ho.
  destruct (seq_op_cases o Ho) as [-> | ->]; reflexivity.
Qed.

(* `,` inside a chain: the tuple takes over the chain's current element *)
Lemma ins_seq_CT init z st :
  insert_node (Node OTuple []) (Node OChain (init ++ [z]) :: st) =
  Ok (Node OTuple [z; root_node] :: Node OChain init :: st).
Proof.
  unfold insert_node. cbn [nop nch app]. rewrite is_sequence_seq_op. cbn [is_seq_op same_variant kind_of op_kind_eqb is_root].
  rewrite prec_chain_tuple, split_last_app. reflexivity.
Qed.

(* `;` after a tuple with no chain open yet: the tuple becomes the first element of a new chain *)
Lemma ins_seq_TC_R ch rc st :
  insert_node (Node OChain []) (Node OTuple ch :: Node ORootNode rc :: st) =
  Ok (Node OChain [Node OTuple ch; root_node] :: Node ORootNode rc :: st).
Proof.
  unfold insert_node. cbn [nop nch app]. rewrite is_sequence_seq_op. cbn [is_seq_op same_variant kind_of op_kind_eqb is_root].
  rewrite prec_tuple_chain. reflexivity.
Qed.

(* `;` after a tuple inside an open chain: the tuple becomes the next element of that chain *)
Lemma ins_seq_TC_C ch cch st :
  insert_node (Node OChain []) (Node OTuple ch :: Node OChain cch :: st) =
  Ok (Node OChain (cch ++ [Node OTuple ch; root_node]) :: st).
Proof.
  unfold insert_node. cbn [nop nch app]. rewrite is_sequence_seq_op. cbn [is_seq_op same_variant kind_of op_kind_eqb is_root].
  rewrite prec_tuple_chain. reflexivity.
Qed.

(* a non-sequence node goes into the root on top of the stack ... *)
Lemma ins_R n ch st : is_seq_op (nop n) = false ->
  insert_node n (Node ORootNode ch :: st) =
  do r <- insert_back_prioritized (Node ORootNode ch) n true; Ok (r :: st).
Proof.
  intros Hn. unfold insert_node. cbn [nop nch]. rewrite !is_sequence_seq_op, Hn. reflexivity.
Qed.

(* ... or into the last element of the sequence on top of the stack *)
Lemma ins_S n o init z st : is_seq_op (nop n) = false -> is_seq_op o = true ->
  insert_node n (Node o (init ++ [z]) :: st) =
  do c <- insert_back_prioritized z n true; Ok (Node o (init ++ [c]) :: st).
Proof.
  intros Hn Ho. unfold insert_node. cbn [nop nch]. rewrite !is_sequence_seq_op, Hn, Ho, split_last_app. reflexivity.
Qed.

Lemma too_many_root ch : has_too_many_children ORootNode ch = Nat.ltb 1 (length ch).
Proof. rewrite has_too_many_shape. reflexivity. Qed.

Lemma collapse_R ch st :
  collapse_all_sequences (Node ORootNode ch :: st) =
  if Nat.ltb 1 (length ch) then Err EMissingOperatorOutsideOfBrace else Ok (Node ORootNode ch :: st).
Proof.
  unfold collapse_all_sequences. destruct st; cbn [collapse_loop nop nch is_root]; rewrite too_many_root; reflexivity.
Qed.

Lemma collapse_S o ch st : is_seq_op o = true ->
  collapse_all_sequences (Node o ch :: root_node :: st) = Ok (Node ORootNode [Node o ch] :: st).
Proof.
  intros Ho. unfold collapse_all_sequences, root_node. cbn [collapse_loop nop nch app].
  rewrite is_sequence_seq_op, Ho.
  replace (is_root o) with false by (destruct (seq_op_cases o Ho) as [-> | ->]; reflexivity).
  destruct st; cbn [collapse_loop nop nch is_root]; rewrite too_many_root; reflexivity.
Qed.

Lemma collapse_loop_seq root higher st : is_seq_op (nop root) = true ->
  collapse_loop root (higher :: st) = collapse_loop (Node (nop higher) (nch higher ++ [root])) st.
Proof.
  intros H. cbn [collapse_loop]. rewrite is_sequence_seq_op, H.
  replace (is_root (nop root)) with false by (destruct (seq_op_cases _ H) as [-> | ->]; reflexivity).
  reflexivity.
Qed.

Lemma collapse_TC ch cch st :
  collapse_all_sequences (Node OTuple ch :: Node OChain cch :: root_node :: st) =
  Ok (Node ORootNode [Node OChain (cch ++ [Node OTuple ch])] :: st).
Proof.
  unfold collapse_all_sequences at 1. rewrite collapse_loop_seq by reflexivity. cbn [nop nch].
  change (collapse_loop (Node OChain (cch ++ [Node OTuple ch])) (root_node :: st))
    with (collapse_all_sequences (Node OChain (cch ++ [Node OTuple ch]) :: root_node :: st)).
  apply collapse_S. reflexivity.
Qed.

(* ------------------------------------------------------------------------------------------ *)
(* 4. The shape of root_stack                                                                   *)

(* One parenthesis level: a root, or a placeholder root below an open sequence whose last child is
   the root of the element being parsed, or the same below an open chain below an open tuple.
   The top of the stack is the head of the list. *)
Inductive level : list node -> Prop :=
| level_R ch : level [Node ORootNode ch]
| level_S o init rch :
    is_seq_op o = true -> init <> [] ->
    level [Node o (init ++ [Node ORootNode rch]); root_node]
| level_TC init rch cch :
    init <> [] -> cch <> [] ->
    level [Node OTuple (init ++ [Node ORootNode rch]); Node OChain cch; root_node].

(* the root of the element being parsed, and its replacement *)
Definition open_elem (L : list node) : node :=
  match L with
  | [R] => R
  | sq :: _ => last (nch sq) root_node
  | [] => root_node
  end.
Definition set_open (L : list node) (c : node) : list node :=
  match L with
  | [_] => [c]
  | sq :: rest => Node (nop sq) (removelast (nch sq) ++ [c]) :: rest
  | [] => []
  end.

(* the closed root a level collapses to *)
Definition closed_of (L : list node) : node :=
  match L with
  | [R] => R
  | [sq; _] => Node ORootNode [sq]
  | [tp; cn; _] => Node ORootNode [Node (nop cn) (nch cn ++ [tp])]
  | _ => root_node
  end.

(* the potential of a level: the depth of what it collapses to, plus one while it is a plain root *)
Definition hL (L : list node) : nat :=
  match L with
  | [R] => depth R + 1
  | _ => depth (closed_of L)
  end.

(* levels st d p: the stack consists of d+1 levels (d parentheses are open), total potential p *)
Inductive levels : list node -> nat -> nat -> Prop :=
| lv_base L : level L -> levels L 0 (hL L)
| lv_push L st d p : level L -> levels st d p -> levels (L ++ st) (S d) (hL L + p).

Definition rest_ok (st : list node) (d p : nat) : Prop :=
  (d = 0%nat /\ st = [] /\ p = 0%nat) \/ (exists d', d = S d' /\ levels st d' p).

Lemma levels_inv st d p : levels st d p ->
  exists L st' p', st = L ++ st' /\ level L /\ rest_ok st' d p' /\ p = (hL L + p')%nat.
Proof.
  intros H. destruct H as [L HL|L st d p HL Hst].
  - exists L, [], 0%nat. rewrite app_nil_r. repeat split; auto. left; auto.
  - exists L, st, p. repeat split; auto. right; eauto.
Qed.

Lemma levels_mk L st d p : level L -> rest_ok st d p -> levels (L ++ st) d (hL L + p).
Proof.
  intros HL [(-> & -> & ->)|(d' & -> & H)].
  - rewrite app_nil_r, Nat.add_0_r. constructor; exact HL.
  - constructor; assumption.
Qed.

Lemma level_nonempty L : level L -> L <> [].
Proof. intros H; destruct H; discriminate. Qed.

Lemma levels_nonempty st d p : levels st d p -> st <> [].
Proof.
  intros H. apply levels_inv in H. destruct H as (L & st' & p' & -> & HL & _).
  apply level_nonempty in HL. destruct L; [congruence|discriminate].
Qed.

Lemma levels_length st d p : levels st d p -> (d < length st)%nat.
Proof.
  induction 1 as [L HL|L st d p HL Hst IH].
  - apply level_nonempty in HL. destruct L; [congruence|cbn; lia].
  - rewrite app_length. apply level_nonempty in HL. destruct L; [congruence|cbn; lia].
Qed.

Lemma open_elem_root L : level L -> nop (open_elem L) = ORootNode.
Proof. intros H; destruct H; cbn [open_elem nch]; rewrite ?last_last; reflexivity. Qed.

Lemma set_open_level L c : level L -> nop c = ORootNode -> level (set_open L c).
Proof.
  intros H Hc. destruct c as [co cch]. cbn in Hc. subst co.
  destruct H; cbn [set_open nop nch]; rewrite ?removelast_last; constructor; assumption.
Qed.

(* inserting a non-sequence node: always into the open element of the top level *)
Lemma insert_node_level L st n : level L -> is_seq_op (nop n) = false ->
  insert_node n (L ++ st) =
  do c <- insert_back_prioritized (open_elem L) n true; Ok (set_open L c ++ st).
Proof.
  intros H Hn. destruct H; cbn [app open_elem set_open nop nch]; rewrite ?last_last, ?removelast_last.
  - apply ins_R; exact Hn.
  - apply ins_S; assumption.
  - apply ins_S; [assumption|reflexivity].
Qed.

Lemma set_open_hL L c k : level L -> (depth c <= depth (open_elem L) + k)%nat ->
  (hL (set_open L c) <= hL L + k)%nat.
Proof.
  intros H. destruct H; cbn [open_elem set_open nop nch hL closed_of]; rewrite ?last_last, ?removelast_last; intros Hc.
  - lia.
  - rewrite !depth_node, !dl_one, !depth_node, !dl_app, !dl_one. lia.
  - rewrite !depth_node, !dl_one, !depth_node, !dl_app, !dl_one, !depth_node, !dl_app, !dl_one. lia.
Qed.

(* a separator: the seven cases *)
Lemma insert_seq_level L st o : level L -> is_seq_op o = true ->
  exists L', insert_node (Node o []) (L ++ st) = Ok (L' ++ st) /\ level L' /\ (hL L' <= hL L + 1)%nat.
Proof.
  intros H Ho. destruct H as [ch|o' init rch Ho' Hi|init rch cch Hi Hc]; cbn [app].
  - exists [Node o [Node ORootNode ch; root_node]; root_node]. split; [apply ins_seq_R; exact Ho|].
    split; [apply (level_S o [Node ORootNode ch] []); [exact Ho|discriminate]|].
    cbn [hL closed_of nop nch]. dsimp. lia.
  - destruct (seq_op_cases o Ho) as [-> | ->]; destruct (seq_op_cases o' Ho') as [-> | ->].
    + exists [Node OTuple ((init ++ [Node ORootNode rch]) ++ [root_node]); root_node].
      split; [apply ins_seq_same; reflexivity|]. split; [apply level_S; [reflexivity|destruct init; discriminate]|].
      cbn [hL closed_of nop nch]. dsimp. lia.
    + exists [Node OTuple [Node ORootNode rch; root_node]; Node OChain init; root_node].
      split; [apply ins_seq_CT|]. split; [apply (level_TC [Node ORootNode rch] []); [discriminate|exact Hi]|].
      cbn [hL closed_of nop nch]. dsimp. lia.
    + exists [Node OChain [Node OTuple (init ++ [Node ORootNode rch]); root_node]; root_node].
      split; [apply ins_seq_TC_R|]. split; [apply (level_S OChain [Node OTuple (init ++ [Node ORootNode rch])] []); [reflexivity|discriminate]|].
      cbn [hL closed_of nop nch]. dsimp. lia.
    + exists [Node OChain ((init ++ [Node ORootNode rch]) ++ [root_node]); root_node].
      split; [apply ins_seq_same; reflexivity|]. split; [apply level_S; [reflexivity|destruct init; discriminate]|].
      cbn [hL closed_of nop nch]. dsimp. lia.
  - destruct (seq_op_cases o Ho) as [-> | ->].
    + exists [Node OTuple ((init ++ [Node ORootNode rch]) ++ [root_node]); Node OChain cch; root_node].
      split; [apply ins_seq_same; reflexivity|]. split; [apply level_TC; [destruct init; discriminate|exact Hc]|].
      cbn [hL closed_of nop nch]. dsimp. lia.
    + exists [Node OChain (cch ++ [Node OTuple (init ++ [Node ORootNode rch]); root_node]); root_node].
      split; [apply ins_seq_TC_C|].
      split; [replace (cch ++ [Node OTuple (init ++ [Node ORootNode rch]); root_node])
                with ((cch ++ [Node OTuple (init ++ [Node ORootNode rch])]) ++ [root_node]) by (rewrite <- app_assoc; reflexivity);
              apply level_S; [reflexivity|destruct cch; discriminate]|].
      cbn [hL closed_of nop nch]. dsimp. lia.
Qed.

(* collapse_all_sequences closes the top level, and only that one *)
Lemma collapse_level L st : level L ->
  collapse_all_sequences (L ++ st) =
  if Nat.ltb 1 (length (nch (closed_of L))) then Err EMissingOperatorOutsideOfBrace
  else Ok (closed_of L :: st).
Proof.
  intros H. destruct H as [ch|o init rch Ho Hi|init rch cch Hi Hc]; cbn [app closed_of nch nop length].
  - apply collapse_R.
  - rewrite collapse_S by exact Ho. reflexivity.
  - rewrite collapse_TC. reflexivity.
Qed.

Lemma closed_of_root L : level L -> nop (closed_of L) = ORootNode.
Proof. intros H; destruct H; reflexivity. Qed.

Lemma closed_of_depth L : level L -> (S (depth (closed_of L)) <= hL L + 1)%nat.
Proof. intros H; destruct H; cbn [hL closed_of]; lia. Qed.

(* ------------------------------------------------------------------------------------------ *)
(* 5. One step preserves the shape; what it does to the parenthesis count and to the potential   *)

Definition depth_step (t : token) (d : nat) : option nat :=
  match t with
  | TLBrace => Some (S d)
  | TRBrace => match d with O => None | S d' => Some d' end
  | _ => Some d
  end.

Lemma token_to_operator_brace t next lr :
  token_to_operator t next lr = None -> t = TLBrace \/ t = TRBrace.
Proof. destruct t; cbn; intros H; try discriminate H; auto. Qed.

(* inserting a non-sequence node into a well-shaped stack *)
Lemma insert_node_levels st d p n : levels st d p -> is_seq_op (nop n) = false ->
  match insert_node n st with
  | Ok st' => exists p', levels st' d p' /\ (p' <= p + S (depth n))%nat
  | Err e => insert_error e
  | Panic _ => False
  end.
Proof.
  intros H Hn. apply levels_inv in H. destruct H as (L & st' & p' & -> & HL & Hr & ->).
  rewrite insert_node_level by assumption.
  pose proof (insert_outcome (open_elem L) n true) as Ho.
  destruct (insert_back_prioritized (open_elem L) n true) as [c| |] eqn:Ei; cbn [bind]; [|exact Ho|exact Ho].
  exists (hL (set_open L c) + p')%nat. split.
  - apply levels_mk; [|exact Hr]. apply set_open_level; [exact HL|].
    rewrite (insert_nop _ _ _ _ Ei). apply open_elem_root; exact HL.
  - pose proof (insert_depth _ _ _ _ Ei) as Hd.
    pose proof (set_open_hL L c (S (depth n)) HL Hd). lia.
Qed.

Lemma step_levels t next lr st d p : levels st d p ->
  match step t next lr st with
  | Ok st' => exists d' p', levels st' d' p' /\ (p' <= p + 1)%nat /\ depth_step t d = Some d'
  | Err e => (e = EUnmatchedRBrace -> t = TRBrace /\ d = 0%nat) /\ e <> EUnmatchedLBrace
  | Panic _ => False
  end.
Proof.
  intros H.
  assert (Hins : forall o, t <> TLBrace -> t <> TRBrace -> depth_step t d = Some d ->
            match insert_node (Node o []) st with
            | Ok st' => exists d' p', levels st' d' p' /\ (p' <= p + 1)%nat /\ depth_step t d = Some d'
            | Err e => (e = EUnmatchedRBrace -> t = TRBrace /\ d = 0%nat) /\ e <> EUnmatchedLBrace
            | Panic _ => False
            end).
  { intros o Ht1 Ht2 Hds. destruct (is_seq_op o) eqn:Eo.
    - apply levels_inv in H. destruct H as (L & st' & p' & -> & HL & Hr & ->).
      destruct (insert_seq_level L st' o HL Eo) as (L' & -> & HL' & Hh).
      exists d, (hL L' + p')%nat. split; [apply levels_mk; assumption|]. split; [lia|exact Hds].
    - pose proof (insert_node_levels st d p (Node o []) H Eo) as Hi.
      destruct (insert_node (Node o []) st) as [st'|e|s]; [|split|exact Hi].
      + destruct Hi as (p' & Hl & Hp). exists d, p'. change (depth (Node o [])) with 0%nat in Hp. split; [exact Hl|]. split; [lia|exact Hds].
      + intros ->. destruct Hi as [Hi|[Hi|[Hi|Hi]]]; discriminate Hi.
      + destruct Hi as [Hi|[Hi|[Hi|Hi]]]; rewrite Hi; discriminate. }
  destruct t.
  17: { (* ) *)
    cbn [step]. destruct (length st <=? 1)%nat eqn:El.
    - split; [|discriminate]. intros _. split; [reflexivity|].
      apply Nat.leb_le in El. pose proof (levels_length _ _ _ H). lia.
    - apply levels_inv in H. destruct H as (L & st' & p' & -> & HL & Hr & ->).
      rewrite collapse_level by exact HL.
      destruct (Nat.ltb 1 (length (nch (closed_of L)))); cbn [bind]; [split; [discriminate|discriminate]|].
      destruct Hr as [(-> & -> & ->)|(d' & -> & Hst)].
      + cbn [insert_node]. split; [auto|discriminate].
      + assert (Hn : is_seq_op (nop (closed_of L)) = false) by (rewrite closed_of_root by exact HL; reflexivity).
        pose proof (insert_node_levels st' d' p' (closed_of L) Hst Hn) as Hi.
        destruct (insert_node (closed_of L) st') as [st''|e|s]; [|split|exact Hi].
        * destruct Hi as (p'' & Hl & Hp). exists d', p''. split; [exact Hl|].
          pose proof (closed_of_depth L HL). split; [lia|reflexivity].
        * intros ->. destruct Hi as [Hi|[Hi|[Hi|Hi]]]; discriminate Hi.
        * destruct Hi as [Hi|[Hi|[Hi|Hi]]]; rewrite Hi; discriminate. }
  16: { (* ( *)
    cbn [step]. exists (S d), (hL [root_node] + p)%nat. split; [apply (lv_push [root_node]); [constructor|exact H]|].
    split; [cbn; lia|reflexivity]. }
  all: cbn [step].
  all: match goal with
       | |- context [token_to_operator ?t ?nx ?l] =>
           destruct (token_to_operator t nx l) as [o|] eqn:Eo;
           [apply Hins; [discriminate|discriminate|reflexivity]
           |apply token_to_operator_brace in Eo; destruct Eo; discriminate]
       end.
Qed.

(* ------------------------------------------------------------------------------------------ *)
(* 6. The loop                                                                                  *)

Lemma balanced_from_step t ts d :
  balanced_from d (t :: ts) =
  match depth_step t d with Some d' => balanced_from d' ts | None => false end.
Proof. destruct t; cbn; try reflexivity. destruct d; reflexivity. Qed.

Lemma loop_levels ts : forall st lr d p, levels st d p ->
  match build_loop ts st lr with
  | Ok st' => exists d' p', levels st' d' p' /\ (p' <= p + length ts)%nat /\ balanced_from d ts = Nat.eqb d' 0
  | Err e => balanced_from d ts = true -> e <> EUnmatchedLBrace /\ e <> EUnmatchedRBrace
  | Panic _ => False
  end.
Proof.
  induction ts as [|t ts IH]; intros st lr d p H.
  - cbn [build_loop]. exists d, p. split; [exact H|]. split; [cbn; lia|reflexivity].
  - rewrite build_loop_cons, balanced_from_step.
    pose proof (step_levels t (next_of ts) lr st d p H) as Hs.
    destruct (step t (next_of ts) lr st) as [st1|e|s]; cbn [bind]; [| |exact Hs].
    + destruct Hs as (d1 & p1 & Hl & Hp & Hd). rewrite Hd.
      specialize (IH st1 (is_rightsided_value t) d1 p1 Hl).
      destruct (build_loop ts st1 (is_rightsided_value t)) as [st'|e|s]; [|exact IH|exact IH].
      destruct IH as (d' & p' & Hl' & Hp' & Hb). exists d', p'. split; [exact Hl'|]. split; [cbn [length]; lia|exact Hb].
    + destruct Hs as [Hs1 Hs2]. intros Hb. split; [exact Hs2|].
      intros ->. destruct (Hs1 eq_refl) as [-> ->]. cbn in Hb. discriminate Hb.
Qed.

Lemma levels_init : levels [root_node] 0 1.
Proof. apply (lv_base [root_node]). constructor. Qed.

(* what tokens_to_operator_tree returns, in terms of the invariant *)
Lemma build_outcome ts :
  match tokens_to_operator_tree ts with
  | Ok n => balanced ts = true /\ (depth n <= length ts + 1)%nat
  | Err e => (balanced ts = true -> e <> EUnmatchedLBrace /\ e <> EUnmatchedRBrace)
  | Panic _ => False
  end.
Proof.
  unfold tokens_to_operator_tree, balanced.
  pose proof (loop_levels ts [root_node] false 0 1 levels_init) as Hl.
  destruct (build_loop ts [root_node] false) as [st|e|s]; cbn [bind]; [|exact Hl|exact Hl].
  destruct Hl as (d & p & Hl & Hp & Hb).
  apply levels_inv in Hl. destruct Hl as (L & st' & p' & -> & HL & Hr & ->).
  rewrite collapse_level by exact HL.
  destruct (Nat.ltb 1 (length (nch (closed_of L)))); cbn [bind]; [intros _; split; discriminate|].
  destruct Hr as [(-> & -> & ->)|(d' & -> & Hst)].
  - split; [rewrite Hb; reflexivity|]. pose proof (closed_of_depth L HL). lia.
  - pose proof (levels_nonempty _ _ _ Hst) as Hne. destruct st' as [|x st']; [congruence|].
    rewrite Hb. cbn. intros Hf; discriminate Hf.
Qed.

(* ------------------------------------------------------------------------------------------ *)
(* 7. The theorems                                                                              *)

Theorem build_no_panic ts : is_panic (tokens_to_operator_tree ts) = false.
Proof.
  pose proof (build_outcome ts) as H. destruct (tokens_to_operator_tree ts); [reflexivity|reflexivity|contradiction].
Qed.

Theorem build_depth ts n : tokens_to_operator_tree ts = Ok n -> (depth n <= length ts + 1)%nat.
Proof. intros H. pose proof (build_outcome ts) as H'. rewrite H in H'. apply H'. Qed.

Theorem build_ok_balanced ts n : tokens_to_operator_tree ts = Ok n -> balanced ts = true.
Proof. intros H. pose proof (build_outcome ts) as H'. rewrite H in H'. apply H'. Qed.

Theorem build_unbalanced ts : balanced ts = false -> exists e, tokens_to_operator_tree ts = Err e.
Proof.
  intros Hb. pose proof (build_outcome ts) as H. destruct (tokens_to_operator_tree ts) as [n|e|s].
  - destruct H as [H _]. congruence.
  - eauto.
  - contradiction.
Qed.

Theorem build_balanced ts : balanced ts = true ->
  tokens_to_operator_tree ts <> Err EUnmatchedLBrace /\ tokens_to_operator_tree ts <> Err EUnmatchedRBrace.
Proof.
  intros Hb. pose proof (build_outcome ts) as H. destruct (tokens_to_operator_tree ts) as [n|e|s].
  - split; discriminate.
  - destruct (H Hb) as [H1 H2]. split; intros E; inversion E; congruence.
  - contradiction.
Qed.

(* ------------------------------------------------------------------------------------------ *)
(* 8. The exact error for one parenthesis too many / too few                                    *)

(* the loop on a prefix of the input: the last token of the prefix looks ahead at `la` *)
Fixpoint build_loop_la (ts : list token) (la : option token) (stack : list node) (lr : bool)
  : outcome (list node) :=
  match ts with
  | [] => Ok stack
  | t :: ts' =>
      let next := match ts' with x :: _ => Some x | [] => la end in
      do stack1 <- step t next lr stack;
      build_loop_la ts' la stack1 (is_rightsided_value t)
  end.

Fixpoint lr_after (pre : list token) (lr : bool) : bool :=
  match pre with [] => lr | t :: r => lr_after r (is_rightsided_value t) end.

Lemma build_loop_la_none ts : forall st lr, build_loop_la ts None st lr = build_loop ts st lr.
Proof.
  induction ts as [|t ts IH]; intros st lr; [reflexivity|].
  rewrite build_loop_cons. cbn [build_loop_la]. unfold next_of.
  destruct (step t match ts with [] => None | x :: _ => Some x end lr st); cbn [bind]; auto.
Qed.

Lemma build_loop_app pre rest : forall st lr,
  build_loop (pre ++ rest) st lr =
  do st1 <- build_loop_la pre (next_of rest) st lr; build_loop rest st1 (lr_after pre lr).
Proof.
  induction pre as [|t pre IH]; intros st lr; [reflexivity|].
  cbn [app]. rewrite build_loop_cons. cbn [build_loop_la lr_after].
  replace (next_of (pre ++ rest)) with (match pre with x :: _ => Some x | [] => next_of rest end)
    by (destruct pre; reflexivity).
  destruct (step t _ lr st); cbn [bind]; auto.
Qed.

(* a closing parenthesis as lookahead decides nothing *)
Lemma step_la_rbrace t lr st : step t (Some TRBrace) lr st = step t None lr st.
Proof.
  destruct t; cbn [step token_to_operator]; rewrite ?is_assignment_assigns, ?is_leftsided_starts; reflexivity.
Qed.

Lemma build_loop_la_rbrace ts : forall st lr,
  build_loop_la ts (Some TRBrace) st lr = build_loop_la ts None st lr.
Proof.
  induction ts as [|t ts IH]; intros st lr; [reflexivity|]. cbn [build_loop_la].
  destruct ts as [|x ts].
  - rewrite step_la_rbrace. reflexivity.
  - destruct (step t (Some x) lr st); cbn [bind]; auto.
Qed.

Lemma step_close_zero st p next lr : levels st 0 p -> step TRBrace next lr st = Err EUnmatchedRBrace.
Proof.
  intros H. apply levels_inv in H. destruct H as (L & st' & p' & -> & HL & Hr & _).
  destruct Hr as [(_ & -> & _)|(d' & E & _)]; [|discriminate E]. rewrite app_nil_r.
  cbn [step]. destruct HL as [ch|o init rch Ho Hi|init rch cch Hi Hc].
  - reflexivity.
  - cbn [length Nat.leb]. rewrite collapse_S by exact Ho. reflexivity.
  - cbn [length Nat.leb]. rewrite collapse_TC. reflexivity.
Qed.

(* the number of open parentheses can be read off the stack: one RootNode per level *)
Definition nroots (st : list node) : nat := length (filter (fun x => is_root_op (nop x)) st).

Lemma level_nroots L : level L -> nroots L = 1%nat.
Proof.
  intros H. destruct H as [ch|o init rch Ho Hi|init rch cch Hi Hc]; unfold nroots; cbn [filter nop is_root_op root_node length].
  - reflexivity.
  - destruct (seq_op_cases o Ho) as [-> | ->]; reflexivity.
  - reflexivity.
Qed.

Lemma levels_nroots st d p : levels st d p -> nroots st = S d.
Proof.
  induction 1 as [L HL|L st d p HL Hst IH]; [apply level_nroots; exact HL|].
  unfold nroots in *. rewrite filter_app, app_length, IH. pose proof (level_nroots L HL) as E. unfold nroots in E. lia.
Qed.

(* the stack at the end of a successful build has a single level *)
Lemma build_ok_stack ts n : tokens_to_operator_tree ts = Ok n ->
  exists st p, build_loop ts [root_node] false = Ok st /\ levels st 0 p.
Proof.
  unfold tokens_to_operator_tree. intros H.
  pose proof (loop_levels ts [root_node] false 0 1 levels_init) as Hl.
  destruct (build_loop ts [root_node] false) as [st| |]; try discriminate H. cbn [bind] in H.
  destruct Hl as (d & p & Hl & _ & _). exists st, p. split; [reflexivity|].
  pose proof Hl as Hl0. apply levels_inv in Hl. destruct Hl as (L & st' & p' & -> & HL & Hr & ->).
  rewrite collapse_level in H by exact HL.
  destruct (Nat.ltb 1 (length (nch (closed_of L)))); [discriminate H|]. cbn [bind] in H.
  destruct Hr as [(-> & -> & ->)|(d' & -> & Hst)]; [exact Hl0|].
  pose proof (levels_nonempty _ _ _ Hst). destruct st'; [congruence|discriminate H].
Qed.

(* input that builds, followed by one more `)`: exactly UnmatchedRBrace, whatever comes after *)
Theorem build_excess_close pre post n : tokens_to_operator_tree pre = Ok n ->
  tokens_to_operator_tree (pre ++ TRBrace :: post) = Err EUnmatchedRBrace.
Proof.
  intros H. destruct (build_ok_stack pre n H) as (st & p & Hb & Hl).
  unfold tokens_to_operator_tree. rewrite build_loop_app. cbn [next_of].
  rewrite build_loop_la_rbrace, build_loop_la_none, Hb. cbn [bind].
  rewrite build_loop_cons, (step_close_zero st p _ _ Hl). reflexivity.
Qed.

(* input that builds once a final `)` is added: exactly UnmatchedLBrace without it *)
Theorem build_excess_open ts n : tokens_to_operator_tree (ts ++ [TRBrace]) = Ok n ->
  tokens_to_operator_tree ts = Err EUnmatchedLBrace.
Proof.
  intros H. destruct (build_ok_stack _ n H) as (st2 & p2 & Hb & Hl2).
  rewrite build_loop_app in Hb. cbn [next_of] in Hb.
  rewrite build_loop_la_rbrace, build_loop_la_none in Hb.
  unfold tokens_to_operator_tree.
  pose proof (loop_levels ts [root_node] false 0 1 levels_init) as Hl.
  destruct (build_loop ts [root_node] false) as [st1| |]; try discriminate Hb. cbn [bind] in Hb.
  destruct Hl as (d1 & p1 & Hl1 & _ & _).
  rewrite build_loop_cons in Hb. cbn [build_loop] in Hb.
  pose proof (step_levels TRBrace (next_of []) (lr_after ts false) st1 d1 p1 Hl1) as Hs.
  destruct (step TRBrace (next_of []) (lr_after ts false) st1) as [st2'| |] eqn:Es; try discriminate Hb.
  cbn [bind] in Hb. injection Hb as ->.
  destruct Hs as (d2 & p2' & Hl2' & _ & Hd).
  assert (Ed : d2 = 0%nat).
  { pose proof (levels_nroots _ _ _ Hl2) as E1. pose proof (levels_nroots _ _ _ Hl2') as E2. lia. }
  subst d2. cbn [depth_step] in Hd. destruct d1 as [|d1]; [discriminate Hd|]. injection Hd as ->.
  apply levels_inv in Hl1. destruct Hl1 as (L & st' & p' & -> & HL & Hr & _).
  destruct Hr as [(E & _)|(d' & E & Hst)]; [discriminate E|]. injection E as <-.
  cbn [step] in Es. destruct (length (L ++ st') <=? 1)%nat; [discriminate Es|].
  rewrite collapse_level in Es by exact HL. cbn [bind]. rewrite collapse_level by exact HL.
  destruct (Nat.ltb 1 (length (nch (closed_of L)))); [discriminate Es|]. cbn [bind].
  pose proof (levels_nonempty _ _ _ Hst). destruct st'; [congruence|reflexivity].
Qed.
