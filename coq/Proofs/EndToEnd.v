(* End-to-end: source strings -> reference trees.  Composition of
     C06_embedded / C07_separators (Proofs/C07.v: tokenize_join, separators),
     C02_parse                     (Proofs/C02.v: expr_parse_top),
     Model.Interface.build_operator_tree / run_entry. *)
From Coq Require Import Strings.String Floats.SpecFloat.
Require Import Model.Base Model.Syntax Model.F64 Model.Lexer Model.Builder Model.Value Model.Context Model.Eval
               Model.Interface.
Require Import Spec.OpTable Spec.Grammar Spec.LexSpec Spec.Render.
Require Import Proofs.LexFacts Proofs.C06 Proofs.C07 Proofs.C02.

(* ========================================================================================== *)
(** * 1. The canonical lexeme of a token is well formed and denotes the token *)

Lemma lexeme_token_denote l : lexeme_token l = denote l.
Proof. destruct l; reflexivity. Qed.

Lemma map_lexeme_token ls : map lexeme_token ls = map denote ls.
Proof. apply map_ext. exact lexeme_token_denote. Qed.

Lemma existsb_eqb_false c l : existsb (N.eqb c) l = false -> ~ In c l.
Proof.
  intros H Hin. assert (E : existsb (N.eqb c) l = true).
  { apply existsb_exists. exists c. split; [exact Hin|apply N.eqb_refl]. }
  congruence.
Qed.

Lemma existsb_eqb_notin c l : ~ In c l -> existsb (N.eqb c) l = false.
Proof.
  intros H. destruct (existsb (N.eqb c) l) eqn:E; [|reflexivity].
  exfalso. apply H. apply existsb_exists in E. destruct E as (x & Hin & Hx).
  apply N.eqb_eq in Hx. subst x. exact Hin.
Qed.

Lemma word_char_b_iff c : word_char_b c = true <-> word_char c.
Proof.
  unfold word_char_b, word_char. split.
  - intros H. apply andb_prop in H. destruct H as [H H3]. apply andb_prop in H. destruct H as [H1 H2].
    apply negb_true_iff in H1, H2, H3. split; [apply existsb_eqb_false; exact H1|].
    split; [apply existsb_eqb_false; exact H2|]. apply N.eqb_neq. exact H3.
  - intros (H1 & H2 & H3).
    rewrite (existsb_eqb_notin _ _ H1), (existsb_eqb_notin _ _ H2).
    apply N.eqb_neq in H3. rewrite H3. reflexivity.
Qed.

Lemma word_b_iff w : word_b w = true <-> word w.
Proof.
  unfold word_b, word. split.
  - intros H. destruct w as [|c w]; [discriminate H|]. split; [discriminate|].
    apply Forall_forall. intros x Hx. apply word_char_b_iff.
    rewrite forallb_forall in H. apply H. exact Hx.
  - intros [Hne Hw]. destruct w as [|c w]; [congruence|].
    apply forallb_forall. intros x Hx. apply word_char_b_iff.
    rewrite Forall_forall in Hw. apply Hw. exact Hx.
Qed.

(* the identifier a word alone is read as can only be the word itself *)
Lemma literal_alone_ident w x n : literal_to_token w None None = (TIdentifier x, n) -> x = w.
Proof.
  unfold literal_to_token.
  destruct (parse_dec_or_hex w); [discriminate|].
  destruct (parse_float w); [discriminate|].
  destruct (parse_bool w); [discriminate|].
  intros [= ->]. reflexivity.
Qed.

Lemma ident_word_b_spec w : ident_word_b w = true -> word w /\ word_token w = TIdentifier w.
Proof.
  unfold ident_word_b. intros H. apply andb_prop in H. destruct H as [Hw Hi].
  split; [apply word_b_iff; exact Hw|]. unfold word_token.
  destruct (literal_to_token w None None) as [t n] eqn:E. cbn [fst].
  destruct t; try discriminate Hi. f_equal. eapply literal_alone_ident. exact E.
Qed.

Lemma decimal_word_token n : 0 <= n <= i64_max -> word (decimal n) /\ word_token (decimal n) = TInt n.
Proof.
  intros [Hn Hmax]. destruct (decimal_spec n Hn) as [Hd1 Hv].
  split; [apply digits1_word; exact Hd1|].
  apply word_token_int.
  rewrite parse_dec_or_hex_no_x by (apply digits_second_not_x; apply Hd1).
  rewrite parse_dec_digits; rewrite ?Hv; auto.
Qed.

Lemma true_false_words :
  word (s2l "true"%string) /\ word (s2l "false"%string) /\
  word_token (s2l "true"%string) = TBoolean true /\ word_token (s2l "false"%string) = TBoolean false.
Proof.
  split; [apply word_b_iff; vm_compute; reflexivity|].
  split; [apply word_b_iff; vm_compute; reflexivity|].
  split; vm_compute; reflexivity.
Qed.

Lemma oplex_of_token_sound t o : oplex_of_token t = Some o -> op_token o = t.
Proof. destruct t; cbn [oplex_of_token]; intros [= <-]; reflexivity. Qed.

Lemma lexeme_of_token_sound t l : lexeme_of_token t = Some l -> lexeme_wf l /\ lexeme_token l = t.
Proof.
  destruct t as [ | | | | | | | | | | | | | | | | | | | | | | | | | | | |w|f|n|b|s];
    cbn [lexeme_of_token];
    try (intros H; destruct (oplex_of_token _) as [o|] eqn:E; cbn [option_map] in H; [|discriminate H];
         injection H as <-; split; [exact I|]; cbn [lexeme_token]; apply oplex_of_token_sound; exact E).
  - destruct (ident_word_b w) eqn:E; [|discriminate]. intros [= <-].
    destruct (ident_word_b_spec w E) as [Hw Ht]. split; [exact Hw|exact Ht].
  - discriminate.
  - destruct ((0 <=? n) && (n <=? i64_max)) eqn:E; [|discriminate]. intros [= <-].
    apply andb_prop in E. destruct E as [E1 E2]. apply Z.leb_le in E1, E2.
    destruct (decimal_word_token n (conj E1 E2)) as [Hw Ht]. split; [exact Hw|exact Ht].
  - intros [= <-]. destruct true_false_words as (Ht & Hf & Et & Ef).
    destruct b; (split; [assumption|]); cbn [lexeme_token]; assumption.
  - intros [= <-]. split; [exact I|reflexivity].
Qed.

(* E2E_tokens *)
Theorem lexemes_of_sound ts : forall ls, lexemes_of ts = Some ls -> lexemes_wf ls /\ map lexeme_token ls = ts.
Proof.
  induction ts as [|t ts IH]; intros ls H; cbn [lexemes_of] in H.
  - injection H as <-. split; [constructor|reflexivity].
  - destruct (lexeme_of_token t) as [l|] eqn:El; [|discriminate H].
    destruct (lexemes_of ts) as [ls'|] eqn:Els; [|discriminate H].
    injection H as <-. destruct (lexeme_of_token_sound t l El) as [Hwf Ht].
    destruct (IH ls' eq_refl) as [IHwf IHt].
    split; [constructor; assumption|]. cbn [map]. rewrite Ht, IHt. reflexivity.
Qed.

(* ========================================================================================== *)
(** * 2. Lexing a rendering gives back the tokens; parsing them gives the reference tree *)

Theorem tokenize_rendering ts ls seps :
  lexemes_of ts = Some ls -> valid_seps ls seps -> tokenize (LexSpec.join ls seps) = Ok ts.
Proof.
  intros Hls Hseps. destruct (lexemes_of_sound ts ls Hls) as [Hwf Hts].
  rewrite (tokenize_join ls seps Hwf Hseps), <- map_lexeme_token, Hts. reflexivity.
Qed.

(* the same for any token list: building from the text is building from the tokens *)
Theorem build_rendering ts ls seps :
  lexemes_of ts = Some ls -> valid_seps ls seps ->
  build_operator_tree (LexSpec.join ls seps) = tokens_to_operator_tree ts.
Proof.
  intros Hls Hseps. unfold build_operator_tree.
  rewrite (tokenize_rendering ts ls seps Hls Hseps). reflexivity.
Qed.

(* E2E_parse *)
Theorem e2e_parse (e : expr) ls seps :
  ok_top e -> lexemes_of (flatten e) = Some ls -> valid_seps ls seps ->
  build_operator_tree (LexSpec.join ls seps) = Ok (Node ORootNode [tree_of e]).
Proof.
  intros Hok Hls Hseps. rewrite (build_rendering _ _ _ Hls Hseps). apply expr_parse_top. exact Hok.
Qed.

(* ========================================================================================== *)
(** * 3. Separators are irrelevant *)

Theorem e2e_separators ls s1 s2 :
  lexemes_wf ls -> valid_seps ls s1 -> valid_seps ls s2 ->
  build_operator_tree (LexSpec.join ls s1) = build_operator_tree (LexSpec.join ls s2).
Proof.
  intros Hwf H1 H2. unfold build_operator_tree. rewrite (separators ls s1 s2 Hwf H1 H2). reflexivity.
Qed.

Section Eval.
Variable O : std_oracle.

Theorem e2e_separators_eval ls s1 s2 m t c lg :
  lexemes_wf ls -> valid_seps ls s1 -> valid_seps ls s2 ->
  run_entry O m t (LexSpec.join ls s1) c lg = run_entry O m t (LexSpec.join ls s2) c lg.
Proof.
  intros Hwf H1 H2. unfold run_entry. rewrite (e2e_separators ls s1 s2 Hwf H1 H2). reflexivity.
Qed.

(* E2E_eval *)
Theorem e2e_eval (e : expr) ls seps m t c lg :
  ok_top e -> lexemes_of (flatten e) = Some ls -> valid_seps ls seps ->
  run_entry O m t (LexSpec.join ls seps) c lg =
  match m with
  | MRo => let '(r, lg') := eval_ro O (Node ORootNode [tree_of e]) c lg in (project t r, c, lg')
  | MMut => let '(r, c', lg') := eval_mut O (Node ORootNode [tree_of e]) c lg in (project t r, c', lg')
  | MFree => let '(r, _, _) := eval_mut O (Node ORootNode [tree_of e]) empty_hashmap [] in (project t r, c, lg)
  end.
Proof.
  intros Hok Hls Hseps. unfold run_entry. rewrite (e2e_parse e ls seps Hok Hls Hseps). reflexivity.
Qed.

End Eval.

(* ========================================================================================== *)
(** * 4. One space everywhere is always a valid separator assignment *)

Lemma nth_repeat_lt {A} (x d : A) n i : (i < n)%nat -> nth i (repeat x n) d = x.
Proof.
  revert i. induction n as [|n IH]; intros i Hi; [lia|].
  destruct i as [|i]; [reflexivity|]. cbn [repeat nth]. apply IH. lia.
Qed.

Lemma nth_repeat_cases {A} (x d : A) n i : nth i (repeat x n) d = x \/ nth i (repeat x n) d = d.
Proof.
  destruct (Nat.lt_ge_cases i n) as [H|H]; [left; apply nth_repeat_lt; exact H|].
  right. apply nth_overflow. rewrite repeat_length. exact H.
Qed.

Lemma nth_error_lt {A} (l : list A) i x : nth_error l i = Some x -> (i < length l)%nat.
Proof. intros H. apply nth_error_Some. congruence. Qed.

Lemma spaces_valid ls : valid_seps ls (spaces (S (length ls))).
Proof.
  unfold valid_seps, gap_at, spaces, gap. split; [|split; [|split]].
  - intros i. destruct (nth_repeat_cases [SWs 32%N] [] (S (length ls)) i) as [-> | ->]; [|constructor].
    constructor; [|constructor]. cbn [item_wf white_space]. do 5 right. left. reflexivity.
  - intros i l1 l2 _ H2 _. apply nth_error_lt in H2.
    rewrite nth_repeat_lt by lia. discriminate.
  - intros i l1 l2 l3 _ H2 _ _. apply nth_error_lt in H2. left.
    rewrite nth_repeat_lt by lia. discriminate.
  - intros i H1. apply nth_error_lt in H1.
    rewrite nth_repeat_lt by lia. cbn [begins_with_comment]. exact (fun F => F).
Qed.

Theorem e2e_spaces (e : expr) ls :
  ok_top e -> lexemes_of (flatten e) = Some ls ->
  build_operator_tree (LexSpec.join ls (spaces (S (length ls)))) = Ok (Node ORootNode [tree_of e]).
Proof. intros Hok Hls. apply e2e_parse; [exact Hok|exact Hls|apply spaces_valid]. Qed.

(* ========================================================================================== *)
(** * 5. Renderable expressions have lexemes *)

Lemma renderable_ident_b w : renderable_ident w -> ident_word_b w = true.
Proof.
  intros (Hw & Hi & Hf & Hb & Hs). unfold ident_word_b.
  destruct (not_forms_not_parsed w Hi Hf Hb Hs) as (H1 & H2 & H3).
  apply andb_true_intro. split; [apply word_b_iff; exact Hw|].
  rewrite (literal_ident w None None H1 H2 H3); [reflexivity|].
  intros neg t H. discriminate H.
Qed.

Lemma renderable_token_lexeme t : renderable_token t -> exists l, lexeme_of_token t = Some l.
Proof.
  destruct t as [ | | | | | | | | | | | | | | | | | | | | | | | | | | | |w|f|n|b|s];
    cbn [renderable_token lexeme_of_token oplex_of_token option_map]; intros H;
    try (eexists; reflexivity).
  - rewrite (renderable_ident_b w H). eexists; reflexivity.
  - destruct H.
  - destruct H as [H1 H2]. apply Z.leb_le in H1, H2. rewrite H1, H2. eexists; reflexivity.
Qed.

Lemma renderable_tokens_lexemes ts : Forall renderable_token ts -> exists ls, lexemes_of ts = Some ls.
Proof.
  induction 1 as [|t ts Ht Hts IH]; [exists []; reflexivity|].
  destruct (renderable_token_lexeme t Ht) as [l El]. destruct IH as [ls Els].
  exists (l :: ls). cbn [lexemes_of]. rewrite El, Els. reflexivity.
Qed.

Theorem renderable_lexemes (e : expr) : renderable e -> exists ls, lexemes_of (flatten e) = Some ls.
Proof. apply renderable_tokens_lexemes. Qed.

(* every renderable, well-parenthesised AST has a source text, and all its source texts precompile
   to the reference tree *)
Theorem e2e_renderable (e : expr) : ok_top e -> renderable e ->
  exists ls, lexemes_of (flatten e) = Some ls /\
    (exists seps, valid_seps ls seps) /\
    forall seps, valid_seps ls seps ->
      build_operator_tree (LexSpec.join ls seps) = Ok (Node ORootNode [tree_of e]).
Proof.
  intros Hok Hr. destruct (renderable_lexemes e Hr) as [ls Hls]. exists ls.
  split; [exact Hls|]. split; [exists (spaces (S (length ls))); apply spaces_valid|].
  intros seps Hseps. apply e2e_parse; assumption.
Qed.

(* ========================================================================================== *)
(** * 6. A boolean sufficient test for valid_seps (used for the examples; sound, not complete:
      the `sci` clause is tested with the model's parse_float, which accepts every float form) *)

Fixpoint has_close (s : str) : bool :=
  match s with
  | a :: (b :: _) as t => ((a =? 42) && (b =? 47))%N || has_close t
  | _ => false
  end.

Lemma has_close_complete s : contains [42; 47]%N s -> has_close s = true.
Proof.
  intros (a & b & ->). induction a as [|c a IH].
  - cbn [app has_close]. reflexivity.
  - cbn [app]. destruct a as [|d a].
    + cbn [app] in *. cbn [has_close] in *. rewrite IH. apply orb_true_r.
    + cbn [app] in *. change (has_close (c :: d :: a ++ 42%N :: 47%N :: b))
        with (((c =? 42) && (d =? 47))%N || has_close (d :: a ++ 42%N :: 47%N :: b)).
      rewrite IH. apply orb_true_r.
Qed.

Definition item_wf_b (it : sep_item) : bool :=
  match it with
  | SWs c => existsb (N.eqb c) white_space
  | SBlock body => negb (has_close body)
  | SLine body => negb (existsb (N.eqb 10%N) body)
  end.

Lemma item_wf_b_sound it : item_wf_b it = true -> item_wf it.
Proof.
  destruct it as [c|body|body]; cbn [item_wf_b item_wf]; intros H.
  - apply existsb_exists in H. destruct H as (x & Hin & Hx). apply N.eqb_eq in Hx. subst x. exact Hin.
  - intros Hc. rewrite (has_close_complete body Hc) in H. discriminate H.
  - apply negb_true_iff in H. apply existsb_eqb_false. exact H.
Qed.

Definition is_some {A} (o : option A) : bool := match o with Some _ => true | None => false end.

Definition sci_maybe (l1 l2 l3 : lexeme) : bool :=
  match l1, l2, first_word l3 with
  | LWord w, LOp sg, Some t =>
      match sg with XPlus | XMinus => is_some (parse_float (w ++ op_text sg ++ t)) | _ => false end
  | _, _, _ => false
  end.

Lemma sci_maybe_complete l1 l2 l3 : sci l1 l2 l3 -> sci_maybe l1 l2 l3 = true.
Proof.
  intros (w & sg & t & -> & -> & Hsg & Hfw & Hff). unfold sci_maybe. rewrite Hfw.
  destruct (float_form_parses _ Hff) as [f Hf].
  destruct Hsg as [-> | ->]; rewrite Hf; reflexivity.
Qed.

Definition comment_first_b (g : gap) : bool :=
  match g with SBlock _ :: _ | SLine _ :: _ => true | _ => false end.

Definition nonempty_gap (g : gap) : bool := match g with [] => false | _ => true end.

Definition ok_at (ls : list lexeme) (seps : list gap) (i : nat) : bool :=
  match nth_error ls i with
  | Some l1 =>
      (if is_slash l1 then negb (comment_first_b (gap_at seps (S i))) else true) &&
      match nth_error ls (S i) with
      | Some l2 =>
          (negb (fuses l1 l2) || nonempty_gap (gap_at seps (S i))) &&
          match nth_error ls (S (S i)) with
          | Some l3 => negb (sci_maybe l1 l2 l3) || nonempty_gap (gap_at seps (S i))
                       || nonempty_gap (gap_at seps (S (S i)))
          | None => true
          end
      | None => true
      end
  | None => true
  end.

Definition valid_seps_b (ls : list lexeme) (seps : list gap) : bool :=
  forallb (forallb item_wf_b) seps && forallb (ok_at ls seps) (List.seq 0%nat (length ls)).

Lemma nonempty_gap_spec g : nonempty_gap g = true -> g <> [].
Proof. destruct g; [discriminate|]. intros _. discriminate. Qed.

Lemma valid_seps_b_sound ls seps : valid_seps_b ls seps = true -> valid_seps ls seps.
Proof.
  unfold valid_seps_b. intros H. apply andb_prop in H. destruct H as [Hit Hat].
  assert (At : forall i l, nth_error ls i = Some l -> ok_at ls seps i = true).
  { intros i l Hi. rewrite forallb_forall in Hat. apply Hat. apply in_seq.
    apply nth_error_lt in Hi. lia. }
  unfold valid_seps. split; [|split; [|split]].
  - intros i. unfold gap_at. destruct (nth_in_or_default i seps []) as [Hin | ->]; [|constructor].
    rewrite forallb_forall in Hit. specialize (Hit _ Hin).
    apply Forall_forall. intros it Hi. apply item_wf_b_sound.
    rewrite forallb_forall in Hit. apply Hit. exact Hi.
  - intros i l1 l2 H1 H2 Hf. specialize (At i l1 H1). unfold ok_at in At. rewrite H1, H2 in At.
    apply andb_prop in At. destruct At as [_ At]. apply andb_prop in At. destruct At as [At _].
    rewrite Hf in At. cbn [negb orb] in At. apply nonempty_gap_spec. exact At.
  - intros i l1 l2 l3 H1 H2 H3 Hs. specialize (At i l1 H1). unfold ok_at in At. rewrite H1, H2, H3 in At.
    apply andb_prop in At. destruct At as [_ At]. apply andb_prop in At. destruct At as [_ At].
    rewrite (sci_maybe_complete _ _ _ Hs) in At. cbn [negb orb] in At.
    apply orb_prop in At. destruct At as [At|At]; [left|right]; apply nonempty_gap_spec; exact At.
  - intros i H1. specialize (At i _ H1). unfold ok_at in At. rewrite H1 in At.
    apply andb_prop in At. destruct At as [At _]. cbn [is_slash] in At.
    apply negb_true_iff in At. intros Hb.
    destruct (gap_at seps (S i)) as [|[c|body|body] g]; cbn in Hb, At; try discriminate At; exact Hb.
Qed.

(* ========================================================================================== *)
(** * 7. A boolean sufficient test for renderable: identifiers are words whose first scalar value is
      at least 65 ('A'; every letter, '_' and all non-ASCII) other than true / false / inf / infinity / nan *)

Definition letter_ident_b (w : str) : bool :=
  word_b w && (65 <=? hd 0%N w)%N && negb (str_eqb w (s2l "true"%string)) && negb (str_eqb w (s2l "false"%string))
  && negb (special_b w).

Lemma special_float_word_b w : special_float_word w -> special_b w = true.
Proof.
  unfold special_float_word, special_b. cbv zeta. intros [H|[H|H]]; rewrite H; reflexivity.
Qed.

Lemma letter_ident_sound w : letter_ident_b w = true -> renderable_ident w.
Proof.
  unfold letter_ident_b. intros H.
  apply andb_prop in H. destruct H as [H H5]. apply andb_prop in H. destruct H as [H H4].
  apply andb_prop in H. destruct H as [H H3]. apply andb_prop in H. destruct H as [H1 H2].
  apply negb_true_iff in H3, H4, H5. apply N.leb_le in H2.
  assert (Hw : word w) by (apply word_b_iff; exact H1).
  destruct w as [|c t]; [destruct Hw as [Hne _]; congruence|]. cbn [hd] in H2.
  destruct (letter_word_not_numeric c t H2) as [Hi Hf].
  split; [exact Hw|]. split; [exact Hi|]. split; [exact Hf|]. split.
  - intros [Hb|Hb]; apply str_eqb_eq in Hb; congruence.
  - intros Hs. apply special_float_word_b in Hs. congruence.
Qed.

Definition renderable_token_b (t : token) : bool :=
  match t with
  | TIdentifier w => letter_ident_b w
  | TInt n => (0 <=? n) && (n <=? i64_max)
  | TFloat _ => false
  | _ => true
  end.

Lemma renderable_token_b_sound t : renderable_token_b t = true -> renderable_token t.
Proof.
  destruct t; cbn [renderable_token_b renderable_token]; intros H; try exact I.
  - apply letter_ident_sound. exact H.
  - discriminate H.
  - apply andb_prop in H. destruct H as [H1 H2]. apply Z.leb_le in H1, H2. split; assumption.
Qed.

Theorem renderable_test (e : expr) : forallb renderable_token_b (flatten e) = true -> renderable e.
Proof.
  intros H. unfold renderable. apply Forall_forall. intros t Ht. apply renderable_token_b_sound.
  rewrite forallb_forall in H. apply H. exact Ht.
Qed.
