(* C01, tokenizer part: str_to_partial_tokens, partial_tokens_to_tokens and tokenize never panic.
   The two panic sites of the model (Panic 1: `simple` with cutoff 2 and no second partial token;
   Panic 2: &tokens[3..] with fewer than three partial tokens) are unreachable: cutoff 2 is chosen
   only when the second partial token is `Eq`, cutoff 3 in the Literal arm only when a sign and a
   literal follow (literal_cut), in the && / || arms only when two more partial tokens exist. *)
From Coq Require Import Strings.String Floats.SpecFloat.
Require Import Model.Base Model.Syntax Model.F64 Gen.Tables Model.Lexer.
Require Import Spec.LexSpec Proofs.Common Proofs.LexFacts.

Lemma lex_no_panic_gen (s : str) : forall st acc, is_panic (lex st acc s) = false.
Proof.
  induction s as [|c s IH]; intros st acc.
  - rewrite lex_nil. apply lex_end_no_panic.
  - rewrite lex_cons. apply bind_not_panic.
    + apply lex_step_no_panic.
    + intros [st' acc'] _. apply IH.
Qed.

Theorem lex_no_panic : forall s, is_panic (str_to_partial_tokens s) = false.
Proof. intros s. apply lex_no_panic_gen. Qed.

Theorem ptt_no_panic : forall ps, is_panic (partial_tokens_to_tokens ps) = false.
Proof.
  induction ps as [ps IH] using list_len_ind.
  destruct ps as [|first rest]; [reflexivity|].
  rewrite ptt_cons.
  destruct (pstep first (hd_error rest) (hd_error (tl rest))) as [ts k|e]; [|reflexivity].
  apply bind_not_panic; [|reflexivity].
  apply IH. cbn [length]. pose proof (skipn_length_le k rest). lia.
Qed.

Theorem tokenize_no_panic : forall s, is_panic (tokenize s) = false.
Proof.
  intros s. unfold tokenize. apply bind_not_panic.
  - apply lex_no_panic.
  - intros ps _. apply ptt_no_panic.
Qed.

(* the cutoff facts behind the two sites, stated on their own *)
Lemma cutoff_two_has_second plain assign second ts :
  pstep_simple plain assign second = PS_emit ts 1 -> second = Some PEq.
Proof.
  unfold pstep_simple. destruct second as [[]|]; cbn [is_PEq]; intros H; try discriminate H. reflexivity.
Qed.

Lemma cutoff_three_has_third lit second third t :
  literal_to_token lit second third = (t, 3%nat) ->
  exists sg x, second = Some sg /\ (sg = PPlus \/ sg = PMinus) /\ third = Some (PLiteral x).
Proof.
  intros H. destruct (literal_cut _ _ _ _ _ H) as [E|[_ E]]; [discriminate E|exact E].
Qed.
