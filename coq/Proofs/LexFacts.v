(* Shared facts about the lexer model (used by C06, C07 and the tokenizer part of C01):
   A. the generated character-class table against the sets of Spec/LexSpec.v
   B. the lexer as a run function: composition over  s1 ++ s2
   C. partial_tokens_to_tokens as one step function + recursion on a suffix
   D. lexing of words, white space, comments *)
From Coq Require Import Strings.String Floats.SpecFloat.
Require Import Model.Base Model.Syntax Model.F64 Gen.Tables Model.Lexer.
Require Import Spec.LexSpec Proofs.Common.

(* ========================================================================================== *)
(** * A. Character classes *)

Lemma class_spec (c : N) :
  match impl_char_class c with
  | CWhitespace => In c white_space
  | CExclamationMark => c = 33%N | CPercent => c = 37%N | CAmpersand => c = 38%N
  | CLBrace => c = 40%N | CRBrace => c = 41%N | CStar => c = 42%N | CPlus => c = 43%N
  | CComma => c = 44%N | CMinus => c = 45%N | CSlash => c = 47%N | CSemicolon => c = 59%N
  | CLt => c = 60%N | CEq => c = 61%N | CGt => c = 62%N | CHat => c = 94%N | CVerticalBar => c = 124%N
  | CLiteral => ~ In c white_space /\ ~ In c op_chars
  end.
Proof.
  unfold impl_char_class.
  repeat match goal with
    | |- match (if ?b then _ else _) with _ => _ end =>
        let E := fresh "E" in
        destruct b eqn:E;
        [ cbv iota beta;
          rewrite ?andb_true_iff, ?N.leb_le, ?N.eqb_eq in E;
          try (unfold white_space, In; lia)
        | cbv iota beta ]
    end.
  rewrite ?andb_false_iff, ?N.leb_gt, ?N.eqb_neq in *.
  unfold white_space, op_chars, In. split; lia.
Qed.

Lemma class_ws_iff (c : N) : impl_char_class c = CWhitespace <-> In c white_space.
Proof.
  split.
  - intros H. pose proof (class_spec c) as S. rewrite H in S. exact S.
  - unfold white_space. intros H.
    repeat (destruct H as [<-|H]; [reflexivity|]). destruct H.
Qed.

Lemma class_lit_iff (c : N) : impl_char_class c = CLiteral <-> ~ In c white_space /\ ~ In c op_chars.
Proof.
  split.
  - intros H. pose proof (class_spec c) as S. rewrite H in S. exact S.
  - intros [Hw Ho]. pose proof (class_spec c) as S.
    destruct (impl_char_class c); try reflexivity; try (exfalso; apply Hw; exact S);
      exfalso; apply Ho; subst c; unfold op_chars, In; lia.
Qed.

Lemma word_char_iff (c : N) : word_char c <-> impl_char_class c = CLiteral /\ c <> 34%N.
Proof. unfold word_char. rewrite class_lit_iff. tauto. Qed.

(* the 16 operator characters *)
Lemma class_ops :
  impl_char_class 33 = CExclamationMark /\ impl_char_class 37 = CPercent /\ impl_char_class 38 = CAmpersand /\
  impl_char_class 40 = CLBrace /\ impl_char_class 41 = CRBrace /\ impl_char_class 42 = CStar /\
  impl_char_class 43 = CPlus /\ impl_char_class 44 = CComma /\ impl_char_class 45 = CMinus /\
  impl_char_class 47 = CSlash /\ impl_char_class 59 = CSemicolon /\ impl_char_class 60 = CLt /\
  impl_char_class 61 = CEq /\ impl_char_class 62 = CGt /\ impl_char_class 94 = CHat /\
  impl_char_class 124 = CVerticalBar.
Proof. repeat split; reflexivity. Qed.

Lemma class_slash_iff c : impl_char_class c = CSlash <-> c = 47%N.
Proof.
  split; [|intros ->; reflexivity].
  intros H. pose proof (class_spec c) as S. rewrite H in S. exact S.
Qed.

(* ASCII letters, digits, dot, underscore, the double quote and the backslash are literal characters *)
Lemma class_alnum c :
  (48 <= c <= 57)%N \/ (65 <= c <= 90)%N \/ (97 <= c <= 122)%N \/ c = 46%N \/ c = 95%N \/ c = 34%N \/ c = 92%N ->
  impl_char_class c = CLiteral.
Proof. intros H. apply class_lit_iff. unfold white_space, op_chars, In. split; lia. Qed.

Lemma word_char_alnum c :
  (48 <= c <= 57)%N \/ (65 <= c <= 90)%N \/ (97 <= c <= 122)%N \/ c = 46%N \/ c = 95%N -> word_char c.
Proof. intros H. unfold word_char, white_space, op_chars, In. repeat split; lia. Qed.

Lemma dec_digit_word_char c : dec_digit c -> word_char c.
Proof. unfold dec_digit. intros H. apply word_char_alnum. lia. Qed.

Lemma hex_digit_word_char c : hex_digit c -> word_char c.
Proof. unfold hex_digit. intros H. apply word_char_alnum. lia. Qed.

Lemma is_digit_iff c : is_digit c = true <-> dec_digit c.
Proof. unfold is_digit, dec_digit. rewrite andb_true_iff, !N.leb_le. tauto. Qed.

Lemma is_digit_false_iff c : is_digit c = false <-> ~ dec_digit c.
Proof. rewrite <- is_digit_iff. destruct (is_digit c); split; congruence. Qed.

(* ========================================================================================== *)
(** * B. The lexer as a run function *)

Definition lex_step (st : lstate) (acc : list ptoken) (c : N) : outcome (lstate * list ptoken) :=
  match st with
  | LNormal => Ok (lex_normal acc c)
  | LSlash =>
      if (c =? SLASH)%N then Ok (LLine, PWhitespace :: acc)
      else if (c =? STAR)%N then Ok (LBlock false, acc)
      else Ok (lex_normal (push_partial acc PSlash) c)
  | LString text =>
      if (c =? QUOTE)%N then Ok (LNormal, PToken (TString (rev text)) :: acc)
      else if (c =? BACKSLASH)%N then Ok (LEscape text, acc)
      else Ok (LString (c :: text), acc)
  | LEscape text =>
      if (c =? QUOTE)%N then Ok (LString (QUOTE :: text), acc)
      else if (c =? BACKSLASH)%N then Ok (LString (BACKSLASH :: text), acc)
      else Err (EIllegalEscapeSequence [BACKSLASH; c])
  | LLine => if (c =? NEWLINE)%N then Ok (LNormal, acc) else Ok (LLine, acc)
  | LBlock star =>
      if star && (c =? SLASH)%N then Ok (LNormal, PWhitespace :: acc)
      else Ok (LBlock (c =? STAR)%N, acc)
  end.

(* what the lexer returns when the input ends in state st *)
Definition lex_end (st : lstate) (acc : list ptoken) : outcome (list ptoken) :=
  match st with
  | LNormal => Ok (rev acc)
  | LSlash => Ok (rev (push_partial acc PSlash))
  | LString _ => Err EUnmatchedDoubleQuote
  | LEscape _ => Err (EIllegalEscapeSequence [BACKSLASH])
  | LLine => Ok (rev acc)
  | LBlock _ => Err (ECustomMessage (s2l "unmatched inline comment"%string))
  end.

(* the state after consuming s *)
Fixpoint lex_run (st : lstate) (acc : list ptoken) (s : str) : outcome (lstate * list ptoken) :=
  match s with
  | [] => Ok (st, acc)
  | c :: s' => bind (lex_step st acc c) (fun p => lex_run (fst p) (snd p) s')
  end.

Lemma lex_nil st acc : lex st acc [] = lex_end st acc.
Proof. destruct st; reflexivity. Qed.

Lemma lex_cons st acc c s :
  lex st acc (c :: s) = bind (lex_step st acc c) (fun p => lex (fst p) (snd p) s).
Proof.
  destruct st; cbn [lex lex_step].
  - destruct (lex_normal acc c); reflexivity.
  - destruct (c =? SLASH)%N; [reflexivity|]. destruct (c =? STAR)%N; [reflexivity|].
    destruct (lex_normal (push_partial acc PSlash) c); reflexivity.
  - destruct (c =? QUOTE)%N; [reflexivity|]. destruct (c =? BACKSLASH)%N; reflexivity.
  - destruct (c =? QUOTE)%N; [reflexivity|]. destruct (c =? BACKSLASH)%N; reflexivity.
  - destruct (c =? NEWLINE)%N; reflexivity.
  - destruct (star && (c =? SLASH)%N); reflexivity.
Qed.

Lemma lex_via_run st acc s :
  lex st acc s = bind (lex_run st acc s) (fun p => lex_end (fst p) (snd p)).
Proof.
  revert st acc; induction s as [|c s IH]; intros st acc.
  - rewrite lex_nil. reflexivity.
  - rewrite lex_cons. cbn [lex_run]. destruct (lex_step st acc c) as [[st' acc']|e|n]; cbn [bind fst snd]; auto.
Qed.

Lemma lex_run_app st acc s1 s2 :
  lex_run st acc (s1 ++ s2) = bind (lex_run st acc s1) (fun p => lex_run (fst p) (snd p) s2).
Proof.
  revert st acc; induction s1 as [|c s1 IH]; intros st acc; [reflexivity|].
  cbn [app lex_run]. destruct (lex_step st acc c) as [[st' acc']|e|n]; cbn [bind fst snd]; auto.
Qed.

Lemma lex_app st acc s1 s2 :
  lex st acc (s1 ++ s2) = bind (lex_run st acc s1) (fun p => lex (fst p) (snd p) s2).
Proof.
  revert st acc; induction s1 as [|c s1 IH]; intros st acc; [reflexivity|].
  cbn [app lex_run]. rewrite lex_cons.
  destruct (lex_step st acc c) as [[st' acc']|e|n]; cbn [bind fst snd]; auto.
Qed.

Lemma lex_run_app_ok st acc s1 s2 st1 acc1 :
  lex_run st acc s1 = Ok (st1, acc1) -> lex_run st acc (s1 ++ s2) = lex_run st1 acc1 s2.
Proof. intros H. rewrite lex_run_app, H. reflexivity. Qed.

Lemma lex_app_ok st acc s1 s2 st1 acc1 :
  lex_run st acc s1 = Ok (st1, acc1) -> lex st acc (s1 ++ s2) = lex st1 acc1 s2.
Proof. intros H. rewrite lex_app, H. reflexivity. Qed.

Lemma lex_app_err st acc s1 s2 e :
  lex_run st acc s1 = Err e -> lex st acc (s1 ++ s2) = Err e.
Proof. intros H. rewrite lex_app, H. reflexivity. Qed.

Lemma lex_run_cons_ok st acc c s st1 acc1 :
  lex_step st acc c = Ok (st1, acc1) -> lex_run st acc (c :: s) = lex_run st1 acc1 s.
Proof. intros H. cbn [lex_run]. rewrite H. reflexivity. Qed.

Lemma lex_run_ok_end st acc s st1 acc1 :
  lex_run st acc s = Ok (st1, acc1) -> lex st acc s = lex_end st1 acc1.
Proof. intros H. rewrite lex_via_run, H. reflexivity. Qed.

(* neither the step nor the run nor the end can panic *)
Lemma lex_step_no_panic st acc c : is_panic (lex_step st acc c) = false.
Proof.
  destruct st; cbn [lex_step]; try reflexivity;
    repeat match goal with |- context [if ?b then _ else _] => destruct b end; reflexivity.
Qed.

Lemma lex_end_no_panic st acc : is_panic (lex_end st acc) = false.
Proof. destruct st; reflexivity. Qed.

(* ========================================================================================== *)
(** * C. partial_tokens_to_tokens, one step at a time *)

Inductive pstep_res :=
| PS_emit (ts : list token) (drop : nat)     (* emit ts, then continue after dropping `drop` more partial tokens *)
| PS_err (e : error).

Definition pstep_simple (plain assign : token) (second : option ptoken) : pstep_res :=
  if is_PEq second then PS_emit [assign] 1 else PS_emit [plain] 0.

Definition pstep_double (first same : ptoken) (plain assign : token) (second third : option ptoken) : pstep_res :=
  match second with
  | Some PAmpersand =>
      match same with
      | PAmpersand => if is_PEq third then PS_emit [assign] 2 else PS_emit [plain] 1
      | _ => PS_err (EUnmatchedPartialToken first second)
      end
  | Some PVerticalBar =>
      match same with
      | PVerticalBar => if is_PEq third then PS_emit [assign] 2 else PS_emit [plain] 1
      | _ => PS_err (EUnmatchedPartialToken first second)
      end
  | _ => PS_err (EUnmatchedPartialToken first second)
  end.

Definition pstep (first : ptoken) (second third : option ptoken) : pstep_res :=
  match first with
  | PToken t => PS_emit [t] 0
  | PPlus => pstep_simple TPlus TPlusAssign second
  | PMinus => pstep_simple TMinus TMinusAssign second
  | PStar => pstep_simple TStar TStarAssign second
  | PSlash => pstep_simple TSlash TSlashAssign second
  | PPercent => pstep_simple TPercent TPercentAssign second
  | PHat => pstep_simple THat THatAssign second
  | PLiteral lit =>
      let '(t, n) := literal_to_token lit second third in
      PS_emit [t] (if Nat.eqb n 3 then 2 else 0)
  | PWhitespace => PS_emit [] 0
  | PEq => pstep_simple TAssign TEq second
  | PExclamationMark => pstep_simple TNot TNeq second
  | PGt => pstep_simple TGt TGeq second
  | PLt => pstep_simple TLt TLeq second
  | PAmpersand => pstep_double PAmpersand PAmpersand TAnd TAndAssign second third
  | PVerticalBar => pstep_double PVerticalBar PVerticalBar TOr TOrAssign second third
  end.

Lemma bind_ret {A} (m : outcome A) : bind m (fun x => Ok x) = m.
Proof. destruct m; reflexivity. Qed.

(* the cutoff of the Literal arm is 1, or 3 with a sign and a literal following *)
Lemma literal_cut lit second third t n :
  literal_to_token lit second third = (t, n) ->
  n = 1%nat \/
  (n = 3%nat /\ exists sg x, second = Some sg /\ (sg = PPlus \/ sg = PMinus) /\ third = Some (PLiteral x)).
Proof.
  unfold literal_to_token.
  destruct (parse_dec_or_hex lit); [intros [= <- <-]; auto|].
  destruct (parse_float lit); [intros [= <- <-]; auto|].
  destruct (parse_bool lit); [intros [= <- <-]; auto|].
  destruct second as [[tk2|lit2| | | | | | | | | | | | | ]|]; try (intros [= <- <-]; auto; fail);
    destruct third as [[tk3|lit3| | | | | | | | | | | | | ]|]; try (intros [= <- <-]; auto; fail).
  - destruct (parse_float (lit ++ 43%N :: lit3)); intros [= <- <-]; [right|left]; eauto 8.
  - destruct (parse_float (lit ++ 45%N :: lit3)); intros [= <- <-]; [right|left]; eauto 8.
Qed.

Lemma ptt_cons (first : ptoken) (rest : list ptoken) :
  partial_tokens_to_tokens (first :: rest) =
  match pstep first (hd_error rest) (hd_error (tl rest)) with
  | PS_err e => Err e
  | PS_emit ts k => bind (partial_tokens_to_tokens (skipn k rest)) (fun r => Ok (ts ++ r))
  end.
Proof.
  assert (Hsimple : forall plain assign,
    (if is_PEq (hd_error rest)
     then match rest with
          | _ :: r => bind (partial_tokens_to_tokens r) (fun ts => Ok (assign :: ts))
          | [] => Panic 1
          end
     else bind (partial_tokens_to_tokens rest) (fun ts => Ok (plain :: ts))) =
    match pstep_simple plain assign (hd_error rest) with
    | PS_err e => Err e
    | PS_emit ts k => bind (partial_tokens_to_tokens (skipn k rest)) (fun r => Ok (ts ++ r))
    end).
  { intros plain assign. unfold pstep_simple.
    destruct rest as [|x r]; [reflexivity|]. destruct x; reflexivity. }
  destruct first as [tk|lit| | | | | | | | | | | | | ]; cbn [partial_tokens_to_tokens pstep]; try apply Hsimple.
  - reflexivity.
  - (* Literal *)
    change (match rest with x :: _ => Some x | [] => None end) with (hd_error rest).
    change (match (match rest with _ :: r => r | [] => [] end) with x :: _ => Some x | [] => None end)
      with (hd_error (tl rest)).
    destruct (literal_to_token lit (hd_error rest) (hd_error (tl rest))) as [t n] eqn:E.
    destruct (literal_cut _ _ _ _ _ E) as [->|[-> (sg & x & H2 & _ & H3)]]; [reflexivity|].
    destruct rest as [|a [|b r]]; try discriminate. reflexivity.
  - (* Whitespace *) cbn [skipn app]. symmetry. apply bind_ret.
  - (* Ampersand *)
    destruct rest as [|x r]; [reflexivity|]. destruct x; try reflexivity.
    cbn [hd_error tl pstep_double]. destruct r as [|y r']; [reflexivity|]. destruct y; reflexivity.
  - (* VerticalBar *)
    destruct rest as [|x r]; [reflexivity|]. destruct x; try reflexivity.
    cbn [hd_error tl pstep_double]. destruct r as [|y r']; [reflexivity|]. destruct y; reflexivity.
Qed.

(* how far a step looks and cuts *)
Lemma pstep_drop_le first second third ts k : pstep first second third = PS_emit ts k -> (k <= 2)%nat.
Proof.
  destruct first as [tk|lit| | | | | | | | | | | | | ]; cbn [pstep]; unfold pstep_simple, pstep_double;
    try (destruct (is_PEq second); intros [= <- <-]; lia);
    try (intros [= <- <-]; lia).
  - destruct (literal_to_token lit second third) as [t n]. intros [= <- <-]. destruct (Nat.eqb n 3); lia.
  - destruct second as [[]|]; try discriminate. destruct (is_PEq third); intros [= <- <-]; lia.
  - destruct second as [[]|]; try discriminate. destruct (is_PEq third); intros [= <- <-]; lia.
Qed.

(* a step never cuts more than there is *)
Lemma pstep_drop_ok first rest ts k :
  pstep first (hd_error rest) (hd_error (tl rest)) = PS_emit ts k -> (k <= length rest)%nat.
Proof.
  destruct first as [tk|lit| | | | | | | | | | | | | ]; cbn [pstep]; unfold pstep_simple, pstep_double.
  all: try (destruct rest as [|x r]; [|destruct x]; cbn [hd_error is_PEq]; intros [= <- <-]; cbn [length]; lia).
  - destruct (literal_to_token lit (hd_error rest) (hd_error (tl rest))) as [t n] eqn:E.
    intros [= <- <-].
    destruct (literal_cut _ _ _ _ _ E) as [->|[-> (sg & x & H2 & _ & H3)]]; cbn [Nat.eqb]; [lia|].
    destruct rest as [|a [|b r]]; try discriminate. cbn [length]. lia.
  - destruct rest as [|x r]; [discriminate|]. destruct x; try discriminate.
    cbn [hd_error tl]. destruct r as [|y r']; [|destruct y]; cbn [hd_error is_PEq]; intros [= <- <-]; cbn [length]; lia.
  - destruct rest as [|x r]; [discriminate|]. destruct x; try discriminate.
    cbn [hd_error tl]. destruct r as [|y r']; [|destruct y]; cbn [hd_error is_PEq]; intros [= <- <-]; cbn [length]; lia.
Qed.

(* a white-space second partial token: nothing is joined, whatever comes third *)
Lemma pstep_ws_second first third :
  pstep first (Some PWhitespace) third = pstep first (Some PWhitespace) None /\
  match pstep first (Some PWhitespace) None with PS_emit _ k => k = 0%nat | PS_err _ => True end.
Proof.
  destruct first as [tk|lit| | | | | | | | | | | | | ]; cbn [pstep pstep_simple pstep_double is_PEq]; auto.
  unfold literal_to_token.
  destruct (parse_dec_or_hex lit); [auto|]. destruct (parse_float lit); [auto|]. destruct (parse_bool lit); auto.
Qed.

(* strong induction on the length of a list *)
Lemma list_len_ind {A} (P : list A -> Prop) :
  (forall l, (forall l', (length l' < length l)%nat -> P l') -> P l) -> forall l, P l.
Proof.
  intros H l. remember (length l) as n eqn:E. revert l E.
  induction n as [n IH] using lt_wf_ind. intros l ->. apply H. intros l' Hl. eapply IH; [exact Hl|reflexivity].
Qed.

Lemma skipn_length_le {A} k (l : list A) : (length (skipn k l) <= length l)%nat.
Proof. rewrite skipn_length. lia. Qed.

(* ========================================================================================== *)
(** * D. Lexing words, white space and comments *)

Definition is_plit (p : ptoken) : bool := match p with PLiteral _ => true | _ => false end.
Definition top_lit (acc : list ptoken) : bool := match acc with PLiteral _ :: _ => true | _ => false end.

Lemma push_nonlit acc p : is_plit p = false -> push_partial acc p = p :: acc.
Proof. destruct acc as [|[] acc], p; cbn; intros; try reflexivity; discriminate. Qed.

Lemma push_lit_fresh acc l : top_lit acc = false -> push_partial acc (PLiteral l) = PLiteral l :: acc.
Proof. destruct acc as [|[] acc]; cbn; intros; try reflexivity; discriminate. Qed.

Lemma push_lit_lit acc a b :
  push_partial (push_partial acc (PLiteral a)) (PLiteral b) = push_partial acc (PLiteral (a ++ b)).
Proof. destruct acc as [|[] acc]; cbn; try reflexivity. rewrite app_assoc. reflexivity. Qed.

(* one character in state Normal *)
Lemma lex_normal_word_char acc c : word_char c -> lex_normal acc c = (LNormal, push_partial acc (PLiteral [c])).
Proof.
  intros H. apply word_char_iff in H. destruct H as [Hc Hq].
  unfold lex_normal, char_to_partial_token. rewrite Hc.
  apply N.eqb_neq in Hq. unfold QUOTE. rewrite Hq. reflexivity.
Qed.

Lemma lex_normal_ws acc c : In c white_space -> lex_normal acc c = (LNormal, PWhitespace :: acc).
Proof.
  intros H. assert (Hq : (c =? QUOTE)%N = false).
  { apply N.eqb_neq. intros ->. revert H. unfold white_space, QUOTE, In. lia. }
  apply class_ws_iff in H. unfold lex_normal, char_to_partial_token. rewrite Hq, H.
  destruct acc as [|[] acc]; reflexivity.
Qed.

Lemma lex_normal_slash acc : lex_normal acc 47 = (LSlash, acc).
Proof. reflexivity. Qed.

Lemma lex_normal_quote acc : lex_normal acc 34 = (LString [], acc).
Proof. reflexivity. Qed.

(* a pending '/' is flushed by any character that does not open a comment *)
Definition flush (st : lstate) (acc : list ptoken) : list ptoken :=
  match st with LSlash => push_partial acc PSlash | _ => acc end.

Lemma push_slash acc : push_partial acc PSlash = PSlash :: acc.
Proof. apply push_nonlit. reflexivity. Qed.

Lemma lex_step_slash_flush acc c :
  c <> 47%N -> c <> 42%N -> lex_step LSlash acc c = lex_step LNormal (PSlash :: acc) c.
Proof.
  intros H1 H2. cbn [lex_step]. unfold SLASH, STAR.
  apply N.eqb_neq in H1, H2. rewrite H1, H2, push_slash. reflexivity.
Qed.

Lemma lex_run_slash_flush acc c s :
  c <> 47%N -> c <> 42%N -> lex_run LSlash acc (c :: s) = lex_run LNormal (PSlash :: acc) (c :: s).
Proof. intros H1 H2. cbn [lex_run]. rewrite lex_step_slash_flush by assumption. reflexivity. Qed.

(* a word, in state Normal, is appended to the accumulator as ONE literal *)
Lemma lex_run_word w : w <> [] -> Forall word_char w ->
  forall acc, lex_run LNormal acc w = Ok (LNormal, push_partial acc (PLiteral w)).
Proof.
  induction w as [|c w IH]; [congruence|]. intros _ Hw acc.
  inversion Hw as [|c' w' Hc Hw']; subst.
  cbn [lex_run lex_step]. rewrite lex_normal_word_char by exact Hc. cbn [bind fst snd].
  destruct w as [|d w]; [reflexivity|].
  rewrite IH by (congruence || assumption). rewrite push_lit_lit. reflexivity.
Qed.

Lemma word_no_47_42 w c r : Forall word_char w -> w = c :: r -> c <> 47%N /\ c <> 42%N.
Proof.
  intros H ->. inversion H as [|c' w' Hc Hw']; subst.
  destruct Hc as (_ & Ho & _). unfold op_chars, In in Ho. split; intros ->; apply Ho; lia.
Qed.

(* ---- separators ---- *)

Lemma lex_run_ws_normal acc c : In c white_space -> lex_run LNormal acc [c] = Ok (LNormal, PWhitespace :: acc).
Proof. intros H. cbn [lex_run lex_step]. rewrite lex_normal_ws by exact H. reflexivity. Qed.

Lemma ws_not_47_42 c : In c white_space -> c <> 47%N /\ c <> 42%N.
Proof. unfold white_space, In. lia. Qed.

Lemma lex_run_ws_slash acc c :
  In c white_space -> lex_run LSlash acc [c] = Ok (LNormal, PWhitespace :: PSlash :: acc).
Proof.
  intros H. destruct (ws_not_47_42 c H) as [H1 H2].
  rewrite lex_run_slash_flush by assumption. apply lex_run_ws_normal. exact H.
Qed.

(* inside a line comment *)
Lemma lex_run_line_body acc body : ~ In 10%N body -> lex_run LLine acc body = Ok (LLine, acc).
Proof.
  induction body as [|c body IH]; intros H; [reflexivity|].
  cbn [lex_run lex_step]. unfold NEWLINE.
  destruct (c =? 10)%N eqn:E.
  - apply N.eqb_eq in E. subst. exfalso. apply H. left. reflexivity.
  - cbn [bind fst snd]. apply IH. intros Hin. apply H. right. exact Hin.
Qed.

(* inside an inline comment: a body without "*/" never closes it; the flag records a trailing '*' *)
Fixpoint ends_star (star : bool) (body : str) : bool :=
  match body with [] => star | c :: b => ends_star (c =? 42)%N b end.

Lemma contains_cons_not pat c s : ~ contains pat (c :: s) -> ~ contains pat s.
Proof. intros H (a & b & ->). apply H. exists (c :: a), b. reflexivity. Qed.

Lemma lex_run_block_body body : ~ contains [42; 47]%N body ->
  forall acc star, (star = true -> hd_error body <> Some 47%N) ->
  lex_run (LBlock star) acc body = Ok (LBlock (ends_star star body), acc).
Proof.
  induction body as [|c body IH]; intros H acc star Hs; [reflexivity|].
  cbn [lex_run lex_step]. unfold SLASH, STAR.
  destruct (star && (c =? 47)%N) eqn:E.
  - apply andb_prop in E. destruct E as [-> E]. apply N.eqb_eq in E. subst c.
    exfalso. apply Hs; reflexivity.
  - cbn [bind fst snd]. rewrite IH.
    + reflexivity.
    + eapply contains_cons_not. exact H.
    + intros Hc. apply N.eqb_eq in Hc. subst c. destruct body as [|d body]; [discriminate|].
      cbn [hd_error]. intros [= ->]. apply H. exists [], body. reflexivity.
Qed.

(* closing an inline comment: body ++ "*/" from LBlock false *)
Lemma lex_run_block_close body acc : ~ contains [42; 47]%N body ->
  lex_run (LBlock false) acc (body ++ [42; 47]%N) = Ok (LNormal, PWhitespace :: acc).
Proof.
  intros H. rewrite lex_run_app, lex_run_block_body by (auto; discriminate).
  cbn [bind fst snd lex_run lex_step]. unfold SLASH, STAR.
  rewrite andb_false_r. cbn [bind fst snd]. reflexivity.
Qed.
