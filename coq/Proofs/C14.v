(* C14: the explicit-stack iterators against the structural pre-order; identifier classes; the
   mutable iterators; NotFound errors name listed identifiers; renaming commutes with evaluation. *)
From Coq Require Import Floats.SpecFloat.
Require Import Model.Base Model.Syntax Model.F64 Model.Lexer Model.Value Model.Context Model.Builtins Model.Eval Model.Iter.
Require Import Spec.Preorder Proofs.Common.

(* ------------------------------------------------------------------------------------------ *)
(* node induction with the nested list                                                         *)
(* ------------------------------------------------------------------------------------------ *)

Lemma node_ind' (P : node -> Prop) :
  (forall o ch, Forall P ch -> P (Node o ch)) -> forall n, P n.
Proof.
  intros H. fix IH 1. intros [o ch]. apply H.
  induction ch as [|x ch IHch]; constructor; [apply IH|exact IHch].
Qed.

(* ------------------------------------------------------------------------------------------ *)
(* C14_preorder                                                                                *)
(* ------------------------------------------------------------------------------------------ *)

Definition forest_pre (l : list node) : list node := flat_map (fun c => c :: preorder_descendants c) l.
Definition stack_pre (st : list (list node)) : list node := flat_map forest_pre st.
Definition forest_size (l : list node) : nat := fold_right (fun c acc => node_size c + acc)%nat O l.
Definition stack_size (st : list (list node)) : nat := fold_right (fun l acc => forest_size l + acc)%nat O st.

Lemma preorder_descendants_eq n : preorder_descendants n = forest_pre (nch n).
Proof. destruct n as [o ch]. reflexivity. Qed.

Lemma node_size_eq n : node_size n = S (forest_size (nch n)).
Proof. destruct n as [o ch]. reflexivity. Qed.

Lemma forest_pre_cons x l : forest_pre (x :: l) = x :: forest_pre (nch x) ++ forest_pre l.
Proof. unfold forest_pre at 1. cbn [flat_map]. rewrite preorder_descendants_eq. reflexivity. Qed.

Lemma iter_next_none st : iter_next st = None -> stack_pre st = [] /\ stack_size st = O.
Proof.
  induction st as [|l st IH]; cbn [iter_next]; [intros _; split; reflexivity|].
  destruct l as [|x rest]; [|discriminate].
  intros H. apply IH in H. destruct H as [H1 H2]. cbn. split; assumption.
Qed.

Lemma iter_next_some st x st' : iter_next st = Some (x, st') ->
  stack_pre st = x :: stack_pre st' /\ stack_size st = S (stack_size st').
Proof.
  induction st as [|l st IH]; cbn [iter_next]; [discriminate|].
  destruct l as [|y rest].
  - intros H. apply IH in H. destruct H as [H1 H2]. cbn. split; assumption.
  - intros H. injection H as <- <-.
    unfold stack_pre, stack_size. cbn [flat_map fold_right forest_size].
    fold (forest_size rest). fold (forest_size (nch y)).
    rewrite forest_pre_cons, node_size_eq.
    split; [|lia].
    cbn [app]. rewrite <- !app_assoc. reflexivity.
Qed.

(* the generalisation over the stack: enough fuel = at least the number of nodes still pending *)
Lemma iter_collect_spec fuel : forall st, (stack_size st <= fuel)%nat ->
  iter_collect fuel st = Ok (stack_pre st).
Proof.
  induction fuel as [|f IH]; intros st Hsz.
  - cbn [iter_collect]. destruct (iter_next st) as [[x st']|] eqn:E.
    + apply iter_next_some in E. lia.
    + apply iter_next_none in E. destruct E as [-> _]. reflexivity.
  - cbn [iter_collect]. destruct (iter_next st) as [[x st']|] eqn:E.
    + apply iter_next_some in E. destruct E as [E1 E2].
      rewrite IH by lia. cbn [bind]. rewrite E1. reflexivity.
    + apply iter_next_none in E. destruct E as [-> _]. reflexivity.
Qed.

Lemma iter_all_preorder n : iter_all n = Ok (preorder_descendants n).
Proof.
  unfold iter_all. rewrite iter_collect_spec.
  - unfold stack_pre. cbn [flat_map]. rewrite app_nil_r, preorder_descendants_eq. reflexivity.
  - rewrite node_size_eq. cbn [stack_size fold_right]. lia.
Qed.

(* the statement over an arbitrary stack, in Spec vocabulary only *)
Lemma iter_collect_stack fuel st :
  (fold_right (fun l acc => fold_right (fun c acc' => node_size c + acc') O l + acc) O st <= fuel)%nat ->
  iter_collect fuel st = Ok (flat_map (flat_map preorder) st).
Proof. exact (iter_collect_spec fuel st). Qed.

Lemma iter_all_no_panic n : is_panic (iter_all n) = false.
Proof. rewrite iter_all_preorder. reflexivity. Qed.

Lemma preorder_length n : length (preorder n) = node_size n.
Proof.
  induction n as [o ch IH] using node_ind'. unfold preorder.
  rewrite node_size_eq, preorder_descendants_eq. cbn [length nch]. f_equal.
  induction IH as [|x l Hx Hl IHl]; [reflexivity|].
  rewrite forest_pre_cons. cbn [length forest_size fold_right]. fold (forest_size l).
  rewrite app_length, IHl, <- preorder_descendants_eq. unfold preorder in Hx. cbn [length] in Hx. lia.
Qed.

(* ------------------------------------------------------------------------------------------ *)
(* C14_classes                                                                                 *)
(* ------------------------------------------------------------------------------------------ *)

Lemma iter_with_spec sel n :
  iter_with sel n = Ok (filter_map (fun x => sel (nop x)) (preorder_descendants n)).
Proof. unfold iter_with. rewrite iter_all_preorder. reflexivity. Qed.

Lemma names_app p l1 l2 : names p (l1 ++ l2) = names p l1 ++ names p l2.
Proof. unfold names. rewrite filter_app, map_app. reflexivity. Qed.

(* a selector of the code against a class predicate of the spec *)
Definition sel_matches (sel : operator -> option str) (p : ident_class -> bool) : Prop :=
  forall o, match sel o with Some s => [s] | None => [] end = names p (occurrence_of o).

Lemma filter_map_names sel p l : sel_matches sel p ->
  filter_map (fun x => sel (nop x)) l = names p (flat_map (fun d => occurrence_of (nop d)) l).
Proof.
  intros Hm. induction l as [|x l IH]; [reflexivity|].
  cbn [filter_map flat_map]. rewrite names_app, <- IH, <- (Hm (nop x)).
  destruct (sel (nop x)); reflexivity.
Qed.

Lemma sel_any : sel_matches ident_any (fun _ => true).
Proof. intros o; destruct o; reflexivity. Qed.
Lemma sel_var : sel_matches ident_var is_variable.
Proof. intros o; destruct o; reflexivity. Qed.
Lemma sel_read : sel_matches ident_read is_read.
Proof. intros o; destruct o; reflexivity. Qed.
Lemma sel_write : sel_matches ident_write is_write.
Proof. intros o; destruct o; reflexivity. Qed.
Lemma sel_fn : sel_matches ident_fn is_function.
Proof. intros o; destruct o; reflexivity. Qed.

Lemma iter_with_names sel p n : sel_matches sel p -> iter_with sel n = Ok (names p (occurrences n)).
Proof. intros Hm. rewrite iter_with_spec. unfold occurrences. rewrite (filter_map_names sel p _ Hm). reflexivity. Qed.

Lemma names_all l : names (fun _ => true) l = map snd l.
Proof. unfold names. induction l as [|x l IH]; [reflexivity|]. cbn [filter map]. rewrite IH. reflexivity. Qed.

Lemma classes_filter_map n :
  iter_identifiers n = Ok (filter_map (fun d => ident_any (nop d)) (preorder_descendants n)) /\
  iter_variable_identifiers n = Ok (filter_map (fun d => ident_var (nop d)) (preorder_descendants n)) /\
  iter_read_variable_identifiers n = Ok (filter_map (fun d => ident_read (nop d)) (preorder_descendants n)) /\
  iter_write_variable_identifiers n = Ok (filter_map (fun d => ident_write (nop d)) (preorder_descendants n)) /\
  iter_function_identifiers n = Ok (filter_map (fun d => ident_fn (nop d)) (preorder_descendants n)).
Proof. repeat split; apply iter_with_spec. Qed.

Lemma classes_occurrences n :
  iter_identifiers n = Ok (map snd (occurrences n)) /\
  iter_variable_identifiers n = Ok (names is_variable (occurrences n)) /\
  iter_read_variable_identifiers n = Ok (names is_read (occurrences n)) /\
  iter_write_variable_identifiers n = Ok (names is_write (occurrences n)) /\
  iter_function_identifiers n = Ok (names is_function (occurrences n)).
Proof.
  repeat split.
  - rewrite <- names_all. apply iter_with_names, sel_any.
  - apply iter_with_names, sel_var.
  - apply iter_with_names, sel_read.
  - apply iter_with_names, sel_write.
  - apply iter_with_names, sel_fn.
Qed.

Lemma names_subseq (p q : ident_class -> bool) l : (forall k, p k = true -> q k = true) ->
  subseq (names p l) (names q l).
Proof.
  intros Hpq. unfold names. induction l as [|[k s] l IH]; [constructor|].
  cbn [filter fst]. destruct (p k) eqn:Ep.
  - rewrite (Hpq k Ep). cbn [map snd]. constructor. exact IH.
  - destruct (q k); cbn [map snd]; [constructor|]; exact IH.
Qed.

Lemma names_interleave (p q pq : ident_class -> bool) l :
  (forall k, pq k = p k || q k) -> (forall k, p k && q k = false) ->
  interleave (names p l) (names q l) (names pq l).
Proof.
  intros Hor Hdis. unfold names. induction l as [|[k s] l IH]; [constructor|].
  cbn [filter fst]. rewrite Hor. specialize (Hdis k).
  destruct (p k), (q k); cbn [orb map snd]; try discriminate; try constructor; exact IH.
Qed.

(* the class-specific lists as sub-sequences / interleavings of one another *)
Lemma classes_subseq n : forall ids vars reads writes funs,
  iter_identifiers n = Ok ids -> iter_variable_identifiers n = Ok vars ->
  iter_read_variable_identifiers n = Ok reads -> iter_write_variable_identifiers n = Ok writes ->
  iter_function_identifiers n = Ok funs ->
  subseq vars ids /\ subseq funs ids /\ subseq reads vars /\ subseq writes vars /\
  interleave reads writes vars /\ interleave vars funs ids.
Proof.
  intros ids vars reads writes funs H1 H2 H3 H4 H5.
  destruct (classes_occurrences n) as (E1 & E2 & E3 & E4 & E5).
  rewrite E1 in H1. rewrite E2 in H2. rewrite E3 in H3. rewrite E4 in H4. rewrite E5 in H5.
  injection H1 as <-. injection H2 as <-. injection H3 as <-. injection H4 as <-. injection H5 as <-.
  rewrite <- names_all.
  repeat split.
  - apply names_subseq. reflexivity.
  - apply names_subseq. reflexivity.
  - apply names_subseq. intros [| |]; auto.
  - apply names_subseq. intros [| |]; auto.
  - apply names_interleave; intros [| |]; reflexivity.
  - apply names_interleave; intros [| |]; reflexivity.
Qed.

Lemma iter_with_total sel n : exists l, iter_with sel n = Ok l.
Proof. eexists. apply iter_with_spec. Qed.

(* ------------------------------------------------------------------------------------------ *)
(* C14_mut_same                                                                                *)
(* ------------------------------------------------------------------------------------------ *)

Lemma nop_map_all_ops f n : nop (map_all_ops f n) = f (nop n).
Proof. destruct n; reflexivity. Qed.

Lemma nch_map_all_ops f n : nch (map_all_ops f n) = map (map_all_ops f) (nch n).
Proof. destruct n; reflexivity. Qed.

Lemma forest_pre_app l1 l2 : forest_pre (l1 ++ l2) = forest_pre l1 ++ forest_pre l2.
Proof. unfold forest_pre. apply flat_map_app. Qed.

Lemma preorder_map_all_ops f n :
  preorder_descendants (map_all_ops f n) = map (map_all_ops f) (preorder_descendants n).
Proof.
  induction n as [o ch IH] using node_ind'.
  rewrite !preorder_descendants_eq, nch_map_all_ops. cbn [nch].
  induction IH as [|x l Hx Hl IHl]; [reflexivity|].
  cbn [map]. rewrite !forest_pre_cons, IHl. cbn [map]. rewrite map_app. f_equal. f_equal.
  rewrite <- !preorder_descendants_eq. exact Hx.
Qed.

Lemma preorder_map_desc_ops f n :
  preorder_descendants (map_desc_ops f n) = map (map_all_ops f) (preorder_descendants n).
Proof.
  destruct n as [o ch]. change (map_desc_ops f (Node o ch)) with (Node o (map (map_all_ops f) ch)).
  rewrite <- (preorder_map_all_ops f (Node o ch)). reflexivity.
Qed.

Lemma same_shape_map_all_ops f n : same_shape n (map_all_ops f n).
Proof.
  induction n as [o ch IH] using node_ind'. cbn [map_all_ops]. constructor.
  induction IH as [|x l Hx Hl IHl]; cbn [map]; constructor; assumption.
Qed.

Lemma same_shape_map_desc_ops f n : same_shape n (map_desc_ops f n).
Proof.
  destruct n as [o ch]. cbn [map_desc_ops]. constructor.
  induction ch as [|x l IHl]; cbn [map]; constructor; [apply same_shape_map_all_ops|exact IHl].
Qed.

Lemma map_all_ops_id f n : (forall o, f o = o) -> map_all_ops f n = n.
Proof.
  intros Hf. induction n as [o ch IH] using node_ind'. cbn [map_all_ops]. rewrite Hf. f_equal.
  induction IH as [|x l Hx Hl IHl]; [reflexivity|]. cbn [map]. rewrite Hx, IHl. reflexivity.
Qed.

(* what rewrite_ident does to one operator, in Spec vocabulary *)
Lemma rewrite_ident_spec sel g o :
  rewrite_ident sel g o =
  match sel o, occurrence_of o with
  | Some _, (_, s) :: _ => set_name o (g s)
  | _, _ => o
  end.
Proof. unfold rewrite_ident. destruct (sel o); destruct o; reflexivity. Qed.

Lemma rewrite_ident_id sel g o : (forall s, g s = s) -> rewrite_ident sel g o = o.
Proof. intros Hg. unfold rewrite_ident. destruct (sel o); destruct o; rewrite ?Hg; reflexivity. Qed.

Lemma rename_with_preorder sel g n :
  preorder_descendants (rename_with sel g n) =
  map (map_all_ops (rewrite_ident sel g)) (preorder_descendants n).
Proof. apply preorder_map_desc_ops. Qed.

Lemma rename_with_ops sel g n :
  map nop (preorder_descendants (rename_with sel g n)) =
  map (fun d => rewrite_ident sel g (nop d)) (preorder_descendants n).
Proof.
  rewrite rename_with_preorder, map_map. apply map_ext. intros d. apply nop_map_all_ops.
Qed.

Lemma rename_with_root sel g n : nop (rename_with sel g n) = nop n.
Proof. destruct n; reflexivity. Qed.

Lemma rename_with_shape sel g n : same_shape n (rename_with sel g n).
Proof. apply same_shape_map_desc_ops. Qed.

Lemma rename_with_id sel g n : (forall s, g s = s) -> rename_with sel g n = n.
Proof.
  intros Hg. destruct n as [o ch]. unfold rename_with. cbn [map_desc_ops]. f_equal.
  induction ch as [|x l IHl]; [reflexivity|]. cbn [map].
  rewrite IHl, map_all_ops_id; [reflexivity|]. intros o'. apply rewrite_ident_id, Hg.
Qed.

(* the immutable iterator after a loop over the mutable one *)
Lemma filter_map_map {A B C} (h : A -> A) (f : A -> option B) (k : B -> C) (f' : A -> option C) l :
  (forall a, f' (h a) = option_map k (f a)) ->
  filter_map f' (map h l) = map k (filter_map f l).
Proof.
  intros H. induction l as [|a l IH]; [reflexivity|].
  cbn [map filter_map]. rewrite H. destruct (f a); cbn [option_map map]; rewrite IH; reflexivity.
Qed.

Lemma iter_with_rename_with sel' sel g k n :
  (forall o, sel' (rewrite_ident sel g o) = option_map k (sel' o)) ->
  forall l, iter_with sel' n = Ok l -> iter_with sel' (rename_with sel g n) = Ok (map k l).
Proof.
  intros H l. rewrite !iter_with_spec, rename_with_preorder. intros E. injection E as <-. f_equal.
  apply (filter_map_map (map_all_ops (rewrite_ident sel g)) (fun x => sel' (nop x)) k).
  intros a. rewrite nop_map_all_ops. apply H.
Qed.

Definition selectors : list (operator -> option str) := [ident_any; ident_var; ident_read; ident_write; ident_fn].

(* each mutable iterator visits exactly the occurrences its immutable twin lists *)
Lemma rename_with_same sel g n l : In sel selectors ->
  iter_with sel n = Ok l -> iter_with sel (rename_with sel g n) = Ok (map g l).
Proof.
  intros Hin. apply iter_with_rename_with.
  cbn in Hin. destruct Hin as [<-|[<-|[<-|[<-|[<-|[]]]]]]; intros o; destruct o; reflexivity.
Qed.

(* ... and leaves the identifiers of the other classes alone *)
Lemma rename_with_var_keeps_fn g n l :
  iter_function_identifiers n = Ok l -> iter_function_identifiers (rename_with ident_var g n) = Ok l.
Proof.
  intros H. unfold iter_function_identifiers. rewrite <- (map_id l).
  apply iter_with_rename_with; [|exact H]. intros o; destruct o; reflexivity.
Qed.

Lemma rename_with_fn_keeps_var g n l :
  iter_variable_identifiers n = Ok l -> iter_variable_identifiers (rename_with ident_fn g n) = Ok l.
Proof.
  intros H. unfold iter_variable_identifiers. rewrite <- (map_id l).
  apply iter_with_rename_with; [|exact H]. intros o; destruct o; reflexivity.
Qed.

Lemma rename_with_read_keeps_write g n l :
  iter_write_variable_identifiers n = Ok l -> iter_write_variable_identifiers (rename_with ident_read g n) = Ok l.
Proof.
  intros H. unfold iter_write_variable_identifiers. rewrite <- (map_id l).
  apply iter_with_rename_with; [|exact H]. intros o; destruct o; reflexivity.
Qed.

Lemma rename_with_write_keeps_read g n l :
  iter_read_variable_identifiers n = Ok l -> iter_read_variable_identifiers (rename_with ident_write g n) = Ok l.
Proof.
  intros H. unfold iter_read_variable_identifiers. rewrite <- (map_id l).
  apply iter_with_rename_with; [|exact H]. intros o; destruct o; reflexivity.
Qed.

(* the variable renaming of the Spec is the loop over iter_variable_identifiers_mut *)
Lemma rename_tree_map_all_ops r n : rename_tree r n = map_all_ops (rewrite_ident ident_var r) n.
Proof.
  induction n as [o ch IH] using node_ind'. cbn [rename_tree map_all_ops]. f_equal.
  - destruct o; reflexivity.
  - induction IH as [|x l Hx Hl IHl]; [reflexivity|]. cbn [map]. rewrite Hx, IHl. reflexivity.
Qed.

Lemma rename_with_var_children r o ch :
  rename_with ident_var r (Node o ch) = Node o (map (rename_tree r) ch).
Proof.
  unfold rename_with. cbn [map_desc_ops]. f_equal. apply map_ext. intros a. symmetry. apply rename_tree_map_all_ops.
Qed.

Lemma rename_with_var_tree r n : ident_var (nop n) = None -> rename_with ident_var r n = rename_tree r n.
Proof.
  destruct n as [o ch]. cbn [nop]. intros H. rewrite rename_with_var_children. cbn [rename_tree]. f_equal.
  destruct o; try reflexivity; discriminate.
Qed.

(* ------------------------------------------------------------------------------------------ *)
(* the evaluators with the nested `fix args` as a standalone function                          *)
(* ------------------------------------------------------------------------------------------ *)

Section WithOracle.
Variable O : std_oracle.

Fixpoint eval_ro_args (l : list node) (c : ctx) (lg : log) : outcome (list value) * log :=
  match l with
  | [] => (Ok [], lg)
  | x :: l' =>
      match eval_ro O x c lg with
      | (Ok v, lg1) =>
          match eval_ro_args l' c lg1 with
          | (Ok vs, lg2) => (Ok (v :: vs), lg2)
          | r => r
          end
      | (Err e, lg1) => (Err e, lg1)
      | (Panic s, lg1) => (Panic s, lg1)
      end
  end.

Fixpoint eval_mut_args (l : list node) (c : ctx) (lg : log) : outcome (list value) * ctx * log :=
  match l with
  | [] => (Ok [], c, lg)
  | x :: l' =>
      match eval_mut O x c lg with
      | (Ok v, c1, lg1) =>
          match eval_mut_args l' c1 lg1 with
          | (Ok vs, c2, lg2) => (Ok (v :: vs), c2, lg2)
          | r => r
          end
      | (Err e, c1, lg1) => (Err e, c1, lg1)
      | (Panic s, c1, lg1) => (Panic s, c1, lg1)
      end
  end.

Lemma eval_ro_unfold o ch c lg :
  eval_ro O (Node o ch) c lg =
  match eval_ro_args ch c lg with
  | (Ok vs, lg1) => op_eval O o vs c lg1
  | (Err e, lg1) => (Err e, lg1)
  | (Panic s, lg1) => (Panic s, lg1)
  end.
Proof.
  cbn [eval_ro].
  match goal with |- match ?F ch lg with _ => _ end = _ =>
    assert (HF : forall l lg0, F l lg0 = eval_ro_args l c lg0) end.
  { induction l as [|x l IH]; intros lg0; [reflexivity|].
    simpl. destruct (eval_ro O x c lg0) as [[v|e|s] lg1]; try reflexivity.
    rewrite IH. reflexivity. }
  rewrite HF. reflexivity.
Qed.

Lemma eval_mut_unfold o ch c lg :
  eval_mut O (Node o ch) c lg =
  match eval_mut_args ch c lg with
  | (Ok vs, c1, lg1) => op_eval_mut O o vs c1 lg1
  | (Err e, c1, lg1) => (Err e, c1, lg1)
  | (Panic s, c1, lg1) => (Panic s, c1, lg1)
  end.
Proof.
  cbn [eval_mut].
  match goal with |- match ?F ch c lg with _ => _ end = _ =>
    assert (HF : forall l c0 lg0, F l c0 lg0 = eval_mut_args l c0 lg0) end.
  { induction l as [|x l IH]; intros c0 lg0; [reflexivity|].
    reflexivity. }
  rewrite HF. reflexivity.
Qed.

End WithOracle.

(* ------------------------------------------------------------------------------------------ *)
(* "clean" outcomes: not one of the two NotFound errors                                        *)
(* ------------------------------------------------------------------------------------------ *)

Definition nf_err (e : error) : bool :=
  match e with EVariableIdentifierNotFound _ | EFunctionIdentifierNotFound _ => true | _ => false end.

Definition clean {A} (r : outcome A) : Prop := forall e, r = Err e -> nf_err e = false.

Lemma clean_ok {A} (a : A) : clean (Ok a).
Proof. intros e H; discriminate. Qed.
Lemma clean_panic {A} s : clean (@Panic A s).
Proof. intros e H; discriminate. Qed.
Lemma clean_err {A} e : nf_err e = false -> clean (@Err A e).
Proof. intros He e' H. injection H as <-. exact He. Qed.
Lemma clean_bind {A B} (r : outcome A) (f : A -> outcome B) :
  clean r -> (forall a, clean (f a)) -> clean (bind r f).
Proof. intros Hr Hf. destruct r as [a|e|s]; cbn [bind]; [apply Hf| |apply clean_panic]. intros e' H. injection H as <-. apply Hr. reflexivity. Qed.

Lemma clean_is_not_found (r : outcome value) : clean r <-> is_not_found r = false.
Proof.
  split.
  - intros H. destruct r as [v|e|s]; try reflexivity. specialize (H e eq_refl). destruct e; try reflexivity; discriminate.
  - intros H e ->. destruct e; try reflexivity; discriminate.
Qed.

Lemma clean_not_vnf {A} (r : outcome A) x : clean r -> r <> Err (EVariableIdentifierNotFound x).
Proof. intros H E. specialize (H _ E). discriminate. Qed.
Lemma clean_not_fnf {A} (r : outcome A) x : clean r -> r <> Err (EFunctionIdentifierNotFound x).
Proof. intros H E. specialize (H _ E). discriminate. Qed.

Ltac clean_step :=
  first
    [ apply clean_ok
    | apply clean_panic
    | apply clean_err; reflexivity
    | assumption
    | apply clean_bind; [|intros ?]
    | match goal with
      | |- clean (match ?x with _ => _ end) => destruct x
      | |- clean (if ?b then _ else _) => destruct b
      end ].
Ltac clean_tac := repeat clean_step.

Lemma clean_expect_amount a b : clean (expect_operator_argument_amount a b).
Proof. unfold expect_operator_argument_amount. clean_tac. Qed.
Lemma clean_arg l i s : clean (arg l i s).
Proof. unfold arg. clean_tac. Qed.
Lemma clean_idx l i s : clean (idx l i s).
Proof. unfold idx. clean_tac. Qed.
Lemma clean_as_number v : clean (as_number v).
Proof. unfold as_number. clean_tac. Qed.
Lemma clean_as_boolean v : clean (as_boolean v).
Proof. unfold as_boolean. clean_tac. Qed.
Lemma clean_as_string v : clean (as_string v).
Proof. unfold as_string. clean_tac. Qed.
Lemma clean_as_int v : clean (as_int v).
Proof. unfold as_int. clean_tac. Qed.
Lemma clean_as_fixed v n : clean (as_fixed_len_tuple v n).
Proof. unfold as_fixed_len_tuple. clean_tac. Qed.
Lemma clean_as_ranged v a b : clean (as_ranged_len_tuple v a b).
Proof. unfold as_ranged_len_tuple. clean_tac. Qed.
Lemma clean_expect_nos v : clean (expect_number_or_string v).
Proof. unfold expect_number_or_string. clean_tac. Qed.
Lemma clean_checked z e : nf_err e = false -> clean (checked z e).
Proof. intros H. unfold checked. clean_tac. apply clean_err, H. Qed.
Lemma clean_checked_div a b : clean (checked_div a b).
Proof. unfold checked_div. clean_tac. Qed.
Lemma clean_checked_rem a b : clean (checked_rem a b).
Proof. unfold checked_rem. clean_tac. Qed.

Ltac clean_base :=
  first
    [ apply clean_expect_amount | apply clean_arg | apply clean_idx | apply clean_as_number
    | apply clean_as_boolean | apply clean_as_string | apply clean_as_int | apply clean_as_fixed
    | apply clean_as_ranged | apply clean_expect_nos | apply clean_checked_div | apply clean_checked_rem
    | apply clean_checked; reflexivity ].
Ltac clean_all := repeat first [clean_base | clean_step].

Section WithOracle.
Variable O : std_oracle.

(* ---- builtins ---- *)

Lemma clean_extremum_loop sm : forall l best, clean (extremum_loop sm best l).
Proof.
  induction l as [|a l IH]; intros best; cbn [extremum_loop]; [apply clean_ok|].
  apply clean_bind; [|intros b; apply IH].
  unfold beats. clean_all.
Qed.

Lemma clean_contains_any_loop a : forall b found, clean (contains_any_loop a found b).
Proof.
  induction b as [|v b IH]; intros found; cbn [contains_any_loop]; [apply clean_ok|].
  destruct (is_primitive v); [apply IH|apply clean_err; reflexivity].
Qed.

Lemma clean_builtin_table : Forall (fun p => forall a, clean (snd p a)) (builtin_table O).
Proof.
  unfold builtin_table.
  repeat (apply Forall_cons; [intros a; cbn [snd]|]); try apply Forall_nil.
  all: try (unfold simple_math1, simple_math2, float_is, int_function1, int_function2, b_typeof, b_if, b_contains,
                   b_to_lowercase, b_to_uppercase, b_trim, b_str_from, b_substring; clean_all; fail).
  - unfold b_abs, checked_abs. clean_all.
  - unfold extremum. apply clean_bind; [clean_all|intros l]. apply clean_bind; [apply clean_extremum_loop|intros b]. clean_all.
  - unfold extremum. apply clean_bind; [clean_all|intros l]. apply clean_bind; [apply clean_extremum_loop|intros b]. clean_all.
  - unfold b_contains_any.
    apply clean_bind; [clean_all|intros t]. apply clean_bind; [clean_all|intros x0]. apply clean_bind; [clean_all|intros y0].
    destruct x0; try (apply clean_err; reflexivity). destruct y0; try (apply clean_err; reflexivity).
    apply clean_bind; [apply clean_contains_any_loop|intros found; apply clean_ok].
  - unfold b_len. clean_all.
Qed.

Lemma lookup_builtin_in name t b : lookup_builtin name t = Some b -> exists n, In (n, b) t.
Proof.
  induction t as [|[n f] t IH]; cbn [lookup_builtin]; [discriminate|].
  destruct (str_eqb name (s2l n)).
  - intros H. injection H as <-. exists n. left. reflexivity.
  - intros H. destruct (IH H) as [n' Hn']. exists n'. right. exact Hn'.
Qed.

Lemma clean_builtin f b a : builtin_function O f = Some b -> clean (b a).
Proof.
  unfold builtin_function. intros H. apply lookup_builtin_in in H. destruct H as [n Hn].
  pose proof clean_builtin_table as HT. rewrite Forall_forall in HT. apply (HT _ Hn a).
Qed.

End WithOracle.

(* ------------------------------------------------------------------------------------------ *)
(* C14_not_found                                                                               *)
(* ------------------------------------------------------------------------------------------ *)

(* operators whose evaluation does not look at the context *)
Definition is_ctx_free (o : operator) : bool :=
  match o with OVariableIdentifierRead _ | OFunctionIdentifier _ => false | _ => true end.

(* the parts of a context that evaluation never changes *)
Definition same_funs (c c' : ctx) : Prop :=
  c_kind c = c_kind c' /\ c_funs c = c_funs c' /\ c_off c = c_off c'.

Lemma same_funs_refl c : same_funs c c.
Proof. repeat split. Qed.
Lemma same_funs_trans a b c : same_funs a b -> same_funs b c -> same_funs a c.
Proof. intros (H1 & H2 & H3) (H4 & H5 & H6). repeat split; congruence. Qed.

Lemma same_funs_lookup c c' f : same_funs c c' -> lookup_function c' f = lookup_function c f.
Proof. intros (H1 & H2 & H3). unfold lookup_function, has_store. rewrite H1, H2. reflexivity. Qed.
Lemma same_funs_disabled c c' : same_funs c c' -> are_builtin_functions_disabled c' = are_builtin_functions_disabled c.
Proof. intros (H1 & H2 & H3). unfold are_builtin_functions_disabled. rewrite H1, H3. reflexivity. Qed.
Lemma same_funs_never c c' : same_funs c c' -> functions_never_not_found c -> functions_never_not_found c'.
Proof. intros (H1 & H2 & H3) H f g a Hin. rewrite <- H2 in Hin. exact (H f g a Hin). Qed.

Lemma set_value_same_funs c x v c' : set_value c x v = Ok c' -> same_funs c c'.
Proof.
  unfold set_value. destruct (c_kind c) eqn:Ek; try discriminate.
  destruct (assoc x (c_vars c)) as [ex|].
  - destruct (vtype_eqb (type_of ex) (type_of v)); [|discriminate].
    intros H. injection H as <-. unfold same_funs. cbn [c_kind c_funs c_off]. auto.
  - intros H. injection H as <-. unfold same_funs. cbn [c_kind c_funs c_off]. auto.
Qed.

Lemma clean_set_value c x v : clean (set_value c x v).
Proof.
  unfold set_value, expected_type. clean_all. apply clean_err. destruct (type_of v0); reflexivity.
Qed.

Lemma assoc_in {A} k (l : list (str * A)) v : assoc k l = Some v -> exists k', In (k', v) l.
Proof.
  induction l as [|[k' v'] l IH]; cbn [assoc]; [discriminate|].
  destruct (str_eqb k k').
  - intros H. injection H as <-. exists k'. left. reflexivity.
  - intros H. destruct (IH H) as [k2 H2]. exists k2. right. exact H2.
Qed.

Section WithOracle.
Variable O : std_oracle.

Lemma op_eval_ctx_free o args c c' lg : is_ctx_free o = true ->
  op_eval O o args c lg = op_eval O o args c' lg.
Proof. destruct o; try discriminate; reflexivity. Qed.

Lemma op_eval_ctx_free_log o args c lg : is_ctx_free o = true -> snd (op_eval O o args c lg) = lg.
Proof. destruct o; try discriminate; reflexivity. Qed.

Lemma op_eval_clean o args c lg : is_ctx_free o = true -> clean (fst (op_eval O o args c lg)).
Proof.
  destruct o; try discriminate; intros _; cbn [op_eval fst];
    unfold arith, compare_op, bool_op, checked_add, checked_sub, checked_mul, checked_neg; clean_all.
Qed.

(* what call_function can answer *)
Lemma call_function_nf c lg f a : functions_never_not_found c ->
  forall e, fst (call_function O c lg f a) = Err e -> nf_err e = true ->
  e = EFunctionIdentifierNotFound f /\ lookup_function c f = None /\
  (are_builtin_functions_disabled c = true \/ builtin_function O f = None).
Proof.
  intros Hfun e. unfold call_function.
  destruct (lookup_function c f) as [g|] eqn:El.
  - assert (Hg : clean (g a)).
    { apply clean_is_not_found. unfold lookup_function in El. destruct (has_store c); [|discriminate].
      apply assoc_in in El. destruct El as [k Hk]. exact (Hfun k g a Hk). }
    destruct (g a) as [v|e'|s] eqn:Eg; cbn [fst]; try discriminate.
    pose proof (Hg e' eq_refl) as Hc.
    destruct e'; cbn [fst]; try discriminate Hc; intros H; injection H as <-; discriminate.
  - destruct (are_builtin_functions_disabled c) eqn:Ed; cbn [fst].
    + intros H _. injection H as <-. auto.
    + destruct (builtin_function O f) as [b|] eqn:Eb; cbn [fst].
      * intros H Hn. pose proof (clean_builtin O f b a Eb e H) as Hc. congruence.
      * intros H _. injection H as <-. auto.
Qed.

Lemma op_eval_nf o args c lg : functions_never_not_found c ->
  forall e, fst (op_eval O o args c lg) = Err e -> nf_err e = true ->
  (exists x, o = OVariableIdentifierRead x /\ e = EVariableIdentifierNotFound x) \/
  (exists f, o = OFunctionIdentifier f /\ e = EFunctionIdentifierNotFound f /\ lookup_function c f = None /\
             (are_builtin_functions_disabled c = true \/ builtin_function O f = None)).
Proof.
  intros Hfun e He Hn.
  destruct (is_ctx_free o) eqn:Ef.
  - pose proof (op_eval_clean o args c lg Ef e He). congruence.
  - destruct o; try discriminate Ef; cbn [op_eval] in He.
    + left. exists s. split; [reflexivity|].
      destruct (expect_operator_argument_amount (nargs args) 0) as [u|e'|p] eqn:Ea; cbn [bind fst] in He; try discriminate.
      * destruct (get_value c s); [discriminate|]. injection He as <-. reflexivity.
      * injection He as <-. pose proof (clean_expect_amount _ _ _ Ea). congruence.
    + right. exists s. split; [reflexivity|].
      destruct (expect_operator_argument_amount (nargs args) 1) as [u|e'|p] eqn:Ea; cbn [fst] in He; try discriminate.
      * destruct (arg args 0 76) as [a|e'|p] eqn:Eg; cbn [fst] in He; try discriminate.
        -- apply (call_function_nf c lg s a Hfun e He Hn).
        -- injection He as <-. pose proof (clean_arg _ _ _ _ Eg). congruence.
      * injection He as <-. pose proof (clean_expect_amount _ _ _ Ea). congruence.
Qed.

Lemma assign_base_ctx_free o b : assign_base o = Some b -> is_ctx_free b = true.
Proof. destruct o; try discriminate; intros H; injection H as <-; reflexivity. Qed.

(* the body of the = arm and of the op= arm of Operator::eval_mut *)
Definition assign_chain (args : list value) (c : ctx) : outcome ctx :=
  do _ <- expect_operator_argument_amount (nargs args) 2;
  do a0 <- arg args 0 77; do target <- as_string a0;
  do v <- arg args 1 78;
  set_value c target v.

Definition opassign_chain (o : operator) (args : list value) (c : ctx) (lg : log) : outcome ctx :=
  do _ <- expect_operator_argument_amount (nargs args) 2;
  do a0 <- arg args 0 79; do target <- as_string a0;
  do left <- fst (op_eval O (OVariableIdentifierRead target) [] c lg);
  do right <- arg args 1 80;
  do base <- match assign_base o with Some b => Ok b | None => Panic 30 end;
  do result <- fst (op_eval O base [left; right] c lg);
  set_value c target result.

Definition finish (c : ctx) (lg : log) (r : outcome ctx) : outcome value * ctx * log :=
  match r with Ok c' => (Ok VEmpty, c', lg) | Err e => (Err e, c, lg) | Panic s => (Panic s, c, lg) end.

Lemma op_eval_mut_eq o args c lg :
  op_eval_mut O o args c lg =
  match o with
  | OAssign => finish c lg (assign_chain args c)
  | OAddAssign | OSubAssign | OMulAssign | ODivAssign | OModAssign | OExpAssign | OAndAssign | OOrAssign =>
      finish c lg (opassign_chain o args c lg)
  | _ => let '(r, lg') := op_eval O o args c lg in (r, c, lg')
  end.
Proof. destruct o; reflexivity. Qed.

Lemma op_eval_mut_nonassign o args c lg : is_assignment_op o = false ->
  op_eval_mut O o args c lg = (fst (op_eval O o args c lg), c, snd (op_eval O o args c lg)).
Proof.
  intros H. rewrite op_eval_mut_eq. destruct o; try discriminate H; destruct (op_eval O _ args c lg); reflexivity.
Qed.

Lemma op_eval_mut_assign o args c lg : is_assignment_op o = true ->
  op_eval_mut O o args c lg =
  finish c lg (match o with OAssign => assign_chain args c | _ => opassign_chain o args c lg end).
Proof. intros H. rewrite op_eval_mut_eq. destruct o; try discriminate H; reflexivity. Qed.

Lemma clean_assign_chain args c : clean (assign_chain args c).
Proof. unfold assign_chain. clean_all. apply clean_set_value. Qed.

Lemma assign_chain_same_funs args c c' : assign_chain args c = Ok c' -> same_funs c c'.
Proof.
  unfold assign_chain. intros H.
  repeat (apply bind_ok in H; destruct H as [? [_ H]]). eapply set_value_same_funs, H.
Qed.

Lemma opassign_chain_same_funs o args c lg c' : opassign_chain o args c lg = Ok c' -> same_funs c c'.
Proof.
  unfold opassign_chain. intros H.
  repeat (apply bind_ok in H; destruct H as [? [_ H]]). eapply set_value_same_funs, H.
Qed.

(* an op= answers "variable not found" only for its own target *)
Lemma opassign_chain_nf o args c lg e :
  opassign_chain o args c lg = Err e -> nf_err e = true ->
  exists x rest, args = VString x :: rest /\ e = EVariableIdentifierNotFound x.
Proof.
  unfold opassign_chain. intros He Hn.
  destruct (expect_operator_argument_amount (nargs args) 2) as [u|e'|p] eqn:Ea; cbn [bind] in He; try discriminate.
  2:{ injection He as <-. pose proof (clean_expect_amount _ _ _ Ea). congruence. }
  destruct args as [|a0 rest]; [discriminate Ea|].
  cbn [arg nth_opt bind] in He.
  destruct a0 as [x| | | | |]; cbn [as_string bind] in He; try (injection He as <-; discriminate Hn).
  exists x, rest. split; [reflexivity|].
  cbn [op_eval fst nargs length N.of_nat expect_operator_argument_amount N.eqb bind] in He.
  destruct (get_value c x) as [v|]; cbn [bind] in He.
  - exfalso.
    match type of He with ?t = _ => assert (Hc : clean t) end.
    { apply clean_bind; [clean_all|intros right].
      destruct (assign_base o) as [b|] eqn:Eb; cbn [bind]; [|apply clean_panic].
      apply clean_bind; [apply op_eval_clean, (assign_base_ctx_free o b Eb)|intros r; apply clean_set_value]. }
    pose proof (Hc e He). congruence.
  - injection He as <-. reflexivity.
Qed.

(* Operator::eval_mut: context parts kept, and which NotFound errors it can produce *)
Lemma op_eval_mut_same_funs o args c lg : same_funs c (snd (fst (op_eval_mut O o args c lg))).
Proof.
  destruct (is_assignment_op o) eqn:Ea.
  - rewrite (op_eval_mut_assign o args c lg Ea).
    destruct o; try discriminate Ea; cbn [snd fst].
    + destruct (assign_chain args c) eqn:E; cbn [finish fst snd]; try apply same_funs_refl. eapply assign_chain_same_funs, E.
    + destruct (opassign_chain _ args c lg) eqn:E; cbn [finish fst snd]; try apply same_funs_refl. eapply opassign_chain_same_funs, E.
    + destruct (opassign_chain _ args c lg) eqn:E; cbn [finish fst snd]; try apply same_funs_refl. eapply opassign_chain_same_funs, E.
    + destruct (opassign_chain _ args c lg) eqn:E; cbn [finish fst snd]; try apply same_funs_refl. eapply opassign_chain_same_funs, E.
    + destruct (opassign_chain _ args c lg) eqn:E; cbn [finish fst snd]; try apply same_funs_refl. eapply opassign_chain_same_funs, E.
    + destruct (opassign_chain _ args c lg) eqn:E; cbn [finish fst snd]; try apply same_funs_refl. eapply opassign_chain_same_funs, E.
    + destruct (opassign_chain _ args c lg) eqn:E; cbn [finish fst snd]; try apply same_funs_refl. eapply opassign_chain_same_funs, E.
    + destruct (opassign_chain _ args c lg) eqn:E; cbn [finish fst snd]; try apply same_funs_refl. eapply opassign_chain_same_funs, E.
    + destruct (opassign_chain _ args c lg) eqn:E; cbn [finish fst snd]; try apply same_funs_refl. eapply opassign_chain_same_funs, E.
  - rewrite (op_eval_mut_nonassign o args c lg Ea). apply same_funs_refl.
Qed.

Lemma finish_err c lg r e : fst (fst (finish c lg r)) = Err e -> r = Err e.
Proof. destruct r; cbn; intros H; try discriminate. congruence. Qed.

Lemma op_eval_mut_nf o args c lg : functions_never_not_found c ->
  forall e, fst (fst (op_eval_mut O o args c lg)) = Err e -> nf_err e = true ->
  (exists x, o = OVariableIdentifierRead x /\ e = EVariableIdentifierNotFound x) \/
  (exists f, o = OFunctionIdentifier f /\ e = EFunctionIdentifierNotFound f /\ lookup_function c f = None /\
             (are_builtin_functions_disabled c = true \/ builtin_function O f = None)) \/
  (is_assignment_op o = true /\ exists x rest, args = VString x :: rest /\ e = EVariableIdentifierNotFound x).
Proof.
  intros Hfun e He Hn.
  destruct (is_assignment_op o) eqn:Ea.
  - right. right. split; [reflexivity|].
    rewrite (op_eval_mut_assign o args c lg Ea) in He. apply finish_err in He.
    destruct o; try discriminate Ea; try (apply (opassign_chain_nf _ args c lg e He Hn)).
    pose proof (clean_assign_chain args c e He). congruence.
  - rewrite (op_eval_mut_nonassign o args c lg Ea) in He. cbn [fst] in He.
    destruct (op_eval_nf o args c lg Hfun e He Hn) as [H|H]; [left|right; left]; exact H.
Qed.

(* ---- whole trees ---- *)

Definition var_in (x : str) (n : node) : Prop := exists d, In d (preorder n) /\ ident_var (nop d) = Some x.
Definition read_in (x : str) (n : node) : Prop := exists d, In d (preorder n) /\ ident_read (nop d) = Some x.
Definition fn_in (f : str) (n : node) : Prop := exists d, In d (preorder n) /\ ident_fn (nop d) = Some f.

Lemma preorder_child o ch k d : In k ch -> In d (preorder k) -> In d (preorder (Node o ch)).
Proof.
  intros Hk Hd. right. cbn [preorder_descendants]. apply in_flat_map. exists k. split; [exact Hk|exact Hd].
Qed.

(* the post-condition of one evaluation, relative to the context it started from *)
Definition nf_post (V : str -> node -> Prop) (P : (node -> Prop) -> Prop) (c : ctx) (e : error) : Prop :=
  (forall x, e = EVariableIdentifierNotFound x -> P (V x)) /\
  (forall f, e = EFunctionIdentifierNotFound f ->
     P (fn_in f) /\ lookup_function c f = None /\
     (are_builtin_functions_disabled c = true \/ builtin_function O f = None)).

Lemma leaf_write_eval_mut x c lg :
  eval_mut O (Node (OVariableIdentifierWrite x) []) c lg = (Ok (VString x), c, lg).
Proof. reflexivity. Qed.

Lemma leaf_write_eval_ro x c lg :
  eval_ro O (Node (OVariableIdentifierWrite x) []) c lg = (Ok (VString x), lg).
Proof. reflexivity. Qed.

Lemma eval_mut_args_head_write x rest c lg :
  eval_mut_args O (Node (OVariableIdentifierWrite x) [] :: rest) c lg =
  match eval_mut_args O rest c lg with
  | (Ok vs, c2, lg2) => (Ok (VString x :: vs), c2, lg2)
  | r => r
  end.
Proof. cbn [eval_mut_args]. rewrite leaf_write_eval_mut. reflexivity. Qed.

Lemma eval_mut_args_ok_head x rest c lg vs c' lg' :
  eval_mut_args O (Node (OVariableIdentifierWrite x) [] :: rest) c lg = (Ok vs, c', lg') ->
  exists vs', vs = VString x :: vs'.
Proof.
  rewrite eval_mut_args_head_write. destruct (eval_mut_args O rest c lg) as [[[vs0|e|s] c2] lg2]; intros H; try discriminate.
  injection H as <- _ _. eauto.
Qed.

Definition mut_ok (n : node) : Prop :=
  forall c lg, functions_never_not_found c -> targets_are_identifiers n ->
    same_funs c (snd (fst (eval_mut O n c lg))) /\
    forall e, fst (fst (eval_mut O n c lg)) = Err e -> nf_post var_in (fun Q => Q n) c e.

Lemma eval_mut_args_nf l : Forall mut_ok l -> forall c lg,
  functions_never_not_found c -> Forall targets_are_identifiers l ->
  same_funs c (snd (fst (eval_mut_args O l c lg))) /\
  forall e, fst (fst (eval_mut_args O l c lg)) = Err e -> nf_post var_in (fun Q => exists k, In k l /\ Q k) c e.
Proof.
  induction 1 as [|k l Hk Hl IH]; intros c lg Hfun Ht.
  - cbn [eval_mut_args fst snd]. split; [apply same_funs_refl|discriminate].
  - inversion Ht as [|k' l' Htk Htl]; subst k' l'.
    cbn [eval_mut_args].
    destruct (Hk c lg Hfun Htk) as [Hs1 Hp1].
    destruct (eval_mut O k c lg) as [[[v|e1|s] c1] lg1]; cbn [fst snd] in *.
    + assert (Hfun1 : functions_never_not_found c1) by (eapply same_funs_never; eassumption).
      destruct (IH c1 lg1 Hfun1 Htl) as [Hs2 Hp2].
      destruct (eval_mut_args O l c1 lg1) as [[[vs|e2|s2] c2] lg2]; cbn [fst snd] in *.
      * split; [eapply same_funs_trans; eassumption|discriminate].
      * split; [eapply same_funs_trans; eassumption|].
        intros e He. injection He as <-. destruct (Hp2 e2 eq_refl) as [Hv Hf]. split.
        -- intros x Hx. destruct (Hv x Hx) as [k0 [Hin HQ]]. exists k0. split; [right; exact Hin|exact HQ].
        -- intros f Hx. destruct (Hf f Hx) as [[k0 [Hin HQ]] [Hl1 Hl2]]. split; [|split].
           ++ exists k0. split; [right; exact Hin|exact HQ].
           ++ rewrite <- Hl1. symmetry. apply same_funs_lookup, Hs1.
           ++ rewrite <- (same_funs_disabled c c1 Hs1). exact Hl2.
      * split; [eapply same_funs_trans; eassumption|discriminate].
    + split; [exact Hs1|]. intros e He. injection He as <-. destruct (Hp1 e1 eq_refl) as [Hv Hf]. split.
      * intros x Hx. exists k. split; [left; reflexivity|exact (Hv x Hx)].
      * intros f Hx. destruct (Hf f Hx) as [HQ [Hl1 Hl2]]. split; [|split; assumption].
        exists k. split; [left; reflexivity|exact HQ].
    + split; [exact Hs1|discriminate].
Qed.

Lemma eval_mut_nf n : mut_ok n.
Proof.
  induction n as [o ch IH] using node_ind'. intros c lg Hfun Ht.
  inversion Ht as [o' ch' Htgt Htch]; subst o' ch'.
  rewrite eval_mut_unfold.
  destruct (eval_mut_args_nf ch IH c lg Hfun Htch) as [Hs1 Hp1].
  destruct (eval_mut_args O ch c lg) as [[[vs|e1|s] c1] lg1] eqn:Eargs; cbn [fst snd] in *.
  - assert (Hfun1 : functions_never_not_found c1) by (eapply same_funs_never; eassumption).
    split; [eapply same_funs_trans; [exact Hs1|apply op_eval_mut_same_funs]|].
    intros e He.
    assert (Hcases : nf_err e = true -> _) by (exact (op_eval_mut_nf o vs c1 lg1 Hfun1 e He)).
    split.
    + intros x ->. destruct (Hcases eq_refl) as [[y [-> Hy]]|[[f [_ [Hy _]]]|[Ha [y [rest [Hvs Hy]]]]]]; try discriminate Hy.
      * injection Hy as <-. exists (Node (OVariableIdentifierRead x) ch). split; [left; reflexivity|reflexivity].
      * injection Hy as <-. destruct (Htgt Ha) as [z [rest' ->]].
        apply eval_mut_args_ok_head in Eargs. destruct Eargs as [vs' Evs]. rewrite Evs in Hvs. injection Hvs as <- _.
        exists (Node (OVariableIdentifierWrite z) []). split; [|reflexivity].
        apply (preorder_child o _ (Node (OVariableIdentifierWrite z) [])); left; reflexivity.
    + intros f ->. destruct (Hcases eq_refl) as [[y [_ Hy]]|[[g [-> [Hy [Hl1 Hl2]]]]|[_ [y [rest [_ Hy]]]]]]; try discriminate Hy.
      injection Hy as <-. split; [|split].
      * exists (Node (OFunctionIdentifier f) ch). split; [left; reflexivity|reflexivity].
      * rewrite <- Hl1. symmetry. apply same_funs_lookup, Hs1.
      * rewrite <- (same_funs_disabled c c1 Hs1). exact Hl2.
  - split; [exact Hs1|]. intros e He. injection He as <-. destruct (Hp1 e1 eq_refl) as [Hv Hf]. split.
    + intros x Hx. destruct (Hv x Hx) as [k [Hin [d [Hd1 Hd2]]]]. exists d. split; [|exact Hd2].
      eapply preorder_child; eassumption.
    + intros f Hx. destruct (Hf f Hx) as [[k [Hin [d [Hd1 Hd2]]]] [Hl1 Hl2]]. split; [|split; assumption].
      exists d. split; [|exact Hd2]. eapply preorder_child; eassumption.
  - split; [exact Hs1|discriminate].
Qed.

End WithOracle.

Section WithOracle.
Variable O : std_oracle.

(* ---- the read-only evaluator (no side condition on assignment targets: it never reads one) ---- *)

Definition ro_ok (n : node) : Prop :=
  forall c lg, functions_never_not_found c ->
    forall e, fst (eval_ro O n c lg) = Err e -> nf_post O read_in (fun Q => Q n) c e.

Lemma eval_ro_args_nf l : Forall ro_ok l -> forall c lg, functions_never_not_found c ->
  forall e, fst (eval_ro_args O l c lg) = Err e -> nf_post O read_in (fun Q => exists k, In k l /\ Q k) c e.
Proof.
  induction 1 as [|k l Hk Hl IH]; intros c lg Hfun e.
  - cbn [eval_ro_args fst]. discriminate.
  - cbn [eval_ro_args].
    pose proof (Hk c lg Hfun) as Hp1.
    destruct (eval_ro O k c lg) as [[v|e1|s] lg1]; cbn [fst] in *.
    + pose proof (IH c lg1 Hfun) as Hp2.
      destruct (eval_ro_args O l c lg1) as [[vs|e2|s2] lg2]; cbn [fst] in *; try discriminate.
      intros He. injection He as <-. destruct (Hp2 e2 eq_refl) as [Hv Hf]. split.
      * intros x Hx. destruct (Hv x Hx) as [k0 [Hin HQ]]. exists k0. split; [right; exact Hin|exact HQ].
      * intros f Hx. destruct (Hf f Hx) as [[k0 [Hin HQ]] Hl12]. split; [|exact Hl12].
        exists k0. split; [right; exact Hin|exact HQ].
    + intros He. injection He as <-. destruct (Hp1 e1 eq_refl) as [Hv Hf]. split.
      * intros x Hx. exists k. split; [left; reflexivity|exact (Hv x Hx)].
      * intros f Hx. destruct (Hf f Hx) as [HQ Hl12]. split; [|exact Hl12].
        exists k. split; [left; reflexivity|exact HQ].
    + discriminate.
Qed.

Lemma eval_ro_nf n : ro_ok n.
Proof.
  induction n as [o ch IH] using node_ind'. intros c lg Hfun.
  rewrite eval_ro_unfold.
  pose proof (eval_ro_args_nf ch IH c lg Hfun) as Hp1.
  destruct (eval_ro_args O ch c lg) as [[vs|e1|s] lg1]; cbn [fst] in *.
  - intros e He.
    assert (Hcases : nf_err e = true -> _) by (exact (op_eval_nf O o vs c lg1 Hfun e He)).
    split.
    + intros x ->. destruct (Hcases eq_refl) as [[y [-> Hy]]|[f [_ [Hy _]]]]; try discriminate Hy.
      injection Hy as <-. exists (Node (OVariableIdentifierRead x) ch). split; [left; reflexivity|reflexivity].
    + intros f ->. destruct (Hcases eq_refl) as [[y [_ Hy]]|[g [-> [Hy Hl12]]]]; try discriminate Hy.
      injection Hy as <-. split; [|exact Hl12].
      exists (Node (OFunctionIdentifier f) ch). split; [left; reflexivity|reflexivity].
  - intros e He. injection He as <-. destruct (Hp1 e1 eq_refl) as [Hv Hf]. split.
    + intros x Hx. destruct (Hv x Hx) as [k [Hin [d [Hd1 Hd2]]]]. exists d. split; [|exact Hd2].
      eapply preorder_child; eassumption.
    + intros f Hx. destruct (Hf f Hx) as [[k [Hin [d [Hd1 Hd2]]]] Hl12]. split; [|exact Hl12].
      exists d. split; [|exact Hd2]. eapply preorder_child; eassumption.
  - discriminate.
Qed.

(* ---- in terms of the iterators ---- *)

Lemma in_filter_map {A B} (f : A -> option B) l y :
  In y (filter_map f l) <-> exists d, In d l /\ f d = Some y.
Proof.
  induction l as [|a l IH]; cbn [filter_map].
  - split; [intros []|intros [d [[] _]]].
  - destruct (f a) as [b|] eqn:E.
    + cbn [In]. rewrite IH. split.
      * intros [->|[d [H1 H2]]]; [exists a; split; [left; reflexivity|exact E]|exists d; split; [right; exact H1|exact H2]].
      * intros [d [[->|H1] H2]]; [left; congruence|right; exists d; split; assumption].
    + rewrite IH. split.
      * intros [d [H1 H2]]. exists d. split; [right; exact H1|exact H2].
      * intros [d [[->|H1] H2]]; [congruence|exists d; split; assumption].
Qed.

Lemma var_in_iter x n : ident_var (nop n) = None -> var_in x n ->
  exists l, iter_variable_identifiers n = Ok l /\ In x l.
Proof.
  intros Hroot [d [[<-|Hd] Hx]]; [congruence|].
  eexists. split; [apply iter_with_spec|]. apply in_filter_map. exists d. split; assumption.
Qed.

Lemma read_in_iter x n : ident_read (nop n) = None -> read_in x n ->
  exists l, iter_read_variable_identifiers n = Ok l /\ In x l.
Proof.
  intros Hroot [d [[<-|Hd] Hx]]; [congruence|].
  eexists. split; [apply iter_with_spec|]. apply in_filter_map. exists d. split; assumption.
Qed.

Lemma fn_in_iter f n : ident_fn (nop n) = None -> fn_in f n ->
  exists l, iter_function_identifiers n = Ok l /\ In f l.
Proof.
  intros Hroot [d [[<-|Hd] Hx]]; [congruence|].
  eexists. split; [apply iter_with_spec|]. apply in_filter_map. exists d. split; assumption.
Qed.

(* general form: the root operator counted too *)
Lemma not_found_mut_incl n c lg : functions_never_not_found c -> targets_are_identifiers n ->
  (forall x, fst (fst (eval_mut O n c lg)) = Err (EVariableIdentifierNotFound x) ->
     In x (filter_map (fun d => ident_var (nop d)) (preorder n))) /\
  (forall f, fst (fst (eval_mut O n c lg)) = Err (EFunctionIdentifierNotFound f) ->
     In f (filter_map (fun d => ident_fn (nop d)) (preorder n)) /\
     lookup_function c f = None /\
     (are_builtin_functions_disabled c = true \/ builtin_function O f = None)).
Proof.
  intros Hfun Ht. destruct (eval_mut_nf O n c lg Hfun Ht) as [_ Hp]. split.
  - intros x He. destruct (Hp _ He) as [Hv _]. apply in_filter_map. exact (Hv x eq_refl).
  - intros f He. destruct (Hp _ He) as [_ Hf]. destruct (Hf f eq_refl) as [H1 H2]. split; [|exact H2].
    apply in_filter_map. exact H1.
Qed.

Lemma not_found_ro_incl n c lg : functions_never_not_found c ->
  (forall x, fst (eval_ro O n c lg) = Err (EVariableIdentifierNotFound x) ->
     In x (filter_map (fun d => ident_read (nop d)) (preorder n))) /\
  (forall f, fst (eval_ro O n c lg) = Err (EFunctionIdentifierNotFound f) ->
     In f (filter_map (fun d => ident_fn (nop d)) (preorder n)) /\
     lookup_function c f = None /\
     (are_builtin_functions_disabled c = true \/ builtin_function O f = None)).
Proof.
  intros Hfun. split.
  - intros x He. destruct (eval_ro_nf n c lg Hfun _ He) as [Hv _]. apply in_filter_map. exact (Hv x eq_refl).
  - intros f He. destruct (eval_ro_nf n c lg Hfun _ He) as [_ Hf]. destruct (Hf f eq_refl) as [H1 H2].
    split; [|exact H2]. apply in_filter_map. exact H1.
Qed.

Lemma not_found_var_mut n c lg x : functions_never_not_found c -> targets_are_identifiers n ->
  ident_any (nop n) = None ->
  fst (fst (eval_mut O n c lg)) = Err (EVariableIdentifierNotFound x) ->
  exists l, iter_variable_identifiers n = Ok l /\ In x l.
Proof.
  intros Hfun Ht Hroot He. destruct (eval_mut_nf O n c lg Hfun Ht) as [_ Hp].
  destruct (Hp _ He) as [Hv _]. apply var_in_iter; [|exact (Hv x eq_refl)].
  destruct (nop n); try reflexivity; discriminate.
Qed.

Lemma not_found_fn_mut n c lg f : functions_never_not_found c -> targets_are_identifiers n ->
  ident_any (nop n) = None ->
  fst (fst (eval_mut O n c lg)) = Err (EFunctionIdentifierNotFound f) ->
  (exists l, iter_function_identifiers n = Ok l /\ In f l) /\
  lookup_function c f = None /\
  (are_builtin_functions_disabled c = true \/ builtin_function O f = None).
Proof.
  intros Hfun Ht Hroot He. destruct (eval_mut_nf O n c lg Hfun Ht) as [_ Hp].
  destruct (Hp _ He) as [_ Hf]. destruct (Hf f eq_refl) as [H1 H2]. split; [|exact H2].
  apply fn_in_iter; [|exact H1]. destruct (nop n); try reflexivity; discriminate.
Qed.

Lemma not_found_var_ro n c lg x : functions_never_not_found c ->
  ident_any (nop n) = None ->
  fst (eval_ro O n c lg) = Err (EVariableIdentifierNotFound x) ->
  exists l, iter_read_variable_identifiers n = Ok l /\ In x l.
Proof.
  intros Hfun Hroot He. destruct (eval_ro_nf n c lg Hfun _ He) as [Hv _].
  apply read_in_iter; [|exact (Hv x eq_refl)]. destruct (nop n); try reflexivity; discriminate.
Qed.

Lemma not_found_fn_ro n c lg f : functions_never_not_found c ->
  ident_any (nop n) = None ->
  fst (eval_ro O n c lg) = Err (EFunctionIdentifierNotFound f) ->
  (exists l, iter_function_identifiers n = Ok l /\ In f l) /\
  lookup_function c f = None /\
  (are_builtin_functions_disabled c = true \/ builtin_function O f = None).
Proof.
  intros Hfun Hroot He. destruct (eval_ro_nf n c lg Hfun _ He) as [_ Hf].
  destruct (Hf f eq_refl) as [H1 H2]. split; [|exact H2].
  apply fn_in_iter; [|exact H1]. destruct (nop n); try reflexivity; discriminate.
Qed.

End WithOracle.

(* ------------------------------------------------------------------------------------------ *)
(* C14_rename                                                                                  *)
(* ------------------------------------------------------------------------------------------ *)

Lemma c14_str_eqb_eq x y : str_eqb x y = true <-> x = y.
Proof.
  revert y; induction x as [|a x IH]; intros [|b y]; cbn [str_eqb]; try (split; [discriminate|discriminate]).
  - split; reflexivity.
  - rewrite andb_true_iff, N.eqb_eq, IH. split; [intros [-> ->]; reflexivity|intros H; injection H; auto].
Qed.

Lemma str_eqb_inj r x y : injective r -> str_eqb (r x) (r y) = str_eqb x y.
Proof.
  intros Hr. destruct (str_eqb x y) eqn:E.
  - apply c14_str_eqb_eq in E. subst. apply c14_str_eqb_eq. reflexivity.
  - destruct (str_eqb (r x) (r y)) eqn:E2; [|reflexivity].
    apply c14_str_eqb_eq, Hr in E2. subst. rewrite (proj2 (c14_str_eqb_eq y y) eq_refl) in E. discriminate.
Qed.

Definition ren_vars (r : str -> str) (l : list (str * value)) : list (str * value) :=
  map (fun kv => (r (fst kv), snd kv)) l.

Lemma assoc_ren r x l : injective r -> assoc (r x) (ren_vars r l) = assoc x l.
Proof.
  intros Hr. induction l as [|[k v] l IH]; [reflexivity|].
  cbn [ren_vars map assoc fst snd]. rewrite (str_eqb_inj r x k Hr). fold (ren_vars r l). rewrite IH. reflexivity.
Qed.

Lemma assoc_set_ren r x v l : injective r -> assoc_set (r x) v (ren_vars r l) = ren_vars r (assoc_set x v l).
Proof.
  intros Hr. induction l as [|[k w] l IH]; [reflexivity|].
  cbn [ren_vars map assoc_set fst snd]. rewrite (str_eqb_inj r x k Hr).
  destruct (str_eqb x k); [reflexivity|]. cbn [map fst snd]. fold (ren_vars r l). rewrite IH. reflexivity.
Qed.

Definition omap {A B} (f : A -> B) (o : outcome A) : outcome B :=
  match o with Ok a => Ok (f a) | Err e => Err e | Panic s => Panic s end.

(* context results: the context renamed, the error renamed *)
Definition ren_octx (r : str -> str) (o : outcome ctx) : outcome ctx :=
  match o with Ok c => Ok (rename_ctx r c) | Err e => Err (rename_error r e) | Panic s => Panic s end.

(* rename_result at any payload type *)
Definition ren_res {A} (r : str -> str) (res : outcome A * ctx * log) : outcome A * ctx * log :=
  let '(o, c, lg) := res in (rename_outcome r o, rename_ctx r c, lg).
Definition ren_res_ro {A} (r : str -> str) (res : outcome A * log) : outcome A * log :=
  let '(o, lg) := res in (rename_outcome r o, lg).

Lemma get_value_ren r c x : injective r -> get_value (rename_ctx r c) (r x) = get_value c x.
Proof.
  intros Hr. unfold get_value, has_store, rename_ctx. cbn [c_kind c_vars].
  destruct (c_kind c); try reflexivity; apply (assoc_ren r x (c_vars c) Hr).
Qed.

Lemma set_value_ren r c x v : injective r ->
  set_value (rename_ctx r c) (r x) v = omap (rename_ctx r) (set_value c x v).
Proof.
  intros Hr. unfold set_value.
  change (c_kind (rename_ctx r c)) with (c_kind c).
  change (c_vars (rename_ctx r c)) with (ren_vars r (c_vars c)).
  change (c_funs (rename_ctx r c)) with (c_funs c).
  change (c_off (rename_ctx r c)) with (c_off c).
  rewrite (assoc_ren r x (c_vars c) Hr), (assoc_set_ren r x v (c_vars c) Hr).
  destruct (c_kind c); try reflexivity.
  destruct (assoc x (c_vars c)) as [ex|].
  - destruct (vtype_eqb (type_of ex) (type_of v)); reflexivity.
  - reflexivity.
Qed.

Lemma rename_error_clean r e : nf_err e = false -> rename_error r e = e.
Proof. destruct e; try reflexivity; discriminate. Qed.

Lemma rename_outcome_clean {A} r (o : outcome A) : clean o -> rename_outcome r o = o.
Proof. destruct o as [a|e|s]; try reflexivity. intros H. cbn [rename_outcome]. rewrite rename_error_clean; [reflexivity|]. apply H. reflexivity. Qed.

Lemma omap_ren_octx r (o : outcome ctx) : clean o -> omap (rename_ctx r) o = ren_octx r o.
Proof. destruct o as [a|e|s]; try reflexivity. intros H. cbn [omap ren_octx]. rewrite rename_error_clean; [reflexivity|]. apply H. reflexivity. Qed.

Lemma same_funs_never_vnf c c' : same_funs c c' -> functions_never_variable_not_found c -> functions_never_variable_not_found c'.
Proof. intros (H1 & H2 & H3) H f g a x Hin. rewrite <- H2 in Hin. exact (H f g a x Hin). Qed.

Lemma same_funs_rename r c : same_funs c (rename_ctx r c).
Proof. unfold same_funs, rename_ctx. cbn [c_kind c_funs c_off]. auto. Qed.

Section WithOracle.
Variable O : std_oracle.

(* ---- evaluation never changes kind, functions, flag (no hypotheses) ---- *)

Lemma eval_mut_args_same_funs l :
  Forall (fun n => forall c lg, same_funs c (snd (fst (eval_mut O n c lg)))) l ->
  forall c lg, same_funs c (snd (fst (eval_mut_args O l c lg))).
Proof.
  induction 1 as [|k l Hk Hl IH]; intros c lg; cbn [eval_mut_args]; [apply same_funs_refl|].
  specialize (Hk c lg). destruct (eval_mut O k c lg) as [[[v|e|s] c1] lg1]; cbn [fst snd] in *; try exact Hk.
  specialize (IH c1 lg1). destruct (eval_mut_args O l c1 lg1) as [[[vs|e|s] c2] lg2]; cbn [fst snd] in *;
    eapply same_funs_trans; eassumption.
Qed.

Lemma eval_mut_same_funs n : forall c lg, same_funs c (snd (fst (eval_mut O n c lg))).
Proof.
  induction n as [o ch IH] using node_ind'. intros c lg. rewrite eval_mut_unfold.
  pose proof (eval_mut_args_same_funs ch IH c lg) as H.
  destruct (eval_mut_args O ch c lg) as [[[vs|e|s] c1] lg1]; cbn [fst snd] in *; try exact H.
  eapply same_funs_trans; [exact H|apply op_eval_mut_same_funs].
Qed.

(* ---- operators ---- *)

Lemma call_function_ren r c lg f a : call_function O (rename_ctx r c) lg f a = call_function O c lg f a.
Proof. reflexivity. Qed.

Lemma call_function_no_vnf c lg f a x : functions_never_variable_not_found c ->
  fst (call_function O c lg f a) <> Err (EVariableIdentifierNotFound x).
Proof.
  intros Hfun. unfold call_function.
  destruct (lookup_function c f) as [g|] eqn:El.
  - assert (Hg : forall y, g a <> Err (EVariableIdentifierNotFound y)).
    { intros y. unfold lookup_function in El. destruct (has_store c); [|discriminate].
      apply assoc_in in El. destruct El as [k Hk]. exact (Hfun k g a y Hk). }
    destruct (g a) as [v|e|s] eqn:Eg; cbn [fst]; try discriminate.
    destruct e; cbn [fst]; try discriminate.
    + exfalso. exact (Hg s eq_refl).
    + destruct (are_builtin_functions_disabled c); cbn [fst]; [discriminate|].
      destruct (builtin_function O f) as [b|] eqn:Eb; cbn [fst]; [|discriminate].
      apply clean_not_vnf. exact (clean_builtin O f b a Eb).
  - destruct (are_builtin_functions_disabled c); cbn [fst]; [discriminate|].
    destruct (builtin_function O f) as [b|] eqn:Eb; cbn [fst]; [|discriminate].
    apply clean_not_vnf. exact (clean_builtin O f b a Eb).
Qed.

Lemma rename_outcome_no_vnf {A} r (o : outcome A) :
  (forall x, o <> Err (EVariableIdentifierNotFound x)) -> rename_outcome r o = o.
Proof.
  destruct o as [a|e|s]; try reflexivity. intros H. destruct e; try reflexivity. exfalso. exact (H s eq_refl).
Qed.

(* Operator::eval on every operator that is neither an assignment nor an assignment target *)
Lemma op_eval_ren r o vs c lg : injective r -> functions_never_variable_not_found c ->
  (forall x, o <> OVariableIdentifierWrite x) ->
  op_eval O (rename_op r o) vs (rename_ctx r c) lg = ren_res_ro r (op_eval O o vs c lg).
Proof.
  intros Hr Hfun Hw.
  destruct (is_ctx_free o) eqn:Ef.
  - assert (Ho : rename_op r o = o).
    { destruct o; try reflexivity; try discriminate Ef. exfalso. exact (Hw s eq_refl). }
    rewrite Ho, (op_eval_ctx_free O o vs (rename_ctx r c) c lg Ef).
    pose proof (op_eval_clean O o vs c lg Ef) as Hc.
    destruct (op_eval O o vs c lg) as [res lg']. cbn [ren_res_ro fst] in *.
    rewrite rename_outcome_clean by exact Hc. reflexivity.
  - destruct o; try discriminate Ef; cbn [rename_op op_eval].
    + destruct (expect_operator_argument_amount (nargs vs) 0) as [u|e|p] eqn:Ea; cbn [bind ren_res_ro rename_outcome].
      * rewrite (get_value_ren r c s Hr). destruct (get_value c s); reflexivity.
      * rewrite rename_error_clean; [reflexivity|]. exact (clean_expect_amount _ _ _ Ea).
      * reflexivity.
    + destruct (expect_operator_argument_amount (nargs vs) 1) as [u|e|p] eqn:Ea; cbn [ren_res_ro rename_outcome].
      * destruct (arg vs 0 76) as [a|e|p] eqn:Eg; cbn [ren_res_ro rename_outcome].
        -- rewrite call_function_ren.
           pose proof (fun x => call_function_no_vnf c lg s a x Hfun) as Hn.
           destruct (call_function O c lg s a) as [res lg']. cbn [ren_res_ro fst] in *.
           rewrite rename_outcome_no_vnf by exact Hn. reflexivity.
        -- rewrite rename_error_clean; [reflexivity|]. exact (clean_arg _ _ _ _ Eg).
        -- reflexivity.
      * rewrite rename_error_clean; [reflexivity|]. exact (clean_expect_amount _ _ _ Ea).
      * reflexivity.
Qed.

Lemma op_eval_mut_ren_other r o vs c lg : injective r -> functions_never_variable_not_found c ->
  is_assignment_op o = false -> (forall x, o <> OVariableIdentifierWrite x) ->
  op_eval_mut O (rename_op r o) vs (rename_ctx r c) lg = ren_res r (op_eval_mut O o vs c lg).
Proof.
  intros Hr Hfun Ha Hw.
  assert (Ha' : is_assignment_op (rename_op r o) = false) by (destruct o; try discriminate Ha; reflexivity).
  rewrite (op_eval_mut_nonassign O _ vs _ lg Ha'), (op_eval_mut_nonassign O o vs c lg Ha).
  rewrite (op_eval_ren r o vs c lg Hr Hfun Hw).
  destruct (op_eval O o vs c lg) as [res lg']. reflexivity.
Qed.

Lemma assign_chain_ren r x vs c : injective r ->
  assign_chain (VString (r x) :: vs) (rename_ctx r c) = ren_octx r (assign_chain (VString x :: vs) c).
Proof.
  intros Hr. unfold assign_chain.
  change (nargs (VString (r x) :: vs)) with (nargs (VString x :: vs)).
  destruct (expect_operator_argument_amount (nargs (VString x :: vs)) 2) as [u|e|p] eqn:Ea; cbn [bind ren_octx].
  - cbn [arg nth_opt as_string bind].
    change (arg (VString (r x) :: vs) 1 78) with (arg (VString x :: vs) 1 78).
    destruct (arg (VString x :: vs) 1 78) as [v|e|p] eqn:Eg; cbn [bind ren_octx].
    + rewrite (set_value_ren r c x v Hr). apply omap_ren_octx, clean_set_value.
    + rewrite rename_error_clean; [reflexivity|]. exact (clean_arg _ _ _ _ Eg).
    + reflexivity.
  - rewrite rename_error_clean; [reflexivity|]. exact (clean_expect_amount _ _ _ Ea).
  - reflexivity.
Qed.

Lemma opassign_chain_ren r o x vs c lg : injective r ->
  opassign_chain O o (VString (r x) :: vs) (rename_ctx r c) lg =
  ren_octx r (opassign_chain O o (VString x :: vs) c lg).
Proof.
  intros Hr. unfold opassign_chain.
  change (nargs (VString (r x) :: vs)) with (nargs (VString x :: vs)).
  destruct (expect_operator_argument_amount (nargs (VString x :: vs)) 2) as [u|e|p] eqn:Ea; cbn [bind ren_octx].
  2:{ rewrite rename_error_clean; [reflexivity|]. exact (clean_expect_amount _ _ _ Ea). }
  2:{ reflexivity. }
  cbn [arg nth_opt as_string bind].
  cbn [op_eval fst nargs length N.of_nat expect_operator_argument_amount N.eqb bind].
  rewrite (get_value_ren r c x Hr).
  destruct (get_value c x) as [left|]; cbn [bind ren_octx rename_error]; [|reflexivity].
  change (arg (VString (r x) :: vs) 1 80) with (arg (VString x :: vs) 1 80).
  destruct (arg (VString x :: vs) 1 80) as [right|e|p] eqn:Eg; cbn [bind ren_octx].
  2:{ rewrite rename_error_clean; [reflexivity|]. exact (clean_arg _ _ _ _ Eg). }
  2:{ reflexivity. }
  destruct (assign_base o) as [b|] eqn:Eb; cbn [bind ren_octx]; [|reflexivity].
  pose proof (assign_base_ctx_free o b Eb) as Hb.
  rewrite (op_eval_ctx_free O b [left; right] (rename_ctx r c) c lg Hb).
  pose proof (op_eval_clean O b [left; right] c lg Hb) as Hc.
  destruct (fst (op_eval O b [left; right] c lg)) as [res|e|p]; cbn [bind ren_octx].
  - rewrite (set_value_ren r c x res Hr). apply omap_ren_octx, clean_set_value.
  - rewrite rename_error_clean; [reflexivity|]. exact (Hc e eq_refl).
  - reflexivity.
Qed.

Lemma finish_ren r c lg R : finish (rename_ctx r c) lg (ren_octx r R) = ren_res r (finish c lg R).
Proof. destruct R; reflexivity. Qed.

Lemma op_eval_mut_ren_assign r o x vs c lg : injective r -> is_assignment_op o = true ->
  op_eval_mut O o (VString (r x) :: vs) (rename_ctx r c) lg =
  ren_res r (op_eval_mut O o (VString x :: vs) c lg).
Proof.
  intros Hr Ha. rewrite !(op_eval_mut_assign O o _ _ lg Ha), <- finish_ren. f_equal.
  destruct o; try discriminate Ha; first [apply (assign_chain_ren r x vs c Hr) | apply (opassign_chain_ren r _ x vs c lg Hr)].
Qed.

(* ---- trees ---- *)

Lemma wat_tai n : writes_are_targets n -> targets_are_identifiers n.
Proof.
  induction n as [o ch IH] using node_ind'. intros H.
  inversion H as [o' x rest Ha Hrest|o' ch' Ha Hw Hch]; subst.
  - constructor; [intros _; eauto|].
    inversion IH as [|k l Hk Hl]; subst. constructor.
    + constructor; [discriminate|constructor].
    + rewrite Forall_forall in *. intros k Hin. apply Hl; [exact Hin|apply Hrest, Hin].
  - constructor; [rewrite Ha; discriminate|].
    rewrite Forall_forall in *. intros k Hin. apply IH; [exact Hin|apply Hch, Hin].
Qed.

Definition mut_ren (r : str -> str) (n : node) : Prop :=
  forall c lg, functions_never_variable_not_found c -> writes_are_targets n ->
    eval_mut O (rename_tree r n) (rename_ctx r c) lg = ren_res r (eval_mut O n c lg).

Lemma eval_mut_args_ren r l : Forall (mut_ren r) l -> forall c lg,
  functions_never_variable_not_found c -> Forall writes_are_targets l ->
  eval_mut_args O (map (rename_tree r) l) (rename_ctx r c) lg = ren_res r (eval_mut_args O l c lg).
Proof.
  induction 1 as [|k l Hk Hl IH]; intros c lg Hfun Hw; [reflexivity|].
  inversion Hw as [|k' l' Hwk Hwl]; subst k' l'.
  cbn [map eval_mut_args]. rewrite (Hk c lg Hfun Hwk).
  pose proof (eval_mut_same_funs k c lg) as Hs.
  destruct (eval_mut O k c lg) as [[[v|e|s] c1] lg1]; cbn [ren_res rename_outcome fst snd] in *; try reflexivity.
  rewrite (IH c1 lg1 (same_funs_never_vnf c c1 Hs Hfun) Hwl).
  destruct (eval_mut_args O l c1 lg1) as [[[vs|e|s] c2] lg2]; reflexivity.
Qed.

Lemma eval_mut_ren r n : injective r -> mut_ren r n.
Proof.
  intros Hr. induction n as [o ch IH] using node_ind'. intros c lg Hfun Hw.
  inversion Hw as [o' x rest Ha Hrest|o' ch' Ha Hnw Hch]; subst.
  - (* an assignment: the target leaf, then the remaining children *)
    inversion IH as [|k l _ IHrest]; subst.
    assert (Ho : rename_op r o = o) by (destruct o; try discriminate Ha; reflexivity).
    cbn [rename_tree map rename_op]. rewrite Ho, !eval_mut_unfold, !eval_mut_args_head_write.
    rewrite (eval_mut_args_ren r rest IHrest c lg Hfun Hrest).
    destruct (eval_mut_args O rest c lg) as [[[vs|e|s] c1] lg1]; cbn [ren_res rename_outcome]; try reflexivity.
    apply (op_eval_mut_ren_assign r o x vs c1 lg1 Hr Ha).
  - cbn [rename_tree]. rewrite !eval_mut_unfold.
    rewrite (eval_mut_args_ren r ch IH c lg Hfun Hch).
    pose proof (eval_mut_args_same_funs ch (proj2 (Forall_forall _ _) (fun k _ => eval_mut_same_funs k)) c lg) as Hs.
    destruct (eval_mut_args O ch c lg) as [[[vs|e|s] c1] lg1]; cbn [ren_res rename_outcome fst snd] in *; try reflexivity.
    apply (op_eval_mut_ren_other r o vs c1 lg1 Hr (same_funs_never_vnf c c1 Hs Hfun) Ha Hnw).
Qed.

(* the read-only evaluator *)
Definition ro_ren (r : str -> str) (n : node) : Prop :=
  forall c lg, functions_never_variable_not_found c -> writes_are_targets n ->
    eval_ro O (rename_tree r n) (rename_ctx r c) lg = ren_res_ro r (eval_ro O n c lg).

Lemma eval_ro_args_ren r l : Forall (ro_ren r) l -> forall c lg,
  functions_never_variable_not_found c -> Forall writes_are_targets l ->
  eval_ro_args O (map (rename_tree r) l) (rename_ctx r c) lg = ren_res_ro r (eval_ro_args O l c lg).
Proof.
  induction 1 as [|k l Hk Hl IH]; intros c lg Hfun Hw; [reflexivity|].
  inversion Hw as [|k' l' Hwk Hwl]; subst k' l'.
  cbn [map eval_ro_args]. rewrite (Hk c lg Hfun Hwk).
  destruct (eval_ro O k c lg) as [[v|e|s] lg1]; cbn [ren_res_ro rename_outcome]; try reflexivity.
  rewrite (IH c lg1 Hfun Hwl).
  destruct (eval_ro_args O l c lg1) as [[vs|e|s] lg2]; reflexivity.
Qed.

Lemma op_eval_assign o vs c lg : is_assignment_op o = true ->
  op_eval O o vs c lg = (Err EContextNotMutable, lg).
Proof. destruct o; try discriminate; reflexivity. Qed.

Lemma eval_ro_ren r n : injective r -> ro_ren r n.
Proof.
  intros Hr. induction n as [o ch IH] using node_ind'. intros c lg Hfun Hw.
  inversion Hw as [o' x rest Ha Hrest|o' ch' Ha Hnw Hch]; subst.
  - inversion IH as [|k l _ IHrest]; subst.
    assert (Ho : rename_op r o = o) by (destruct o; try discriminate Ha; reflexivity).
    cbn [rename_tree map rename_op]. rewrite Ho, !eval_ro_unfold. cbn [eval_ro_args]. rewrite !leaf_write_eval_ro.
    rewrite (eval_ro_args_ren r rest IHrest c lg Hfun Hrest).
    destruct (eval_ro_args O rest c lg) as [[vs|e|s] lg1]; cbn [ren_res_ro rename_outcome]; try reflexivity.
    rewrite !(op_eval_assign o _ _ lg1 Ha). reflexivity.
  - cbn [rename_tree]. rewrite !eval_ro_unfold.
    rewrite (eval_ro_args_ren r ch IH c lg Hfun Hch).
    destruct (eval_ro_args O ch c lg) as [[vs|e|s] lg1]; cbn [ren_res_ro rename_outcome]; try reflexivity.
    apply (op_eval_ren r o vs c lg1 Hr Hfun Hnw).
Qed.

End WithOracle.

(* ------------------------------------------------------------------------------------------ *)
(* final forms                                                                                 *)
(* ------------------------------------------------------------------------------------------ *)

Lemma never_not_found_vnf c : functions_never_not_found c -> functions_never_variable_not_found c.
Proof. intros H f g a x Hin E. specialize (H f g a Hin). rewrite E in H. discriminate. Qed.

Section WithOracle.
Variable O : std_oracle.

Lemma rename_mut r n c lg : injective r -> functions_never_variable_not_found c -> writes_are_targets n ->
  eval_mut O (rename_tree r n) (rename_ctx r c) lg = rename_result r (eval_mut O n c lg).
Proof. intros Hr Hfun Hw. exact (eval_mut_ren O r n Hr c lg Hfun Hw). Qed.

Lemma rename_ro r n c lg : injective r -> functions_never_variable_not_found c -> writes_are_targets n ->
  eval_ro O (rename_tree r n) (rename_ctx r c) lg = rename_result_ro r (eval_ro O n c lg).
Proof. intros Hr Hfun Hw. exact (eval_ro_ren O r n Hr c lg Hfun Hw). Qed.

(* the same through the mutable iterator, for a tree whose root operator is not a variable (parser output) *)
Lemma rename_mut_iter r n c lg : injective r -> functions_never_variable_not_found c -> writes_are_targets n ->
  ident_var (nop n) = None ->
  eval_mut O (rename_with ident_var r n) (rename_ctx r c) lg = rename_result r (eval_mut O n c lg).
Proof. intros Hr Hfun Hw Hroot. rewrite (rename_with_var_tree r n Hroot). apply rename_mut; assumption. Qed.

Lemma rename_ro_iter r n c lg : injective r -> functions_never_variable_not_found c -> writes_are_targets n ->
  ident_var (nop n) = None ->
  eval_ro O (rename_with ident_var r n) (rename_ctx r c) lg = rename_result_ro r (eval_ro O n c lg).
Proof. intros Hr Hfun Hw Hroot. rewrite (rename_with_var_tree r n Hroot). apply rename_ro; assumption. Qed.

End WithOracle.

(* ---- the executable checkers ---- *)

Lemma is_write_leaf_spec t : is_write_leaf t = true -> exists x, t = Node (OVariableIdentifierWrite x) [].
Proof. destruct t as [o [|k l]]; destruct o; try discriminate. eauto. Qed.

Lemma targets_are_identifiersb_sound n : targets_are_identifiersb n = true -> targets_are_identifiers n.
Proof.
  induction n as [o ch IH] using node_ind'. cbn [targets_are_identifiersb]. intros H.
  apply andb_prop in H. destruct H as [H1 H2]. constructor.
  - intros Ha. rewrite Ha in H1. destruct ch as [|t rest]; [discriminate|].
    apply is_write_leaf_spec in H1. destruct H1 as [x ->]. eauto.
  - rewrite forallb_forall in H2. rewrite Forall_forall in *. intros k Hin. apply IH; [exact Hin|apply H2, Hin].
Qed.

Lemma writes_are_targetsb_sound n : writes_are_targetsb n = true -> writes_are_targets n.
Proof.
  induction n as [o ch IH] using node_ind'. cbn [writes_are_targetsb]. intros H.
  destruct (is_assignment_op o) eqn:Ea.
  - destruct ch as [|t rest]; [discriminate|]. apply andb_prop in H. destruct H as [H1 H2].
    apply is_write_leaf_spec in H1. destruct H1 as [x ->]. apply wat_assign; [exact Ea|].
    inversion IH as [|k l _ IHrest]; subst.
    rewrite forallb_forall in H2. rewrite Forall_forall in *. intros k Hin. apply IHrest; [exact Hin|apply H2, Hin].
  - apply wat_other; [exact Ea| |].
    + intros x ->. discriminate.
    + assert (H2 : forallb writes_are_targetsb ch = true) by (destruct o; try exact H; discriminate).
      rewrite forallb_forall in H2. rewrite Forall_forall in *. intros k Hin. apply IH; [exact Hin|apply H2, Hin].
Qed.

(* ---- statements as they appear in Props/C14.v ---- *)

Lemma preorder_all n :
  iter_all n = Ok (preorder_descendants n) /\ is_panic (iter_all n) = false /\
  length (preorder_descendants n) = pred (node_size n).
Proof.
  split; [apply iter_all_preorder|]. split; [apply iter_all_no_panic|].
  pose proof (preorder_length n) as H. unfold preorder in H. cbn [length] in H. lia.
Qed.

Lemma mut_same_all sel g n :
  preorder_descendants (rename_with sel g n) =
    map (map_all_ops (rewrite_ident sel g)) (preorder_descendants n) /\
  map nop (preorder_descendants (rename_with sel g n)) =
    map (fun d => rewrite_ident sel g (nop d)) (preorder_descendants n) /\
  nop (rename_with sel g n) = nop n /\
  same_shape n (rename_with sel g n) /\
  length (preorder_descendants (rename_with sel g n)) = length (preorder_descendants n).
Proof.
  split; [apply rename_with_preorder|]. split; [apply rename_with_ops|]. split; [apply rename_with_root|].
  split; [apply rename_with_shape|]. rewrite rename_with_preorder. apply map_length.
Qed.

Lemma mut_other_classes g n :
  (forall l, iter_function_identifiers n = Ok l -> iter_function_identifiers (rename_with ident_var g n) = Ok l) /\
  (forall l, iter_variable_identifiers n = Ok l -> iter_variable_identifiers (rename_with ident_fn g n) = Ok l) /\
  (forall l, iter_write_variable_identifiers n = Ok l -> iter_write_variable_identifiers (rename_with ident_read g n) = Ok l) /\
  (forall l, iter_read_variable_identifiers n = Ok l -> iter_read_variable_identifiers (rename_with ident_write g n) = Ok l).
Proof.
  repeat split; intros l H.
  - apply rename_with_var_keeps_fn, H. - apply rename_with_fn_keeps_var, H.
  - apply rename_with_read_keeps_write, H. - apply rename_with_write_keeps_read, H.
Qed.

Section WithOracle.
Variable O : std_oracle.

Lemma not_found_mut n c lg : functions_never_not_found c -> targets_are_identifiers n ->
  ident_any (nop n) = None ->
  (forall x, fst (fst (eval_mut O n c lg)) = Err (EVariableIdentifierNotFound x) ->
     exists l, iter_variable_identifiers n = Ok l /\ In x l) /\
  (forall f, fst (fst (eval_mut O n c lg)) = Err (EFunctionIdentifierNotFound f) ->
     (exists l, iter_function_identifiers n = Ok l /\ In f l) /\
     lookup_function c f = None /\
     (are_builtin_functions_disabled c = true \/ builtin_function O f = None)).
Proof.
  intros Hfun Ht Hroot. split.
  - intros x. apply not_found_var_mut; assumption.
  - intros f. apply not_found_fn_mut; assumption.
Qed.

Lemma not_found_ro n c lg : functions_never_not_found c -> ident_any (nop n) = None ->
  (forall x, fst (eval_ro O n c lg) = Err (EVariableIdentifierNotFound x) ->
     exists l, iter_read_variable_identifiers n = Ok l /\ In x l) /\
  (forall f, fst (eval_ro O n c lg) = Err (EFunctionIdentifierNotFound f) ->
     (exists l, iter_function_identifiers n = Ok l /\ In f l) /\
     lookup_function c f = None /\
     (are_builtin_functions_disabled c = true \/ builtin_function O f = None)).
Proof.
  intros Hfun Hroot. split.
  - intros x. apply not_found_var_ro; assumption.
  - intros f. apply not_found_fn_ro; assumption.
Qed.

End WithOracle.

Lemma builtins_never_not_found (O : std_oracle) (f : str) (b : value -> outcome value) (a : value) :
  builtin_function O f = Some b -> is_not_found (b a) = false.
Proof. intros H. apply clean_is_not_found. exact (clean_builtin O f b a H). Qed.

Lemma side_conditions :
  (forall n, writes_are_targets n -> targets_are_identifiers n) /\
  (forall c, functions_never_not_found c -> functions_never_variable_not_found c) /\
  (forall n, targets_are_identifiersb n = true -> targets_are_identifiers n) /\
  (forall n, writes_are_targetsb n = true -> writes_are_targets n).
Proof.
  exact (conj wat_tai (conj never_not_found_vnf (conj targets_are_identifiersb_sound writes_are_targetsb_sound))).
Qed.

Require Import Model.Builder Spec.OpTable Spec.Grammar.

(* ------------------------------------------------------------------------------------------ *)
(* C14_source_order                                                                            *)
(* ------------------------------------------------------------------------------------------ *)

Definition c14_opt_all {A} (P : A -> Prop) (o : option A) : Prop := match o with None => True | Some a => P a end.

Lemma c14_expr_ind (P : expr -> Prop) :
  (forall l, P (Lit l)) -> (forall x, P (Var x)) ->
  (forall o l r, P l -> P r -> P (Bin o l r)) ->
  (forall u e, P e -> P (Pre u e)) ->
  (forall a x e, P e -> P (Asg a x e)) ->
  (forall f a, P a -> P (Call f a)) ->
  (forall s, Forall (Forall (c14_opt_all P)) s -> P (Paren s)) ->
  forall e, P e.
Proof.
  intros HLit HVar HBin HPre HAsg HCall HParen. fix IH 1. intros [l|x|o l r|u e|a x e|f a|s].
  - apply HLit.
  - apply HVar.
  - apply HBin; apply IH.
  - apply HPre; apply IH.
  - apply HAsg; apply IH.
  - apply HCall; apply IH.
  - apply HParen.
    induction s as [|t s IHs]; constructor; [|exact IHs].
    induction t as [|el t IHt]; constructor; [|exact IHt].
    destruct el as [e|]; [apply IH|exact I].
Qed.

(* the occurrences of an expression, read off the AST from left to right *)
Definition elem_occ (eo : expr -> list occurrence) (el : option expr) : list occurrence :=
  match el with None => [] | Some e => eo e end.

Fixpoint expr_occurrences (e : expr) : list occurrence :=
  match e with
  | Lit _ => []
  | Var x => [(CRead, x)]
  | Bin _ l r => expr_occurrences l ++ expr_occurrences r
  | Pre _ e1 => expr_occurrences e1
  | Asg _ x e1 => (CWrite, x) :: expr_occurrences e1
  | Call f a => (CFunction, f) :: expr_occurrences a
  | Paren s => flat_map (flat_map (elem_occ expr_occurrences)) s
  end.

Definition seq_occurrences (s : seq) : list occurrence := flat_map (flat_map (elem_occ expr_occurrences)) s.

(* ---- the tree side ---- *)

Definition occ_forest (l : list node) : list occurrence :=
  flat_map (fun d => occurrence_of (nop d)) (forest_pre l).

Lemma occurrences_incl_eq n : occurrences_incl n = occurrence_of (nop n) ++ occ_forest (nch n).
Proof. unfold occurrences_incl, preorder, occ_forest. cbn [flat_map]. rewrite preorder_descendants_eq. reflexivity. Qed.

Lemma occurrences_eq n : occurrences n = occ_forest (nch n).
Proof. unfold occurrences, occ_forest. rewrite preorder_descendants_eq. reflexivity. Qed.

Lemma occ_forest_cons x l : occ_forest (x :: l) = occurrences_incl x ++ occ_forest l.
Proof.
  unfold occ_forest at 1. rewrite forest_pre_cons. cbn [flat_map]. rewrite flat_map_app, occurrences_incl_eq.
  rewrite <- app_assoc. reflexivity.
Qed.

Lemma occ_forest_nil : occ_forest [] = [].
Proof. reflexivity. Qed.

Lemma occ_forest_app l1 l2 : occ_forest (l1 ++ l2) = occ_forest l1 ++ occ_forest l2.
Proof. unfold occ_forest. rewrite forest_pre_app, flat_map_app. reflexivity. Qed.

Definition tree_ok (e : expr) : Prop := occurrences_incl (tree_of e) = expr_occurrences e.

Lemma elem_root_occ el : c14_opt_all tree_ok el ->
  occurrences_incl (elem_root_with tree_of el) = elem_occ expr_occurrences el.
Proof.
  intros H. unfold elem_root_with. rewrite occurrences_incl_eq. cbn [nop nch occurrence_of app].
  destruct el as [e|]; cbn [elem_occ]; [|reflexivity].
  rewrite occ_forest_cons, occ_forest_nil, app_nil_r. exact H.
Qed.

Lemma elem_roots_occ t : Forall (c14_opt_all tree_ok) t ->
  occ_forest (map (elem_root_with tree_of) t) = flat_map (elem_occ expr_occurrences) t.
Proof.
  induction 1 as [|el t Hel Ht IH]; [reflexivity|].
  cbn [map flat_map]. rewrite occ_forest_cons, IH, (elem_root_occ el Hel). reflexivity.
Qed.

Lemma tuple_node_occ t : Forall (c14_opt_all tree_ok) t ->
  occurrences_incl (Node OTuple (map (elem_root_with tree_of) t)) = flat_map (elem_occ expr_occurrences) t.
Proof. intros H. rewrite occurrences_incl_eq. cbn [nop nch occurrence_of app]. apply elem_roots_occ, H. Qed.

Lemma item_tree_occ t : Forall (c14_opt_all tree_ok) t ->
  occurrences_incl (item_tree_with tree_of t) = flat_map (elem_occ expr_occurrences) t.
Proof.
  intros H. unfold item_tree_with. destruct t as [|el [|el2 t]]; try apply (tuple_node_occ _ H).
  inversion H as [|? ? Hel _]; subst. cbn [flat_map]. rewrite app_nil_r. apply elem_root_occ, Hel.
Qed.

Lemma item_trees_occ s : Forall (Forall (c14_opt_all tree_ok)) s ->
  occ_forest (map (item_tree_with tree_of) s) = flat_map (flat_map (elem_occ expr_occurrences)) s.
Proof.
  induction 1 as [|t s Ht Hs IH]; [reflexivity|].
  cbn [map flat_map]. rewrite occ_forest_cons, IH, (item_tree_occ t Ht). reflexivity.
Qed.

Lemma seq_children_occ s : Forall (Forall (c14_opt_all tree_ok)) s ->
  occ_forest (seq_children_with tree_of s) = flat_map (flat_map (elem_occ expr_occurrences)) s.
Proof.
  intros H. unfold seq_children_with.
  assert (Hchain : occ_forest [Node OChain (map (item_tree_with tree_of) s)] =
                   flat_map (flat_map (elem_occ expr_occurrences)) s).
  { rewrite occ_forest_cons, occ_forest_nil, app_nil_r, occurrences_incl_eq. cbn [nop nch occurrence_of app].
    apply item_trees_occ, H. }
  destruct s as [|t [|t2 s]]; try exact Hchain.
  inversion H as [|? ? Ht _]; subst. cbn [flat_map]. rewrite app_nil_r.
  assert (Htuple : occ_forest [Node OTuple (map (elem_root_with tree_of) t)] = flat_map (elem_occ expr_occurrences) t).
  { rewrite occ_forest_cons, occ_forest_nil, app_nil_r. apply tuple_node_occ, Ht. }
  destruct t as [|el [|el2 t]]; try exact Htuple.
  inversion Ht as [|? ? Hel _]; subst. cbn [flat_map]. rewrite app_nil_r.
  destruct el as [e|]; cbn [elem_occ]; [|reflexivity].
  rewrite occ_forest_cons, occ_forest_nil, app_nil_r. exact Hel.
Qed.

Lemma tree_occurrences e : occurrences_incl (tree_of e) = expr_occurrences e.
Proof.
  change (tree_ok e).
  induction e as [l|x|o l r IHl IHr|u e IHe|a x e IHe|f a IHa|s IHs] using c14_expr_ind; unfold tree_ok in *.
  - destruct l; reflexivity.
  - reflexivity.
  - cbn [tree_of expr_occurrences]. rewrite occurrences_incl_eq. cbn [nop nch].
    rewrite !occ_forest_cons, occ_forest_nil, app_nil_r, IHl, IHr. destruct o; reflexivity.
  - cbn [tree_of expr_occurrences]. rewrite occurrences_incl_eq. cbn [nop nch].
    rewrite !occ_forest_cons, occ_forest_nil, app_nil_r, IHe. destruct u; reflexivity.
  - cbn [tree_of expr_occurrences]. rewrite occurrences_incl_eq. cbn [nop nch].
    rewrite !occ_forest_cons, occ_forest_nil, app_nil_r, IHe. destruct a; reflexivity.
  - cbn [tree_of expr_occurrences]. rewrite occurrences_incl_eq. cbn [nop nch].
    rewrite !occ_forest_cons, occ_forest_nil, app_nil_r, IHa. reflexivity.
  - cbn [tree_of expr_occurrences]. rewrite occurrences_incl_eq. cbn [nop nch occurrence_of app].
    apply seq_children_occ, IHs.
Qed.

Lemma all_tree_ok (s : seq) : Forall (Forall (c14_opt_all tree_ok)) s.
Proof.
  rewrite Forall_forall. intros t _. rewrite Forall_forall. intros [e|] _; [apply tree_occurrences|exact I].
Qed.

Lemma tree_seq_occurrences s : occurrences (tree_of_seq_top s) = seq_occurrences s.
Proof. unfold tree_of_seq_top. rewrite occurrences_eq. cbn [nch]. apply seq_children_occ, all_tree_ok. Qed.

(* ---- the token side ---- *)

(* what may follow a complete operand *)
Definition follows_ok (rest : list token) : Prop :=
  match rest with [] => True | t :: _ => assignment_token t = false /\ starts_operand t = false end.

(* a token sequence whose identifier classes do not depend on what follows, as long as that is
   not an assignment operator and not the start of an operand *)
Definition tok_part (p : list token) (occ : list occurrence) : Prop :=
  forall rest, follows_ok rest -> token_occurrences (p ++ rest) = occ ++ token_occurrences rest.

Definition is_separator (t : token) : Prop :=
  assignment_token t = false /\ starts_operand t = false /\ (forall x, t <> TIdentifier x).

Lemma token_occurrences_skip t ts : (forall x, t <> TIdentifier x) -> token_occurrences (t :: ts) = token_occurrences ts.
Proof. intros H. destruct t; try reflexivity. exfalso. exact (H s eq_refl). Qed.

Lemma token_occurrences_ident x ts :
  token_occurrences (TIdentifier x :: ts) = (class_by_next (hd_error ts), x) :: token_occurrences ts.
Proof. reflexivity. Qed.

Lemma tok_part_nil : tok_part [] [].
Proof. intros rest _. reflexivity. Qed.

Lemma tok_part_sep_parts sep parts occs : is_separator sep -> Forall2 tok_part parts occs ->
  forall rest, follows_ok rest ->
  token_occurrences (flat_map (fun q => sep :: q) parts ++ rest) = concat occs ++ token_occurrences rest /\
  follows_ok (flat_map (fun q => sep :: q) parts ++ rest).
Proof.
  intros (Hs1 & Hs2 & Hs3). induction 1 as [|p o parts occs Hp Hparts IH]; intros rest Hrest.
  - cbn [flat_map concat app]. split; [reflexivity|exact Hrest].
  - cbn [flat_map concat]. destruct (IH rest Hrest) as [IH1 IH2]. split.
    + rewrite <- app_assoc. cbn [app]. rewrite (token_occurrences_skip sep _ Hs3), <- app_assoc.
      rewrite (Hp _ IH2), IH1, app_assoc. reflexivity.
    + cbn [app follows_ok]. split; assumption.
Qed.

Lemma tok_part_join sep parts occs : is_separator sep -> Forall2 tok_part parts occs ->
  tok_part (join sep parts) (concat occs).
Proof.
  intros Hsep H. destruct H as [|p o parts occs Hp Hparts]; [exact tok_part_nil|].
  intros rest Hrest. cbn [join concat].
  destruct (tok_part_sep_parts sep parts occs Hsep Hparts rest Hrest) as [H1 H2].
  rewrite <- !app_assoc. rewrite (Hp _ H2), H1. reflexivity.
Qed.

Lemma concat_map_flat_map {A B} (f : A -> list B) l : concat (map f l) = flat_map f l.
Proof. induction l as [|a l IH]; [reflexivity|]. cbn [map concat flat_map]. rewrite IH. reflexivity. Qed.

Definition tok_ok (e : expr) : Prop := forall F, ok F e = true -> tok_part (flatten e) (expr_occurrences e).

Lemma comma_separator : is_separator TComma.
Proof. repeat split; discriminate. Qed.
Lemma semicolon_separator : is_separator TSemicolon.
Proof. repeat split; discriminate. Qed.

Lemma tok_part_tuple t : Forall (c14_opt_all tok_ok) t ->
  forallb (fun el => match el with None => true | Some e => ok [] e end) t = true ->
  tok_part (join TComma (map (fun el => match el with None => [] | Some e => flatten e end) t))
           (flat_map (elem_occ expr_occurrences) t).
Proof.
  intros Hall Hok. rewrite <- concat_map_flat_map. apply tok_part_join; [exact comma_separator|].
  induction Hall as [|el t Hel Ht IH]; cbn [map]; [constructor|].
  cbn [forallb] in Hok. apply andb_prop in Hok. destruct Hok as [Hok1 Hok2].
  constructor; [|exact (IH Hok2)].
  destruct el as [e|]; cbn [elem_occ]; [exact (Hel [] Hok1)|exact tok_part_nil].
Qed.

Lemma tok_part_seq s : Forall (Forall (c14_opt_all tok_ok)) s -> ok_seq_with (ok []) s = true ->
  tok_part (flatten_seq_with flatten s) (flat_map (flat_map (elem_occ expr_occurrences)) s).
Proof.
  intros Hall Hok. unfold flatten_seq_with. rewrite <- concat_map_flat_map.
  apply tok_part_join; [exact semicolon_separator|].
  unfold ok_seq_with in Hok. apply andb_prop in Hok. destruct Hok as [_ Hok].
  induction Hall as [|t s Ht Hs IH]; cbn [map]; [constructor|].
  cbn [forallb] in Hok. apply andb_prop in Hok. destruct Hok as [Hok1 Hok2].
  apply andb_prop in Hok1. destruct Hok1 as [_ Hok1].
  constructor; [exact (tok_part_tuple t Ht Hok1)|exact (IH Hok2)].
Qed.

Lemma binop_token_separator o : is_separator (tok_of_binop o).
Proof. destruct o; repeat split; discriminate. Qed.

Lemma is_arg_head a : is_arg a = true -> exists t ts, flatten a = t :: ts /\ assignment_token t = false /\ starts_operand t = true.
Proof.
  destruct a as [l|x|o l r|u e|a0 x e|f a0|s]; try discriminate; intros _; cbn [flatten].
  - destruct l; eexists; eexists; repeat split.
  - eexists; eexists; repeat split.
  - eexists; eexists; repeat split.
  - eexists; eexists; repeat split.
Qed.

Lemma tok_expr e : tok_ok e.
Proof.
  induction e as [l|x|o l r IHl IHr|u e IHe|a x e IHe|f a IHa|s IHs] using c14_expr_ind; intros F Hok.
  - intros rest _. cbn [flatten expr_occurrences app]. apply token_occurrences_skip. destruct l; discriminate.
  - intros rest Hrest. cbn [flatten expr_occurrences app]. rewrite token_occurrences_ident. f_equal. f_equal.
    destruct rest as [|t rest]; [reflexivity|]. destruct Hrest as [H1 H2]. cbn [hd_error class_by_next]. rewrite H1, H2. reflexivity.
  - cbn [ok] in Hok. apply andb_prop in Hok. destruct Hok as [Hok Hr]. apply andb_prop in Hok. destruct Hok as [Hok _].
    apply andb_prop in Hok. destruct Hok as [Hl _].
    intros rest Hrest. cbn [flatten expr_occurrences]. rewrite <- !app_assoc. cbn [app].
    destruct (binop_token_separator o) as (Hs1 & Hs2 & Hs3).
    rewrite (IHl F Hl); [|cbn [follows_ok]; split; assumption].
    rewrite (token_occurrences_skip _ _ Hs3), (IHr _ Hr rest Hrest). reflexivity.
  - cbn [ok] in Hok. intros rest Hrest. cbn [flatten expr_occurrences app].
    rewrite token_occurrences_skip by (destruct u; discriminate). exact (IHe _ Hok rest Hrest).
  - cbn [ok] in Hok. apply andb_prop in Hok. destruct Hok as [_ He].
    intros rest Hrest. cbn [flatten expr_occurrences app]. rewrite token_occurrences_ident.
    change (hd_error (tok_of_asgop a :: flatten e ++ rest)) with (Some (tok_of_asgop a)).
    assert (Ha : assignment_token (tok_of_asgop a) = true) by (destruct a; reflexivity).
    unfold class_by_next. rewrite Ha.
    rewrite token_occurrences_skip by (destruct a; discriminate). rewrite (IHe _ He rest Hrest). reflexivity.
  - cbn [ok] in Hok. apply andb_prop in Hok. destruct Hok as [Harg Ha].
    intros rest Hrest. cbn [flatten expr_occurrences app]. rewrite token_occurrences_ident.
    destruct (is_arg_head a Harg) as (t & ts & Ef & Ht1 & Ht2).
    rewrite (IHa _ Ha rest Hrest). f_equal. f_equal.
    rewrite Ef. cbn [app hd_error class_by_next]. rewrite Ht1, Ht2. reflexivity.
  - cbn [ok] in Hok. intros rest Hrest. cbn [flatten expr_occurrences app].
    rewrite token_occurrences_skip by discriminate. rewrite <- app_assoc.
    rewrite (tok_part_seq s IHs Hok); [|cbn [app follows_ok]; split; reflexivity].
    cbn [app]. rewrite token_occurrences_skip by discriminate. reflexivity.
Qed.

Lemma all_tok_ok (s : seq) : Forall (Forall (c14_opt_all tok_ok)) s.
Proof.
  rewrite Forall_forall. intros t _. rewrite Forall_forall. intros [e|] _; [apply tok_expr|exact I].
Qed.

(* ---- both sides together ---- *)

Lemma source_order_expr F e : ok F e = true ->
  occurrences_incl (tree_of e) = token_occurrences (flatten e) /\
  iter_identifiers (Node ORootNode [tree_of e]) = Ok (map snd (token_occurrences (flatten e))).
Proof.
  intros Hok.
  assert (H : occurrences_incl (tree_of e) = token_occurrences (flatten e)).
  { rewrite tree_occurrences. pose proof (tok_expr e F Hok [] I) as H. rewrite !app_nil_r in H. symmetry. exact H. }
  split; [exact H|].
  destruct (classes_occurrences (Node ORootNode [tree_of e])) as [-> _]. rewrite <- H.
  rewrite occurrences_eq. cbn [nch]. rewrite occ_forest_cons, occ_forest_nil, app_nil_r. reflexivity.
Qed.

Lemma source_order_seq s : ok_seq s ->
  occurrences (tree_of_seq_top s) = token_occurrences (flatten_seq s) /\
  iter_identifiers (tree_of_seq_top s) = Ok (map snd (token_occurrences (flatten_seq s))) /\
  iter_variable_identifiers (tree_of_seq_top s) = Ok (names is_variable (token_occurrences (flatten_seq s))) /\
  iter_read_variable_identifiers (tree_of_seq_top s) = Ok (names is_read (token_occurrences (flatten_seq s))) /\
  iter_write_variable_identifiers (tree_of_seq_top s) = Ok (names is_write (token_occurrences (flatten_seq s))) /\
  iter_function_identifiers (tree_of_seq_top s) = Ok (names is_function (token_occurrences (flatten_seq s))).
Proof.
  intros Hok.
  assert (H : occurrences (tree_of_seq_top s) = token_occurrences (flatten_seq s)).
  { rewrite tree_seq_occurrences. pose proof (tok_part_seq s (all_tok_ok s) Hok [] I) as H.
    rewrite !app_nil_r in H. symmetry. exact H. }
  split; [exact H|]. rewrite <- H. apply classes_occurrences.
Qed.

(* the classification by the next token is the one of the builder's token -> operator match *)
Lemma class_by_next_builder x next lr :
  token_to_operator (TIdentifier x) next lr = Some (op_of_class (class_by_next next) x).
Proof.
  destruct next as [t|]; [|reflexivity]. destruct t; reflexivity.
Qed.

(* the trees of the grammar satisfy the side conditions of C14_not_found and C14_rename *)
Definition wat_ok (e : expr) : Prop := writes_are_targets (tree_of e).

Lemma wat_elem_root el : c14_opt_all wat_ok el -> writes_are_targets (elem_root_with tree_of el).
Proof.
  intros H. unfold elem_root_with. apply wat_other; [reflexivity|discriminate|].
  destruct el as [e|]; [constructor; [exact H|constructor]|constructor].
Qed.

Lemma wat_elem_roots t : Forall (c14_opt_all wat_ok) t -> Forall writes_are_targets (map (elem_root_with tree_of) t).
Proof. induction 1 as [|el t Hel Ht IH]; cbn [map]; constructor; [apply wat_elem_root, Hel|exact IH]. Qed.

Lemma wat_item_tree t : Forall (c14_opt_all wat_ok) t -> writes_are_targets (item_tree_with tree_of t).
Proof.
  intros H. unfold item_tree_with.
  assert (Ht : writes_are_targets (Node OTuple (map (elem_root_with tree_of) t))).
  { apply wat_other; [reflexivity|discriminate|apply wat_elem_roots, H]. }
  destruct t as [|el [|el2 t]]; try exact Ht.
  inversion H as [|? ? Hel _]; subst. apply wat_elem_root, Hel.
Qed.

Lemma wat_seq_children s : Forall (Forall (c14_opt_all wat_ok)) s -> Forall writes_are_targets (seq_children_with tree_of s).
Proof.
  intros H. unfold seq_children_with.
  assert (Hc : Forall writes_are_targets [Node OChain (map (item_tree_with tree_of) s)]).
  { constructor; [|constructor]. apply wat_other; [reflexivity|discriminate|].
    induction H as [|t s Ht Hs IH]; cbn [map]; constructor; [apply wat_item_tree, Ht|exact IH]. }
  destruct s as [|t [|t2 s]]; try exact Hc.
  inversion H as [|? ? Ht _]; subst.
  assert (Htu : Forall writes_are_targets [Node OTuple (map (elem_root_with tree_of) t)]).
  { constructor; [|constructor]. apply wat_other; [reflexivity|discriminate|apply wat_elem_roots, Ht]. }
  destruct t as [|el [|el2 t]]; try exact Htu.
  inversion Ht as [|? ? Hel _]; subst. destruct el as [e|]; [constructor; [exact Hel|constructor]|constructor].
Qed.

Lemma wat_tree_of e : writes_are_targets (tree_of e).
Proof.
  change (wat_ok e).
  induction e as [l|x|o l r IHl IHr|u e IHe|a x e IHe|f a IHa|s IHs] using c14_expr_ind; unfold wat_ok in *; cbn [tree_of].
  - apply wat_other; [reflexivity|discriminate|constructor].
  - apply wat_other; [reflexivity|discriminate|constructor].
  - apply wat_other; [destruct o; reflexivity|destruct o; discriminate|]. constructor; [exact IHl|constructor; [exact IHr|constructor]].
  - apply wat_other; [destruct u; reflexivity|destruct u; discriminate|]. constructor; [exact IHe|constructor].
  - apply wat_assign; [destruct a; reflexivity|]. constructor; [exact IHe|constructor].
  - apply wat_other; [reflexivity|discriminate|]. constructor; [exact IHa|constructor].
  - apply wat_other; [reflexivity|discriminate|]. apply wat_seq_children, IHs.
Qed.

Lemma wat_tree_of_seq_top s : writes_are_targets (tree_of_seq_top s) /\ ident_any (nop (tree_of_seq_top s)) = None.
Proof.
  split; [|reflexivity]. unfold tree_of_seq_top. apply wat_other; [reflexivity|discriminate|].
  apply wat_seq_children. rewrite Forall_forall. intros t _. rewrite Forall_forall. intros [e|] _; [apply wat_tree_of|exact I].
Qed.
