(* C14: the explicit-stack iterators against the structural pre-order; identifier classes; the
   mutable iterators; NotFound errors name listed identifiers; renaming commutes with evaluation. *)
From Coq Require Import Floats.SpecFloat.
Require Import Model.Base Model.Syntax Model.F64 Model.Lexer Model.Value Model.Context Model.Builtins Model.Eval Model.Iter.
Require Import Spec.Preorder Proofs.Common.

(* ------------------------------------------------------------------------------------------ *)
(* node induction with the nested list                                                         *)
(* ------------------------------------------------------------------------------------------ *)

Lemma node_ind' (P : node -> Prop) :
  (forall o ch, Forall P ch -> P (Node o ch)) -> forall n, P n.
Proof.
  intros H. fix IH 1. intros [o ch]. apply H.
  induction ch as [|x ch IHch]; constructor; [apply IH|exact IHch].
Qed.

(* ------------------------------------------------------------------------------------------ *)
(* C14_preorder                                                                                *)
(* ------------------------------------------------------------------------------------------ *)

Definition forest_pre (l : list node) : list node := flat_map (fun c => c :: preorder_descendants c) l.
Definition stack_pre (st : list (list node)) : list node := flat_map forest_pre st.
Definition forest_size (l : list node) : nat := fold_right (fun c acc => node_size c + acc)%nat O l.
Definition stack_size (st : list (list node)) : nat := fold_right (fun l acc => forest_size l + acc)%nat O st.

Lemma preorder_descendants_eq n : preorder_descendants n = forest_pre (nch n).
Proof. destruct n as [o ch]. reflexivity. Qed.

Lemma node_size_eq n : node_size n = S (forest_size (nch n)).
Proof. destruct n as [o ch]. reflexivity. Qed.

Lemma forest_pre_cons x l : forest_pre (x :: l) = x :: forest_pre (nch x) ++ forest_pre l.
Proof. unfold forest_pre at 1. cbn [flat_map]. rewrite preorder_descendants_eq. reflexivity. Qed.

Lemma iter_next_none st : iter_next st = None -> stack_pre st = [] /\ stack_size st = O.
Proof.
  induction st as [|l st IH]; cbn [iter_next]; [intros _; split; reflexivity|].
  destruct l as [|x rest]; [|discriminate].
  intros H. apply IH in H. destruct H as [H1 H2]. cbn. split; assumption.
Qed.

Lemma iter_next_some st x st' : iter_next st = Some (x, st') ->
  stack_pre st = x :: stack_pre st' /\ stack_size st = S (stack_size st').
Proof.
  induction st as [|l st IH]; cbn [iter_next]; [discriminate|].
  destruct l as [|y rest].
  - intros H. apply IH in H. destruct H as [H1 H2]. cbn. split; assumption.
  - intros H. injection H as <- <-.
    unfold stack_pre, stack_size. cbn [flat_map fold_right forest_size].
    fold (forest_size rest). fold (forest_size (nch y)).
    rewrite forest_pre_cons, node_size_eq.
    split; [|lia].
    cbn [app]. rewrite <- !app_assoc. reflexivity.
Qed.

(* the generalisation over the stack: enough fuel = at least the number of nodes still pending *)
Lemma iter_collect_spec fuel : forall st, (stack_size st <= fuel)%nat ->
  iter_collect fuel st = Ok (stack_pre st).
Proof.
  induction fuel as [|f IH]; intros st Hsz.
  - cbn [iter_collect]. destruct (iter_next st) as [[x st']|] eqn:E.
    + apply iter_next_some in E. lia.
    + apply iter_next_none in E. destruct E as [-> _]. reflexivity.
  - cbn [iter_collect]. destruct (iter_next st) as [[x st']|] eqn:E.
    + apply iter_next_some in E. destruct E as [E1 E2].
      rewrite IH by lia. cbn [bind]. rewrite E1. reflexivity.
    + apply iter_next_none in E. destruct E as [-> _]. reflexivity.
Qed.

Lemma iter_all_preorder n : iter_all n = Ok (preorder_descendants n).
Proof.
  unfold iter_all. rewrite iter_collect_spec.
  - unfold stack_pre. cbn [flat_map]. rewrite app_nil_r, preorder_descendants_eq. reflexivity.
  - rewrite node_size_eq. cbn [stack_size fold_right]. lia.
Qed.

(* the statement over an arbitrary stack, in Spec vocabulary only *)
Lemma iter_collect_stack fuel st :
  (fold_right (fun l acc => fold_right (fun c acc' => node_size c + acc') O l + acc) O st <= fuel)%nat ->
  iter_collect fuel st = Ok (flat_map (flat_map preorder) st).
Proof. exact (iter_collect_spec fuel st). Qed.

Lemma iter_all_no_panic n : is_panic (iter_all n) = false.
Proof. rewrite iter_all_preorder. reflexivity. Qed.

Lemma preorder_length n : length (preorder n) = node_size n.
Proof.
  induction n as [o ch IH] using node_ind'. unfold preorder.
  rewrite node_size_eq, preorder_descendants_eq. cbn [length nch]. f_equal.
  induction IH as [|x l Hx Hl IHl]; [reflexivity|].
  rewrite forest_pre_cons. cbn [length forest_size fold_right]. fold (forest_size l).
  rewrite app_length, IHl, <- preorder_descendants_eq. unfold preorder in Hx. cbn [length] in Hx. lia.
Qed.

(* ------------------------------------------------------------------------------------------ *)
(* C14_classes                                                                                 *)
(* ------------------------------------------------------------------------------------------ *)

Lemma iter_with_spec sel n :
  iter_with sel n = Ok (filter_map (fun x => sel (nop x)) (preorder_descendants n)).
Proof. unfold iter_with. rewrite iter_all_preorder. reflexivity. Qed.

Lemma names_app p l1 l2 : names p (l1 ++ l2) = names p l1 ++ names p l2.
Proof. unfold names. rewrite filter_app, map_app. reflexivity. Qed.

(* a selector of the code against a class predicate of the spec *)
Definition sel_matches (sel : operator -> option str) (p : ident_class -> bool) : Prop :=
  forall o, match sel o with Some s => [s] | None => [] end = names p (occurrence_of o).

Lemma filter_map_names sel p l : sel_matches sel p ->
  filter_map (fun x => sel (nop x)) l = names p (flat_map (fun d => occurrence_of (nop d)) l).
Proof.
  intros Hm. induction l as [|x l IH]; [reflexivity|].
  cbn [filter_map flat_map]. rewrite names_app, <- IH, <- (Hm (nop x)).
  destruct (sel (nop x)); reflexivity.
Qed.

Lemma sel_any : sel_matches ident_any (fun _ => true).
Proof. intros o; destruct o; reflexivity. Qed.
Lemma sel_var : sel_matches ident_var is_variable.
Proof. intros o; destruct o; reflexivity. Qed.
Lemma sel_read : sel_matches ident_read is_read.
Proof. intros o; destruct o; reflexivity. Qed.
Lemma sel_write : sel_matches ident_write is_write.
Proof. intros o; destruct o; reflexivity. Qed.
Lemma sel_fn : sel_matches ident_fn is_function.
Proof. intros o; destruct o; reflexivity. Qed.

Lemma iter_with_names sel p n : sel_matches sel p -> iter_with sel n = Ok (names p (occurrences n)).
Proof. intros Hm. rewrite iter_with_spec. unfold occurrences. rewrite (filter_map_names sel p _ Hm). reflexivity. Qed.

Lemma names_all l : names (fun _ => true) l = map snd l.
Proof. unfold names. induction l as [|x l IH]; [reflexivity|]. cbn [filter map]. rewrite IH. reflexivity. Qed.

Lemma classes_filter_map n :
  iter_identifiers n = Ok (filter_map (fun d => ident_any (nop d)) (preorder_descendants n)) /\
  iter_variable_identifiers n = Ok (filter_map (fun d => ident_var (nop d)) (preorder_descendants n)) /\
  iter_read_variable_identifiers n = Ok (filter_map (fun d => ident_read (nop d)) (preorder_descendants n)) /\
  iter_write_variable_identifiers n = Ok (filter_map (fun d => ident_write (nop d)) (preorder_descendants n)) /\
  iter_function_identifiers n = Ok (filter_map (fun d => ident_fn (nop d)) (preorder_descendants n)).
Proof. repeat split; apply iter_with_spec. Qed.

Lemma classes_occurrences n :
  iter_identifiers n = Ok (map snd (occurrences n)) /\
  iter_variable_identifiers n = Ok (names is_variable (occurrences n)) /\
  iter_read_variable_identifiers n = Ok (names is_read (occurrences n)) /\
  iter_write_variable_identifiers n = Ok (names is_write (occurrences n)) /\
  iter_function_identifiers n = Ok (names is_function (occurrences n)).
Proof.
  repeat split.
  - rewrite <- names_all. apply iter_with_names, sel_any.
  - apply iter_with_names, sel_var.
  - apply iter_with_names, sel_read.
  - apply iter_with_names, sel_write.
  - apply iter_with_names, sel_fn.
Qed.

Lemma names_subseq (p q : ident_class -> bool) l : (forall k, p k = true -> q k = true) ->
  subseq (names p l) (names q l).
Proof.
  intros Hpq. unfold names. induction l as [|[k s] l IH]; [constructor|].
  cbn [filter fst]. destruct (p k) eqn:Ep.
  - rewrite (Hpq k Ep). cbn [map snd]. constructor. exact IH.
  - destruct (q k); cbn [map snd]; [constructor|]; exact IH.
Qed.

Lemma names_interleave (p q pq : ident_class -> bool) l :
  (forall k, pq k = p k || q k) -> (forall k, p k && q k = false) ->
  interleave (names p l) (names q l) (names pq l).
Proof.
  intros Hor Hdis. unfold names. induction l as [|[k s] l IH]; [constructor|].
  cbn [filter fst]. rewrite Hor. specialize (Hdis k).
  destruct (p k), (q k); cbn [orb map snd]; try discriminate; try constructor; exact IH.
Qed.

(* the class-specific lists as sub-sequences / interleavings of one another *)
Lemma classes_subseq n : forall ids vars reads writes funs,
  iter_identifiers n = Ok ids -> iter_variable_identifiers n = Ok vars ->
  iter_read_variable_identifiers n = Ok reads -> iter_write_variable_identifiers n = Ok writes ->
  iter_function_identifiers n = Ok funs ->
  subseq vars ids /\ subseq funs ids /\ subseq reads vars /\ subseq writes vars /\
  interleave reads writes vars /\ interleave vars funs ids.
Proof.
  intros ids vars reads writes funs H1 H2 H3 H4 H5.
  destruct (classes_occurrences n) as (E1 & E2 & E3 & E4 & E5).
  rewrite E1 in H1. rewrite E2 in H2. rewrite E3 in H3. rewrite E4 in H4. rewrite E5 in H5.
  injection H1 as <-. injection H2 as <-. injection H3 as <-. injection H4 as <-. injection H5 as <-.
  rewrite <- names_all.
  repeat split.
  - apply names_subseq. reflexivity.
  - apply names_subseq. reflexivity.
  - apply names_subseq. intros [| |]; auto.
  - apply names_subseq. intros [| |]; auto.
  - apply names_interleave; intros [| |]; reflexivity.
  - apply names_interleave; intros [| |]; reflexivity.
Qed.

Lemma iter_with_total sel n : exists l, iter_with sel n = Ok l.
Proof. eexists. apply iter_with_spec. Qed.

(* ------------------------------------------------------------------------------------------ *)
(* C14_mut_same                                                                                *)
(* ------------------------------------------------------------------------------------------ *)

Lemma nop_map_all_ops f n : nop (map_all_ops f n) = f (nop n).
Proof. destruct n; reflexivity. Qed.

Lemma nch_map_all_ops f n : nch (map_all_ops f n) = map (map_all_ops f) (nch n).
Proof. destruct n; reflexivity. Qed.

Lemma forest_pre_app l1 l2 : forest_pre (l1 ++ l2) = forest_pre l1 ++ forest_pre l2.
Proof. unfold forest_pre. apply flat_map_app. Qed.

Lemma preorder_map_all_ops f n :
  preorder_descendants (map_all_ops f n) = map (map_all_ops f) (preorder_descendants n).
Proof.
  induction n as [o ch IH] using node_ind'.
  rewrite !preorder_descendants_eq, nch_map_all_ops. cbn [nch].
  induction IH as [|x l Hx Hl IHl]; [reflexivity|].
  cbn [map]. rewrite !forest_pre_cons, IHl. cbn [map]. rewrite map_app. f_equal. f_equal.
  rewrite <- !preorder_descendants_eq. exact Hx.
Qed.

Lemma preorder_map_desc_ops f n :
  preorder_descendants (map_desc_ops f n) = map (map_all_ops f) (preorder_descendants n).
Proof.
  destruct n as [o ch]. change (map_desc_ops f (Node o ch)) with (Node o (map (map_all_ops f) ch)).
  rewrite <- (preorder_map_all_ops f (Node o ch)). reflexivity.
Qed.

Lemma same_shape_map_all_ops f n : same_shape n (map_all_ops f n).
Proof.
  induction n as [o ch IH] using node_ind'. cbn [map_all_ops]. constructor.
  induction IH as [|x l Hx Hl IHl]; cbn [map]; constructor; assumption.
Qed.

Lemma same_shape_map_desc_ops f n : same_shape n (map_desc_ops f n).
Proof.
  destruct n as [o ch]. cbn [map_desc_ops]. constructor.
  induction ch as [|x l IHl]; cbn [map]; constructor; [apply same_shape_map_all_ops|exact IHl].
Qed.

Lemma map_all_ops_id f n : (forall o, f o = o) -> map_all_ops f n = n.
Proof.
  intros Hf. induction n as [o ch IH] using node_ind'. cbn [map_all_ops]. rewrite Hf. f_equal.
  induction IH as [|x l Hx Hl IHl]; [reflexivity|]. cbn [map]. rewrite Hx, IHl. reflexivity.
Qed.

(* what rewrite_ident does to one operator, in Spec vocabulary *)
Lemma rewrite_ident_spec sel g o :
  rewrite_ident sel g o =
  match sel o, occurrence_of o with
  | Some _, (_, s) :: _ => set_name o (g s)
  | _, _ => o
  end.
Proof. unfold rewrite_ident. destruct (sel o); destruct o; reflexivity. Qed.

Lemma rewrite_ident_id sel g o : (forall s, g s = s) -> rewrite_ident sel g o = o.
Proof. intros Hg. unfold rewrite_ident. destruct (sel o); destruct o; rewrite ?Hg; reflexivity. Qed.

Lemma rename_with_preorder sel g n :
  preorder_descendants (rename_with sel g n) =
  map (map_all_ops (rewrite_ident sel g)) (preorder_descendants n).
Proof. apply preorder_map_desc_ops. Qed.

Lemma rename_with_ops sel g n :
  map nop (preorder_descendants (rename_with sel g n)) =
  map (fun d => rewrite_ident sel g (nop d)) (preorder_descendants n).
Proof.
  rewrite rename_with_preorder, map_map. apply map_ext. intros d. apply nop_map_all_ops.
Qed.

Lemma rename_with_root sel g n : nop (rename_with sel g n) = nop n.
Proof. destruct n; reflexivity. Qed.

Lemma rename_with_shape sel g n : same_shape n (rename_with sel g n).
Proof. apply same_shape_map_desc_ops. Qed.

Lemma rename_with_id sel g n : (forall s, g s = s) -> rename_with sel g n = n.
Proof.
  intros Hg. destruct n as [o ch]. unfold rename_with. cbn [map_desc_ops]. f_equal.
  induction ch as [|x l IHl]; [reflexivity|]. cbn [map].
  rewrite IHl, map_all_ops_id; [reflexivity|]. intros o'. apply rewrite_ident_id, Hg.
Qed.

(* the immutable iterator after a loop over the mutable one *)
Lemma filter_map_map {A B C} (h : A -> A) (f : A -> option B) (k : B -> C) (f' : A -> option C) l :
  (forall a, f' (h a) = option_map k (f a)) ->
  filter_map f' (map h l) = map k (filter_map f l).
Proof.
  intros H. induction l as [|a l IH]; [reflexivity|].
  cbn [map filter_map]. rewrite H. destruct (f a); cbn [option_map map]; rewrite IH; reflexivity.
Qed.

Lemma iter_with_rename_with sel' sel g k n :
  (forall o, sel' (rewrite_ident sel g o) = option_map k (sel' o)) ->
  forall l, iter_with sel' n = Ok l -> iter_with sel' (rename_with sel g n) = Ok (map k l).
Proof.
  intros H l. rewrite !iter_with_spec, rename_with_preorder. intros E. injection E as <-. f_equal.
  apply (filter_map_map (map_all_ops (rewrite_ident sel g)) (fun x => sel' (nop x)) k).
  intros a. rewrite nop_map_all_ops. apply H.
Qed.

Definition selectors : list (operator -> option str) := [ident_any; ident_var; ident_read; ident_write; ident_fn].

(* each mutable iterator visits exactly the occurrences its immutable twin lists *)
Lemma rename_with_same sel g n l : In sel selectors ->
  iter_with sel n = Ok l -> iter_with sel (rename_with sel g n) = Ok (map g l).
Proof.
  intros Hin. apply iter_with_rename_with.
  cbn in Hin. destruct Hin as [<-|[<-|[<-|[<-|[<-|[]]]]]]; intros o; destruct o; reflexivity.
Qed.

(* ... and leaves the identifiers of the other classes alone *)
Lemma rename_with_var_keeps_fn g n l :
  iter_function_identifiers n = Ok l -> iter_function_identifiers (rename_with ident_var g n) = Ok l.
Proof.
  intros H. unfold iter_function_identifiers. rewrite <- (map_id l).
  apply iter_with_rename_with; [|exact H]. intros o; destruct o; reflexivity.
Qed.

Lemma rename_with_fn_keeps_var g n l :
  iter_variable_identifiers n = Ok l -> iter_variable_identifiers (rename_with ident_fn g n) = Ok l.
Proof.
  intros H. unfold iter_variable_identifiers. rewrite <- (map_id l).
  apply iter_with_rename_with; [|exact H]. intros o; destruct o; reflexivity.
Qed.

Lemma rename_with_read_keeps_write g n l :
  iter_write_variable_identifiers n = Ok l -> iter_write_variable_identifiers (rename_with ident_read g n) = Ok l.
Proof.
  intros H. unfold iter_write_variable_identifiers. rewrite <- (map_id l).
  apply iter_with_rename_with; [|exact H]. intros o; destruct o; reflexivity.
Qed.

Lemma rename_with_write_keeps_read g n l :
  iter_read_variable_identifiers n = Ok l -> iter_read_variable_identifiers (rename_with ident_write g n) = Ok l.
Proof.
  intros H. unfold iter_read_variable_identifiers. rewrite <- (map_id l).
  apply iter_with_rename_with; [|exact H]. intros o; destruct o; reflexivity.
Qed.

(* the variable renaming of the Spec is the loop over iter_variable_identifiers_mut *)
Lemma rename_tree_map_all_ops r n : rename_tree r n = map_all_ops (rewrite_ident ident_var r) n.
Proof.
  induction n as [o ch IH] using node_ind'. cbn [rename_tree map_all_ops]. f_equal.
  - destruct o; reflexivity.
  - induction IH as [|x l Hx Hl IHl]; [reflexivity|]. cbn [map]. rewrite Hx, IHl. reflexivity.
Qed.

Lemma rename_with_var_children r o ch :
  rename_with ident_var r (Node o ch) = Node o (map (rename_tree r) ch).
Proof.
  unfold rename_with. cbn [map_desc_ops]. f_equal. apply map_ext. intros a. symmetry. apply rename_tree_map_all_ops.
Qed.

Lemma rename_with_var_tree r n : ident_var (nop n) = None -> rename_with ident_var r n = rename_tree r n.
Proof.
  destruct n as [o ch]. cbn [nop]. intros H. rewrite rename_with_var_children. cbn [rename_tree]. f_equal.
  destruct o; try reflexivity; discriminate.
Qed.
