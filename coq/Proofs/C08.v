(* C08: the two tree evaluators against the big-step reference relation of Spec/RefEval.v. *)
From Coq Require Import Floats.SpecFloat.
Require Import Model.Base Model.Syntax Model.F64 Model.Lexer Model.Value Model.Context Model.Builtins Model.Eval.
Require Import Spec.RefEval Proofs.Common.

(* induction principle for trees with the nested child list *)
Lemma node_ind' (P : node -> Prop) :
  (forall o ch, Forall P ch -> P (Node o ch)) -> forall n, P n.
Proof.
  intros H. fix IH 1. intros [o ch]. apply H.
  induction ch as [|x l IHl]; constructor; [apply IH|exact IHl].
Qed.

Section WithOracle.
Variable O : std_oracle.

(* ---- the inner `fix args` of the evaluators as standalone functions ---- *)
Fixpoint eval_args_mut (l : list node) (c : ctx) (lg : log) : outcome (list value) * ctx * log :=
  match l with
  | [] => (Ok [], c, lg)
  | x :: l' =>
      match eval_mut O x c lg with
      | (Ok v, c1, lg1) =>
          match eval_args_mut l' c1 lg1 with
          | (Ok vs, c2, lg2) => (Ok (v :: vs), c2, lg2)
          | r => r
          end
      | (Err e, c1, lg1) => (Err e, c1, lg1)
      | (Panic s, c1, lg1) => (Panic s, c1, lg1)
      end
  end.

(* (c is not an argument of the inner fix of eval_ro, so it is kept outside here as well) *)
Definition eval_args_ro (l : list node) (c : ctx) (lg : log) : outcome (list value) * log :=
  (fix args (l : list node) (lg : log) : outcome (list value) * log :=
     match l with
     | [] => (Ok [], lg)
     | x :: l' =>
         match eval_ro O x c lg with
         | (Ok v, lg1) =>
             match args l' lg1 with
             | (Ok vs, lg2) => (Ok (v :: vs), lg2)
             | r => r
             end
         | (Err e, lg1) => (Err e, lg1)
         | (Panic s, lg1) => (Panic s, lg1)
         end
     end) l lg.

Lemma eval_args_ro_nil c lg : eval_args_ro [] c lg = (Ok [], lg).
Proof. reflexivity. Qed.

Lemma eval_args_ro_cons x l c lg :
  eval_args_ro (x :: l) c lg =
  match eval_ro O x c lg with
  | (Ok v, lg1) =>
      match eval_args_ro l c lg1 with
      | (Ok vs, lg2) => (Ok (v :: vs), lg2)
      | r => r
      end
  | (Err e, lg1) => (Err e, lg1)
  | (Panic s, lg1) => (Panic s, lg1)
  end.
Proof. reflexivity. Qed.

Lemma eval_args_mut_cons x l c lg :
  eval_args_mut (x :: l) c lg =
  match eval_mut O x c lg with
  | (Ok v, c1, lg1) =>
      match eval_args_mut l c1 lg1 with
      | (Ok vs, c2, lg2) => (Ok (v :: vs), c2, lg2)
      | r => r
      end
  | (Err e, c1, lg1) => (Err e, c1, lg1)
  | (Panic s, c1, lg1) => (Panic s, c1, lg1)
  end.
Proof. reflexivity. Qed.

Lemma eval_mut_node o ch c lg :
  eval_mut O (Node o ch) c lg =
  match eval_args_mut ch c lg with
  | (Ok vs, c1, lg1) => op_eval_mut O o vs c1 lg1
  | (Err e, c1, lg1) => (Err e, c1, lg1)
  | (Panic s, c1, lg1) => (Panic s, c1, lg1)
  end.
Proof. reflexivity. Qed.

Lemma eval_ro_node o ch c lg :
  eval_ro O (Node o ch) c lg =
  match eval_args_ro ch c lg with
  | (Ok vs, lg1) => op_eval O o vs c lg1
  | (Err e, lg1) => (Err e, lg1)
  | (Panic s, lg1) => (Panic s, lg1)
  end.
Proof. reflexivity. Qed.


(* ---- the operator dispatchers ---- *)
Lemma arity_ne (vs : list value) (k : nat) : length vs <> k ->
  expect_operator_argument_amount (nargs vs) (N.of_nat k) =
  Err (EWrongOperatorArgumentAmount (N.of_nat k) (nargs vs)).
Proof.
  intros Hlen. unfold expect_operator_argument_amount, nargs.
  destruct (N.eqb_spec (N.of_nat (length vs)) (N.of_nat k)) as [Heq|Hne]; [|reflexivity].
  apply Nat2N.inj in Heq. contradiction.
Qed.

Lemma arity_eq (vs : list value) (k : nat) : length vs = k ->
  expect_operator_argument_amount (nargs vs) (N.of_nat k) = Ok tt.
Proof.
  intros Hlen. unfold expect_operator_argument_amount, nargs. rewrite Hlen, N.eqb_refl. reflexivity.
Qed.

(* an operator that is not a call leaves the log alone *)
Lemma op_eval_pure o vs c lg : is_call o = false ->
  op_eval O o vs c lg = (fst (op_eval O o vs c lg), lg).
Proof. intros Hc. destruct o; try reflexivity. discriminate Hc. Qed.

Lemma op_eval_call_1 f a c lg :
  op_eval O (OFunctionIdentifier f) [a] c lg = call_function O c lg f a.
Proof. reflexivity. Qed.

Lemma op_eval_call_arity f vs c lg : length vs <> 1%nat ->
  op_eval O (OFunctionIdentifier f) vs c lg = (Err (EWrongOperatorArgumentAmount 1 (nargs vs)), lg).
Proof.
  intros Hlen. unfold op_eval. change 1%N with (N.of_nat 1). rewrite (arity_ne vs 1 Hlen). reflexivity.
Qed.

(* a call is logged iff the context has a user function of that name; the entry goes to the END of the log *)
Lemma call_function_log c lg f a :
  snd (call_function O c lg f a) =
  lg ++ match lookup_function c f with Some _ => [(f, a)] | None => [] end.
Proof.
  unfold call_function. destruct (lookup_function c f) as [g|].
  - destruct (g a) as [v|e|s]; try reflexivity.
    destruct e; try reflexivity.
    destruct (are_builtin_functions_disabled c); [reflexivity|].
    destruct (builtin_function O f); reflexivity.
  - rewrite app_nil_r. destruct (are_builtin_functions_disabled c); [reflexivity|].
    destruct (builtin_function O f); reflexivity.
Qed.

(* the result of a call does not depend on the log *)
Lemma call_function_fst c lg lg' f a :
  fst (call_function O c lg f a) = fst (call_function O c lg' f a).
Proof.
  unfold call_function. destruct (lookup_function c f) as [g|].
  - destruct (g a) as [v|e|s]; try reflexivity.
    destruct e; try reflexivity.
    destruct (are_builtin_functions_disabled c); [reflexivity|].
    destruct (builtin_function O f); reflexivity.
  - destruct (are_builtin_functions_disabled c); [reflexivity|].
    destruct (builtin_function O f); reflexivity.
Qed.

Lemma op_eval_fst o vs c lg lg' : fst (op_eval O o vs c lg) = fst (op_eval O o vs c lg').
Proof.
  destruct o; try reflexivity.
  unfold op_eval. destruct (expect_operator_argument_amount (nargs vs) 1); try reflexivity.
  destruct (arg vs 0 76); try reflexivity. apply call_function_fst.
Qed.

Lemma op_eval_log o vs c lg : snd (op_eval O o vs c lg) = lg ++ own_log o vs c.
Proof.
  destruct (is_call o) eqn:Hc.
  - destruct o; try discriminate Hc. rename s into f.
    destruct vs as [|a [|b vs]].
    + rewrite op_eval_call_arity by (cbn; lia). cbn. now rewrite app_nil_r.
    + rewrite op_eval_call_1. apply call_function_log.
    + rewrite op_eval_call_arity by (cbn; lia). cbn. now rewrite app_nil_r.
  - rewrite op_eval_pure by exact Hc. cbn [snd].
    destruct o; try discriminate Hc; cbn; now rewrite app_nil_r.
Qed.

Definition finish_mut (c : ctx) (lg : log) (r : outcome ctx) : outcome value * ctx * log :=
  match r with Ok c' => (Ok VEmpty, c', lg) | Err e => (Err e, c, lg) | Panic s => (Panic s, c, lg) end.

Lemma op_eval_mut_assign vs c lg :
  op_eval_mut O OAssign vs c lg =
  finish_mut c lg (do _ <- expect_operator_argument_amount (nargs vs) 2;
                   do a0 <- arg vs 0 77; do target <- as_string a0;
                   do v <- arg vs 1 78;
                   set_value c target v).
Proof. reflexivity. Qed.

Lemma op_eval_mut_opassign o b vs c lg : assign_base o = Some b ->
  op_eval_mut O o vs c lg =
  finish_mut c lg (do _ <- expect_operator_argument_amount (nargs vs) 2;
                   do a0 <- arg vs 0 79; do target <- as_string a0;
                   do left <- match get_value c target with
                              | Some v => Ok v
                              | None => Err (EVariableIdentifierNotFound target)
                              end;
                   do right <- arg vs 1 80;
                   do result <- fst (op_eval O b [left; right] c lg);
                   set_value c target result).
Proof.
  intros Hb. destruct o; try discriminate Hb; injection Hb as <-; reflexivity.
Qed.

Lemma op_eval_mut_other o vs c lg : is_assign o = false ->
  op_eval_mut O o vs c lg = (fst (op_eval O o vs c lg), c, snd (op_eval O o vs c lg)).
Proof.
  intros Ha. destruct o; try discriminate Ha; unfold op_eval_mut;
    destruct (op_eval O _ vs c lg); reflexivity.
Qed.

Lemma is_assign_cases o : is_assign o = true -> o = OAssign \/ exists b, assign_base o = Some b.
Proof. destruct o; try discriminate; intros _; [left; reflexivity|right; eexists; reflexivity ..]. Qed.

Lemma assign_base_is_assign o b : assign_base o = Some b -> is_assign o = true.
Proof. destruct o; try discriminate; reflexivity. Qed.

Lemma assign_base_not_assign o b : assign_base o = Some b -> is_assign b = false /\ is_call b = false.
Proof. destruct o; try discriminate; intros H; injection H as <-; split; reflexivity. Qed.

Lemma finish_stopped c lg s : finish_mut c lg (stopped s) = (stopped s, c, lg).
Proof. destruct s; reflexivity. Qed.

(* the model's mutable dispatcher is exactly the relation apply_op *)
Lemma apply_sound o vs c lg r c' lg' :
  apply_op O o vs c lg r c' lg' -> op_eval_mut O o vs c lg = (r, c', lg').
Proof.
  intros H. destruct H as
    [o vs c lg Ha Hc | f a c lg | f vs c lg Hlen
    | x v c lg c' Hset | x v c lg s Hset
    | o b x v c lg left res c' Hb Hget Hop Hset
    | o b x v c lg left res s Hb Hget Hop Hset
    | o b x v c lg left s Hb Hget Hop
    | o b x v c lg Hb Hget
    | o vs c lg Ha Hlen
    | o t v c lg Ha Ht].
  - rewrite op_eval_mut_other by exact Ha. rewrite op_eval_pure by exact Hc. reflexivity.
  - rewrite op_eval_mut_other by reflexivity. rewrite op_eval_call_1, call_function_log. reflexivity.
  - rewrite op_eval_mut_other by reflexivity. rewrite op_eval_call_arity by exact Hlen. reflexivity.
  - rewrite op_eval_mut_assign. cbn. rewrite Hset. reflexivity.
  - rewrite op_eval_mut_assign. cbn. rewrite Hset. apply finish_stopped.
  - rewrite (op_eval_mut_opassign _ _ _ _ _ Hb). cbn. rewrite Hget. cbn. rewrite Hop. cbn. rewrite Hset. reflexivity.
  - rewrite (op_eval_mut_opassign _ _ _ _ _ Hb). cbn. rewrite Hget. cbn. rewrite Hop. cbn. rewrite Hset.
    apply finish_stopped.
  - rewrite (op_eval_mut_opassign _ _ _ _ _ Hb). cbn. rewrite Hget. cbn. rewrite Hop.
    destruct s; reflexivity.
  - rewrite (op_eval_mut_opassign _ _ _ _ _ Hb). cbn. rewrite Hget. reflexivity.
  - destruct (is_assign_cases o Ha) as [->|[b Hb]].
    + rewrite op_eval_mut_assign. change 2%N with (N.of_nat 2). rewrite (arity_ne vs 2 Hlen). reflexivity.
    + rewrite (op_eval_mut_opassign _ _ _ _ _ Hb). change 2%N with (N.of_nat 2).
      rewrite (arity_ne vs 2 Hlen). reflexivity.
  - assert (Hs : as_string t = Err (EExpectedString t)).
    { destruct t; try reflexivity. exfalso. eapply Ht. reflexivity. }
    destruct (is_assign_cases o Ha) as [->|[b Hb]].
    + rewrite op_eval_mut_assign. cbn. rewrite Hs. reflexivity.
    + rewrite (op_eval_mut_opassign _ _ _ _ _ Hb). cbn. rewrite Hs. reflexivity.
Qed.

Lemma outcome_stopped {A} (r : outcome A) : (exists a, r = Ok a) \/ (exists s, r = stopped s).
Proof.
  destruct r as [a|e|p]; [left; eauto|right; exists (SErr e); reflexivity|right; exists (SPanic p); reflexivity].
Qed.

Lemma apply_complete o vs c lg r c' lg' :
  op_eval_mut O o vs c lg = (r, c', lg') -> apply_op O o vs c lg r c' lg'.
Proof.
  intros H. destruct (is_assign o) eqn:Ha.
  - (* assignments *)
    assert (Hshape : length vs <> 2%nat \/ exists t v, vs = [t; v]).
    { destruct vs as [|t [|v [|w vs]]]; cbn; try (left; lia). right; eauto. }
    destruct Hshape as [Hlen|[t [v ->]]].
    { rewrite (apply_sound _ _ _ _ _ _ _ (ap_assign_arity O o vs c lg Ha Hlen)) in H.
      injection H as <- <- <-. apply ap_assign_arity; assumption. }
    assert (Ht : (exists x, t = VString x) \/ (forall x, t <> VString x)).
    { destruct t; try (right; intros x Hx; discriminate Hx). left; eauto. }
    destruct Ht as [[x ->]|Ht].
    2:{ rewrite (apply_sound _ _ _ _ _ _ _ (ap_assign_target O o t v c lg Ha Ht)) in H.
        injection H as <- <- <-. apply ap_assign_target; assumption. }
    destruct (is_assign_cases o Ha) as [->|[b Hb]].
    + destruct (outcome_stopped (set_value c x v)) as [[c2 Hset]|[s Hset]].
      * rewrite (apply_sound _ _ _ _ _ _ _ (ap_assign_ok O x v c lg c2 Hset)) in H.
        injection H as <- <- <-. apply ap_assign_ok; assumption.
      * rewrite (apply_sound _ _ _ _ _ _ _ (ap_assign_fail O x v c lg s Hset)) in H.
        injection H as <- <- <-. apply ap_assign_fail; assumption.
    + destruct (get_value c x) as [left|] eqn:Hget.
      2:{ rewrite (apply_sound _ _ _ _ _ _ _ (ap_opassign_unbound O o b x v c lg Hb Hget)) in H.
          injection H as <- <- <-. eapply ap_opassign_unbound; eassumption. }
      destruct (outcome_stopped (fst (op_eval O b [left; v] c lg))) as [[res Hop]|[s Hop]].
      2:{ rewrite (apply_sound _ _ _ _ _ _ _ (ap_opassign_op_fail O o b x v c lg left s Hb Hget Hop)) in H.
          injection H as <- <- <-. eapply ap_opassign_op_fail; eassumption. }
      destruct (outcome_stopped (set_value c x res)) as [[c2 Hset]|[s Hset]].
      * rewrite (apply_sound _ _ _ _ _ _ _ (ap_opassign_ok O o b x v c lg left res c2 Hb Hget Hop Hset)) in H.
        injection H as <- <- <-. eapply ap_opassign_ok; eassumption.
      * rewrite (apply_sound _ _ _ _ _ _ _ (ap_opassign_store_fail O o b x v c lg left res s Hb Hget Hop Hset)) in H.
        injection H as <- <- <-. eapply ap_opassign_store_fail; eassumption.
  - destruct (is_call o) eqn:Hc.
    + destruct o; try discriminate Hc. rename s into f.
      assert (Hshape : length vs <> 1%nat \/ exists a, vs = [a]).
      { destruct vs as [|a [|b vs]]; cbn; try (left; lia). right; eauto. }
      destruct Hshape as [Hlen|[a ->]].
      * rewrite (apply_sound _ _ _ _ _ _ _ (ap_call_arity O f vs c lg Hlen)) in H.
        injection H as <- <- <-. apply ap_call_arity; assumption.
      * rewrite (apply_sound _ _ _ _ _ _ _ (ap_call O f a c lg)) in H.
        injection H as <- <- <-. apply ap_call.
    + rewrite (apply_sound _ _ _ _ _ _ _ (ap_pure O o vs c lg Ha Hc)) in H.
      injection H as <- <- <-. apply ap_pure; assumption.
Qed.

(* ... hence a function *)
Lemma apply_functional o vs c lg r1 c1 lg1 r2 c2 lg2 :
  apply_op O o vs c lg r1 c1 lg1 -> apply_op O o vs c lg r2 c2 lg2 -> (r1, c1, lg1) = (r2, c2, lg2).
Proof. intros H1 H2. apply apply_sound in H1, H2. congruence. Qed.


(* ---- the tree evaluator against the relation ---- *)
Lemma eval_mut_node_ok o ch c lg vs c1 lg1 :
  eval_args_mut ch c lg = (Ok vs, c1, lg1) ->
  eval_mut O (Node o ch) c lg = op_eval_mut O o vs c1 lg1.
Proof. intros H. rewrite eval_mut_node, H. reflexivity. Qed.

Lemma eval_mut_node_stop o ch c lg s c1 lg1 :
  eval_args_mut ch c lg = (stopped s, c1, lg1) ->
  eval_mut O (Node o ch) c lg = (stopped s, c1, lg1).
Proof. intros H. rewrite eval_mut_node, H. destruct s; reflexivity. Qed.

Lemma eval_args_mut_cons_ok x l c lg v c1 lg1 :
  eval_mut O x c lg = (Ok v, c1, lg1) ->
  eval_args_mut (x :: l) c lg =
  match eval_args_mut l c1 lg1 with
  | (Ok vs, c2, lg2) => (Ok (v :: vs), c2, lg2)
  | r => r
  end.
Proof. intros H. rewrite eval_args_mut_cons, H. reflexivity. Qed.

Lemma eval_args_mut_cons_stop x l c lg s c1 lg1 :
  eval_mut O x c lg = (stopped s, c1, lg1) ->
  eval_args_mut (x :: l) c lg = (stopped s, c1, lg1).
Proof. intros H. rewrite eval_args_mut_cons, H. destruct s; reflexivity. Qed.

Lemma big_complete_args l :
  Forall (fun n => forall c lg r c' lg', eval_mut O n c lg = (r, c', lg') -> big O c lg n r c' lg') l ->
  forall c lg r c' lg', eval_args_mut l c lg = (r, c', lg') -> bigs O c lg l r c' lg'.
Proof.
  induction 1 as [|x l Hx Hl IHl]; intros c lg r c' lg' H.
  - cbn in H. injection H as <- <- <-. constructor.
  - destruct (eval_mut O x c lg) as [[rx c1] lg1] eqn:Ex.
    destruct (outcome_stopped rx) as [[v ->]|[s ->]].
    + rewrite (eval_args_mut_cons_ok _ _ _ _ _ _ _ Ex) in H.
      destruct (eval_args_mut l c1 lg1) as [[rl c2] lg2] eqn:El.
      destruct (outcome_stopped rl) as [[vs ->]|[s ->]].
      * injection H as <- <- <-. eapply bigs_cons; [apply Hx; exact Ex|apply IHl; exact El].
      * assert (H' : (stopped s, c2, lg2) = (r, c', lg')) by (destruct s; exact H).
        injection H' as <- <- <-. eapply bigs_stop_later; [apply Hx; exact Ex|apply IHl; exact El].
    + rewrite (eval_args_mut_cons_stop _ _ _ _ _ _ _ Ex) in H. injection H as <- <- <-.
      apply bigs_stop_here. apply Hx. exact Ex.
Qed.

Lemma big_complete n : forall c lg r c' lg',
  eval_mut O n c lg = (r, c', lg') -> big O c lg n r c' lg'.
Proof.
  induction n as [o ch IH] using node_ind'. intros c lg r c' lg' H.
  destruct (eval_args_mut ch c lg) as [[ra c1] lg1] eqn:Ea.
  destruct (outcome_stopped ra) as [[vs ->]|[s ->]].
  - rewrite (eval_mut_node_ok _ _ _ _ _ _ _ Ea) in H.
    eapply big_apply; [eapply big_complete_args; eassumption|apply apply_complete; exact H].
  - rewrite (eval_mut_node_stop _ _ _ _ _ _ _ Ea) in H. injection H as <- <- <-.
    apply big_stop. eapply big_complete_args; eassumption.
Qed.

Scheme big_mut := Minimality for big Sort Prop
  with bigs_mut := Minimality for bigs Sort Prop.
Combined Scheme big_bigs_mut from big_mut, bigs_mut.

Lemma big_sound_both :
  (forall c lg n r c' lg', big O c lg n r c' lg' -> eval_mut O n c lg = (r, c', lg')) /\
  (forall c lg l r c' lg', bigs O c lg l r c' lg' -> eval_args_mut l c lg = (r, c', lg')).
Proof.
  apply big_bigs_mut.
  - intros o ch c lg vs c1 lg1 r c2 lg2 _ IHa Hop.
    rewrite (eval_mut_node_ok _ _ _ _ _ _ _ IHa). apply apply_sound. exact Hop.
  - intros o ch c lg s c1 lg1 _ IHa. apply eval_mut_node_stop. exact IHa.
  - reflexivity.
  - intros x l c lg v c1 lg1 vs c2 lg2 _ IHx _ IHl.
    rewrite (eval_args_mut_cons_ok _ _ _ _ _ _ _ IHx), IHl. reflexivity.
  - intros x l c lg s c1 lg1 _ IHx. apply eval_args_mut_cons_stop. exact IHx.
  - intros x l c lg v c1 lg1 s c2 lg2 _ IHx _ IHl.
    rewrite (eval_args_mut_cons_ok _ _ _ _ _ _ _ IHx), IHl. destruct s; reflexivity.
Qed.

Definition big_sound := proj1 big_sound_both.

(* C08_ref *)
Lemma eval_mut_big c lg n :
  big O c lg n (fst (fst (eval_mut O n c lg))) (snd (fst (eval_mut O n c lg))) (snd (eval_mut O n c lg)).
Proof. apply big_complete. destruct (eval_mut O n c lg) as [[r c'] lg']. reflexivity. Qed.

Lemma big_iff c lg n r c' lg' : big O c lg n r c' lg' <-> eval_mut O n c lg = (r, c', lg').
Proof. split; [apply big_sound|apply big_complete]. Qed.

Lemma big_functional c lg n r1 c1 lg1 r2 c2 lg2 :
  big O c lg n r1 c1 lg1 -> big O c lg n r2 c2 lg2 -> r1 = r2 /\ c1 = c2 /\ lg1 = lg2.
Proof. intros H1 H2. apply big_sound in H1, H2. rewrite H1 in H2. injection H2 as -> -> ->. auto. Qed.


(* ---- the children loop as a left fold ---- *)
Lemma fold_mut_stopped ev l s c lg :
  fold_left (step_mut ev) l (stopped s, c, lg) = (stopped s, c, lg).
Proof. induction l as [|x l IHl]; [reflexivity|]. cbn [fold_left]. destruct s; exact IHl. Qed.

Lemma fold_mut_args l : forall acc c lg,
  fold_left (step_mut (eval_mut O)) l (Ok acc, c, lg) =
  match eval_args_mut l c lg with
  | (Ok vs, c1, lg1) => (Ok (acc ++ vs), c1, lg1)
  | (Err e, c1, lg1) => (Err e, c1, lg1)
  | (Panic p, c1, lg1) => (Panic p, c1, lg1)
  end.
Proof.
  induction l as [|x l IHl]; intros acc c lg.
  - cbn. rewrite app_nil_r. reflexivity.
  - cbn [fold_left step_mut]. rewrite eval_args_mut_cons.
    destruct (eval_mut O x c lg) as [[[v|e|p] c1] lg1].
    + rewrite IHl. destruct (eval_args_mut l c1 lg1) as [[[vs|e|p] c2] lg2]; try reflexivity.
      rewrite <- app_assoc. reflexivity.
    + apply (fold_mut_stopped _ l (SErr e)).
    + apply (fold_mut_stopped _ l (SPanic p)).
Qed.

Lemma eval_children_args ch c lg : eval_children (eval_mut O) ch c lg = eval_args_mut ch c lg.
Proof.
  unfold eval_children. rewrite fold_mut_args.
  destruct (eval_args_mut ch c lg) as [[[vs|e|p] c1] lg1]; reflexivity.
Qed.

Lemma eval_mut_children o ch c lg :
  eval_mut O (Node o ch) c lg =
  match eval_children (eval_mut O) ch c lg with
  | (Ok vs, c1, lg1) => op_eval_mut O o vs c1 lg1
  | (Err e, c1, lg1) => (Err e, c1, lg1)
  | (Panic p, c1, lg1) => (Panic p, c1, lg1)
  end.
Proof. rewrite eval_children_args. apply eval_mut_node. Qed.

Lemma fold_ro_stopped ev c l s lg :
  fold_left (step_ro ev c) l (stopped s, lg) = (stopped s, lg).
Proof. induction l as [|x l IHl]; [reflexivity|]. cbn [fold_left]. destruct s; exact IHl. Qed.

Lemma fold_ro_args c l : forall acc lg,
  fold_left (step_ro (eval_ro O) c) l (Ok acc, lg) =
  match eval_args_ro l c lg with
  | (Ok vs, lg1) => (Ok (acc ++ vs), lg1)
  | (Err e, lg1) => (Err e, lg1)
  | (Panic p, lg1) => (Panic p, lg1)
  end.
Proof.
  induction l as [|x l IHl]; intros acc lg.
  - cbn. rewrite app_nil_r. reflexivity.
  - cbn [fold_left step_ro]. rewrite eval_args_ro_cons.
    destruct (eval_ro O x c lg) as [[v|e|p] lg1].
    + rewrite IHl. destruct (eval_args_ro l c lg1) as [[vs|e|p] lg2]; try reflexivity.
      rewrite <- app_assoc. reflexivity.
    + apply (fold_ro_stopped _ c l (SErr e)).
    + apply (fold_ro_stopped _ c l (SPanic p)).
Qed.

Lemma eval_children_ro_args ch c lg : eval_children_ro (eval_ro O) ch c lg = eval_args_ro ch c lg.
Proof.
  unfold eval_children_ro. rewrite fold_ro_args.
  destruct (eval_args_ro ch c lg) as [[vs|e|p] lg1]; reflexivity.
Qed.

Lemma eval_ro_children o ch c lg :
  eval_ro O (Node o ch) c lg =
  match eval_children_ro (eval_ro O) ch c lg with
  | (Ok vs, lg1) => op_eval O o vs c lg1
  | (Err e, lg1) => (Err e, lg1)
  | (Panic p, lg1) => (Panic p, lg1)
  end.
Proof. rewrite eval_children_ro_args. apply eval_ro_node. Qed.

(* ---- the log only grows at its end, and what is appended does not depend on what is there ---- *)
Lemma own_log_not_call o vs c : is_call o = false -> own_log o vs c = [].
Proof. destruct o; try reflexivity. discriminate. Qed.

Lemma is_assign_not_call o : is_assign o = true -> is_call o = false.
Proof. destruct o; try discriminate; reflexivity. Qed.

Lemma apply_frame o vs c lg r c' lg' :
  apply_op O o vs c lg r c' lg' ->
  lg' = lg ++ own_log o vs c /\ forall lgx, apply_op O o vs c lgx r c' (lgx ++ own_log o vs c).
Proof.
  intros H. destruct H as
    [o vs c lg Ha Hc | f a c lg | f vs c lg Hlen
    | x v c lg c' Hset | x v c lg s Hset
    | o b x v c lg left res c' Hb Hget Hop Hset
    | o b x v c lg left res s Hb Hget Hop Hset
    | o b x v c lg left s Hb Hget Hop
    | o b x v c lg Hb Hget
    | o vs c lg Ha Hlen
    | o t v c lg Ha Ht].
  - rewrite (own_log_not_call _ _ _ Hc), app_nil_r. split; [reflexivity|]. intros lgx.
    rewrite app_nil_r, (op_eval_fst o vs c lg lgx). apply ap_pure; assumption.
  - split; [reflexivity|]. intros lgx. rewrite (call_function_fst c lg lgx). apply ap_call.
  - assert (Hown : own_log (OFunctionIdentifier f) vs c = []).
    { destruct vs as [|a [|b vs]]; try reflexivity. exfalso; apply Hlen; reflexivity. }
    rewrite Hown, app_nil_r. split; [reflexivity|]. intros lgx. rewrite app_nil_r.
    apply ap_call_arity; assumption.
  - cbn [own_log]. rewrite app_nil_r. split; [reflexivity|]. intros lgx. rewrite app_nil_r.
    apply ap_assign_ok; assumption.
  - cbn [own_log]. rewrite app_nil_r. split; [reflexivity|]. intros lgx. rewrite app_nil_r.
    apply ap_assign_fail; assumption.
  - rewrite (own_log_not_call o) by (apply is_assign_not_call; eapply assign_base_is_assign; eassumption).
    rewrite app_nil_r. split; [reflexivity|]. intros lgx. rewrite app_nil_r.
    rewrite (op_eval_fst b _ c lg lgx) in Hop. eapply ap_opassign_ok; eassumption.
  - rewrite (own_log_not_call o) by (apply is_assign_not_call; eapply assign_base_is_assign; eassumption).
    rewrite app_nil_r. split; [reflexivity|]. intros lgx. rewrite app_nil_r.
    rewrite (op_eval_fst b _ c lg lgx) in Hop. eapply ap_opassign_store_fail; eassumption.
  - rewrite (own_log_not_call o) by (apply is_assign_not_call; eapply assign_base_is_assign; eassumption).
    rewrite app_nil_r. split; [reflexivity|]. intros lgx. rewrite app_nil_r.
    rewrite (op_eval_fst b _ c lg lgx) in Hop. eapply ap_opassign_op_fail; eassumption.
  - rewrite (own_log_not_call o) by (apply is_assign_not_call; eapply assign_base_is_assign; eassumption).
    rewrite app_nil_r. split; [reflexivity|]. intros lgx. rewrite app_nil_r.
    eapply ap_opassign_unbound; eassumption.
  - rewrite (own_log_not_call o) by (apply is_assign_not_call; assumption).
    rewrite app_nil_r. split; [reflexivity|]. intros lgx. rewrite app_nil_r.
    apply ap_assign_arity; assumption.
  - rewrite (own_log_not_call o) by (apply is_assign_not_call; assumption).
    rewrite app_nil_r. split; [reflexivity|]. intros lgx. rewrite app_nil_r.
    apply ap_assign_target; assumption.
Qed.

Lemma op_eval_mut_frame o vs c lg r c' lg' :
  op_eval_mut O o vs c lg = (r, c', lg') ->
  lg' = lg ++ own_log o vs c /\ forall lgx, op_eval_mut O o vs c lgx = (r, c', lgx ++ own_log o vs c).
Proof.
  intros H. apply apply_complete, apply_frame in H. destruct H as [H1 H2].
  split; [exact H1|]. intros lgx. apply apply_sound, H2.
Qed.

Lemma op_eval_frame o vs c lg r lg' :
  op_eval O o vs c lg = (r, lg') ->
  lg' = lg ++ own_log o vs c /\ forall lgx, op_eval O o vs c lgx = (r, lgx ++ own_log o vs c).
Proof.
  intros H. split.
  - rewrite <- op_eval_log, H. reflexivity.
  - intros lgx. assert (Hr : r = fst (op_eval O o vs c lg)) by (rewrite H; reflexivity).
    rewrite Hr, (op_eval_fst o vs c lg lgx), <- op_eval_log.
    destruct (op_eval O o vs c lgx); reflexivity.
Qed.

Definition framed_mut (n : node) : Prop := forall c lg r c' lg',
  eval_mut O n c lg = (r, c', lg') ->
  exists d, lg' = lg ++ d /\ forall lgx, eval_mut O n c lgx = (r, c', lgx ++ d).

Lemma frame_args_mut l : Forall framed_mut l -> forall c lg r c' lg',
  eval_args_mut l c lg = (r, c', lg') ->
  exists d, lg' = lg ++ d /\ forall lgx, eval_args_mut l c lgx = (r, c', lgx ++ d).
Proof.
  induction 1 as [|x l Hx Hl IHl]; intros c lg r c' lg' H.
  - cbn in H. injection H as <- <- <-. exists []. split; [now rewrite app_nil_r|].
    intros lgx. cbn. now rewrite app_nil_r.
  - destruct (eval_mut O x c lg) as [[rx c1] lg1] eqn:Ex.
    destruct (Hx _ _ _ _ _ Ex) as [d1 [-> Hd1]].
    destruct (outcome_stopped rx) as [[v ->]|[s ->]].
    + rewrite (eval_args_mut_cons_ok _ _ _ _ _ _ _ Ex) in H.
      destruct (eval_args_mut l c1 (lg ++ d1)) as [[rl c2] lg2] eqn:El.
      destruct (IHl _ _ _ _ _ El) as [d2 [-> Hd2]].
      exists (d1 ++ d2). rewrite app_assoc. split.
      * destruct rl; injection H as <- <- <-; reflexivity.
      * intros lgx. rewrite (eval_args_mut_cons_ok _ _ _ _ _ _ _ (Hd1 lgx)), Hd2, app_assoc.
        destruct rl; injection H as <- <- <-; reflexivity.
    + rewrite (eval_args_mut_cons_stop _ _ _ _ _ _ _ Ex) in H. injection H as <- <- <-.
      exists d1. split; [reflexivity|]. intros lgx. apply eval_args_mut_cons_stop, Hd1.
Qed.

Lemma eval_mut_frame n : framed_mut n.
Proof.
  induction n as [o ch IH] using node_ind'. intros c lg r c' lg' H.
  destruct (eval_args_mut ch c lg) as [[ra c1] lg1] eqn:Ea.
  destruct (frame_args_mut ch IH _ _ _ _ _ Ea) as [d1 [-> Hd1]].
  destruct (outcome_stopped ra) as [[vs ->]|[s ->]].
  - rewrite (eval_mut_node_ok _ _ _ _ _ _ _ Ea) in H.
    destruct (op_eval_mut_frame _ _ _ _ _ _ _ H) as [-> Hop].
    exists (d1 ++ own_log o vs c1). rewrite app_assoc. split; [reflexivity|].
    intros lgx. rewrite (eval_mut_node_ok _ _ _ _ _ _ _ (Hd1 lgx)), Hop, app_assoc. reflexivity.
  - rewrite (eval_mut_node_stop _ _ _ _ _ _ _ Ea) in H. injection H as <- <- <-.
    exists d1. split; [reflexivity|]. intros lgx. apply eval_mut_node_stop, Hd1.
Qed.

(* the usable form: what a tree appends to the empty log it appends to any log *)
Lemma eval_mut_from_nil n c r c' d lg :
  eval_mut O n c [] = (r, c', d) -> eval_mut O n c lg = (r, c', lg ++ d).
Proof.
  intros H. destruct (eval_mut_frame n _ _ _ _ _ H) as [d' [Hd H']]. cbn in Hd. subst d'. apply H'.
Qed.

Lemma eval_mut_to_nil n c lg r c' lg' :
  eval_mut O n c lg = (r, c', lg') -> exists d, lg' = lg ++ d /\ eval_mut O n c [] = (r, c', d).
Proof.
  intros H. destruct (eval_mut_frame n _ _ _ _ _ H) as [d [Hd H']]. exists d. split; [exact Hd|]. apply (H' []).
Qed.

(* read-only *)
Lemma eval_ro_node_ok o ch c lg vs lg1 :
  eval_args_ro ch c lg = (Ok vs, lg1) -> eval_ro O (Node o ch) c lg = op_eval O o vs c lg1.
Proof. intros H. rewrite eval_ro_node, H. reflexivity. Qed.

Lemma eval_ro_node_stop o ch c lg s lg1 :
  eval_args_ro ch c lg = (stopped s, lg1) -> eval_ro O (Node o ch) c lg = (stopped s, lg1).
Proof. intros H. rewrite eval_ro_node, H. destruct s; reflexivity. Qed.

Lemma eval_args_ro_cons_ok x l c lg v lg1 :
  eval_ro O x c lg = (Ok v, lg1) ->
  eval_args_ro (x :: l) c lg =
  match eval_args_ro l c lg1 with
  | (Ok vs, lg2) => (Ok (v :: vs), lg2)
  | r => r
  end.
Proof. intros H. rewrite eval_args_ro_cons, H. reflexivity. Qed.

Lemma eval_args_ro_cons_stop x l c lg s lg1 :
  eval_ro O x c lg = (stopped s, lg1) -> eval_args_ro (x :: l) c lg = (stopped s, lg1).
Proof. intros H. rewrite eval_args_ro_cons, H. destruct s; reflexivity. Qed.

Definition framed_ro (n : node) : Prop := forall c lg r lg',
  eval_ro O n c lg = (r, lg') ->
  exists d, lg' = lg ++ d /\ forall lgx, eval_ro O n c lgx = (r, lgx ++ d).

Lemma frame_args_ro l : Forall framed_ro l -> forall c lg r lg',
  eval_args_ro l c lg = (r, lg') ->
  exists d, lg' = lg ++ d /\ forall lgx, eval_args_ro l c lgx = (r, lgx ++ d).
Proof.
  induction 1 as [|x l Hx Hl IHl]; intros c lg r lg' H.
  - rewrite eval_args_ro_nil in H. injection H as <- <-. exists []. split; [now rewrite app_nil_r|].
    intros lgx. rewrite eval_args_ro_nil. now rewrite app_nil_r.
  - destruct (eval_ro O x c lg) as [rx lg1] eqn:Ex.
    destruct (Hx _ _ _ _ Ex) as [d1 [-> Hd1]].
    destruct (outcome_stopped rx) as [[v ->]|[s ->]].
    + rewrite (eval_args_ro_cons_ok _ _ _ _ _ _ Ex) in H.
      destruct (eval_args_ro l c (lg ++ d1)) as [rl lg2] eqn:El.
      destruct (IHl _ _ _ _ El) as [d2 [-> Hd2]].
      exists (d1 ++ d2). rewrite app_assoc. split.
      * destruct rl; injection H as <- <-; reflexivity.
      * intros lgx. rewrite (eval_args_ro_cons_ok _ _ _ _ _ _ (Hd1 lgx)), Hd2, app_assoc.
        destruct rl; injection H as <- <-; reflexivity.
    + rewrite (eval_args_ro_cons_stop _ _ _ _ _ _ Ex) in H. injection H as <- <-.
      exists d1. split; [reflexivity|]. intros lgx. apply eval_args_ro_cons_stop, Hd1.
Qed.

Lemma eval_ro_frame n : framed_ro n.
Proof.
  induction n as [o ch IH] using node_ind'. intros c lg r lg' H.
  destruct (eval_args_ro ch c lg) as [ra lg1] eqn:Ea.
  destruct (frame_args_ro ch IH _ _ _ _ Ea) as [d1 [-> Hd1]].
  destruct (outcome_stopped ra) as [[vs ->]|[s ->]].
  - rewrite (eval_ro_node_ok _ _ _ _ _ _ Ea) in H.
    destruct (op_eval_frame _ _ _ _ _ _ H) as [-> Hop].
    exists (d1 ++ own_log o vs c). rewrite app_assoc. split; [reflexivity|].
    intros lgx. rewrite (eval_ro_node_ok _ _ _ _ _ _ (Hd1 lgx)), Hop, app_assoc. reflexivity.
  - rewrite (eval_ro_node_stop _ _ _ _ _ _ Ea) in H. injection H as <- <-.
    exists d1. split; [reflexivity|]. intros lgx. apply eval_ro_node_stop, Hd1.
Qed.

Lemma eval_ro_from_nil n c r d lg :
  eval_ro O n c [] = (r, d) -> eval_ro O n c lg = (r, lg ++ d).
Proof.
  intros H. destruct (eval_ro_frame n _ _ _ _ H) as [d' [Hd H']]. cbn in Hd. subst d'. apply H'.
Qed.

Lemma eval_ro_to_nil n c lg r lg' :
  eval_ro O n c lg = (r, lg') -> exists d, lg' = lg ++ d /\ eval_ro O n c [] = (r, d).
Proof.
  intros H. destruct (eval_ro_frame n _ _ _ _ H) as [d [Hd H']]. exists d. split; [exact Hd|]. apply (H' []).
Qed.


(* ---- order: the log of a node is the children's contributions, in order, then the operator's ---- *)
Lemma chain_args c l vs ds c' :
  chain (eval_mut O) c l vs ds c' -> forall lg, eval_args_mut l c lg = (Ok vs, c', lg ++ concat ds).
Proof.
  induction 1 as [c|c x v d c1 l vs ds c2 Hx Hl IHl]; intros lg.
  - cbn. now rewrite app_nil_r.
  - rewrite (eval_args_mut_cons_ok _ _ _ _ _ _ _ (eval_mut_from_nil _ _ _ _ _ lg Hx)), IHl.
    cbn [concat]. rewrite app_assoc. reflexivity.
Qed.

Lemma args_chain l : forall c lg vs c' lg',
  eval_args_mut l c lg = (Ok vs, c', lg') ->
  exists ds, chain (eval_mut O) c l vs ds c' /\ lg' = lg ++ concat ds.
Proof.
  induction l as [|x l IHl]; intros c lg vs c' lg' H.
  - cbn in H. injection H as <- <- <-. exists []. split; [constructor|cbn; now rewrite app_nil_r].
  - rewrite eval_args_mut_cons in H.
    destruct (eval_mut O x c lg) as [[[v|e|p] c1] lg1] eqn:Ex; try discriminate H.
    destruct (eval_args_mut l c1 lg1) as [[[vs'|e|p] c2] lg2] eqn:El; try discriminate H.
    injection H as <- <- <-.
    destruct (eval_mut_to_nil _ _ _ _ _ _ Ex) as [d [-> Hd]].
    destruct (IHl _ _ _ _ _ El) as [ds [Hch ->]].
    exists (d :: ds). split; [econstructor; eassumption|]. cbn [concat]. now rewrite app_assoc.
Qed.

Lemma order_mut o ch c lg vs ds c1 :
  chain (eval_mut O) c ch vs ds c1 ->
  eval_mut O (Node o ch) c lg = op_eval_mut O o vs c1 (lg ++ concat ds) /\
  snd (eval_mut O (Node o ch) c lg) = lg ++ concat ds ++ own_log o vs c1.
Proof.
  intros Hch. pose proof (chain_args _ _ _ _ _ Hch lg) as Ha.
  rewrite (eval_mut_node_ok _ _ _ _ _ _ _ Ha). split; [reflexivity|].
  destruct (op_eval_mut O o vs c1 (lg ++ concat ds)) as [[r c2] lg2] eqn:Eop.
  destruct (op_eval_mut_frame _ _ _ _ _ _ _ Eop) as [-> _]. cbn [snd]. now rewrite app_assoc.
Qed.

Lemma order_mut_exists ch c lg vs c1 lg1 :
  eval_children (eval_mut O) ch c lg = (Ok vs, c1, lg1) ->
  exists ds, chain (eval_mut O) c ch vs ds c1 /\ lg1 = lg ++ concat ds.
Proof. rewrite eval_children_args. apply args_chain. Qed.

(* each child is evaluated once: the number of calls of the node is the sum over the children, plus one
   iff the node is itself a call that reaches a user function *)
Lemma once_mut o ch c lg vs ds c1 :
  chain (eval_mut O) c ch vs ds c1 ->
  length (snd (eval_mut O (Node o ch) c lg)) =
  (length lg + list_sum (map (@length _) ds) + length (own_log o vs c1))%nat.
Proof.
  intros Hch. rewrite (proj2 (order_mut o ch c lg vs ds c1 Hch)), !app_length.
  assert (Hsum : forall l : list log, length (concat l) = list_sum (map (@length _) l)).
  { induction l as [|d l IHl]; [reflexivity|]. cbn. rewrite app_length, IHl. reflexivity. }
  rewrite Hsum. lia.
Qed.

Lemma call_once f x c lg a c1 lg1 g :
  eval_mut O x c lg = (Ok a, c1, lg1) -> lookup_function c1 f = Some g ->
  eval_mut O (Node (OFunctionIdentifier f) [x]) c lg =
  (fst (call_function O c1 lg1 f a), c1, lg1 ++ [(f, a)]).
Proof.
  intros Hx Hg. rewrite eval_mut_node, (eval_args_mut_cons_ok _ _ _ _ _ _ _ Hx). cbn [eval_args_mut].
  rewrite op_eval_mut_other by reflexivity. rewrite op_eval_call_1, call_function_log, Hg. reflexivity.
Qed.

(* ---- the first error wins ---- *)
Lemma first_stop_args pre x post c vs ds c1 s c2 d :
  chain (eval_mut O) c pre vs ds c1 ->
  eval_mut O x c1 [] = (stopped s, c2, d) ->
  forall lg, eval_args_mut (pre ++ x :: post) c lg = (stopped s, c2, lg ++ concat ds ++ d).
Proof.
  intros Hch Hx. induction Hch as [c|c y v dy c1 l vs ds c3 Hy Hl IHl]; intros lg.
  - cbn [app concat]. apply eval_args_mut_cons_stop. apply eval_mut_from_nil. exact Hx.
  - cbn [app concat].
    rewrite (eval_args_mut_cons_ok _ _ _ _ _ _ _ (eval_mut_from_nil _ _ _ _ _ lg Hy)).
    rewrite (IHl Hx). rewrite <- !app_assoc. destruct s; reflexivity.
Qed.

Lemma first_stop_mut o pre x post c lg vs ds c1 s c2 d :
  chain (eval_mut O) c pre vs ds c1 ->
  eval_mut O x c1 [] = (stopped s, c2, d) ->
  eval_mut O (Node o (pre ++ x :: post)) c lg = (stopped s, c2, lg ++ concat ds ++ d).
Proof. intros Hch Hx. apply eval_mut_node_stop. eapply first_stop_args; eassumption. Qed.

(* ---- read-only ---- *)
Lemma chain_ro_args c l vs ds :
  chain_ro (eval_ro O) c l vs ds -> forall lg, eval_args_ro l c lg = (Ok vs, lg ++ concat ds).
Proof.
  induction 1 as [|x v d l vs ds Hx Hl IHl]; intros lg.
  - rewrite eval_args_ro_nil. cbn. now rewrite app_nil_r.
  - rewrite (eval_args_ro_cons_ok _ _ _ _ _ _ (eval_ro_from_nil _ _ _ _ lg Hx)), IHl.
    cbn [concat]. rewrite app_assoc. reflexivity.
Qed.

Lemma args_chain_ro c l : forall lg vs lg',
  eval_args_ro l c lg = (Ok vs, lg') ->
  exists ds, chain_ro (eval_ro O) c l vs ds /\ lg' = lg ++ concat ds.
Proof.
  induction l as [|x l IHl]; intros lg vs lg' H.
  - rewrite eval_args_ro_nil in H. injection H as <- <-. exists []. split; [constructor|cbn; now rewrite app_nil_r].
  - rewrite eval_args_ro_cons in H.
    destruct (eval_ro O x c lg) as [[v|e|p] lg1] eqn:Ex; try discriminate H.
    destruct (eval_args_ro l c lg1) as [[vs'|e|p] lg2] eqn:El; try discriminate H.
    injection H as <- <-.
    destruct (eval_ro_to_nil _ _ _ _ _ Ex) as [d [-> Hd]].
    destruct (IHl _ _ _ El) as [ds [Hch ->]].
    exists (d :: ds). split; [econstructor; eassumption|]. cbn [concat]. now rewrite app_assoc.
Qed.

Lemma order_ro o ch c lg vs ds :
  chain_ro (eval_ro O) c ch vs ds ->
  eval_ro O (Node o ch) c lg = op_eval O o vs c (lg ++ concat ds) /\
  snd (eval_ro O (Node o ch) c lg) = lg ++ concat ds ++ own_log o vs c.
Proof.
  intros Hch. pose proof (chain_ro_args _ _ _ _ Hch lg) as Ha.
  rewrite (eval_ro_node_ok _ _ _ _ _ _ Ha). split; [reflexivity|].
  rewrite op_eval_log. now rewrite app_assoc.
Qed.

Lemma order_ro_exists ch c lg vs lg1 :
  eval_children_ro (eval_ro O) ch c lg = (Ok vs, lg1) ->
  exists ds, chain_ro (eval_ro O) c ch vs ds /\ lg1 = lg ++ concat ds.
Proof. rewrite eval_children_ro_args. apply args_chain_ro. Qed.

Lemma first_stop_args_ro pre x post c vs ds s d :
  chain_ro (eval_ro O) c pre vs ds ->
  eval_ro O x c [] = (stopped s, d) ->
  forall lg, eval_args_ro (pre ++ x :: post) c lg = (stopped s, lg ++ concat ds ++ d).
Proof.
  intros Hch Hx. induction Hch as [|y v dy l vs ds Hy Hl IHl]; intros lg.
  - cbn [app concat]. apply eval_args_ro_cons_stop. apply eval_ro_from_nil. exact Hx.
  - cbn [app concat].
    rewrite (eval_args_ro_cons_ok _ _ _ _ _ _ (eval_ro_from_nil _ _ _ _ lg Hy)).
    rewrite IHl. rewrite <- !app_assoc. destruct s; reflexivity.
Qed.

Lemma first_stop_ro o pre x post c lg vs ds s d :
  chain_ro (eval_ro O) c pre vs ds ->
  eval_ro O x c [] = (stopped s, d) ->
  eval_ro O (Node o (pre ++ x :: post)) c lg = (stopped s, lg ++ concat ds ++ d).
Proof. intros Hch Hx. apply eval_ro_node_stop. eapply first_stop_args_ro; eassumption. Qed.

(* ---- no short-circuit ---- *)
Lemma binary_mut o a b c lg va c1 lg1 rb c2 lg2 :
  eval_mut O a c lg = (Ok va, c1, lg1) ->
  eval_mut O b c1 lg1 = (rb, c2, lg2) ->
  eval_mut O (Node o [a; b]) c lg =
  match rb with
  | Ok vb => op_eval_mut O o [va; vb] c2 lg2
  | Err e => (Err e, c2, lg2)
  | Panic p => (Panic p, c2, lg2)
  end.
Proof.
  intros Ha Hb. rewrite eval_mut_node, (eval_args_mut_cons_ok _ _ _ _ _ _ _ Ha).
  rewrite eval_args_mut_cons, Hb. destruct rb; reflexivity.
Qed.

Lemma no_shortcircuit_mut o a b c lg x c1 lg1 rb c2 lg2 :
  o = OAnd \/ o = OOr ->
  eval_mut O a c lg = (Ok (VBool x), c1, lg1) ->
  eval_mut O b c1 lg1 = (rb, c2, lg2) ->
  eval_mut O (Node o [a; b]) c lg =
  (match rb with Ok vb => fst (op_eval O o [VBool x; vb] c2 lg2) | _ => rb end, c2, lg2).
Proof.
  intros Ho Ha Hb. rewrite (binary_mut _ _ _ _ _ _ _ _ _ _ _ Ha Hb).
  destruct rb as [vb|e|p]; try reflexivity.
  destruct Ho as [->| ->]; reflexivity.
Qed.

Lemma binary_ro o a b c lg va lg1 rb lg2 :
  eval_ro O a c lg = (Ok va, lg1) ->
  eval_ro O b c lg1 = (rb, lg2) ->
  eval_ro O (Node o [a; b]) c lg =
  match rb with
  | Ok vb => op_eval O o [va; vb] c lg2
  | Err e => (Err e, lg2)
  | Panic p => (Panic p, lg2)
  end.
Proof.
  intros Ha Hb. rewrite eval_ro_node, (eval_args_ro_cons_ok _ _ _ _ _ _ Ha).
  rewrite eval_args_ro_cons, Hb. destruct rb; reflexivity.
Qed.

Lemma no_shortcircuit_ro o a b c lg x lg1 rb lg2 :
  o = OAnd \/ o = OOr ->
  eval_ro O a c lg = (Ok (VBool x), lg1) ->
  eval_ro O b c lg1 = (rb, lg2) ->
  eval_ro O (Node o [a; b]) c lg =
  (match rb with Ok vb => fst (op_eval O o [VBool x; vb] c lg2) | _ => rb end, lg2).
Proof.
  intros Ho Ha Hb. rewrite (binary_ro _ _ _ _ _ _ _ _ _ Ha Hb).
  destruct rb as [vb|e|p]; try reflexivity.
  destruct Ho as [->| ->]; reflexivity.
Qed.

(* ---- op-assign reads its target after the right-hand side ---- *)
Lemma write_leaf x c lg : eval_mut O (Node (OVariableIdentifierWrite x) []) c lg = (Ok (VString x), c, lg).
Proof. reflexivity. Qed.

Lemma opassign_reads_after_rhs o b x rhs c lg v c1 lg1 :
  assign_base o = Some b ->
  eval_mut O rhs c lg = (Ok v, c1, lg1) ->
  eval_mut O (Node o [Node (OVariableIdentifierWrite x) []; rhs]) c lg =
  match get_value c1 x with
  | None => (Err (EVariableIdentifierNotFound x), c1, lg1)
  | Some old =>
      match fst (op_eval O b [old; v] c1 lg1) with
      | Ok res =>
          match set_value c1 x res with
          | Ok c2 => (Ok VEmpty, c2, lg1)
          | Err e => (Err e, c1, lg1)
          | Panic p => (Panic p, c1, lg1)
          end
      | Err e => (Err e, c1, lg1)
      | Panic p => (Panic p, c1, lg1)
      end
  end.
Proof.
  intros Hb Hr. rewrite (binary_mut _ _ _ _ _ _ _ _ _ _ _ (write_leaf x c lg) Hr).
  rewrite (op_eval_mut_opassign _ _ _ _ _ Hb). cbn.
  destruct (get_value c1 x) as [old|]; [|reflexivity]. cbn.
  destruct (fst (op_eval O b [old; v] c1 lg1)) as [res|e|p]; reflexivity.
Qed.

Lemma assign_after_rhs x rhs c lg v c1 lg1 :
  eval_mut O rhs c lg = (Ok v, c1, lg1) ->
  eval_mut O (Node OAssign [Node (OVariableIdentifierWrite x) []; rhs]) c lg =
  match set_value c1 x v with
  | Ok c2 => (Ok VEmpty, c2, lg1)
  | Err e => (Err e, c1, lg1)
  | Panic p => (Panic p, c1, lg1)
  end.
Proof.
  intros Hr. rewrite (binary_mut _ _ _ _ _ _ _ _ _ _ _ (write_leaf x c lg) Hr).
  rewrite op_eval_mut_assign. cbn. destruct (set_value c1 x v); reflexivity.
Qed.

(*NEXT*)
End WithOracle.
