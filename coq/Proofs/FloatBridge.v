(* FloatBridge -- the bridge between the model's float arithmetic (Model/F64.v: the executable,
   axiom-free operations of Coq's Floats.SpecFloat at precision 53 / emax 1024) and the IEEE-754
   semantics over the reals given by Flocq (IEEE754/BinarySingleNaN.v).

   By special dispensation this file (and Props/FloatIEEE.v) imports Flocq and the Reals library.  The
   theorems depend on at most the four standard-library axioms behind Coq's classical reals:
     ClassicalDedekindReals.sig_not_dec, ClassicalDedekindReals.sig_forall_dec,
     FunctionalExtensionality.functional_extensionality_dep, Classical_Prop.classic.
   No axiom is declared here. *)
From Coq Require Import ZArith Reals Lia Lra Bool Floats.SpecFloat.
From Flocq Require Import Core.Core Calc.Round IEEE754.BinarySingleNaN.
Require Import Model.Base Model.F64 Model.Lexer.

Local Open Scope Z_scope.

(* ------------------------------------------------------------------------------------------ *)
(** * 1. Equivalence: Flocq's mode-parameterised functions at mode_NE are SpecFloat's functions  *)
(* ------------------------------------------------------------------------------------------ *)

Section Equiv.

Variable prec emax : Z.
Context (prec_gt_0_ : Prec_gt_0 prec).
Context (prec_lt_emax_ : Prec_lt_emax prec emax).

Lemma round_nearest_even_equiv : forall (s : bool) (m : Z) (l : location),
  round_nearest_even m l = choice_mode mode_NE s m l.
Proof.
  intros s m l.
  destruct l as [|c]; [reflexivity|].
  destruct c; [|reflexivity|reflexivity].
  cbn [round_nearest_even choice_mode round_N cond_incr].
  unfold cond_incr. destruct (Z.even m); reflexivity.
Qed.

Lemma binary_round_aux_equiv : forall (sx : bool) (mx ex : Z) (lx : location),
  BinarySingleNaN.binary_round_aux prec emax mode_NE sx mx ex lx =
  SpecFloat.binary_round_aux prec emax sx mx ex lx.
Proof.
  intros sx mx ex lx.
  unfold SpecFloat.binary_round_aux, BinarySingleNaN.binary_round_aux.
  destruct (shr_fexp prec emax mx ex lx) as [mrs' e'].
  rewrite <- (round_nearest_even_equiv sx).
  destruct (shr_fexp prec emax (round_nearest_even (shr_m mrs') (loc_of_shr_record mrs')) e' loc_Exact)
    as [mrs'' e''].
  destruct (shr_m mrs'') as [|m|m]; reflexivity.
Qed.

Lemma binary_round_equiv : forall (s : bool) (m : positive) (e : Z),
  BinarySingleNaN.binary_round prec emax mode_NE s m e = SpecFloat.binary_round prec emax s m e.
Proof.
  intros s m e.
  unfold SpecFloat.binary_round, BinarySingleNaN.binary_round, shl_align_fexp.
  destruct (shl_align m e (fexp prec emax (Z.pos (digits2_pos m) + e))) as [mz ez].
  apply binary_round_aux_equiv.
Qed.

Lemma binary_normalize_equiv : forall (m e : Z) (szero : bool),
  B2SF (BinarySingleNaN.binary_normalize prec emax prec_gt_0_ prec_lt_emax_ mode_NE m e szero) =
  SpecFloat.binary_normalize prec emax m e szero.
Proof.
  intros m e szero.
  destruct m as [|p|p]; cbn [BinarySingleNaN.binary_normalize SpecFloat.binary_normalize].
  - reflexivity.
  - rewrite B2SF_SF2B. apply binary_round_equiv.
  - rewrite B2SF_SF2B. apply binary_round_equiv.
Qed.

Notation bfloat := (binary_float prec emax).

Lemma Bplus_equiv : forall x y : bfloat,
  B2SF (Bplus mode_NE x y) = SFadd prec emax (B2SF x) (B2SF y).
Proof.
  intros [sx|sx| |sx mx ex Hx] [sy|sy| |sy my ey Hy]; try reflexivity.
  - cbn [Bplus SFadd B2SF]. destruct (Bool.eqb sx sy); reflexivity.
  - cbn [Bplus SFadd B2SF]. destruct (Bool.eqb sx sy); reflexivity.
  - cbn [Bplus SFadd B2SF]. apply binary_normalize_equiv.
Qed.

Lemma cond_Zopp_negb_minus : forall (a : Z) (s : bool) (p : Z),
  a + SpecFloat.cond_Zopp (negb s) p = a - SpecFloat.cond_Zopp s p.
Proof. intros a s p. destruct s; cbn [negb SpecFloat.cond_Zopp]; lia. Qed.

Lemma Bminus_equiv : forall x y : bfloat,
  B2SF (Bminus mode_NE x y) = SFsub prec emax (B2SF x) (B2SF y).
Proof.
  intros [sx|sx| |sx mx ex Hx] [sy|sy| |sy my ey Hy]; try reflexivity.
  - cbn [Bminus SFsub B2SF]. destruct (Bool.eqb sx (negb sy)); reflexivity.
  - cbn [Bminus SFsub B2SF]. destruct (Bool.eqb sx (negb sy)); reflexivity.
  - cbn [Bminus SFsub B2SF]. rewrite binary_normalize_equiv. unfold Fplus_naive.
    rewrite cond_Zopp_negb_minus. reflexivity.
Qed.

Lemma Bmult_equiv : forall x y : bfloat,
  B2SF (Bmult mode_NE x y) = SFmul prec emax (B2SF x) (B2SF y).
Proof.
  intros [sx|sx| |sx mx ex Hx] [sy|sy| |sy my ey Hy]; try reflexivity.
  cbn [Bmult SFmul B2SF]. rewrite B2SF_SF2B. apply binary_round_aux_equiv.
Qed.

Lemma Bdiv_equiv : forall x y : bfloat,
  B2SF (Bdiv mode_NE x y) = SFdiv prec emax (B2SF x) (B2SF y).
Proof.
  intros [sx|sx| |sx mx ex Hx] [sy|sy| |sy my ey Hy]; try reflexivity.
  cbn [Bdiv SFdiv B2SF]. rewrite B2SF_SF2B.
  destruct (SFdiv_core_binary prec emax (Z.pos mx) ex (Z.pos my) ey) as [[mz ez] lz].
  apply binary_round_aux_equiv.
Qed.

Lemma Bsqrt_equiv : forall x : bfloat,
  B2SF (Bsqrt mode_NE x) = SFsqrt prec emax (B2SF x).
Proof.
  intros [sx|sx| |sx mx ex Hx]; try reflexivity.
  - destruct sx; reflexivity.
  - destruct sx; [reflexivity|].
    cbn [Bsqrt SFsqrt B2SF]. rewrite B2SF_SF2B.
    destruct (SFsqrt_core_binary prec emax (Z.pos mx) ex) as [[mz ez] lz].
    apply binary_round_aux_equiv.
Qed.

Lemma Bcompare_equiv : forall x y : bfloat,
  Bcompare x y = SFcompare (B2SF x) (B2SF y).
Proof. reflexivity. Qed.

Lemma Bopp_equiv : forall x : bfloat, B2SF (Bopp x) = SFopp (B2SF x).
Proof. intros [sx|sx| |sx mx ex Hx]; reflexivity. Qed.

Lemma Babs_equiv : forall x : bfloat, B2SF (Babs x) = SFabs (B2SF x).
Proof. intros [sx|sx| |sx mx ex Hx]; reflexivity. Qed.

End Equiv.

(* ------------------------------------------------------------------------------------------ *)
(** * 2. binary64: the model's operations are the correctly rounded IEEE-754 operations          *)
(* ------------------------------------------------------------------------------------------ *)

Global Instance prec_gt_0_53 : Prec_gt_0 53 := eq_refl.
Global Instance prec_lt_emax_53_1024 : Prec_lt_emax 53 1024 := eq_refl.

(* The binary64 format: exponent function of FLT with emin = 3 - emax - prec = -1074, and rounding
   to nearest with ties to even.  [rnd64 x] is THE double nearest to x when it is below 2^1024. *)
Notation fexp64 := (FLT_exp (3 - 1024 - 53) 53).
Notation rnd64 := (round radix2 (FLT_exp (3 - 1024 - 53) 53) ZnearestE).
Notation valid64 := (valid_binary 53 1024).
Notation R64 := (SF2R radix2).
Notation b64 := (binary_float 53 1024).

Lemma fexp64_eq : SpecFloat.fexp 53 1024 = FLT_exp (3 - 1024 - 53) 53.
Proof. reflexivity. Qed.

(* lifting a valid spec_float to Flocq's dependent type *)
Definition lift (x : spec_float) (Hx : valid64 x = true) : b64 := SF2B x Hx.

Lemma B2SF_lift : forall x Hx, B2SF (lift x Hx) = x.
Proof. intros x Hx. apply B2SF_SF2B. Qed.

Lemma B2R_lift : forall x Hx, B2R (lift x Hx) = R64 x.
Proof. intros x Hx. apply B2R_SF2B. Qed.

Lemma is_finite_lift : forall x Hx, is_finite (lift x Hx) = is_finite_SF x.
Proof. intros x Hx. apply is_finite_SF2B. Qed.

Lemma Bsign_lift : forall x Hx, Bsign (lift x Hx) = sign_SF x.
Proof. intros x Hx. apply Bsign_SF2B. Qed.

Lemma R64_B2SF : forall b : b64, R64 (B2SF b) = B2R b.
Proof. intros b. apply SF2R_B2SF. Qed.

Lemma is_finite_SF_B2SF64 : forall b : b64, is_finite_SF (B2SF b) = is_finite b.
Proof. intros b. apply is_finite_SF_B2SF. Qed.

(** ** Closure: every operation maps valid inputs (of every class) to valid outputs *)

Lemma f_add_valid : forall x y, valid64 x = true -> valid64 y = true -> valid64 (f_add x y) = true.
Proof.
  intros x y Hx Hy. unfold f_add.
  rewrite <- (B2SF_lift x Hx), <- (B2SF_lift y Hy).
  change (SFadd F64.prec F64.emax) with (SFadd 53 1024).
  rewrite <- (Bplus_equiv 53 1024 prec_gt_0_53 prec_lt_emax_53_1024). apply valid_binary_B2SF.
Qed.

Lemma f_sub_valid : forall x y, valid64 x = true -> valid64 y = true -> valid64 (f_sub x y) = true.
Proof.
  intros x y Hx Hy. unfold f_sub.
  rewrite <- (B2SF_lift x Hx), <- (B2SF_lift y Hy).
  change (SFsub F64.prec F64.emax) with (SFsub 53 1024).
  rewrite <- (Bminus_equiv 53 1024 prec_gt_0_53 prec_lt_emax_53_1024). apply valid_binary_B2SF.
Qed.

Lemma f_mul_valid : forall x y, valid64 x = true -> valid64 y = true -> valid64 (f_mul x y) = true.
Proof.
  intros x y Hx Hy. unfold f_mul.
  rewrite <- (B2SF_lift x Hx), <- (B2SF_lift y Hy).
  change (SFmul F64.prec F64.emax) with (SFmul 53 1024).
  rewrite <- (Bmult_equiv 53 1024 prec_gt_0_53 prec_lt_emax_53_1024). apply valid_binary_B2SF.
Qed.

Lemma f_div_valid : forall x y, valid64 x = true -> valid64 y = true -> valid64 (f_div x y) = true.
Proof.
  intros x y Hx Hy. unfold f_div.
  rewrite <- (B2SF_lift x Hx), <- (B2SF_lift y Hy).
  change (SFdiv F64.prec F64.emax) with (SFdiv 53 1024).
  rewrite <- (Bdiv_equiv 53 1024 prec_gt_0_53 prec_lt_emax_53_1024). apply valid_binary_B2SF.
Qed.

Lemma f_sqrt_valid : forall x, valid64 x = true -> valid64 (f_sqrt x) = true.
Proof.
  intros x Hx. unfold f_sqrt.
  rewrite <- (B2SF_lift x Hx).
  change (SFsqrt F64.prec F64.emax) with (SFsqrt 53 1024).
  rewrite <- (Bsqrt_equiv 53 1024 prec_gt_0_53 prec_lt_emax_53_1024). apply valid_binary_B2SF.
Qed.

Lemma f_neg_valid : forall x, valid64 x = true -> valid64 (f_neg x) = true.
Proof. intros [s|s| |s m e] Hx; exact Hx. Qed.

Lemma f_abs_valid : forall x, valid64 x = true -> valid64 (f_abs x) = true.
Proof. intros [s|s| |s m e] Hx; exact Hx. Qed.

Lemma normalize_valid : forall (m e : Z) (s : bool),
  valid64 (SpecFloat.binary_normalize 53 1024 m e s) = true.
Proof.
  intros m e s. rewrite <- (binary_normalize_equiv 53 1024 prec_gt_0_53 prec_lt_emax_53_1024). apply valid_binary_B2SF.
Qed.

Lemma f_of_Z_valid : forall z : Z, valid64 (f_of_Z z) = true.
Proof. intros z. apply normalize_valid. Qed.

Lemma f_rem_valid : forall x y, valid64 x = true -> valid64 y = true -> valid64 (f_rem x y) = true.
Proof.
  intros [sx|sx| |sx mx ex] [sy|sy| |sy my ey] Hx Hy; try reflexivity; try exact Hx.
  cbn [f_rem]. apply normalize_valid.
Qed.

Lemma f_round_int_valid : forall md x, valid64 x = true -> valid64 (f_round_int md x) = true.
Proof.
  intros md [sx|sx| |sx mx ex] Hx; try reflexivity.
  cbn [f_round_int]. destruct (0 <=? ex); [exact Hx|]. apply normalize_valid.
Qed.

(** ** Correct rounding of + - * / sqrt *)

Lemma f_add_lift : forall x y Hx Hy,
  f_add x y = B2SF (Bplus mode_NE (lift x Hx) (lift y Hy)).
Proof.
  intros x y Hx Hy.
  rewrite (Bplus_equiv 53 1024 prec_gt_0_53 prec_lt_emax_53_1024), !B2SF_lift. reflexivity.
Qed.

Lemma f_sub_lift : forall x y Hx Hy,
  f_sub x y = B2SF (Bminus mode_NE (lift x Hx) (lift y Hy)).
Proof.
  intros x y Hx Hy.
  rewrite (Bminus_equiv 53 1024 prec_gt_0_53 prec_lt_emax_53_1024), !B2SF_lift. reflexivity.
Qed.

Lemma f_mul_lift : forall x y Hx Hy,
  f_mul x y = B2SF (Bmult mode_NE (lift x Hx) (lift y Hy)).
Proof.
  intros x y Hx Hy.
  rewrite (Bmult_equiv 53 1024 prec_gt_0_53 prec_lt_emax_53_1024), !B2SF_lift. reflexivity.
Qed.

Lemma f_div_lift : forall x y Hx Hy,
  f_div x y = B2SF (Bdiv mode_NE (lift x Hx) (lift y Hy)).
Proof.
  intros x y Hx Hy.
  rewrite (Bdiv_equiv 53 1024 prec_gt_0_53 prec_lt_emax_53_1024), !B2SF_lift. reflexivity.
Qed.

Lemma f_sqrt_lift : forall x Hx,
  f_sqrt x = B2SF (Bsqrt mode_NE (lift x Hx)).
Proof.
  intros x Hx.
  rewrite (Bsqrt_equiv 53 1024 prec_gt_0_53 prec_lt_emax_53_1024), !B2SF_lift. reflexivity.
Qed.

Lemma IEEE_add : forall x y : f64,
  valid64 x = true -> valid64 y = true -> is_finite_SF x = true -> is_finite_SF y = true ->
  let z := f_add x y in
  valid64 z = true /\
  if Rlt_bool (Rabs (rnd64 (R64 x + R64 y))) (bpow radix2 1024)
  then R64 z = rnd64 (R64 x + R64 y) /\ is_finite_SF z = true
  else z = S754_infinity (sign_SF x) /\ sign_SF x = sign_SF y.
Proof.
  intros x y Hx Hy Fx Fy z.
  split; [apply f_add_valid; assumption|].
  unfold z. rewrite (f_add_lift x y Hx Hy).
  pose proof (Bplus_correct 53 1024 prec_gt_0_53 prec_lt_emax_53_1024 mode_NE (lift x Hx) (lift y Hy)) as HC.
  rewrite !is_finite_lift, !B2R_lift, !Bsign_lift in HC.
  specialize (HC Fx Fy).
  change (round_mode mode_NE) with ZnearestE in HC.
  rewrite fexp64_eq in HC.
  destruct (Rlt_bool (Rabs (rnd64 (R64 x + R64 y))) (bpow radix2 1024)).
  - destruct HC as [HR [HF _]].
    rewrite R64_B2SF, is_finite_SF_B2SF64. split; assumption.
  - exact HC.
Qed.

Lemma IEEE_sub : forall x y : f64,
  valid64 x = true -> valid64 y = true -> is_finite_SF x = true -> is_finite_SF y = true ->
  let z := f_sub x y in
  valid64 z = true /\
  if Rlt_bool (Rabs (rnd64 (R64 x - R64 y))) (bpow radix2 1024)
  then R64 z = rnd64 (R64 x - R64 y) /\ is_finite_SF z = true
  else z = S754_infinity (sign_SF x) /\ sign_SF x = negb (sign_SF y).
Proof.
  intros x y Hx Hy Fx Fy z.
  split; [apply f_sub_valid; assumption|].
  unfold z. rewrite (f_sub_lift x y Hx Hy).
  pose proof (Bminus_correct 53 1024 prec_gt_0_53 prec_lt_emax_53_1024 mode_NE (lift x Hx) (lift y Hy)) as HC.
  rewrite !is_finite_lift, !B2R_lift, !Bsign_lift in HC.
  specialize (HC Fx Fy).
  change (round_mode mode_NE) with ZnearestE in HC.
  rewrite fexp64_eq in HC.
  destruct (Rlt_bool (Rabs (rnd64 (R64 x - R64 y))) (bpow radix2 1024)).
  - destruct HC as [HR [HF _]].
    rewrite R64_B2SF, is_finite_SF_B2SF64. split; assumption.
  - exact HC.
Qed.

Lemma IEEE_mul : forall x y : f64,
  valid64 x = true -> valid64 y = true -> is_finite_SF x = true -> is_finite_SF y = true ->
  let z := f_mul x y in
  valid64 z = true /\
  if Rlt_bool (Rabs (rnd64 (R64 x * R64 y))) (bpow radix2 1024)
  then R64 z = rnd64 (R64 x * R64 y) /\ is_finite_SF z = true
  else z = S754_infinity (xorb (sign_SF x) (sign_SF y)).
Proof.
  intros x y Hx Hy Fx Fy z.
  split; [apply f_mul_valid; assumption|].
  unfold z. rewrite (f_mul_lift x y Hx Hy).
  pose proof (Bmult_correct 53 1024 prec_gt_0_53 prec_lt_emax_53_1024 mode_NE (lift x Hx) (lift y Hy)) as HC.
  rewrite !is_finite_lift, !B2R_lift, !Bsign_lift in HC.
  change (round_mode mode_NE) with ZnearestE in HC.
  rewrite fexp64_eq in HC.
  destruct (Rlt_bool (Rabs (rnd64 (R64 x * R64 y))) (bpow radix2 1024)).
  - destruct HC as [HR [HF _]].
    rewrite R64_B2SF, is_finite_SF_B2SF64, HF, Fx, Fy. split; [assumption|reflexivity].
  - exact HC.
Qed.

(* the divisor is a non-zero finite number: as a spec_float, an S754_finite *)
Definition is_finite_nonzero_SF (y : f64) : bool :=
  match y with S754_finite _ _ _ => true | _ => false end.

Lemma R64_finite_nonzero : forall y, is_finite_nonzero_SF y = true -> R64 y <> 0%R.
Proof.
  intros [s|s| |s m e] Hy; try discriminate Hy.
  cbn [SF2R]. apply F2R_neq_0. destruct s; discriminate.
Qed.

Lemma IEEE_div : forall x y : f64,
  valid64 x = true -> valid64 y = true -> is_finite_SF x = true -> is_finite_nonzero_SF y = true ->
  let z := f_div x y in
  valid64 z = true /\
  if Rlt_bool (Rabs (rnd64 (R64 x / R64 y))) (bpow radix2 1024)
  then R64 z = rnd64 (R64 x / R64 y) /\ is_finite_SF z = true
  else z = S754_infinity (xorb (sign_SF x) (sign_SF y)).
Proof.
  intros x y Hx Hy Fx Fy z.
  split; [apply f_div_valid; assumption|].
  unfold z. rewrite (f_div_lift x y Hx Hy).
  pose proof (Bdiv_correct 53 1024 prec_gt_0_53 prec_lt_emax_53_1024 mode_NE (lift x Hx) (lift y Hy)) as HC.
  rewrite !is_finite_lift, !B2R_lift, !Bsign_lift in HC.
  specialize (HC (R64_finite_nonzero y Fy)).
  change (round_mode mode_NE) with ZnearestE in HC.
  rewrite fexp64_eq in HC.
  destruct (Rlt_bool (Rabs (rnd64 (R64 x / R64 y))) (bpow radix2 1024)).
  - destruct HC as [HR [HF _]].
    rewrite R64_B2SF, is_finite_SF_B2SF64, HF. split; assumption.
  - exact HC.
Qed.

(* sqrt never overflows; the result is finite exactly for zeros and positive finite arguments
   (sqrt of the reals is 0 on negative arguments, where the model returns NaN, whose real value is 0) *)
Lemma IEEE_sqrt : forall x : f64,
  valid64 x = true ->
  let z := f_sqrt x in
  valid64 z = true /\
  R64 z = rnd64 (sqrt (R64 x)) /\
  is_finite_SF z = match x with S754_zero _ => true | S754_finite false _ _ => true | _ => false end.
Proof.
  intros x Hx z.
  split; [apply f_sqrt_valid; assumption|].
  unfold z. rewrite (f_sqrt_lift x Hx).
  pose proof (Bsqrt_correct 53 1024 prec_gt_0_53 prec_lt_emax_53_1024 mode_NE (lift x Hx)) as HC.
  rewrite !B2R_lift in HC.
  change (round_mode mode_NE) with ZnearestE in HC.
  rewrite fexp64_eq in HC.
  destruct HC as [HR [HF _]].
  rewrite R64_B2SF, is_finite_SF_B2SF64, HF. split; [assumption|].
  destruct x as [s|s| |[|] m e]; reflexivity.
Qed.

(* the special cases, by computation: the IEEE-754 table for NaN, infinities and signed zeros *)
Lemma sqrt_special : forall s m e,
  f_sqrt S754_nan = S754_nan /\ f_sqrt (S754_infinity true) = S754_nan /\
  f_sqrt (S754_infinity false) = S754_infinity false /\ f_sqrt (S754_zero s) = S754_zero s /\
  f_sqrt (S754_finite true m e) = S754_nan.
Proof. intros s m e. repeat split. Qed.

(** ** Comparison *)

Lemma IEEE_compare : forall x y : f64,
  valid64 x = true -> valid64 y = true -> is_finite_SF x = true -> is_finite_SF y = true ->
  f_compare x y = Some (Rcompare (R64 x) (R64 y)).
Proof.
  intros x y Hx Hy Fx Fy.
  pose proof (Bcompare_correct 53 1024 (lift x Hx) (lift y Hy)) as HC.
  rewrite !is_finite_lift, !B2R_lift in HC.
  specialize (HC Fx Fy).
  unfold Bcompare in HC. rewrite !B2SF_lift in HC. exact HC.
Qed.

(* ------------------------------------------------------------------------------------------ *)
(** * 3. Conversions: integer -> double, decimal literal -> double                               *)
(* ------------------------------------------------------------------------------------------ *)

Lemma F2R_exp0 : forall (beta : radix) (m : Z), F2R (Float beta m 0) = IZR m.
Proof. intros beta m. unfold F2R. cbn [Fnum Fexp bpow]. apply Rmult_1_r. Qed.

Lemma Rlt_bool_IZR_0 : forall z : Z, Rlt_bool (IZR z) 0 = (z <? 0).
Proof.
  intros z. destruct (Z.ltb_spec z 0) as [Hz|Hz].
  - apply Rlt_bool_true. apply (IZR_lt z 0). exact Hz.
  - apply Rlt_bool_false. apply (IZR_le 0 z). exact Hz.
Qed.

(* binary_normalize rounds the dyadic number m * 2^e correctly *)
Lemma normalize_correct : forall (m e : Z) (s : bool),
  let x := F2R (Float radix2 m e) in
  let z := SpecFloat.binary_normalize 53 1024 m e s in
  valid64 z = true /\
  if Rlt_bool (Rabs (rnd64 x)) (bpow radix2 1024)
  then R64 z = rnd64 x /\ is_finite_SF z = true
  else z = S754_infinity (Rlt_bool x 0).
Proof.
  intros m e s x z.
  split; [apply normalize_valid|].
  unfold z. rewrite <- (binary_normalize_equiv 53 1024 prec_gt_0_53 prec_lt_emax_53_1024).
  pose proof (binary_normalize_correct 53 1024 prec_gt_0_53 prec_lt_emax_53_1024 mode_NE m e s) as HC.
  cbv zeta in HC.
  change (round_mode mode_NE) with ZnearestE in HC.
  rewrite fexp64_eq in HC. fold x in HC.
  destruct (Rlt_bool (Rabs (rnd64 x)) (bpow radix2 1024)).
  - destruct HC as [HR [HF _]].
    rewrite R64_B2SF, is_finite_SF_B2SF64. split; assumption.
  - exact HC.
Qed.

Lemma IEEE_of_int : forall z : Z,
  let f := f_of_Z z in
  valid64 f = true /\
  if Rlt_bool (Rabs (rnd64 (IZR z))) (bpow radix2 1024)
  then R64 f = rnd64 (IZR z) /\ is_finite_SF f = true
  else f = S754_infinity (z <? 0).
Proof.
  intros z f.
  pose proof (normalize_correct z 0 false) as HC. cbv zeta in HC.
  rewrite F2R_exp0, Rlt_bool_IZR_0 in HC. exact HC.
Qed.

Lemma generic_format_bpow64 : forall e : Z, -1074 <= e -> generic_format radix2 fexp64 (bpow radix2 e).
Proof.
  intros e He. apply generic_format_bpow. unfold FLT_exp. lia.
Qed.

Lemma IEEE_of_int_bounded : forall z : Z, Z.abs z <= 2 ^ 1023 ->
  (Rabs (rnd64 (IZR z)) < bpow radix2 1024)%R.
Proof.
  intros z Hz.
  apply Rle_lt_trans with (bpow radix2 1023); [|apply bpow_lt; lia].
  apply abs_round_le_generic; [typeclasses eauto|typeclasses eauto|apply generic_format_bpow64; lia|].
  rewrite <- abs_IZR, <- (IZR_Zpower radix2) by lia.
  apply IZR_le. exact Hz.
Qed.

Lemma IEEE_of_i64 : forall z : Z, in_i64 z = true ->
  valid64 (f_of_Z z) = true /\ R64 (f_of_Z z) = rnd64 (IZR z) /\ is_finite_SF (f_of_Z z) = true.
Proof.
  intros z Hz.
  pose proof (IEEE_of_int z) as HC. cbv zeta in HC.
  rewrite Rlt_bool_true in HC; [exact HC|].
  apply IEEE_of_int_bounded.
  unfold in_i64, i64_min, i64_max in Hz. apply andb_prop in Hz. destruct Hz as [Hlo Hhi].
  apply Z.leb_le in Hlo. apply Z.leb_le in Hhi.
  assert (Hp : 2 ^ 63 <= 2 ^ 1023) by (apply Z.pow_le_mono_r; lia).
  change (2 ^ 63) with 9223372036854775808 in Hp. lia.
Qed.

(** ** Decimal literals *)

Definition radix10 : radix := Build_radix 10 eq_refl.

Lemma powerRZ_10_bpow : forall e : Z, powerRZ 10 e = bpow radix10 e.
Proof. intros e. symmetry. apply (bpow_powerRZ radix10). Qed.

Lemma dec_value_pos : forall (mp : positive) (e : Z), (0 < IZR (Z.pos mp) * bpow radix10 e)%R.
Proof.
  intros mp e. apply Rmult_lt_0_compat; [apply (IZR_lt 0); lia|apply bpow_gt_0].
Qed.

(* e > 400: the value is at least 10^401 > 2^1024, so it rounds to infinity *)
Lemma dec_huge : forall (mp : positive) (e : Z), 400 < e ->
  (bpow radix2 1024 <= IZR (Z.pos mp) * bpow radix10 e)%R.
Proof.
  intros mp e He.
  apply Rle_trans with (1 * bpow radix10 401)%R.
  - rewrite Rmult_1_l, <- (IZR_Zpower radix2), <- (IZR_Zpower radix10) by lia.
    apply IZR_le. apply Z.leb_le. vm_compute. reflexivity.
  - apply Rmult_le_compat; [lra|apply bpow_ge_0|apply (IZR_le 1); lia|apply bpow_le; lia].
Qed.

Lemma dec_huge_overflow : forall (mp : positive) (e : Z), 400 < e ->
  Rlt_bool (Rabs (rnd64 (IZR (Z.pos mp) * bpow radix10 e))) (bpow radix2 1024) = false.
Proof.
  intros mp e He. apply Rlt_bool_false.
  apply abs_round_ge_generic; [typeclasses eauto|typeclasses eauto|apply generic_format_bpow64; lia|].
  rewrite Rabs_pos_eq by (apply Rlt_le, dec_value_pos).
  apply dec_huge. exact He.
Qed.

(* e < -400 - log2 m: the value is below 2^-1075 (half the smallest subnormal), so it rounds to +0 *)
Lemma dec_tiny_Z : forall (mp : positive) (k : Z), 400 + Z.log2 (Z.pos mp) < k ->
  Z.pos mp * 2 ^ 1075 < 10 ^ k.
Proof.
  intros mp k Hk.
  pose proof (Z.log2_spec (Z.pos mp) eq_refl) as [Hlo Hhi].
  pose proof (Z.log2_nonneg (Z.pos mp)) as HL.
  set (L := Z.log2 (Z.pos mp)) in *.
  apply Z.lt_le_trans with (2 ^ Z.succ L * 2 ^ 1075).
  - apply Z.mul_lt_mono_pos_r; [apply Z.pow_pos_nonneg; lia|exact Hhi].
  - apply Z.le_trans with (10 ^ (L + 401)).
    + rewrite Z.pow_succ_r by exact HL. rewrite Z.pow_add_r by lia.
      replace (2 * 2 ^ L * 2 ^ 1075) with (2 ^ L * 2 ^ 1076)
        by (change (2 ^ 1076) with (2 * 2 ^ 1075); ring).
      apply Z.mul_le_mono_nonneg.
      * apply Z.pow_nonneg; lia.
      * apply Z.pow_le_mono_l; lia.
      * apply Z.pow_nonneg; lia.
      * apply Z.leb_le. vm_compute. reflexivity.
    + apply Z.pow_le_mono_r; lia.
Qed.

Lemma Rlt_inv_cross : forall a P Q : Z, 0 < P -> 0 < Q -> a * Q < P ->
  (IZR a * / IZR P < / IZR Q)%R.
Proof.
  intros a P Q HP HQ Hlt.
  assert (HPr : (0 < IZR P)%R) by (apply (IZR_lt 0); exact HP).
  assert (HQr : (0 < IZR Q)%R) by (apply (IZR_lt 0); exact HQ).
  apply Rmult_lt_reg_r with (IZR P); [exact HPr|].
  rewrite Rmult_assoc, Rinv_l, Rmult_1_r by lra.
  apply Rmult_lt_reg_l with (IZR Q); [exact HQr|].
  rewrite <- Rmult_assoc, Rinv_r, Rmult_1_l by lra.
  rewrite <- mult_IZR. apply IZR_lt. lia.
Qed.

Lemma dec_tiny : forall (mp : positive) (e : Z), e < -400 - Z.log2 (Z.pos mp) ->
  (IZR (Z.pos mp) * bpow radix10 e < bpow radix2 (-1075))%R.
Proof.
  intros mp e He.
  pose proof (Z.log2_nonneg (Z.pos mp)) as HL.
  replace e with (- (- e)) by lia.
  change (bpow radix2 (-1075)) with (bpow radix2 (- (1075))).
  rewrite (bpow_opp radix10 (- e)), (bpow_opp radix2 1075).
  rewrite <- (IZR_Zpower radix10), <- (IZR_Zpower radix2) by lia.
  apply Rlt_inv_cross.
  - apply Z.pow_pos_nonneg; [reflexivity|lia].
  - apply Z.pow_pos_nonneg; [reflexivity|lia].
  - apply dec_tiny_Z. lia.
Qed.

Lemma rnd64_small_zero : forall x : R, (0 < x < bpow radix2 (-1075))%R -> rnd64 x = 0%R.
Proof.
  intros x [Hpos Hlt].
  destruct (mag radix2 x) as [ex Hex].
  assert (Hx0 : x <> 0%R) by lra.
  specialize (Hex Hx0). rewrite Rabs_pos_eq in Hex by lra.
  apply round_N_small_pos with (ex := ex); [exact Hex|].
  assert (Hlt' : (bpow radix2 (ex - 1) < bpow radix2 (-1075))%R) by lra.
  apply lt_bpow in Hlt'. unfold FLT_exp. lia.
Qed.

Lemma dec_tiny_round : forall (mp : positive) (e : Z), e < -400 - Z.log2 (Z.pos mp) ->
  rnd64 (IZR (Z.pos mp) * bpow radix10 e) = 0%R.
Proof.
  intros mp e He. apply rnd64_small_zero. split; [apply dec_value_pos|apply dec_tiny; exact He].
Qed.

(* the division path: Zpos m / Zpos d, both with exponent 0, rounded once *)
Lemma div_path_correct : forall (mp d : positive),
  let x := (IZR (Z.pos mp) / IZR (Z.pos d))%R in
  let z := (let '(q, e', l) := SFdiv_core_binary 53 1024 (Z.pos mp) 0 (Z.pos d) 0 in
            SpecFloat.binary_round_aux 53 1024 false q e' l) in
  valid64 z = true /\
  if Rlt_bool (Rabs (rnd64 x)) (bpow radix2 1024)
  then R64 z = rnd64 x /\ is_finite_SF z = true
  else z = S754_infinity false.
Proof.
  intros mp d x z.
  pose proof (Bdiv_correct_aux 53 1024 prec_gt_0_53 prec_lt_emax_53_1024 mode_NE false mp 0 false d 0) as HC.
  cbv zeta in HC.
  change (xorb false false) with false in HC.
  change (SpecFloat.cond_Zopp false (Z.pos mp)) with (Z.pos mp) in HC.
  change (SpecFloat.cond_Zopp false (Z.pos d)) with (Z.pos d) in HC.
  rewrite !F2R_exp0 in HC.
  change (round_mode mode_NE) with ZnearestE in HC.
  rewrite fexp64_eq in HC. fold x in HC.
  unfold z.
  destruct (SFdiv_core_binary 53 1024 (Z.pos mp) 0 (Z.pos d) 0) as [[q e'] l].
  rewrite (binary_round_aux_equiv 53 1024) in HC.
  destruct HC as [HV HC]. split; [exact HV|].
  destruct (Rlt_bool (Rabs (rnd64 x)) (bpow radix2 1024)).
  - destruct HC as [HR [HF _]]. split; assumption.
  - exact HC.
Qed.

Lemma IEEE_of_decimal_bpow : forall (mp : positive) (e : Z),
  let x := (IZR (Z.pos mp) * bpow radix10 e)%R in
  let z := f_of_decimal (Z.pos mp) e in
  valid64 z = true /\
  if Rlt_bool (Rabs (rnd64 x)) (bpow radix2 1024)
  then R64 z = rnd64 x /\ is_finite_SF z = true
  else z = S754_infinity false.
Proof.
  intros mp e x z. unfold z, f_of_decimal.
  destruct (Z.ltb_spec 400 e) as [Hhuge|Hle400].
  { (* e > 400 : overflow *)
    unfold x. rewrite dec_huge_overflow by exact Hhuge. split; reflexivity. }
  destruct (Z.leb_spec 0 e) as [Hnonneg|Hneg].
  { (* 0 <= e <= 400 : the integer m * 10^e is rounded *)
    pose proof (normalize_correct (Z.pos mp * 10 ^ e) 0 false) as HC. cbv zeta in HC.
    rewrite F2R_exp0, Rlt_bool_IZR_0, mult_IZR, (IZR_Zpower radix10) in HC by exact Hnonneg.
    fold x in HC.
    assert (Hsign : (Z.pos mp * 10 ^ e <? 0) = false).
    { apply Z.ltb_ge. apply Z.mul_nonneg_nonneg; [lia|apply Z.pow_nonneg; lia]. }
    rewrite Hsign in HC. exact HC. }
  destruct (Z.ltb_spec e (-400 - Z.log2 (Z.pos mp))) as [Htiny|Hmid].
  { (* e < -400 - log2 m : rounds to +0 *)
    unfold x. rewrite dec_tiny_round by exact Htiny.
    rewrite Rabs_R0, Rlt_bool_true by apply bpow_gt_0.
    repeat split. }
  (* the middle range: one correctly rounded division m / 10^(-e) *)
  assert (Hd : 0 < 10 ^ (- e)) by (apply Z.pow_pos_nonneg; lia).
  destruct (10 ^ (- e)) as [|d|d] eqn:Ed; try lia.
  pose proof (div_path_correct mp d) as HC. cbv zeta in HC.
  replace (IZR (Z.pos mp) / IZR (Z.pos d))%R with x in HC.
  - exact HC.
  - unfold x, Rdiv. f_equal.
    rewrite <- Ed, (IZR_Zpower radix10) by lia.
    rewrite <- bpow_opp. f_equal. lia.
Qed.

(* The literal theorem, with the decimal value written with the standard library's powerRZ:
   for EVERY m > 0 and EVERY integer e, f_of_decimal m e is the double nearest (ties to even) to the
   exact real number m * 10^e; when that rounding reaches 2^1024 the result is +infinity. *)
Lemma IEEE_of_decimal : forall m e : Z, 0 < m ->
  let x := (IZR m * powerRZ 10 e)%R in
  let z := f_of_decimal m e in
  valid64 z = true /\
  if Rlt_bool (Rabs (rnd64 x)) (bpow radix2 1024)
  then R64 z = rnd64 x /\ is_finite_SF z = true
  else z = S754_infinity false.
Proof.
  intros m e Hm. destruct m as [|mp|mp]; try lia.
  rewrite powerRZ_10_bpow. apply IEEE_of_decimal_bpow.
Qed.

Lemma of_decimal_zero : forall e : Z, f_of_decimal 0 e = S754_zero false.
Proof. reflexivity. Qed.

(* The two clamped ranges, as facts about the real numbers (no reference to the model) *)
Lemma decimal_huge_overflows : forall m e : Z, 0 < m -> 400 < e ->
  (bpow radix2 1024 <= IZR m * powerRZ 10 e)%R /\
  Rlt_bool (Rabs (rnd64 (IZR m * powerRZ 10 e))) (bpow radix2 1024) = false.
Proof.
  intros m e Hm He. destruct m as [|mp|mp]; try lia.
  rewrite powerRZ_10_bpow. split; [apply dec_huge|apply dec_huge_overflow]; exact He.
Qed.

Lemma decimal_tiny_rounds_to_zero : forall m e : Z, 0 < m -> e < -400 - Z.log2 m ->
  (0 < IZR m * powerRZ 10 e < bpow radix2 (-1075))%R /\ rnd64 (IZR m * powerRZ 10 e) = 0%R.
Proof.
  intros m e Hm He. destruct m as [|mp|mp]; try lia.
  rewrite powerRZ_10_bpow.
  split; [split; [apply dec_value_pos|apply dec_tiny; exact He]|apply dec_tiny_round; exact He].
Qed.

(* "nearest double" spelled out: no element of the binary64 format (with unbounded exponent range
   above) is closer to the decimal value than the result *)
Lemma IEEE_of_decimal_nearest : forall m e : Z, 0 < m ->
  let x := (IZR m * powerRZ 10 e)%R in
  let z := f_of_decimal m e in
  (Rabs (rnd64 x) < bpow radix2 1024)%R ->
  generic_format radix2 fexp64 (R64 z) /\
  forall g : R, generic_format radix2 fexp64 g -> (Rabs (R64 z - x) <= Rabs (g - x))%R.
Proof.
  intros m e Hm x z Hlt.
  pose proof (IEEE_of_decimal m e Hm) as HC. cbv zeta in HC. fold x z in HC.
  rewrite (Rlt_bool_true _ _ Hlt) in HC. destruct HC as [_ [HR _]].
  rewrite HR.
  pose proof (round_N_pt radix2 fexp64 (fun t => negb (Z.even t)) x) as [HG HN].
  split; [exact HG|exact HN].
Qed.
