(* C09: function resolution -- call forms, shadowing and the builtin switch. *)
From Coq Require Import Strings.String Floats.SpecFloat.
Require Import Model.Base Model.Syntax Model.F64 Model.Lexer Model.Builder Model.Value Model.Context
               Model.Builtins Model.Eval Model.Interface Model.Script.
Require Import Spec.AbsCtx Proofs.Common Proofs.C04.

(* ------------------------------------------------------------------------------------------ *)
(* resolution order                                                                            *)
(* ------------------------------------------------------------------------------------------ *)

Section WithOracle.
Variable O : std_oracle.

(* the builtin named f applied to a, or "unknown function f" *)
Definition builtin_or_unknown (f : str) (a : value) : outcome value :=
  match builtin_function O f with
  | Some b => b a
  | None => Err (EFunctionIdentifierNotFound f)
  end.

(* complete characterisation, the known class included *)
Lemma resolution c lg f a :
  call_function O c lg f a =
  match lookup_function c f with
  | Some g =>
      (match g a with
       | Err (EFunctionIdentifierNotFound _) =>
           (* known finding: the user function's own "not found" answer triggers the fallback *)
           if are_builtin_functions_disabled c then g a
           else match builtin_function O f with
                | Some b => b a
                | None => Err (EFunctionIdentifierNotFound f)
                end
       | r => r
       end, lg ++ [(f, a)])
  | None =>
      (if are_builtin_functions_disabled c then Err (EFunctionIdentifierNotFound f)
       else match builtin_function O f with
            | Some b => b a
            | None => Err (EFunctionIdentifierNotFound f)
            end, lg)
  end.
Proof.
  unfold call_function. destruct (lookup_function c f) as [g|].
  - destruct (g a) as [r|e|s]; try reflexivity. destruct e; try reflexivity.
    destruct (are_builtin_functions_disabled c); [reflexivity|].
    destruct (builtin_function O f); reflexivity.
  - destruct (are_builtin_functions_disabled c); [reflexivity|].
    destruct (builtin_function O f); reflexivity.
Qed.

Lemma user_first_outside_known c lg f a g :
  lookup_function c f = Some g ->
  (forall s, g a <> Err (EFunctionIdentifierNotFound s)) ->
  call_function O c lg f a = (g a, lg ++ [(f, a)]).
Proof.
  intros L H. rewrite resolution, L.
  destruct (g a) as [r|e|s]; try reflexivity. destruct e; try reflexivity.
  exfalso. apply (H s). reflexivity.
Qed.

Lemma no_user_function c lg f a :
  lookup_function c f = None ->
  call_function O c lg f a =
  (if are_builtin_functions_disabled c then Err (EFunctionIdentifierNotFound f)
   else match builtin_function O f with
        | Some b => b a
        | None => Err (EFunctionIdentifierNotFound f)
        end, lg).
Proof. intros L. rewrite resolution, L. reflexivity. Qed.

Lemma disabled c lg f a :
  are_builtin_functions_disabled c = true -> lookup_function c f = None ->
  fst (call_function O c lg f a) = Err (EFunctionIdentifierNotFound f).
Proof. intros D L. rewrite (no_user_function c lg f a L), D. reflexivity. Qed.

(* the witness of the known class: a user function "max" that answers "not found" *)
Definition ex_max : str := s2l "max"%string.
Definition ex_notfound_fn : ufun := fun _ => Err (EFunctionIdentifierNotFound ex_max).
Definition ex_shadow_ctx : ctx := mkctx KHashMap [] [(ex_max, ex_notfound_fn)] false.

Lemma refuted_known :
  exists (c : ctx) (lg : log) (f : str) (a : value) (g : ufun),
    lookup_function c f = Some g /\ are_builtin_functions_disabled c = false /\
    g a = Err (EFunctionIdentifierNotFound f) /\
    call_function O c lg f a = (Ok (VInt 2), lg ++ [(f, a)]) /\
    fst (call_function O c lg f a) <> g a.
Proof.
  exists ex_shadow_ctx, [], ex_max, (VTuple [VInt 1; VInt 2]), ex_notfound_fn.
  split; [reflexivity|]. split; [reflexivity|]. split; [reflexivity|].
  split; [vm_compute; reflexivity|]. vm_compute. discriminate.
Qed.

(* ------------------------------------------------------------------------------------------ *)
(* the three kinds of context                                                                  *)
(* ------------------------------------------------------------------------------------------ *)

Lemma kind_empty c : c_kind c = KEmpty ->
  are_builtin_functions_disabled c = true /\
  set_builtin_functions_disabled c false = Err EBuiltinFunctionsCannotBeEnabled /\
  set_builtin_functions_disabled c true = Ok c /\
  (forall x, get_value c x = None) /\ (forall f, lookup_function c f = None) /\
  (forall lg f a, call_function O c lg f a = (Err (EFunctionIdentifierNotFound f), lg)).
Proof.
  intros K.
  assert (D: are_builtin_functions_disabled c = true) by (unfold are_builtin_functions_disabled; rewrite K; reflexivity).
  assert (L: forall f, lookup_function c f = None) by (intros f; unfold lookup_function, has_store; rewrite K; reflexivity).
  unfold set_builtin_functions_disabled, get_value, has_store. rewrite K.
  repeat split; auto. intros lg f a. rewrite (no_user_function c lg f a (L f)), D. reflexivity.
Qed.

Lemma kind_empty_builtin c : c_kind c = KEmptyBuiltin ->
  are_builtin_functions_disabled c = false /\
  set_builtin_functions_disabled c true = Err EBuiltinFunctionsCannotBeDisabled /\
  set_builtin_functions_disabled c false = Ok c /\
  (forall x, get_value c x = None) /\ (forall f, lookup_function c f = None) /\
  (forall lg f a, call_function O c lg f a =
                  (match builtin_function O f with
                   | Some b => b a
                   | None => Err (EFunctionIdentifierNotFound f)
                   end, lg)).
Proof.
  intros K.
  assert (D: are_builtin_functions_disabled c = false) by (unfold are_builtin_functions_disabled; rewrite K; reflexivity).
  assert (L: forall f, lookup_function c f = None) by (intros f; unfold lookup_function, has_store; rewrite K; reflexivity).
  unfold set_builtin_functions_disabled, get_value, has_store. rewrite K.
  repeat split; auto. intros lg f a. rewrite (no_user_function c lg f a (L f)), D. reflexivity.
Qed.

Lemma kind_hashmap c b : c_kind c = KHashMap ->
  exists c', set_builtin_functions_disabled c b = Ok c' /\
             are_builtin_functions_disabled c' = b /\ c_kind c' = KHashMap /\
             (forall x, get_value c' x = get_value c x) /\
             (forall f, lookup_function c' f = lookup_function c f).
Proof.
  intros K. unfold set_builtin_functions_disabled. rewrite K. eexists. split; [reflexivity|].
  unfold are_builtin_functions_disabled, get_value, lookup_function, has_store. cbn. rewrite K. repeat split.
Qed.

Lemma kinds_of_constructors :
  c_kind empty_context = KEmpty /\ c_kind empty_context_builtin = KEmptyBuiltin /\ c_kind empty_hashmap = KHashMap /\
  are_builtin_functions_disabled empty_hashmap = false.
Proof. repeat split. Qed.

(* clear_functions removes the user functions only: afterwards resolution goes straight to the switch *)
Lemma clear_functions_calls c lg f a :
  call_function O (clear_functions c) lg f a =
  (if are_builtin_functions_disabled c then Err (EFunctionIdentifierNotFound f)
   else match builtin_function O f with
        | Some b => b a
        | None => Err (EFunctionIdentifierNotFound f)
        end, lg).
Proof.
  destruct (clear_spec c) as [_ [[L [_ [_ D]]] _]].
  rewrite (no_user_function (clear_functions c) lg f a (L f)), D. reflexivity.
Qed.

Lemma clear_functions_full c lg f a :
  call_function O (clear_functions c) lg f a =
  (if are_builtin_functions_disabled c then Err (EFunctionIdentifierNotFound f)
   else match builtin_function O f with
        | Some b => b a
        | None => Err (EFunctionIdentifierNotFound f)
        end, lg) /\
  (forall x, get_value (clear_functions c) x = get_value c x) /\
  are_builtin_functions_disabled (clear_functions c) = are_builtin_functions_disabled c.
Proof.
  split; [apply clear_functions_calls|].
  destruct (clear_spec c) as [_ [[_ [G [_ D]]] _]]. split; [exact G|exact D].
Qed.

(* ------------------------------------------------------------------------------------------ *)
(* two namespaces                                                                              *)
(* ------------------------------------------------------------------------------------------ *)

Lemma set_value_keeps_functions c x v c' : set_value c x v = Ok c' ->
  (forall f, lookup_function c' f = lookup_function c f) /\
  (forall lg f a, call_function O c' lg f a = call_function O c lg f a).
Proof.
  intros H. destruct (last_write c x v c' H) as [_ [_ [L [D _]]]]. split; [exact L|].
  intros lg f a. rewrite !resolution, L, D. reflexivity.
Qed.

Lemma set_function_spec c f g c' : set_function c f g = Ok c' ->
  lookup_function c' f = Some g /\
  (forall f', f' <> f -> lookup_function c' f' = lookup_function c f') /\
  (forall x, get_value c' x = get_value c x) /\
  iter_variables c' = iter_variables c /\
  are_builtin_functions_disabled c' = are_builtin_functions_disabled c.
Proof.
  unfold set_function. destruct (c_kind c) eqn:K; try discriminate. intros H. inversion H; subst c'.
  unfold lookup_function, get_value, iter_variables, are_builtin_functions_disabled, has_store. cbn. rewrite K.
  repeat split.
  - apply assoc_set_same.
  - intros f' Hf. apply assoc_set_other. exact Hf.
Qed.

(* ------------------------------------------------------------------------------------------ *)
(* evaluation of the call forms                                                                *)
(* ------------------------------------------------------------------------------------------ *)

Lemma eval_root0 c lg : eval_mut O (Node ORootNode []) c lg = (Ok VEmpty, c, lg).
Proof. reflexivity. Qed.

(* a root node with one child is transparent *)
Lemma eval_root1 e c lg : eval_mut O (Node ORootNode [e]) c lg = eval_mut O e c lg.
Proof.
  rewrite eval_mut_unfold. cbn [eval_args_mut].
  destruct (eval_mut O e c lg) as [[r c1] lg1]. destruct r; reflexivity.
Qed.

Lemma eval_fn f e c lg v c1 lg1 : eval_mut O e c lg = (Ok v, c1, lg1) ->
  eval_mut O (Node (OFunctionIdentifier f) [e]) c lg =
  (fst (call_function O c1 lg1 f v), c1, snd (call_function O c1 lg1 f v)).
Proof.
  intros He. rewrite eval_mut_unfold. cbn [eval_args_mut]. rewrite He.
  cbn. destruct (call_function O c1 lg1 f v). reflexivity.
Qed.

Lemma eval_tuple2 ea eb c lg va c1 lg1 vb c2 lg2 :
  eval_mut O ea c lg = (Ok va, c1, lg1) -> eval_mut O eb c1 lg1 = (Ok vb, c2, lg2) ->
  eval_mut O (Node OTuple [ea; eb]) c lg = (Ok (VTuple [va; vb]), c2, lg2).
Proof.
  intros Ha Hb. rewrite eval_mut_unfold. cbn [eval_args_mut]. rewrite Ha, Hb. reflexivity.
Qed.

(* f() passes Empty *)
Lemma call_empty_eval f c lg :
  eval_mut O (Node ORootNode [Node (OFunctionIdentifier f) [Node ORootNode []]]) c lg =
  (fst (call_function O c lg f VEmpty), c, snd (call_function O c lg f VEmpty)).
Proof. rewrite eval_root1. apply eval_fn. apply eval_root0. Qed.

(* f(e) and f e pass the value of e *)
Lemma call_paren_eval f e c lg v c1 lg1 : eval_mut O e c lg = (Ok v, c1, lg1) ->
  eval_mut O (Node ORootNode [Node (OFunctionIdentifier f) [Node ORootNode [e]]]) c lg =
  (fst (call_function O c1 lg1 f v), c1, snd (call_function O c1 lg1 f v)).
Proof. intros He. rewrite eval_root1. apply eval_fn. rewrite eval_root1. exact He. Qed.

Lemma call_juxta_eval f e c lg v c1 lg1 : eval_mut O e c lg = (Ok v, c1, lg1) ->
  eval_mut O (Node ORootNode [Node (OFunctionIdentifier f) [e]]) c lg =
  (fst (call_function O c1 lg1 f v), c1, snd (call_function O c1 lg1 f v)).
Proof. intros He. rewrite eval_root1. apply eval_fn. exact He. Qed.

(* f(a, b) passes the 2-tuple *)
Lemma call_tuple_eval f ea eb c lg va c1 lg1 vb c2 lg2 :
  eval_mut O ea c lg = (Ok va, c1, lg1) -> eval_mut O eb c1 lg1 = (Ok vb, c2, lg2) ->
  eval_mut O (Node ORootNode [Node (OFunctionIdentifier f)
                [Node ORootNode [Node OTuple [Node ORootNode [ea]; Node ORootNode [eb]]]]]) c lg =
  (fst (call_function O c2 lg2 f (VTuple [va; vb])), c2, snd (call_function O c2 lg2 f (VTuple [va; vb]))).
Proof.
  intros Ha Hb. rewrite eval_root1. apply eval_fn. rewrite eval_root1.
  apply (eval_tuple2 _ _ c lg va c1 lg1 vb c2 lg2); rewrite eval_root1; assumption.
Qed.

(* the same through the immutable evaluator, for literal arguments *)
Lemma call_forms_eval_ro f va vb c lg :
  eval_ro O (Node ORootNode [Node (OFunctionIdentifier f) [Node ORootNode []]]) c lg
    = call_function O c lg f VEmpty /\
  eval_ro O (Node ORootNode [Node (OFunctionIdentifier f) [Node ORootNode [Node (OConst va) []]]]) c lg
    = call_function O c lg f va /\
  eval_ro O (Node ORootNode [Node (OFunctionIdentifier f) [Node (OConst va) []]]) c lg
    = call_function O c lg f va /\
  eval_ro O (Node ORootNode [Node (OFunctionIdentifier f)
               [Node ORootNode [Node OTuple [Node ORootNode [Node (OConst va) []];
                                             Node ORootNode [Node (OConst vb) []]]]]]) c lg
    = call_function O c lg f (VTuple [va; vb]).
Proof.
  repeat split; cbn; destruct (call_function O c lg f _) as [r lg1]; destruct r; reflexivity.
Qed.

End WithOracle.

(* ------------------------------------------------------------------------------------------ *)
(* the builder: classification of an identifier and the call forms                             *)
(* ------------------------------------------------------------------------------------------ *)

Lemma identifier_classification id next lr :
  token_to_operator (TIdentifier id) next lr =
  Some match next with
       | Some (TAssign | TPlusAssign | TMinusAssign | TStarAssign | TSlashAssign | TPercentAssign
              | THatAssign | TAndAssign | TOrAssign) => OVariableIdentifierWrite id
       | Some (TLBrace | TIdentifier _ | TFloat _ | TInt _ | TBoolean _ | TString _) => OFunctionIdentifier id
       | _ => OVariableIdentifierRead id
       end.
Proof. destruct next as [[]|]; reflexivity. Qed.

Lemma assignment_tokens t :
  is_assignment t = true <->
  In t [TAssign; TPlusAssign; TMinusAssign; TStarAssign; TSlashAssign; TPercentAssign; THatAssign; TAndAssign; TOrAssign].
Proof.
  split.
  - destruct t; cbn; intros H; try discriminate H; tauto.
  - cbn. intros H. repeat (destruct H as [<-|H]; [reflexivity|]). destruct H.
Qed.

Lemma leftsided_tokens t :
  is_leftsided_value t = true <->
  t = TLBrace \/ (exists s, t = TIdentifier s) \/ (exists f, t = TFloat f) \/ (exists i, t = TInt i) \/
  (exists b, t = TBoolean b) \/ (exists s, t = TString s).
Proof.
  split.
  - destruct t; cbn; intros H; try discriminate H; eauto 10.
  - intros [->|[[s ->]|[[f ->]|[[i ->]|[[b ->]|[s ->]]]]]]; reflexivity.
Qed.

(* an argument that is a single token: a literal, or an identifier that is read as a variable
   (it is followed by `)`, `,` or the end of the input in every form below) *)
Inductive atom : token -> node -> Prop :=
| atom_int i : atom (TInt i) (Node (OConst (VInt i)) [])
| atom_float x : atom (TFloat x) (Node (OConst (VFloat x)) [])
| atom_bool b : atom (TBoolean b) (Node (OConst (VBool b)) [])
| atom_string s : atom (TString s) (Node (OConst (VString s)) [])
| atom_var x : atom (TIdentifier x) (Node (OVariableIdentifierRead x) []).

Lemma call_paren f t n : atom t n ->
  tokens_to_operator_tree [TIdentifier f; TLBrace; t; TRBrace] =
  Ok (Node ORootNode [Node (OFunctionIdentifier f) [Node ORootNode [n]]]).
Proof. destruct 1; vm_compute; reflexivity. Qed.

Lemma call_juxta f t n : atom t n ->
  tokens_to_operator_tree [TIdentifier f; t] = Ok (Node ORootNode [Node (OFunctionIdentifier f) [n]]).
Proof. destruct 1; vm_compute; reflexivity. Qed.

Lemma call_nested f g t n : atom t n ->
  tokens_to_operator_tree [TIdentifier f; TIdentifier g; t] =
  Ok (Node ORootNode [Node (OFunctionIdentifier f) [Node (OFunctionIdentifier g) [n]]]).
Proof. destruct 1; vm_compute; reflexivity. Qed.

Lemma call_nested_paren f g t n : atom t n ->
  tokens_to_operator_tree [TIdentifier f; TIdentifier g; TLBrace; t; TRBrace] =
  Ok (Node ORootNode [Node (OFunctionIdentifier f) [Node (OFunctionIdentifier g) [Node ORootNode [n]]]]).
Proof. destruct 1; vm_compute; reflexivity. Qed.

Lemma call_empty f :
  tokens_to_operator_tree [TIdentifier f; TLBrace; TRBrace] =
  Ok (Node ORootNode [Node (OFunctionIdentifier f) [Node ORootNode []]]).
Proof. vm_compute. reflexivity. Qed.

Lemma call_tuple f ta na tb nb : atom ta na -> atom tb nb ->
  tokens_to_operator_tree [TIdentifier f; TLBrace; ta; TComma; tb; TRBrace] =
  Ok (Node ORootNode [Node (OFunctionIdentifier f)
        [Node ORootNode [Node OTuple [Node ORootNode [na]; Node ORootNode [nb]]]]]).
Proof. destruct 1; destruct 1; vm_compute; reflexivity. Qed.

(* otherwise the identifier is a variable: at the end, before `)`, before an operator, `,` or `;` *)
Lemma variable_forms x t n : atom t n ->
  tokens_to_operator_tree [TIdentifier x] = Ok (Node ORootNode [Node (OVariableIdentifierRead x) []]) /\
  tokens_to_operator_tree [TLBrace; TIdentifier x; TRBrace] =
    Ok (Node ORootNode [Node ORootNode [Node (OVariableIdentifierRead x) []]]) /\
  tokens_to_operator_tree [TIdentifier x; TPlus; t] =
    Ok (Node ORootNode [Node OAdd [Node (OVariableIdentifierRead x) []; n]]) /\
  tokens_to_operator_tree [TIdentifier x; TEq; t] =
    Ok (Node ORootNode [Node OEq [Node (OVariableIdentifierRead x) []; n]]) /\
  tokens_to_operator_tree [TIdentifier x; TComma; t] =
    Ok (Node ORootNode [Node OTuple [Node ORootNode [Node (OVariableIdentifierRead x) []]; Node ORootNode [n]]]) /\
  tokens_to_operator_tree [TIdentifier x; TSemicolon; t] =
    Ok (Node ORootNode [Node OChain [Node ORootNode [Node (OVariableIdentifierRead x) []]; Node ORootNode [n]]]).
Proof. destruct 1; repeat split; vm_compute; reflexivity. Qed.

(* before an assignment token it is a write target *)
Lemma write_forms x t n : atom t n ->
  tokens_to_operator_tree [TIdentifier x; TAssign; t] =
    Ok (Node ORootNode [Node OAssign [Node (OVariableIdentifierWrite x) []; n]]) /\
  tokens_to_operator_tree [TIdentifier x; TPlusAssign; t] =
    Ok (Node ORootNode [Node OAddAssign [Node (OVariableIdentifierWrite x) []; n]]) /\
  tokens_to_operator_tree [TIdentifier x; TOrAssign; t] =
    Ok (Node ORootNode [Node OOrAssign [Node (OVariableIdentifierWrite x) []; n]]).
Proof. destruct 1; repeat split; vm_compute; reflexivity. Qed.

(* ------------------------------------------------------------------------------------------ *)
(* examples                                                                                    *)
(* ------------------------------------------------------------------------------------------ *)

(* the name n is a variable and a function at once: n(n) applies the function to the variable *)
Definition ex_n : str := s2l "n"%string.
Definition ex_both_ctx : ctx := mkctx KHashMap [(ex_n, VInt 1)] [(ex_n, apply_libfn ex_n LInc)] false.

Lemma ex_namespaces O :
  get_value ex_both_ctx ex_n = Some (VInt 1) /\
  (exists g, lookup_function ex_both_ctx ex_n = Some g) /\
  (do n <- tokens_to_operator_tree [TIdentifier ex_n; TLBrace; TIdentifier ex_n; TRBrace];
   fst (eval_ro O n ex_both_ctx [])) = Ok (VInt 2).
Proof. split; [reflexivity|]. split; [eexists; reflexivity|]. vm_compute. reflexivity. Qed.

Lemma ex_set_function :
  exists c', set_function empty_hashmap ex_n (apply_libfn ex_n LId) = Ok c' /\
             set_value c' ex_n (VInt 1) = Ok (mkctx KHashMap [(ex_n, VInt 1)] [(ex_n, apply_libfn ex_n LId)] false).
Proof. eexists. split; reflexivity. Qed.

(* with the switch on, `max` is an unknown function; with it off, the builtin answers *)
Lemma ex_disabled O :
  builtin_function O ex_max <> None /\
  fst (call_function O (mkctx KHashMap [] [] true) [] ex_max (VTuple [VInt 1; VInt 2])) = Err (EFunctionIdentifierNotFound ex_max) /\
  fst (call_function O (mkctx KHashMap [] [] false) [] ex_max (VTuple [VInt 1; VInt 2])) = Ok (VInt 2) /\
  fst (call_function O empty_context [] ex_max (VTuple [VInt 1; VInt 2])) = Err (EFunctionIdentifierNotFound ex_max) /\
  fst (call_function O empty_context_builtin [] ex_max (VTuple [VInt 1; VInt 2])) = Ok (VInt 2).
Proof.
  split.
  - intros H.
    assert (T: match builtin_function O ex_max with Some _ => True | None => False end) by (vm_compute; exact I).
    rewrite H in T. exact T.
  - repeat split; vm_compute; reflexivity.
Qed.

(* a user function shadows the builtin of the same name (outside the known class) *)
Lemma ex_shadowing O :
  let c := mkctx KHashMap [] [(ex_max, apply_libfn ex_max (LKonst (VInt 0)))] false in
  call_function O c [] ex_max (VTuple [VInt 1; VInt 2]) = (Ok (VInt 0), [(ex_max, VTuple [VInt 1; VInt 2])]).
Proof. vm_compute. reflexivity. Qed.
